#!/usr/bin/env python3
"""Fail-closed translator (route T) for C11: the prediction framework and the places where the
Linker consumes a predictor.

Reads, with the Python `ast` module, the CURRENT source text (default repo /repo) of

    trackpy/predict.py          predictor, null_predict, NullPredict.{wrap, wrap_single, link_df_iter,
                                link_df, observe, state, predict}, _RecentVelocityPredict.{__init__,
                                state}, DriftPredict.predict
    trackpy/linking/utils.py    points_to_arr, points_from_arr
    trackpy/linking/subnet.py   HashBase.{__init__, add_point, set_predictor, predict, coords,
                                coords_predict}, HashKDTree.{__init__, tree, coords_mapped, rebuild}
    trackpy/linking/linking.py  Linker.update_hash

and regenerates /verif/coq/Gen/predict.v: one Gallina definition py_<Class>_<name> per def, statement
by statement (the numbered comments are the Python statements), over the vocabulary of
coq/Model/PyPredict.v (read its header: meaning of every primitive, of the heap of points, of
generators, *args / **kw and bound methods).  Proofs/PredictGen.v proves the generated functions
equal to the hand-written model the C11 theorems are about.

Embedding
  * a def returns `pres R`; R is the returned value, `self` for a method that mutates its object and
    returns nothing, (self, value) when it does both, (self, yielded values) for a generator;
    a def listed as total (predictor, a def under @predictor) is a plain function and may contain
    only local bindings and a return;
  * a Python variable is a let-bound Coq variable of the same name; an assignment rebinds it (one
    type for its whole life); self.f = e rebinds self; a call of a translated method that mutates
    its receiver rebinds the receiver;
  * partial operations of a statement are bound / guarded in evaluation order before the statement
    takes effect (`bind (..) (fun tmp => ..)`, `match .. with None => PRaises E | Some v => ..`);
  * `if` whose branches all end in return / raise nests the rest into the other branch; otherwise
    it yields the tuple of the variables it assigns that exist before it (a variable first
    assigned in a branch is not visible afterwards); a return inside such an `if` is refused;
  * `X is None` / `X is not None` (X any expression of optional type, also as a conjunct of `and`)
    is a match binding the non-None value where it is known; the knowledge is dropped when the
    variable / object it is about is rebound; `'k' in kw` likewise makes kw['k'] known;
  * `for` is foldM over a lambda-lifted body; iterating self.mem_set goes through `set_iter ord`
    (ord: parameter); `for frame in linking_fcn(*args, **kw)` is the primitive for_linked;
  * a local alias of self.<field> (prev_hash = self.hash) is accepted only if self.<field> is not
    read afterwards and is re-assigned at top level before the def ends;
  * self.pos_columns / self.t_column may be read directly only where an assignment or a
    getattr(..., None) is not None test on every path shows the attribute is set;
  * self.hash_cls(...) is HashKDTree(...) (neighbor_strategy 'KDTree', the default; 'BTree' needs
    scikit-learn); statements in SKIP are dropped, each with its reason, and must match verbatim.

Primitives (exact syntactic patterns; anything else is an error): see PAT below and Model/PyPredict.v.

Anything outside this subset: exit status 2, nothing written (the check treats that like a broken proof).

Usage:  py2coq_predict.py [--repo /repo] [--out /verif/coq/Gen/predict.v] [--stdout]
"""
import ast, sys, os, argparse, copy


class TranslationError(Exception):
    pass


def fail(node, msg):
    raise TranslationError('line %s: %s' % (getattr(node, 'lineno', '?'), msg))


# ---------------------------------------------------------------------------------------------
# types (strings = Coq types, except the abbreviations in COQTY)
# ---------------------------------------------------------------------------------------------
COQTY = {'set pid': 'list pid', 'eucl': '(list pt -> list pt)', 'ufunc': '(tval -> point -> pt)', 'pfunc': '(point -> pt)',
         'bmeth': '(predobj -> vpred)', 'iter frame': 'list frame'}


def coqty(t):
    if t.startswith('option '):
        inner = coqty(t[7:])
        return 'option %s' % (inner if ' ' not in inner or inner.startswith('(') else '(%s)' % inner)
    return COQTY.get(t, t)


def paren(t):
    t = coqty(t)
    return t if ' ' not in t or t.startswith('(') else '(%s)' % t


def opt(t):
    return 'option ' + (t if ' ' not in t or (t.startswith('(') and t.endswith(')')) else '(%s)' % t)


def unopt(t):
    return t[7:] if t.startswith('option ') else None


# object fields: python attribute -> (accessor, type, flag); flag 'unset' = stored as option, read guarded with
# AttributeError; flag 'known' = may be read directly only where known to be set; 'getattr' = read only via getattr
FIELDS = {
    'hash': {'ndim': ('h_ndim', 'option nat', ''), 'points': ('h_points', 'list pid', ''), 't': ('h_t', 'tval', ''),
             'predictor': ('h_predictor', 'option vpred', ''), '_clean': ('h_clean', 'bool', ''),
             '_kdtree': ('h_kdtree', 'option kdtree', 'unset'), 'to_eucl': ('h_to_eucl', 'eucl', '')},
    'linker': {'ndim': ('l_ndim', 'option nat', ''), 'hash': ('l_hash', 'option hash', ''), 'mem_set': ('l_mem_set', 'set pid', ''),
               'predictor': ('l_predictor', 'option vpred', ''), 'to_eucl': ('l_to_eucl', 'option eucl', ''),
               'dist_func': ('l_dist_func', 'option dfunc', '')},
    'predobj': {'_already_linked': ('o_already_linked', 'bool', 'getattr'), 'pos_columns': ('o_pos_columns', 'option (list string)', 'known'),
                't_column': ('o_t_column', 'option string', 'known'), 'recent_frames': ('o_recent_frames', 'deque frame', ''),
                'vel': ('o_vel', 'pt', 'unset')},
}
KWKEYS = {'predictor': ('kw_predictor', 'bmeth'), 'pos_columns': ('kw_pos_columns', 'option (list string)'),
          't_column': ('kw_t_column', 'option string')}
POINT_ATTR = {'pos': ('p_pos', 'pt'), 't': ('p_t', 'Z')}
EXNS = ['RuntimeError', 'ValueError', 'TypeError', 'AttributeError', 'IndexError', 'KeyError']

# the translated defs.  params: (python name, type, default or None); default 'None' only.
#   kind: pres | total ; self: type of self ; mut: returns the new self ; heap: extra first parameter hp ;
#   prop: @property ; init: constructor (self starts blank) ; gen: generator ; cls: extra parameter cls : predclass ;
#   ord: extra parameter ord ; link: extra parameter linking_link_df_iter : linkfn
F = {}


def deff(key, file, cls, name, params, ret, **kw):
    d = dict(key=key, file=file, cls=cls, name=name, params=params, ret=ret, kind='pres', self=None, mut=False, heap=False,
             prop=False, init=False, gen=False, clsp=False, ord=False, link=False, varargs=False, deco=None)
    d.update(kw)
    d['coq'] = 'py_%s' % key
    F[key] = d


PRED, UTIL, SUBN, LINK = 'trackpy/predict.py', 'trackpy/linking/utils.py', 'trackpy/linking/subnet.py', 'trackpy/linking/linking.py'
deff('predictor', PRED, None, 'predictor', [('predict_func', 'ufunc', None)], 'vpred', kind='total')
deff('null_predict', PRED, None, 'null_predict', [('t1', 'tval', None), ('particle', 'point', None)], 'pt', kind='total', deco='predictor')
deff('NullPredict_predict', PRED, 'NullPredict', 'predict', [('t1', 'tval', None), ('particles', 'list point', None)], 'list pt', self='predobj')
deff('NullPredict_observe', PRED, 'NullPredict', 'observe', [('frame', 'frame', None)], None, self='predobj', mut=True)
deff('NullPredict_state', PRED, 'NullPredict', 'state', [], 'unit', self='predobj')
deff('NullPredict_wrap', PRED, 'NullPredict', 'wrap', [('linking_fcn', 'linkfn', None)], 'list frame', self='predobj', mut=True, gen=True,
     clsp=True, varargs=True)
deff('NullPredict_wrap_single', PRED, 'NullPredict', 'wrap_single', [('linking_fcn', 'linkfn', None)], 'frame', self='predobj', mut=True,
     clsp=True, varargs=True)
deff('NullPredict_link_df_iter', PRED, 'NullPredict', 'link_df_iter', [], 'list frame', self='predobj', mut=True, clsp=True, varargs=True, link=True)
deff('NullPredict_link_df', PRED, 'NullPredict', 'link_df', [], 'frame', self='predobj', mut=True, clsp=True, varargs=True, link=True)
deff('RecentVelocityPredict_init', PRED, '_RecentVelocityPredict', '__init__', [('span', 'Z', '1'), ('pos_columns', 'option (list string)', 'None')],
     None, self='predobj', mut=True, init=True)
deff('RecentVelocityPredict_state', PRED, '_RecentVelocityPredict', 'state', [], 'list frame', self='predobj')
deff('DriftPredict_predict', PRED, 'DriftPredict', 'predict', [('t1', 'tval', None), ('particles', 'list point', None)], 'list pt', self='predobj')
deff('points_to_arr', UTIL, None, 'points_to_arr', [('level', 'list pid', None)], 'list pt', heap=True)
deff('points_from_arr', UTIL, None, 'points_from_arr', [('coords', 'list pt', None), ('frame_no', 'Z', None), ('extra_data', 'option extra', 'None')],
     'heap * list pid', heap=True)
deff('HashBase_init', SUBN, 'HashBase', '__init__', [('points', 'list pid', None), ('ndim', 'option nat', None)], None, self='hash', mut=True, init=True)
deff('HashBase_add_point', SUBN, 'HashBase', 'add_point', [('pt', 'pid', None)], None, self='hash', mut=True)
deff('HashBase_set_predictor', SUBN, 'HashBase', 'set_predictor', [('predictor', 'option vpred', None), ('t', 'tval', 'None')], None, self='hash', mut=True)
deff('HashBase_predict', SUBN, 'HashBase', 'predict', [('points', 'list pid', None)], 'list pt', self='hash', heap=True)
deff('HashBase_coords', SUBN, 'HashBase', 'coords', [], 'list pt', self='hash', heap=True, prop=True)
deff('HashBase_coords_predict', SUBN, 'HashBase', 'coords_predict', [], 'list pt', self='hash', heap=True, prop=True)
deff('HashKDTree_init', SUBN, 'HashKDTree', '__init__', [('points', 'list pid', None), ('ndim', 'option nat', None), ('to_eucl', 'option eucl', 'None'),
                                                       ('dist_func', 'option dfunc', 'None')], None, self='hash', mut=True, init=True)
deff('HashKDTree_rebuild', SUBN, 'HashKDTree', 'rebuild', [], None, self='hash', mut=True, heap=True)
deff('HashKDTree_tree', SUBN, 'HashKDTree', 'tree', [], 'option kdtree', self='hash', mut=True, heap=True, prop=True)
deff('HashKDTree_coords_mapped', SUBN, 'HashKDTree', 'coords_mapped', [], 'list pt', self='hash', mut=True, heap=True, prop=True)
deff('Linker_update_hash', LINK, 'Linker', 'update_hash', [('coords', 'list pt', None), ('t', 'Z', None), ('extra_data', 'option extra', 'None')],
     'option hash', self='linker', mut=True, ord=True)
ORDER = ['predictor', 'null_predict', 'NullPredict_predict', 'NullPredict_observe', 'NullPredict_state', 'NullPredict_wrap',
         'NullPredict_wrap_single', 'NullPredict_link_df_iter', 'NullPredict_link_df', 'RecentVelocityPredict_init',
         'RecentVelocityPredict_state', 'DriftPredict_predict', 'points_to_arr', 'points_from_arr', 'HashBase_set_predictor',
         'HashBase_init', 'HashBase_add_point', 'HashBase_predict', 'HashBase_coords', 'HashBase_coords_predict', 'HashKDTree_init',
         'HashKDTree_rebuild', 'HashKDTree_tree', 'HashKDTree_coords_mapped', 'Linker_update_hash']

# which def a method / property name resolves to, by the static type of the receiver.  HashBase methods are
# inherited by HashKDTree; the hash objects of the translated region are HashKDTree instances.
METHODS = {('hash', 'set_predictor'): 'HashBase_set_predictor', ('hash', 'add_point'): 'HashBase_add_point',
           ('hash', 'predict'): 'HashBase_predict', ('hash', 'coords'): 'HashBase_coords',
           ('hash', 'coords_predict'): 'HashBase_coords_predict', ('hash', 'rebuild'): 'HashKDTree_rebuild',
           ('hash', 'tree'): 'HashKDTree_tree', ('hash', 'coords_mapped'): 'HashKDTree_coords_mapped',
           ('predobj', 'wrap'): 'NullPredict_wrap', ('predobj', 'wrap_single'): 'NullPredict_wrap_single'}
# classes whose other members must not shadow what METHODS assumes: a subclass that overrides a translated
# method used through `self.` would change the meaning of the call
OVERRIDE_CHECK = {'HashKDTree': ['set_predictor', 'add_point', 'predict', 'coords', 'coords_predict', '__len__']}

SKIP = {
    "if not isinstance(points, list):\n    points = list(points)":
        'points is a list in the model; list() of an iterable has the same elements in the same order',
    "warn('Perform tracking with a fresh predictor instance to avoid surprises.')": 'a warning has no effect on the result',
}

RESERVED = set('''self hp ord cls st it tmp bind foldM POk PRaises Some None true false if then else match with end let in fun fix
 forall exists nat Z list option length map fst snd seq negb andb orb string pt point heap hash linker predobj frame kwargs argv
 deref derefs pid vpred tval yielded__'''.split())


CLASH = set('frame pt point hash heap linker predobj kwargs argv pid vpred tval string list option nat Z map length seq fst snd'.split())


def cn(name):
    """Coq name of a Python variable (a name that is also a Coq type / function of the vocabulary gets a trailing _)"""
    return name + '_' if name in CLASH else name


def P(src):
    return ast.parse(src, mode='eval').body


def match(p, n, b):
    """structural match; E_x binds an expression, F_x a Name"""
    if isinstance(p, ast.Name):
        if p.id.startswith('E_'):
            if p.id in b:
                return ast.dump(b[p.id]) == ast.dump(n)
            b[p.id] = n
            return True
        if p.id.startswith('F_'):
            if not isinstance(n, ast.Name):
                return False
            if p.id in b:
                return b[p.id] == n.id
            b[p.id] = n.id
            return True
        return isinstance(n, ast.Name) and n.id == p.id
    if type(p) is not type(n):
        return False
    for fld in p._fields:
        if fld in ('ctx', 'type_comment', 'kind'):
            continue
        pv, nv = getattr(p, fld, None), getattr(n, fld, None)
        if isinstance(pv, list):
            if not isinstance(nv, list) or len(pv) != len(nv):
                return False
            for x, y in zip(pv, nv):
                if isinstance(x, ast.AST):
                    if not match(x, y, b):
                        return False
                elif x != y:
                    return False
        elif isinstance(pv, ast.AST):
            if not isinstance(nv, ast.AST) or not match(pv, nv, b):
                return False
        elif pv != nv:
            return False
    return True


PAT = {k: P(v) for k, v in {
    'partial': "functools.partial(E_f, E_a)",
    'map': "map(E_f, E_l)",
    'zip_star': "zip(*[(F_p.pos, F_p.t) for F_p in E_l])",
    'np_array': "np.array(E_x)",
    'list': "list(E_x)",
    'tile_T': "np.tile(E_v, (E_d, 1)).T",
    'shape1': "E_a.shape[1]",
    'empty0': "np.empty((0, self.ndim))",
    'pos_comp': "[F_p.pos for F_p in E_l]",
    'points_new': "[Point(F_t, F_x) for F_x in F_c]",
    'points_new_extra': "[Point(F_t, F_x, extra_data={F_k: F_e[F_k][F_i] for F_k in F_e}) for F_i, F_x in enumerate(F_c)]",
    'cKDTree': "cKDTree(E_x, 15)",
    'deque': "deque([], E_n)",
    'getattr_none': "getattr(self, E_k, None)",
    'getattr_false': "getattr(self, E_k, False)",
    'iter_args0': "iter(args[0])",
    'next': "next(F_it)",
    'chain': "itertools.chain(E_a, E_b)",
    'pop0': "F_a.pop(0)",
    'kw_get': "kw.get(E_k)",
    'kw_get_d': "kw.get(E_k, E_d)",
    'kw_sub': "kw[E_k]",
    'in_kw': "E_k in kw",
    'any_ne_zip': "any([F_a != F_b for (F_a, F_b) in zip(E_x, E_y)])",
    'guess': "guess_pos_columns(E_f)",
    'groupby_gen': "(F_fr for F_n, F_fr in F_f.groupby(E_c))",
    'linked': "linking_fcn(*args, **kw)",
    'concat_wrap': "pandas_concat(self.wrap(linking_fcn, F_it, *args, **kw))",
    'wrap_link': "self.wrap(linking.link_df_iter, *args, **kw)",
    'wrap_single_link': "self.wrap_single(linking.link_df_iter, *args, **kw)",
    'super_init': "super().__init__(E_a, E_b)",
    'identity': "lambda x: x",
}.items()}


def cmt(s):
    try:
        t = ast.unparse(s).split('\n')[0]
    except Exception:
        t = type(s).__name__
    t = t.replace('(*', '( *').replace('*)', '* )').replace('"', "'")
    if len(t) > 120:
        t = t[:117] + '...'
    return '(* %d: %s *)' % (getattr(s, 'lineno', 0), t)


def self_attr(e):
    return isinstance(e, ast.Attribute) and isinstance(e.value, ast.Name) and e.value.id == 'self'


def const_str(e):
    return e.value if isinstance(e, ast.Constant) and isinstance(e.value, str) else None


def is_none_const(e):
    return isinstance(e, ast.Constant) and e.value is None


def terminates(stmts):
    """every path through the statement list ends in return / raise"""
    if not stmts:
        return False
    s = stmts[-1]
    if isinstance(s, (ast.Return, ast.Raise)):
        return True
    if isinstance(s, ast.If):
        return terminates(s.body) and terminates(s.orelse)
    return False


def has_return(stmts):
    return any(isinstance(n, ast.Return) for s in stmts for n in ast.walk(s))


def canon(t):
    return 'tval' if t == 'option Z' else t


def unopt(t):                                    # noqa: F811  (tval = option Z)
    t = canon(t)
    if t == 'tval':
        return 'Z'
    if not t.startswith('option '):
        return None
    t = t[7:]
    return t[1:-1] if t.startswith('(') and t.endswith(')') and t.count('(') == t[1:].count('(') + 1 and balanced(t[1:-1]) else t


def balanced(t):
    d = 0
    for ch in t:
        d += ch == '('
        d -= ch == ')'
        if d < 0:
            return False
    return d == 0


class Env:
    def __init__(self):
        self.vars = {}        # python name -> (coq name, type)
        self.ref = {}         # ast.dump(expr) -> (coq name, type, frozenset of python names it depends on)
        self.known = set()    # predobj attributes known to be set
        self.aliased = {}     # field of self aliased by a local -> local name

    def copy(self):
        e = Env()
        e.vars, e.ref, e.known, e.aliased = dict(self.vars), dict(self.ref), set(self.known), dict(self.aliased)
        return e

    def rebound(self, name):
        self.ref = {k: v for k, v in self.ref.items() if name not in v[2]}


def deps_of(e):
    return frozenset(n.id for n in ast.walk(e) if isinstance(n, ast.Name))


def wrap(pre, inner):
    for p in reversed(pre):
        inner = p % inner
    return inner


class Fn:
    def __init__(self, d, node, classes):
        self.d, self.f, self.classes = d, node, classes
        self.selfty = d['self']
        self.defs = []
        self.ntmp = 0
        self.nloop = 0
        self.used = set()
        self.alias_pending = {}

    def tmp(self, base='tmp'):
        self.ntmp += 1
        return '%s%d' % (base, self.ntmp)

    def hpx(self, node):
        if self.d['heap']:
            return 'hp'
        if self.selfty == 'linker':
            return '(l_heap self)'
        fail(node, 'a point attribute is read where no heap is in scope')

    def local(self, node, name):
        if (name in RESERVED and name not in CLASH) or name.endswith('_') or not name.isidentifier() or name.startswith('_') or name.startswith('tmp') or name.startswith('py_'):
            fail(node, 'local name %s cannot be used' % name)
        return name

    # ------------------------------------------------------------------ coercions
    def coerce(self, node, c, ty, want):
        ty, want = canon(ty), canon(want)
        if ty == want or (ty == 'iter frame' and want == 'list frame') or (ty == 'list frame' and want == 'iter frame'):
            return c
        if unopt(want) is not None and canon(unopt(want)) == ty:
            return '(Some %s)' % c
        if unopt(want) is not None and unopt(unopt(want) or '') is not None and canon(unopt(unopt(want))) == ty:
            return '(Some (Some %s))' % c
        fail(node, 'value of type %s where %s is expected' % (ty, want))

    # ------------------------------------------------------------------ calls of translated defs
    def call_term(self, node, key, recv, args, env, pre, kwargs=None):
        """term of the call (not yet bound); args: list of ast, kwargs: dict name -> ast"""
        d = F[key]
        params = d['params']
        vals = {}
        if len(args) > len(params):
            fail(node, 'too many arguments for %s' % d['name'])
        for (pn, pt_, pd), a in zip(params, args):
            vals[pn] = a
        for k, a in (kwargs or {}).items():
            if k not in [p[0] for p in params] or k in vals:
                fail(node, 'unexpected keyword argument %s for %s' % (k, d['name']))
            vals[k] = a
        out = [d['coq']]
        if d['ord']:
            out.append('ord')
        if d['clsp']:
            out.append('cls')
        if d['link']:
            out.append('linking_link_df_iter')
        if d['heap']:
            out.append(self.hpx(node))
        if d['self'] and not d['init']:
            out.append(recv)
        for pn, pt_, pd in params:
            if pn in vals:
                c, t = self.ex(vals[pn], env, pre, pt_)
                out.append(self.coerce(vals[pn], c, t, pt_))
            elif pd == 'None':
                out.append('None')
            elif pd is not None:
                out.append('%s%%Z' % pd)
            else:
                fail(node, 'missing argument %s of %s' % (pn, d['name']))
        return ' '.join(out)

    def ret_type(self, d):
        return d['ret']

    # ------------------------------------------------------------------ expressions
    def ex(self, e, env, pre, want=None):
        k = ast.dump(e)
        if k in env.ref:
            return env.ref[k][0], env.ref[k][1]
        b = {}
        if isinstance(e, ast.Constant):
            v = e.value
            if v is None:
                if want is None or unopt(want) is None:
                    fail(e, 'None where %s is expected' % want)
                return 'None', want
            if isinstance(v, bool):
                return ('true' if v else 'false'), 'bool'
            if isinstance(v, str):
                if '"' in v:
                    fail(e, 'unsupported string')
                return '"%s"%%string' % v, 'string'
            if isinstance(v, int) and v >= 0:
                w = canon(want or '')
                w = unopt(w) if unopt(w) in ('Z', 'nat') else w
                if w == 'Z':
                    return '%d%%Z' % v, 'Z'
                if w == 'nat':
                    return '%d%%nat' % v, 'nat'
                fail(e, 'integer literal whose type cannot be determined')
            fail(e, 'unsupported constant %r' % (v,))
        if isinstance(e, ast.Name):
            if e.id not in env.vars:
                fail(e, 'name %s is read where it is not bound' % e.id)
            return env.vars[e.id]
        if isinstance(e, ast.List):
            if len(e.elts) != 1:
                fail(e, 'unsupported list display')
            c, t = self.ex(e.elts[0], env, pre)
            return '[%s]' % c, 'list ' + t
        if isinstance(e, ast.Lambda):
            if match(PAT['identity'], e, {}) and want == 'eucl':
                return '(fun x => x)', 'eucl'
            fail(e, 'unsupported lambda')
        if isinstance(e, ast.Attribute):
            return self.attribute(e, env, pre)
        if isinstance(e, ast.Subscript):
            if match(PAT['shape1'], e, b):
                c, t = self.ex(b['E_a'], env, pre)
                if t != 'list pt':
                    fail(e, '.shape[1] of a %s' % t)
                v = self.tmp()
                pre.append('bind (shape1 %s) (fun %s =>\n%%s)' % (c, v))
                return v, 'nat'
            if match(PAT['kw_sub'], e, b) and 'kw' in env.vars:
                key = const_str(b['E_k'])
                if key not in KWKEYS:
                    fail(e, 'unsupported key of kw')
                acc, ty = KWKEYS[key]
                v = self.tmp('kw_' + key)
                pre.append('match %s kw with None => PRaises KeyError | Some %s =>\n%%s\nend' % (acc, v))
                return v, ty
            fail(e, 'unsupported subscript')
        if isinstance(e, ast.BinOp):
            l, tl = self.ex(e.left, env, pre, want)
            r, tr = self.ex(e.right, env, pre, tl if tl in ('Z', 'nat') else None)
            tl, tr = canon(tl), canon(tr)
            if isinstance(e.op, ast.Add) and tl == tr == 'Z':
                return '(%s + %s)%%Z' % (l, r), 'Z'
            if isinstance(e.op, ast.Sub) and tl == tr == 'Z':
                return '(%s - %s)%%Z' % (l, r), 'Z'
            if isinstance(e.op, ast.Add) and tl == tr == 'list pt':
                return '(np_add %s %s)' % (l, r), 'list pt'
            if isinstance(e.op, ast.Mult) and (tl, tr) == ('pt', 'list pt'):
                return '(np_mul_row %s %s)' % (l, r), 'list pt'
            if isinstance(e.op, ast.Sub) and (tl, tr) == ('tval', 'list Z'):
                v = self.tmp()
                pre.append('bind (np_rsub %s %s) (fun %s =>\n%%s)' % (l, r, v))
                return v, 'list Z'
            fail(e, 'unsupported arithmetic %s on %s and %s' % (type(e.op).__name__, tl, tr))
        if isinstance(e, ast.UnaryOp) and isinstance(e.op, ast.Not):
            c, t = self.ex(e.operand, env, pre)
            if t != 'bool':
                fail(e, 'not on a %s' % t)
            return '(negb %s)' % c, 'bool'
        if isinstance(e, ast.BoolOp):
            parts = []
            for v in e.values:
                sub = []
                c, t = self.ex(v, env, sub)
                if sub or t != 'bool':
                    fail(v, 'operand of and / or that can raise or is not a boolean (only supported as the test of an if)')
                parts.append(c)
            op = 'andb' if isinstance(e.op, ast.And) else 'orb'
            c = parts[-1]
            for p in reversed(parts[:-1]):
                c = '(%s %s %s)' % (op, p, c)
            return c, 'bool'
        if isinstance(e, ast.Compare):
            return self.compare(e, env, pre)
        if isinstance(e, ast.ListComp):
            if match(PAT['pos_comp'], e, b):
                c, t = self.ex(b['E_l'], env, pre)
                if t == 'list pid':
                    return '(map (fun p => p_pos (deref %s p)) %s)' % (self.hpx(e), c), 'list pt'
                if t == 'list point':
                    return '(map (fun p => p_pos p) %s)' % c, 'list pt'
                fail(e, 'comprehension over a %s' % t)
            b = {}
            if match(PAT['points_new'], e, b) or match(PAT['points_new_extra'], e, b):
                t_, tt = self.ex(ast.Name(id=b['F_t']), env, pre)
                c_, tc = self.ex(ast.Name(id=b['F_c']), env, pre)
                if (tt, tc) != ('Z', 'list pt') or b['F_x'] in env.vars or ('F_e' in b and env.vars.get(b['F_e'], (0, 0))[1] not in ('extra', 'option extra')):
                    fail(e, 'unsupported Point(...) comprehension')
                return '(points_new %s %s %s)' % (self.hpx(e), t_, c_), 'heap * list pid'
            fail(e, 'unsupported list comprehension')
        if isinstance(e, ast.Call):
            return self.call(e, env, pre, want)
        fail(e, 'unsupported expression %s' % type(e).__name__)

    def attribute(self, e, env, pre):
        b = {}
        if match(PAT['tile_T'], e, b):
            v, tv = self.ex(b['E_v'], env, pre)
            d, td = self.ex(b['E_d'], env, pre)
            if (tv, td) != ('list Z', 'nat'):
                fail(e, 'np.tile(%s, (%s, 1)).T' % (tv, td))
            return '(np_tile_T %s %s)' % (v, d), 'list pt'
        if self_attr(e) and self.selfty:
            a = e.attr
            key = METHODS.get((self.selfty, a))
            if key and F[key]['prop']:
                d = F[key]
                if d['mut']:
                    fail(e, 'property %s rebuilds the tree: not supported inside an expression' % a)
                v = self.tmp()
                pre.append('bind (%s) (fun %s =>\n%%s)' % (self.call_term(e, key, 'self', [], env, pre), v))
                return v, d['ret']
            if self.selfty == 'predobj' and a == 'predict':
                if not self.d['clsp']:
                    fail(e, 'self.predict used as a value outside a def that has the class table')
                return '(c_predict cls)', 'bmeth'
            if a not in FIELDS[self.selfty]:
                fail(e, 'unknown attribute self.%s' % a)
            acc, ty, flag = FIELDS[self.selfty][a]
            if a in env.aliased:
                fail(e, 'self.%s is read while the local %s aliases it' % (a, env.aliased[a]))
            if flag == 'getattr':
                fail(e, 'self.%s may only be read through getattr' % a)
            if flag == 'known' and a not in env.known:
                fail(e, 'self.%s is read where it is not known to be set' % a)
            if flag == 'unset':
                v = self.tmp(a.strip('_'))
                pre.append('match %s self with None => PRaises AttributeError | Some %s =>\n%%s\nend' % (acc, v))
                return v, ty
            return '(%s self)' % acc, ty
        c, t = self.ex(e.value, env, pre)
        if t == 'point' and e.attr in POINT_ATTR:
            return '(%s %s)' % (POINT_ATTR[e.attr][0], c), POINT_ATTR[e.attr][1]
        if t == 'pid' and e.attr in POINT_ATTR:
            return '(%s (deref %s %s))' % (POINT_ATTR[e.attr][0], self.hpx(e), c), POINT_ATTR[e.attr][1]
        if t == 'kdtree' and e.attr == 'data':
            return '(tree_data %s)' % c, 'list pt'
        if unopt(t) is not None and unopt(t) in ('kdtree', 'hash'):
            fail(e, 'attribute of a value that may be None (test it with `is None` first)')
        fail(e, 'unsupported attribute .%s of a %s' % (e.attr, t))

    def none_test(self, e):
        """`X is None` / `X is not None` -> (X, is_not) ; getattr(self, 'f', None) is read as self.f"""
        if isinstance(e, ast.Compare) and len(e.ops) == 1 and isinstance(e.ops[0], (ast.Is, ast.IsNot)) and is_none_const(e.comparators[0]):
            x = e.left
            b = {}
            if match(PAT['getattr_none'], x, b) and const_str(b['E_k']):
                x = ast.Attribute(value=ast.Name(id='self', ctx=ast.Load()), attr=const_str(b['E_k']), ctx=ast.Load())
                x._via_getattr = True
            return x, isinstance(e.ops[0], ast.IsNot)
        return None

    def opt_ex(self, x, env, pre):
        """an expression of optional type (target of a None test)"""
        if getattr(x, '_via_getattr', False):
            if self.selfty != 'predobj' or x.attr not in FIELDS['predobj'] or FIELDS['predobj'][x.attr][2] != 'known':
                fail(x, 'unsupported getattr')
            return '(%s self)' % FIELDS['predobj'][x.attr][0], FIELDS['predobj'][x.attr][1]
        b = {}
        if match(PAT['kw_get'], x, b) and 'kw' in env.vars:
            key = const_str(b['E_k'])
            if key not in KWKEYS:
                fail(x, 'unsupported key of kw')
            return '(kw_get (%s kw))' % KWKEYS[key][0], opt(unopt(KWKEYS[key][1]) or KWKEYS[key][1])
        if self_attr(x) and self.selfty and x.attr in FIELDS[self.selfty] and FIELDS[self.selfty][x.attr][2] == 'known':
            env2 = env.copy()
            env2.known.add(x.attr)
            return self.ex(x, env2, pre)
        return self.ex(x, env, pre)

    def compare(self, e, env, pre):
        if len(e.ops) != 1:
            fail(e, 'chained comparison')
        nt = self.none_test(e)
        if nt:
            c, t = self.opt_ex(nt[0], env, pre)
            if unopt(t) is None:
                fail(e, '`is None` on a %s' % t)
            return ('(negb (is_none %s))' % c if nt[1] else '(is_none %s)' % c), 'bool'
        op, lhs, rhs = e.ops[0], e.left, e.comparators[0]
        b = {}
        if match(PAT['in_kw'], e, b) and 'kw' in env.vars:
            key = const_str(b['E_k'])
            if key not in KWKEYS:
                fail(e, 'unsupported key of kw')
            return '(negb (is_none (%s kw)))' % KWKEYS[key][0], 'bool'
        if isinstance(op, (ast.Eq, ast.NotEq, ast.Lt, ast.LtE, ast.Gt, ast.GtE)):
            a, ta = self.ex(lhs, env, pre)
            c, tc = self.ex(rhs, env, pre, ta)
            if ta == tc and ta in ('Z', 'nat'):
                m = 'Z' if ta == 'Z' else 'Nat'
                tab = {ast.Lt: '(%s.ltb %s %s)' % (m, a, c), ast.Gt: '(%s.ltb %s %s)' % (m, c, a), ast.LtE: '(%s.leb %s %s)' % (m, a, c),
                       ast.GtE: '(%s.leb %s %s)' % (m, c, a), ast.Eq: '(%s.eqb %s %s)' % (m, a, c), ast.NotEq: '(negb (%s.eqb %s %s))' % (m, a, c)}
                return tab[type(op)], 'bool'
            fail(e, 'comparison between %s and %s' % (ta, tc))
        fail(e, 'unsupported comparison')

    def call(self, e, env, pre, want):
        b = {}
        if match(PAT['partial'], e, b):
            f, tf = self.ex(b['E_f'], env, pre)
            a, ta = self.ex(b['E_a'], env, pre)
            if (tf, canon(ta)) != ('ufunc', 'tval'):
                fail(e, 'functools.partial(%s, %s)' % (tf, ta))
            return '(functools_partial %s %s)' % (f, a), 'pfunc'
        if match(PAT['map'], e, b):
            l, tl = self.ex(b['E_l'], env, pre)
            fn = b['E_f']
            if tl != 'list point':
                fail(e, 'map over a %s' % tl)
            if isinstance(fn, ast.Lambda):
                a = fn.args
                if len(a.args) != 1 or a.vararg or a.kwarg or a.kwonlyargs or a.defaults or getattr(a, 'posonlyargs', []):
                    fail(e, 'unsupported lambda')
                x = self.local(fn, a.args[0].arg)
                if x in env.vars:
                    fail(fn, 'lambda parameter shadows a local')
                env2 = env.copy()
                env2.vars[x] = (cn(x), 'point')
                x = cn(x)
                sub = []
                body, tb = self.ex(fn.body, env2, sub)
                if sub or tb != 'pt':
                    fail(fn, 'lambda body must be a total expression of type pt')
                return '(py_map (fun %s => %s) %s)' % (x, body, l), 'list pt'
            f, tf = self.ex(fn, env, pre)
            if tf != 'pfunc':
                fail(e, 'map of a %s' % tf)
            return '(py_map %s %s)' % (f, l), 'list pt'
        for name, prim in (('np_array', 'np_array'), ('list', 'py_list')):
            b = {}
            if match(PAT[name], e, b):
                c, t = self.ex(b['E_x'], env, pre)
                if t == 'deque frame' and name == 'list':
                    return '(deque_list %s)' % c, 'list frame'
                if not t.startswith('list '):
                    fail(e, '%s of a %s' % (name, t))
                return '(%s %s)' % (prim, c), t
        b = {}
        if match(PAT['empty0'], e, b):
            if self.selfty != 'hash':
                fail(e, 'np.empty outside a hash')
            return 'np_empty0', 'list pt'
        if match(PAT['cKDTree'], e, b):
            c, t = self.ex(b['E_x'], env, pre)
            if t != 'list pt':
                fail(e, 'cKDTree of a %s' % t)
            return '(cKDTree %s 15)' % c, 'kdtree'
        b = {}
        if match(PAT['deque'], e, b):
            c, t = self.ex(b['E_n'], env, pre, 'Z')
            if t != 'Z':
                fail(e, 'deque maxlen of type %s' % t)
            return '(deque_new [] %s)' % c, 'deque frame'
        b = {}
        if match(PAT['getattr_false'], e, b):
            k = const_str(b['E_k'])
            if self.selfty == 'predobj' and k in FIELDS['predobj'] and FIELDS['predobj'][k][2] == 'getattr':
                return '(%s self)' % FIELDS['predobj'][k][0], 'bool'
            fail(e, 'unsupported getattr')
        b = {}
        if match(PAT['getattr_none'], e, b):
            x = self.none_test(ast.Compare(left=e, ops=[ast.Is()], comparators=[ast.Constant(value=None)]))[0]
            return self.opt_ex(x, env, pre)
        if match(PAT['iter_args0'], e, {}) and env.vars.get('args', (0, 0))[1] == 'list argv':
            v = self.tmp()
            pre.append('bind (args_iter0 args) (fun %s =>\n%%s)' % v)
            return v, 'iter frame'
        b = {}
        if match(PAT['chain'], e, b):
            a, ta = self.ex(b['E_a'], env, pre)
            c, tc = self.ex(b['E_b'], env, pre)
            if ta != 'list frame' or tc not in ('iter frame', 'list frame'):
                fail(e, 'itertools.chain(%s, %s)' % (ta, tc))
            return '(itertools_chain %s %s)' % (a, c), 'list frame'
        b = {}
        if match(PAT['kw_get_d'], e, b) and 'kw' in env.vars:
            key = const_str(b['E_k'])
            if key not in KWKEYS or unopt(KWKEYS[key][1]) is None:
                fail(e, 'unsupported key of kw')
            d, td = self.ex(b['E_d'], env, pre)           # the default is evaluated whether or not the key is present
            return '(kw_get_default (%s kw) %s)' % (KWKEYS[key][0], self.coerce(e, d, td, KWKEYS[key][1])), KWKEYS[key][1]
        b = {}
        if match(PAT['kw_get'], e, b) and 'kw' in env.vars:
            return self.opt_ex(e, env, pre)
        b = {}
        if match(PAT['any_ne_zip'], e, b) and b['F_a'] != b['F_b'] and b['F_a'] not in env.vars and b['F_b'] not in env.vars:
            x, tx = self.ex(b['E_x'], env, pre)
            y, ty = self.ex(b['E_y'], env, pre)
            if (tx, ty) != ('list string', 'list string'):
                fail(e, 'any(.. zip(%s, %s))' % (tx, ty))
            return '(any_ne_zip %s %s)' % (x, y), 'bool'
        b = {}
        if match(PAT['guess'], e, b):
            c, t = self.ex(b['E_f'], env, pre)
            if t != 'frame':
                fail(e, 'guess_pos_columns of a %s' % t)
            return '(guess_pos_columns %s)' % c, 'list string'
        if isinstance(e.func, ast.Name) and e.func.id == 'len' and len(e.args) == 1 and not e.keywords and 'len' not in env.vars:
            c, t = self.ex(e.args[0], env, pre)
            if not t.startswith('list '):
                fail(e, 'len of a %s' % t)
            return '(length %s)' % c, 'nat'
        if e.keywords and any(k.arg is None for k in e.keywords):
            fail(e, 'unsupported ** in a call')
        if any(isinstance(a, ast.Starred) for a in e.args):
            fail(e, 'unsupported * in a call')
        kws = {k.arg: k.value for k in e.keywords}
        fn = e.func
        if isinstance(fn, ast.Name) and fn.id in F and F[fn.id]['cls'] is None and F[fn.id]['kind'] == 'pres' and fn.id not in env.vars:
            d = F[fn.id]
            term = self.call_term(e, fn.id, None, e.args, env, pre, kws)
            if d['ret'] == 'heap * list pid':
                if self.selfty != 'linker':
                    fail(e, 'allocation of points outside the Linker')
                h, v = self.tmp('hp'), self.tmp()
                pre.append("bind (%s) (fun '(%s, %s) =>\nlet self := set_l_heap self %s in\n%%s)" % (term, h, v, h))
                return v, 'list pid'
            v = self.tmp()
            pre.append('bind (%s) (fun %s =>\n%%s)' % (term, v))
            return v, d['ret']
        if self_attr(fn) and self.selfty:
            a = fn.attr
            key = METHODS.get((self.selfty, a))
            if key and not F[key]['prop']:
                d = F[key]
                if d['mut']:
                    fail(e, 'call of the mutating method %s inside an expression' % a)
                v = self.tmp()
                pre.append('bind (%s) (fun %s =>\n%%s)' % (self.call_term(e, key, 'self', e.args, env, pre, kws), v))
                return v, d['ret']
            if self.selfty == 'linker' and a == 'hash_cls':
                v = self.tmp()
                term = self.call_term(e, 'HashKDTree_init', None, e.args, env, pre, kws)
                pre.append('bind (%s) (fun %s =>\n%%s)' % (term, v))
                return v, 'hash'
            if a in FIELDS[self.selfty]:
                f, tf = self.ex(fn, env, pre)
                if kws:
                    fail(e, 'keyword arguments in a call of self.%s' % a)
                if tf == 'eucl' and len(e.args) == 1:
                    x, tx = self.ex(e.args[0], env, pre)
                    if tx != 'list pt':
                        fail(e, 'to_eucl of a %s' % tx)
                    return '(%s %s)' % (f.strip('()') if f.startswith('(h_') else f, x), 'list pt'
                if unopt(tf) == 'vpred':
                    v = self.tmp(a + '_v')
                    pre.append('match %s with None => PRaises TypeError | Some %s =>\n%%s\nend' % (f, v))
                    f, tf = v, 'vpred'
                if tf == 'vpred' and len(e.args) == 2:
                    t1, tt = self.ex(e.args[0], env, pre)
                    l, tl = self.ex(e.args[1], env, pre)
                    if canon(tt) != 'tval' or tl != 'list pid':
                        fail(e, 'predictor called with (%s, %s)' % (tt, tl))
                    v = self.tmp()
                    pre.append('bind (%s %s (derefs %s %s)) (fun %s =>\n%%s)' % (f, t1, self.hpx(e), l, v))
                    return v, 'list pt'
                fail(e, 'unsupported call of self.%s' % a)
        fail(e, 'unsupported call %s' % ast.unparse(e)[:60])

    # ------------------------------------------------------------------ statements
    def assigned(self, stmts):
        out = []

        def add(x):
            if x not in out:
                out.append(x)

        def target(t):
            if isinstance(t, ast.Name):
                add(t.id)
            elif isinstance(t, ast.Tuple):
                for x in t.elts:
                    target(x)
            elif isinstance(t, ast.Attribute):
                add('self')                       # self.f = ..  /  point.forward_cands = .. (the heap is part of self)
            elif isinstance(t, ast.Subscript) and isinstance(t.value, ast.Name):
                add(t.value.id)
            else:
                fail(t, 'unsupported assignment target')

        def walk(ss):
            for s in ss:
                for n in ast.walk(s):
                    b = {}
                    if isinstance(n, ast.Call) and match(PAT['next'], n, b):
                        add(b['F_it'])
                    b = {}
                    if isinstance(n, ast.Call) and match(PAT['pop0'], n, b):
                        add(b['F_a'])
                    if isinstance(n, ast.Call) and isinstance(n.func, ast.Name) and n.func.id == 'points_from_arr':
                        add('self')
                    if isinstance(n, ast.Yield):
                        add('yielded__')
                if isinstance(s, ast.Assign):
                    for t in s.targets:
                        target(t)
                elif isinstance(s, ast.AugAssign):
                    target(s.target)
                elif isinstance(s, ast.Expr) and isinstance(s.value, ast.Call) and isinstance(s.value.func, ast.Attribute):
                    r = s.value.func.value
                    if isinstance(r, ast.Name):
                        add(r.id)
                    elif isinstance(r, ast.Call) or self_attr(r):
                        add('self')               # super().__init__(..) / self.points.append(..)
                elif isinstance(s, ast.If):
                    walk(s.body); walk(s.orelse)
                elif isinstance(s, ast.For):
                    walk(s.body)
        walk(stmts)
        return out

    def tup(self, names):
        if not names:
            return 'tt', '_'
        if len(names) == 1:
            return cn(names[0]), cn(names[0])
        names = [cn(n) for n in names]
        return '(%s)' % ', '.join(names), "'(%s)" % ', '.join(names)

    def block(self, stmts, env, k):
        if not stmts:
            if k is None:
                fail(self.f, 'internal: a block that must end in return / raise falls through')
            return k(env)
        s, rest = stmts[0], stmts[1:]
        return cmt(s) + '\n' + self.stmt(s, env.copy(), rest, k)

    def cond(self, test, env, mkA, mkB):
        conj = list(test.values) if isinstance(test, ast.BoolOp) and isinstance(test.op, ast.And) else [test]

        def go(i, env_i):
            if i == len(conj):
                return mkA(env_i)
            c = conj[i]
            pre = []
            nt = self.none_test(c)
            b = {}
            if nt:
                x, is_not = nt
                term, t = self.opt_ex(x, env_i, pre)
                if unopt(t) is None:
                    fail(c, '`is None` on a value of type %s' % t)
                base = x.id if isinstance(x, ast.Name) else (x.attr if isinstance(x, ast.Attribute) else 'val')
                v = self.tmp(base.strip('_') + '_v')
                ek = env_i.copy()
                ek.ref[ast.dump(x)] = (v, unopt(t), deps_of(x))
                if self_attr(x) and self.selfty and FIELDS[self.selfty].get(x.attr, (0, 0, ''))[2] == 'known':
                    ek.known.add(x.attr)
                if is_not:
                    return wrap(pre, 'match %s with\n| Some %s =>\n%s\n| None =>\n%s\nend' % (term, v, go(i + 1, ek), mkB(env_i)))
                return wrap(pre, 'match %s with\n| None =>\n%s\n| Some %s =>\n%s\nend' % (term, go(i + 1, env_i), v, mkB(ek)))
            if isinstance(c, ast.Compare) and match(PAT['in_kw'], c, b) and 'kw' in env_i.vars and isinstance(c.ops[0], ast.In):
                key = const_str(b['E_k'])
                if key not in KWKEYS:
                    fail(c, 'unsupported key of kw')
                v = self.tmp('kw_' + key)
                ek = env_i.copy()
                sub = ast.Subscript(value=ast.Name(id='kw', ctx=ast.Load()), slice=ast.Constant(value=key), ctx=ast.Load())
                ek.ref[ast.dump(sub)] = (v, KWKEYS[key][1], frozenset(['kw']))
                return 'match %s kw with\n| Some %s =>\n%s\n| None =>\n%s\nend' % (KWKEYS[key][0], v, go(i + 1, ek), mkB(env_i))
            term, t = self.ex(c, env_i, pre)
            if t != 'bool':
                fail(c, 'condition of type %s' % t)
            return wrap(pre, 'if %s\nthen\n%s\nelse\n%s' % (term, go(i + 1, env_i), mkB(env_i)))
        return go(0, env)

    def rebind(self, env, name):
        env.rebound(name)

    def stmt(self, s, env, rest, k):
        cont = lambda e: self.block(rest, e, k)
        pre = []
        try:
            text = ast.unparse(s)
        except Exception:
            text = ''
        if text in SKIP:
            return '(* dropped: %s *)\n%s' % (SKIP[text], cont(env))
        if isinstance(s, ast.Expr) and isinstance(s.value, ast.Constant) and isinstance(s.value.value, str):
            return cont(env)
        if isinstance(s, ast.Pass):
            return cont(env)
        if isinstance(s, ast.Raise):
            if s.cause is not None or not (isinstance(s.exc, ast.Call) and isinstance(s.exc.func, ast.Name) and s.exc.func.id in EXNS
                                           and not s.exc.keywords and all(isinstance(a, ast.Constant) and isinstance(a.value, str) for a in s.exc.args)):
                fail(s, 'unsupported raise')
            if rest:
                fail(rest[0], 'statement after raise')
            return 'PRaises %s' % s.exc.func.id
        if isinstance(s, ast.Return):
            if rest:
                fail(rest[0], 'statement after return')
            return self.ret(s, env)
        if isinstance(s, ast.If):
            return self.stmt_if(s, env, rest, k)
        if isinstance(s, ast.For):
            return self.stmt_for(s, env, rest, k)
        if isinstance(s, ast.Assign):
            if len(s.targets) != 1:
                fail(s, 'multiple assignment targets')
            return self.assign(s, s.targets[0], s.value, env, cont)
        if isinstance(s, ast.Expr) and isinstance(s.value, ast.Yield):
            if not self.d['gen'] or s.value.value is None:
                fail(s, 'unsupported yield')
            c, t = self.ex(s.value.value, env, pre)
            if t != 'frame':
                fail(s, 'yield of a %s' % t)
            return wrap(pre, 'let yielded__ := yielded__ ++ [%s] in\n%s' % (c, cont(env)))
        if isinstance(s, ast.Expr) and isinstance(s.value, ast.Call):
            return self.call_stmt(s, s.value, env, cont)
        fail(s, 'unsupported statement %s' % type(s).__name__)

    def ret(self, s, env):
        d = self.d
        pre = []
        if env.aliased:
            fail(s, 'return while a local still aliases self.%s' % ', self.'.join(env.aliased))
        pack = (lambda v: 'POk (self, %s)' % v) if d['mut'] else (lambda v: 'POk %s' % v)
        b = {}
        if s.value is not None and self.selfty == 'predobj' and d['varargs']:
            for pat, key in (('wrap_link', 'NullPredict_wrap'), ('wrap_single_link', 'NullPredict_wrap_single')):
                if match(PAT[pat], s.value, {}):
                    if not d['link'] or F[key]['ret'] != d['ret']:
                        fail(s, 'unsupported delegation')
                    return '%s cls self linking_link_df_iter args kw' % F[key]['coq']
            if match(PAT['concat_wrap'], s.value, b):
                it, ti = self.ex(ast.Name(id=b['F_it']), env, pre)
                if ti != 'list frame' or d['ret'] != 'frame' or env.vars.get('linking_fcn', (0, 0))[1] != 'linkfn':
                    fail(s, 'unsupported pandas_concat(self.wrap(...))')
                v, w = self.tmp(), self.tmp()
                return wrap(pre, "bind (py_NullPredict_wrap cls self linking_fcn (AFrames %s :: args) kw) (fun '(self, %s) =>\n"
                                 "bind (pandas_concat %s) (fun %s =>\nPOk (self, %s)))" % (it, v, v, w, w))
        if d['gen']:
            fail(s, 'return inside a generator')
        if s.value is None or is_none_const(s.value):
            if d['ret'] == 'unit':
                return 'POk tt'
            if d['ret'] is None:
                return 'POk self' if d['mut'] else 'POk tt'
            if unopt(d['ret']) is None:
                fail(s, 'return None from a def of type %s' % d['ret'])
            return pack('None')
        if d['ret'] is None:
            fail(s, 'return with a value from a def that returns nothing')
        c, t = self.ex(s.value, env, pre, d['ret'])
        return wrap(pre, pack(self.coerce(s, c, t, d['ret'])))

    def stmt_if(self, s, env, rest, k):
        bt, et = terminates(s.body), terminates(s.orelse)
        cont = lambda e: self.block(rest, e, k)
        if bt or et:
            if bt and et and rest:
                fail(rest[0], 'unreachable statement')
            return self.cond(s.test, env,
                             lambda e: self.block(s.body, e.copy(), None if bt else cont),
                             lambda e: self.block(s.orelse, e.copy(), None if et else cont))
        if has_return(s.body) or has_return(s.orelse):
            fail(s, 'an if that returns on some paths and falls through on others')
        V = [v for v in self.assigned(s.body + s.orelse) if v in env.vars]
        finals = []

        def kk(e):
            finals.append(e)
            if e.aliased.keys() - env.aliased.keys():
                fail(s, 'an alias of a field of self created inside a branch')
            return 'POk %s' % self.tup(V)[0]
        a = self.cond(s.test, env, lambda e: self.block(s.body, e.copy(), kk), lambda e: self.block(s.orelse, e.copy(), kk))
        env2 = env.copy()
        for v in V:
            env2.rebound(v)
        if finals:
            env2.known = set.intersection(*[f.known for f in finals])
            env2.aliased = {f_: n for f_, n in env.aliased.items() if all(f_ in f.aliased for f in finals)} \
                if all(f.aliased == finals[0].aliased for f in finals) else fail(s, 'branches disagree on aliases')
        return 'bind (\n%s) (fun %s =>\n%s)' % (a, self.tup(V)[1], cont(env2))

    def stmt_for(self, s, env, rest, k):
        cont = lambda e: self.block(rest, e, k)
        if s.orelse or has_return(s.body) or not isinstance(s.target, ast.Name):
            fail(s, 'unsupported for loop')
        pre = []
        x = self.local(s.target, s.target.id)
        if x in env.vars:
            fail(s, 'loop variable %s shadows a local' % x)
        linked = match(PAT['linked'], s.iter, {}) and env.vars.get('linking_fcn', (0, 0))[1] == 'linkfn' and self.d['gen']
        if linked:
            ity = 'frame'
        else:
            it, tit = self.ex(s.iter, env, pre)
            if tit == 'set pid':
                if not self.d['ord']:
                    fail(s, 'iteration over a set in a def without the ord parameter')
                it, ity = '(set_iter ord %s)' % it, 'pid'
            else:
                fail(s, 'unsupported loop over a %s' % tit)
        V = [v for v in self.assigned(s.body) if v in env.vars]
        if not V:
            fail(s, 'loop without effect')
        reads = []
        for n in ast.walk(ast.Module(body=s.body, type_ignores=[])):
            if isinstance(n, ast.Name) and n.id in env.vars and n.id not in V and n.id != x and n.id not in reads:
                reads.append(n.id)
        for extra_, flag in (('cls', self.d['clsp']), ('ord', False), ('hp', self.d['heap'])):
            pass
        self.nloop += 1
        name = '%s_loop%d' % (self.d['coq'], self.nloop)
        benv = env.copy()
        benv.vars[x] = (cn(x), ity)
        for v in V:
            benv.rebound(v)
        body = self.block(s.body, benv, lambda e: 'POk %s' % self.tup(V)[0])
        sty = ' * '.join(paren(env.vars[v][1]) for v in V)
        params = ''.join(' (%s : %s)' % (cn(r), coqty(env.vars[r][1])) for r in reads)
        lead = (' (cls : predclass)' if self.d['clsp'] else '') + (' (hp : heap)' if self.d['heap'] else '')
        self.defs.append('%s\nDefinition %s%s%s (st : %s) (%s : %s) : pres (%s) :=\nlet %s := st in\n%s.\n'
                         % (cmt(s), name, lead, params, sty, cn(x), coqty(ity), sty, self.tup(V)[1], body))
        app = name + (' cls' if self.d['clsp'] else '') + (' hp' if self.d['heap'] else '') + ''.join(' ' + cn(r) for r in reads)
        env2 = env.copy()
        for v in V:
            env2.rebound(v)
        if linked:
            if 'self' not in V:
                fail(s, 'loop over the linking function that does not touch self')
            proj = '(fun st => let %s := st in self)' % self.tup(V)[1]
            loop = 'for_linked linking_fcn args kw %s (%s) %s' % (proj, app, self.tup(V)[0])
        else:
            loop = 'foldM (%s) %s %s' % (app, it, self.tup(V)[0])
        return wrap(pre, 'bind (%s) (fun %s =>\n%s)' % (loop, self.tup(V)[1], cont(env2)))

    def bindvar(self, node, env, name, ty):
        self.local(node, name)
        if name in env.vars and canon(env.vars[name][1]) != canon(ty):
            fail(node, 'variable %s changes type from %s to %s' % (name, env.vars[name][1], ty))
        env.vars[name] = (cn(name), ty)
        env.rebound(name)
        for f_, n in list(env.aliased.items()):
            if n == name:
                fail(node, 'the alias %s of self.%s is re-assigned' % (name, f_))

    def assign(self, s, t, val, env, cont):
        pre = []
        b = {}
        if isinstance(t, ast.Tuple):
            if match(PAT['zip_star'], val, b) and len(t.elts) == 2 and all(isinstance(x, ast.Name) for x in t.elts):
                l, tl = self.ex(b['E_l'], env, pre)
                if tl != 'list point' or b['F_p'] in env.vars:
                    fail(s, 'unsupported zip(*...)')
                a, c = t.elts[0].id, t.elts[1].id
                self.bindvar(s, env, a, 'list pt'); self.bindvar(s, env, c, 'list Z')
                return wrap(pre, "bind (zip_star2 (map (fun %s => (p_pos %s, p_t %s)) %s)) (fun '(%s, %s) =>\n%s)"
                            % (cn(b['F_p']), cn(b['F_p']), cn(b['F_p']), l, cn(a), cn(c), cont(env)))
            fail(s, 'unsupported tuple assignment')
        if isinstance(t, ast.Name):
            if match(PAT['next'], val, b) and env.vars.get(b['F_it'], (0, 0))[1] == 'iter frame':
                self.bindvar(s, env, t.id, 'frame')
                return "bind (py_next %s) (fun '(%s, %s) =>\n%s)" % (cn(b['F_it']), cn(t.id), cn(b['F_it']), cont(env))
            b = {}
            if match(PAT['pop0'], val, b) and env.vars.get(b['F_a'], (0, 0))[1] == 'list argv':
                self.bindvar(s, env, t.id, 'argv')
                env.rebound(b['F_a'])
                return "bind (args_pop0 %s) (fun '(%s, %s) =>\n%s)" % (cn(b['F_a']), cn(t.id), cn(b['F_a']), cont(env))
            b = {}
            if match(PAT['groupby_gen'], val, b) and env.vars.get(b['F_f'], (0, 0))[1] == 'argv' and b['F_fr'] != b['F_n']:
                c, tc = self.ex(b['E_c'], env, pre)
                if tc != 'option string':
                    fail(s, 'groupby key of type %s' % tc)
                v = self.tmp()
                pre.append('bind (argv_groupby %s %s) (fun %s =>\n%%s)' % (cn(b['F_f']), c, v))
                self.bindvar(s, env, t.id, 'list frame')
                return wrap(pre, 'let %s := map snd %s in\n%s' % (cn(t.id), v, cont(env)))
            c, ty = self.ex(val, env, pre, env.vars[t.id][1] if t.id in env.vars else None)
            if ty in ('heap * list pid',):
                fail(s, 'a local may not hold a %s' % ty)
            if t.id in env.vars:
                c = self.coerce(s, c, ty, env.vars[t.id][1])
                ty = env.vars[t.id][1]
            self.bindvar(s, env, t.id, ty)
            if self_attr(val) and (ty == 'hash' or unopt(ty) == 'hash'):
                env.aliased[val.attr] = t.id
            return wrap(pre, 'let %s := %s in\n%s' % (cn(t.id), c, cont(env)))
        if self_attr(t) and self.selfty:
            a = t.attr
            if a not in FIELDS[self.selfty]:
                fail(s, 'unknown attribute self.%s' % a)
            acc, fty, flag = FIELDS[self.selfty][a]
            stored = opt(fty) if flag == 'unset' else fty
            c, ty = self.ex(val, env, pre, fty)
            c = self.coerce(s, c, ty, stored) if canon(ty) != canon(fty) or flag != 'unset' else '(Some %s)' % c
            env.rebound('self')
            env.aliased.pop(a, None)
            if flag == 'known':
                env.known.add(a)
            return wrap(pre, 'let self := set_%s self %s in\n%s' % (acc, c, cont(env)))
        if isinstance(t, ast.Attribute) and t.attr == 'forward_cands' and isinstance(t.value, ast.Name) \
                and env.vars.get(t.value.id, (0, 0))[1] == 'pid' and self.selfty == 'linker' \
                and isinstance(val, ast.List) and not val.elts:
            env.rebound('self')
            return 'let self := set_l_heap self (set_forward_cands (l_heap self) %s []) in\n%s' % (cn(t.value.id), cont(env))
        if isinstance(t, ast.Subscript) and isinstance(t.value, ast.Name) and t.value.id == 'kw' and 'kw' in env.vars:
            key = const_str(t.slice)
            if key not in KWKEYS:
                fail(s, 'unsupported key of kw')
            c, ty = self.ex(val, env, pre, KWKEYS[key][1])
            c = self.coerce(s, c, ty, opt(KWKEYS[key][1])) if canon(ty) != canon(KWKEYS[key][1]) else '(Some %s)' % c
            env.rebound('kw')
            return wrap(pre, 'let kw := set_%s kw %s in\n%s' % (KWKEYS[key][0], c, cont(env)))
        if isinstance(t, ast.Subscript) and isinstance(t.value, ast.Name) and t.value.id == 'args' \
                and env.vars.get('args', (0, 0))[1] == 'list argv' and isinstance(t.slice, ast.Constant) and t.slice.value == 0 \
                and not isinstance(t.slice.value, bool):
            c, ty = self.ex(val, env, pre)
            if ty != 'list frame':
                fail(s, 'args[0] = a %s' % ty)
            env.rebound('args')
            return wrap(pre, 'bind (args_set0 args %s) (fun args =>\n%s)' % (c, cont(env)))
        fail(s, 'unsupported assignment target')

    def call_stmt(self, s, call, env, cont):
        pre = []
        fn = call.func
        b = {}
        if any(isinstance(a, ast.Starred) for a in call.args) or any(k.arg is None for k in call.keywords):
            fail(s, 'unsupported * / ** in a call')
        kws = {k.arg: k.value for k in call.keywords}
        if match(PAT['super_init'], call, b) and self.d['key'] == 'HashKDTree_init':
            term = self.call_term(s, 'HashBase_init', None, [b['E_a'], b['E_b']], env, pre)
            env.rebound('self')
            return wrap(pre, 'bind (%s) (fun self =>\n%s)' % (term, cont(env)))
        if not isinstance(fn, ast.Attribute):
            fail(s, 'unsupported call statement')
        if self_attr(fn.value) and self.selfty and fn.attr == 'append' and len(call.args) == 1 and not kws:
            a = fn.value.attr
            if a not in FIELDS[self.selfty] or not FIELDS[self.selfty][a][1].startswith('list ') or FIELDS[self.selfty][a][2]:
                fail(s, 'unsupported append')
            acc, fty, flag = FIELDS[self.selfty][a]
            l, tl = self.ex(fn.value, env, pre)
            c, t = self.ex(call.args[0], env, pre)
            if 'list ' + t != fty:
                fail(s, 'append of a %s to a %s' % (t, fty))
            env.rebound('self')
            return wrap(pre, 'let self := set_%s self (%s ++ [%s]) in\n%s' % (acc, l, c, cont(env)))
        if self_attr(ast.Attribute(value=fn.value, attr='x', ctx=ast.Load())) and self.selfty:
            if self.selfty == 'predobj' and fn.attr == 'observe':
                if not self.d['clsp'] or len(call.args) != 1 or kws:
                    fail(s, 'unsupported call of self.observe')
                c, t = self.ex(call.args[0], env, pre)
                if t != 'frame':
                    fail(s, 'observe of a %s' % t)
                env.rebound('self')
                return wrap(pre, 'bind (c_observe cls self %s) (fun self =>\n%s)' % (c, cont(env)))
            key = METHODS.get((self.selfty, fn.attr))
            if not key or F[key]['prop'] or not F[key]['mut'] or F[key]['ret'] is not None:
                fail(s, 'unsupported method call self.%s(...)' % fn.attr)
            term = self.call_term(s, key, 'self', call.args, env, pre, kws)
            env.rebound('self')
            return wrap(pre, 'bind (%s) (fun self =>\n%s)' % (term, cont(env)))
        if isinstance(fn.value, ast.Name) and fn.value.id in env.vars:
            x = fn.value.id
            recv, ty = self.ex(fn.value, env, pre)
            declared = env.vars[x][1]
            if unopt(ty) == 'hash':
                v = self.tmp(x + '_v')
                pre.append('match %s with None => PRaises AttributeError | Some %s =>\n%%s\nend' % (recv, v))
                recv, ty = v, 'hash'
            key = METHODS.get((ty, fn.attr))
            if not key or F[key]['prop'] or not F[key]['mut'] or F[key]['ret'] is not None:
                fail(s, 'unsupported method call %s.%s(...)' % (x, fn.attr))
            term = self.call_term(s, key, recv, call.args, env, pre, kws)
            v = self.tmp()
            new = self.coerce(s, v, 'hash', declared)
            env.rebound(x)
            return wrap(pre, 'bind (%s) (fun %s =>\nlet %s := %s in\n%s)' % (term, v, cn(x), new, cont(env)))
        fail(s, 'unsupported call statement')

    # ------------------------------------------------------------------ whole def
    def check_sig(self):
        d, a = self.d, self.f.args
        if a.kwonlyargs or getattr(a, 'posonlyargs', []):
            fail(self.f, 'unsupported signature')
        names = [x.arg for x in a.args]
        want = (['self'] if d['self'] else []) + [p[0] for p in d['params']]
        if names != want:
            fail(self.f, '%s: expected arguments (%s), found (%s)' % (d['name'], ', '.join(want), ', '.join(names)))
        if d['varargs']:
            if not (a.vararg and a.vararg.arg == 'args' and a.kwarg and a.kwarg.arg == 'kw'):
                fail(self.f, '%s: expected *args, **kw' % d['name'])
        elif a.vararg or a.kwarg:
            fail(self.f, '%s: unexpected * / ** parameters' % d['name'])
        defaults = [None] * (len(names) - len(a.defaults)) + list(a.defaults)
        for n, dv in zip(names, defaults):
            wantd = dict((p[0], p[2]) for p in d['params']).get(n)
            got = None if dv is None else (repr(dv.value) if isinstance(dv, ast.Constant) else '?')
            if got != wantd:
                fail(self.f, '%s: default of %s is %s, expected %s' % (d['name'], n, got, wantd))
        decos = [ast.unparse(x) for x in self.f.decorator_list]
        wantdeco = (['property'] if d['prop'] else []) + ([d['deco']] if d['deco'] else [])
        if decos != wantdeco:
            fail(self.f, '%s: decorators %s, expected %s' % (d['name'], decos, wantdeco))
        is_gen = any(isinstance(n, (ast.Yield, ast.YieldFrom)) for n in ast.walk(self.f))
        if is_gen != d['gen']:
            fail(self.f, '%s: %s a generator' % (d['name'], 'is now' if is_gen else 'is no longer'))
        for n in ast.walk(self.f):
            if isinstance(n, (ast.While, ast.Try, ast.With, ast.YieldFrom, ast.AsyncFunctionDef, ast.Global, ast.Nonlocal, ast.Assert,
                              ast.Break, ast.Continue, ast.NamedExpr, ast.Await, ast.ClassDef, ast.Import, ast.ImportFrom, ast.Delete,
                              ast.AugAssign)):
                fail(n, 'unsupported construct %s' % type(n).__name__)
            if isinstance(n, ast.FunctionDef) and n is not self.f and d['key'] != 'predictor':
                fail(n, 'nested def')

    def header(self):
        d = self.d
        ps = []
        if d['ord']:
            ps.append('(ord : list pid -> list pid)')
        if d['clsp']:
            ps.append('(cls : predclass)')
        if d['link']:
            ps.append('(linking_link_df_iter : linkfn)')
        if d['heap']:
            ps.append('(hp : heap)')
        if d['self'] and not d['init']:
            ps.append('(self : %s)' % d['self'])
        for pn, pt_, pd in d['params']:
            ps.append('(%s : %s)' % (cn(pn), coqty(pt_)))
        if d['varargs']:
            ps += ['(args : list argv)', '(kw : kwargs)']
        r = d['ret']
        if d['gen'] or (d['mut'] and r is not None):
            rt = '(%s * %s)' % (d['self'], paren(r))
        elif d['mut']:
            rt = d['self']
        else:
            rt = paren(r or 'unit')
        return 'Definition %s %s : pres %s :=' % (d['coq'], ' '.join(ps), rt)

    def translate(self):
        d = self.d
        self.check_sig()
        hdr = '(* ===== %s%s (%s, line %d) ===== *)\n' % ((d['cls'] + '.') if d['cls'] else '', d['name'], d['file'], self.f.lineno)
        if d['kind'] == 'total':
            return hdr + self.translate_total()
        env = Env()
        if d['self']:
            env.vars['self'] = ('self', d['self'])
        for pn, pt_, pd in d['params']:
            if pn in RESERVED and pn not in CLASH:
                fail(self.f, 'parameter name %s' % pn)
            env.vars[pn] = (cn(pn), pt_)
        if d['varargs']:
            env.vars['args'] = ('args', 'list argv')
            env.vars['kw'] = ('kw', 'kwargs')
        if d['gen']:
            env.vars['yielded__'] = ('yielded__', 'list frame')

        def fin(e):
            if e.aliased:
                fail(self.f, 'the def ends while a local still aliases self.%s' % ', self.'.join(e.aliased))
            if d['gen']:
                return 'POk (self, yielded__)'
            if d['ret'] is None:
                return 'POk self' if d['mut'] else 'POk tt'
            if d['ret'] == 'unit':
                return 'POk tt'
            if unopt(d['ret']) is not None:
                return 'POk (self, None)' if d['mut'] else 'POk None'
            fail(self.f, '%s can end without returning a value' % d['name'])
        body = self.block(list(self.f.body), env, fin)
        if d['init']:
            body = 'let self := blank_%s in\n%s' % (d['self'], body)
        if d['gen']:
            body = 'gen_end (\nlet yielded__ := [] in\n%s)' % body
        return hdr + ''.join(x + '\n' for x in self.defs) + self.header() + '\n' + body + '.\n'

    def translate_total(self):
        d = self.d
        env = Env()
        for pn, pt_, pd in d['params']:
            env.vars[pn] = (cn(pn), pt_)
        stmts = [s for s in self.f.body if not (isinstance(s, ast.Expr) and isinstance(s.value, ast.Constant))]
        if d['key'] == 'predictor':
            if len(stmts) != 2 or not isinstance(stmts[0], ast.FunctionDef) or not isinstance(stmts[1], ast.Return) \
                    or not isinstance(stmts[1].value, ast.Name) or stmts[1].value.id != stmts[0].name:
                fail(self.f, 'predictor: expected one nested def and `return <that def>`')
            inner = stmts[0]
            a = inner.args
            if [x.arg for x in a.args] != ['t1', 'particles'] or a.vararg or a.kwarg or a.defaults or a.kwonlyargs or inner.decorator_list:
                fail(inner, 'the vectorised function must be def %s(t1, particles)' % inner.name)
            sub = Fn(dict(d, kind='pres', ret='list pt', self=None, mut=False, key='predictor_inner'), inner, self.classes)
            sub.selfty = None
            ienv = env.copy()
            ienv.vars['t1'] = ('t1', 'tval'); ienv.vars['particles'] = ('particles', 'list point')
            body = sub.block(list(inner.body), ienv, lambda e: fail(inner, 'the vectorised function must return'))
            return ('Definition %s (predict_func : %s) : vpred :=\n%s\nfun (t1 : tval) (particles : list point) =>\n%s.\n'
                    % (d['coq'], coqty('ufunc'), cmt(inner), body))
        # a def under @predictor: straight-line, total
        lets = []
        for s in stmts[:-1]:
            if not (isinstance(s, ast.Assign) and len(s.targets) == 1 and isinstance(s.targets[0], ast.Name)):
                fail(s, 'only local bindings are allowed in a total def')
            pre = []
            c, t = self.ex(s.value, env, pre)
            if pre:
                fail(s, 'a total def may not contain an operation that can raise')
            self.bindvar(s, env, s.targets[0].id, t)
            lets.append('let %s := %s in' % (cn(s.targets[0].id), c))
        if not stmts or not isinstance(stmts[-1], ast.Return) or stmts[-1].value is None:
            fail(self.f, 'a total def must end in `return <value>`')
        pre = []
        c, t = self.ex(stmts[-1].value, env, pre)
        if pre or t != d['ret']:
            fail(stmts[-1], 'a total def must return a %s without raising' % d['ret'])
        ps = ' '.join('(%s : %s)' % (cn(pn), coqty(pt_)) for pn, pt_, pd in d['params'])
        fun = 'fun %s =>\n%s%s' % (ps, ''.join(l + '\n' for l in lets), c)
        if d['deco']:
            return '%s\nDefinition %s : vpred :=\npy_%s (%s).\n' % (cmt(stmts[-1]), d['coq'], d['deco'], fun)
        return 'Definition %s %s : %s :=\n%s.\n' % (d['coq'], ps, coqty(d['ret']), c)


# ---------------------------------------------------------------------------------------------
# driver
# ---------------------------------------------------------------------------------------------
CLASS_BASES = {'NullPredict': [], '_RecentVelocityPredict': ['NullPredict'], 'DriftPredict': ['_RecentVelocityPredict'],
               'HashBase': [], 'HashKDTree': ['HashBase'], 'Linker': []}
# methods of a class that are NOT translated but could interfere with the translated ones: every other def of
# these classes is listed here by name (a new or renamed method is an error, so that e.g. an override of
# predict in HashKDTree or of observe in NullPredict cannot go unnoticed)
OTHER_METHODS = {
    'NullPredict': [],
    '_RecentVelocityPredict': ['_check_pos_columns', '_compute_velocities'],
    'DriftPredict': ['__init__', 'observe'],
    'HashBase': ['__len__', 'coords_df'],
    'HashKDTree': ['query', 'query_points'],
    'Linker': None,                      # only update_hash is looked at
}


def find_def(trees, d):
    tree = trees[d['file']]
    if d['cls'] is None:
        hits = [n for n in tree.body if isinstance(n, ast.FunctionDef) and n.name == d['name']]
        if len(hits) != 1:
            raise TranslationError('%s: expected exactly one top-level definition in %s, found %d' % (d['name'], d['file'], len(hits)))
        return hits[0]
    cls = [n for n in tree.body if isinstance(n, ast.ClassDef) and n.name == d['cls']]
    if len(cls) != 1:
        raise TranslationError('class %s: expected exactly one definition in %s' % (d['cls'], d['file']))
    hits = [m for m in cls[0].body if isinstance(m, ast.FunctionDef) and m.name == d['name']]
    if len(hits) != 1:
        raise TranslationError('%s.%s: expected exactly one definition, found %d' % (d['cls'], d['name'], len(hits)))
    return hits[0]


def check_classes(trees):
    for cname, bases in CLASS_BASES.items():
        file = [d['file'] for d in F.values() if d['cls'] == cname][0]
        cls = [n for n in trees[file].body if isinstance(n, ast.ClassDef) and n.name == cname]
        if len(cls) != 1:
            raise TranslationError('class %s: expected exactly one definition in %s' % (cname, file))
        c = cls[0]
        if [ast.unparse(b) for b in c.bases] != bases or c.keywords or c.decorator_list:
            raise TranslationError('class %s: bases / decorators changed (expected bases %s)' % (cname, bases))
        if OTHER_METHODS[cname] is None:
            continue
        have = [m.name for m in c.body if isinstance(m, ast.FunctionDef)]
        want = sorted([d['name'] for d in F.values() if d['cls'] == cname] + OTHER_METHODS[cname])
        if sorted(have) != want:
            raise TranslationError('class %s: its methods are %s, expected %s (a new / renamed / removed method may change what the '
                                   'translated calls resolve to)' % (cname, sorted(have), want))
        for m in c.body:
            if not isinstance(m, (ast.FunctionDef, ast.Expr)):
                raise TranslationError('class %s: unsupported class-level statement at line %d' % (cname, m.lineno))
    # the Linker must build its hash from the class that is translated
    # module-level names the translated code relies on must not be rebound
    for file, names in ((PRED, ['predictor', 'null_predict', 'warn', 'functools', 'itertools', 'guess_pos_columns', 'pandas_concat', 'linking']),
                        (UTIL, ['points_to_arr', 'points_from_arr', 'Point']),
                        (SUBN, ['points_to_arr', 'cKDTree', 'np']), (LINK, ['points_from_arr', 'HashKDTree'])):
        for n in trees[file].body:
            tg = []
            if isinstance(n, ast.Assign):
                tg = [t.id for t in n.targets if isinstance(t, ast.Name)]
            for x in tg:
                if x in names:
                    raise TranslationError('%s: module-level name %s is re-assigned (line %d)' % (file, x, n.lineno))
        defs = [n.name for n in trees[file].body if isinstance(n, (ast.FunctionDef, ast.ClassDef))]
        for x in names:
            if defs.count(x) > 1:
                raise TranslationError('%s: %s is defined more than once' % (file, x))


def translate(repo):
    trees = {}
    for f in (PRED, UTIL, SUBN, LINK):
        trees[f] = ast.parse(open(os.path.join(repo, f)).read())
    check_classes(trees)
    out = ['(* GENERATED by tools/py2coq_predict.py from trackpy/predict.py, trackpy/linking/utils.py,',
           '   trackpy/linking/subnet.py and trackpy/linking/linking.py -- do not edit.',
           '   Statement by statement; the numbered comments are the Python statements.  Vocabulary and its meaning:',
           '   Model/PyPredict.v; subset, conventions and the list of primitives: the translator\'s docstring.',
           '   Extra parameters:  ord  iteration order of the Python set self.mem_set;  cls  the method table of the',
           '   predictor object\'s class (self.predict / self.observe);  linking_link_df_iter  what',
           '   trackpy.linking.link_df_iter does (a linkfn);  hp  the heap of Point objects. *)',
           'From Coq Require Import String ZArith List Bool.',
           'From TP Require Import Model.Assign Model.Link Model.PyPredict.',
           'Import ListNotations.',
           'Open Scope Z_scope.',
           '']
    for key in ORDER:
        d = F[key]
        out.append(Fn(d, find_def(trees, d), None).translate())
    out.append('(* method table of class NullPredict (predict and observe are defined in the class itself) *)\n'
               'Definition NullPredict_cls : predclass :=\n  {| c_predict := py_NullPredict_predict; c_observe := py_NullPredict_observe |}.\n')
    return indent('\n'.join(out))


def indent(text):
    """cosmetic: indent by nesting depth of bind / match / if"""
    out, depth = [], 0
    for line in text.split('\n'):
        s = line.strip()
        if s.startswith(('Definition', '(* =====', 'From ', 'Import', 'Open ', '(* GENERATED', '(* method table')) or not s:
            depth = 0
            out.append(line)
            if s.startswith('Definition'):
                depth = 1
            continue
        if depth == 0:
            out.append(line)
            continue
        d = depth
        if s.startswith(('| ', 'end', 'else', 'then')):
            d = max(1, depth - 1)
        out.append('  ' * d + s)
        opens = s.count('(fun ') + s.count('match ') - s.count('end') + (1 if s.startswith('gen_end (') else 0)
        if s.startswith('if ') or s == 'then' or s == 'else':
            pass
        depth = max(1, depth + (1 if s.endswith('=>') and ('(fun ' in s or s.startswith('| ')) and not s.startswith('| ') else 0)
                    + (1 if s.startswith('match ') and s.endswith('with') else 0) - (1 if s.startswith('end') and False else 0))
    return '\n'.join(out)


def main():
    ap = argparse.ArgumentParser()
    ap.add_argument('--repo', default=os.environ.get('TRACKPY_REPO', '/repo'))
    ap.add_argument('--out', default=os.path.join(os.path.dirname(os.path.dirname(os.path.abspath(__file__))), 'coq', 'Gen', 'predict.v'))
    ap.add_argument('--stdout', action='store_true')
    a = ap.parse_args()
    try:
        text = translate(a.repo)
    except TranslationError as e:
        sys.stderr.write('py2coq_predict: TRANSLATION ERROR: %s\n' % e)
        sys.exit(2)
    except (OSError, SyntaxError) as e:
        sys.stderr.write('py2coq_predict: TRANSLATION ERROR: cannot read / parse the source: %s\n' % e)
        sys.exit(2)
    if a.stdout:
        sys.stdout.write(text)
        return
    old = open(a.out).read() if os.path.exists(a.out) else None
    if old != text:
        os.makedirs(os.path.dirname(a.out), exist_ok=True)
        tmp = a.out + '.tmp%d' % os.getpid()
        with open(tmp, 'w') as f:
            f.write(text)
        os.replace(tmp, a.out)
        print('py2coq_predict: wrote %s (changed)' % a.out)
    else:
        print('py2coq_predict: %s up to date' % a.out)


if __name__ == '__main__':
    main()
