#!/bin/bash
# tools/round.sh <base dir> <id...> : for each seeded change run the property's check against it and confirm it; log to /root/scratch/round_<base>.log
base=$1; shift
for id in "$@"; do
  echo "== $id $(date +%H:%M:%S)"
  /verif/tools/try_mutant.sh $base/$id.out/patch.diff $id 2>&1 | grep -E "VIOLATION|tier=" | tail -2
  /verif/tools/confirm_mutant.sh $id $base | tail -1 | cut -c1-170
done
