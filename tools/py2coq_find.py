#!/usr/bin/env python3
"""Fail-closed translator (route T) for C06.

Reads  $TRACKPY_REPO/trackpy/find.py  (default /repo) with the Python `ast` module and
regenerates  /verif/coq/Gen/find.v :

    percentile_threshold   the non-black pixels, NaN when there are none, np.percentile
    where_close            the two empty answers, the rescaling, query_pairs, which member of a
                           close pair is reported (intensity, then coordinate sum, then the first)
    drop_close             np.delete of what where_close reports
    grey_dilation          convert_to_int, the default margin, the threshold, the box size, the
                           dilation, the maxima mask, the near-edge rejection, the three early
                           returns, the optional drop_close

statement by statement, as let-bound Gallina over the vocabulary of coq/Model/PyFind.v.
Proofs/FindGen.v proves the generated functions equal to the hand-written model
(Model/Dilation.v) the C06 theorems are stated about, for all inputs, and
Properties/C06.v restates the headline theorems for the generated functions.
(grey_dilation_legacy is not part of C06 and is not translated.)

Embedding
  * a Python variable is a let-bound Coq variable of the same name; `x = e`, `t[mask] = e`
    rebind the variable they change; names the generator itself emits are refused as
    variable names;
  * every expression is typed (image, pointwise n-D array of ints / bools, float-or-NaN,
    rational, integer, bool, vectors, N x d rows, index vector, pair list, optional vector);
    an operator is translated by the types of its operands, anything not in the table is an error;
  * `if c: [warnings.warn(...)] return e` is `if c then e else <rest>`;
    `if x is None: x = e` is `let x := match x with None => e | Some x => x end`;
    `if x is None: A else: B` is a `match` whose Some-branch rebinds x to the value;
    any other `if` yields the tuple of the variables it assigns that exist before it or
    are assigned in both branches; no loops (the four functions have none);
  * `[e for s in v]` / `tuple([...])` is `map (fun s => e) v`;
  * `warnings.warn("...", UserWarning)` is dropped (a comment is left);
  * the unused first component of `factor, image = convert_to_int(image, dtype=np.uint8)`
    is dropped and may not be read.

Extra (Coq-only) parameters of the generated functions
    np_percentile : list Z -> Q -> Q     np.percentile (named primitive, a parameter)
    image_is_float : bool                the dtype of grey_dilation's image (whether convert_to_int rescales)
    {A} (inj : A -> list Q)              where_close / drop_close: the row type of pos and its embedding
                                         into rationals (numpy's promotion in pos / separation)
    pos_is_frame : bool                  the value of isinstance(pos, pd.DataFrame)

Primitives (exact syntactic patterns; meaning fixed in Model/PyFind.v):
    convert_to_int(I, dtype=np.uint8)                     convert_to_int_uint8 image_is_float I
    ndimage.grey_dilation(I, S, mode='constant')          ndimage_grey_dilation_constant I S
    np.percentile(A, Q)                                   py_float (np_percentile A Q)
    cKDTree(R, 30).query_pairs(1 - 1e-07)                 ckdtree_query_pairs_lt1 R
    validate_tuple(X, N)                                  validate_tuple X N
    int(E / np.sqrt(N)) ; int(E)                          int_div_sqrt E N ; py_int E
    I[np.nonzero(I)] ; np.vstack(np.where(M)).T ; np.sum(M) == 0 ; I[M]
    np.array(I.shape) ; I.ndim ; P.shape[1] ; np.empty((0, N)) ; np.nan ; np.isnan(X)
    np.any(M, 1) ; np.any(V) ; any(V) ; np.sum(R, 1) ; np.where(C, A, B)
    np.fromiter((x[K] for x in D), dtype=int) ; np.asarray(V) ; np.unique(V) ; np.delete(P, V, axis=0)
    isinstance(P, pd.DataFrame) ; P.values
The defaults of the signatures (percentile=64, margin=None, precise=True, intensity=None) and the
module's imports of the primitives are pinned.

Anything outside this subset: exit status 2, nothing written (the check treats that like a
broken proof).

Usage:  py2coq_find.py [--repo /repo] [--out /verif/coq/Gen/find.v] [--stdout]
"""
import ast, sys, os, argparse


class TranslationError(Exception):
    pass


def fail(node, msg):
    raise TranslationError('line %s: %s' % (getattr(node, 'lineno', '?'), msg))


COQTY = {'image': 'np_image', 'ndZ': 'nda Z', 'ndB': 'nda bool', 'F': 'pyfloat', 'Q': 'Q', 'Z': 'Z', 'B': 'bool',
         'qvec': 'list Q', 'zvec': 'list Z', 'bvec': 'list bool', 'bmat': 'list (list bool)',
         'zrows': 'list (list Z)', 'qrows': 'list (list Q)', 'rows': 'list A', 'pairs': 'list (nat * nat)',
         'idx': 'list nat', 'optzvec': 'option (list Z)'}
LISTS = ('qvec', 'zvec', 'bvec', 'bmat', 'zrows', 'qrows', 'rows', 'pairs', 'idx')
ROWINFO = {'rows': ('inj', 'pos_is_frame'), 'zrows': ('(map inject_Z)', 'false'), 'qrows': ('(fun p => p)', 'false')}

# identifiers the generator emits (vocabulary, Coq keywords, stdlib names): not allowed as Python variable names
RESERVED = set("""
np_image nda mk_nda nd_shape nd_at nd np_ndim np_shape nd_ravel pyfloat np_nan np_isnan py_float np_eq np_gt np_ge np_and
np_argwhere np_sum_bool np_mask_index np_nonzero_values ndimage_grey_dilation_constant convert_to_int_uint8
ckdtree_query_pairs_lt1 validate_tuple py_int int_div_sqrt py_len np_empty_rows zip_with vec_ltZ vec_gtZ vec_leZ vec_geZ
vec_eqZ vec_gtQ vec_sub vec_sub_scalar vec_not rows_lt rows_gt rows_le rows_ge mat_or np_any np_any_rows df_values
np_asarray np_shape1 np_div_rows np_take_rows np_take np_sum_rows np_where3 np_mask_assign np_unique np_delete mask_select
np_percentile image_is_float inj pos_is_frame A map fst snd Some None true false negb inject_Z Qeq_bool Qplus Qminus Qmult
Qdiv Z Q bool list nat option fun let in if then else match with end as return forall exists fix cofix Type Prop Set
Definition Fixpoint where_close drop_close percentile_threshold grey_dilation at using
""".split())


# ---------------------------------------------------------------------------
# syntactic patterns
# ---------------------------------------------------------------------------
def P(src):
    return ast.parse(src, mode='eval').body


def match(p, n, b):
    """structural match of pattern p against node n; E_x binds an expression (the same
    binder twice: the same expression), F_x a Name, K_x an int constant"""
    if isinstance(p, ast.Name):
        if p.id.startswith('E_'):
            if p.id in b:
                return ast.dump(b[p.id]) == ast.dump(n)
            b[p.id] = n
            return True
        if p.id.startswith('F_'):
            if not isinstance(n, ast.Name):
                return False
            if p.id in b:
                return b[p.id] == n.id
            b[p.id] = n.id
            return True
        if p.id.startswith('K_'):
            if not (isinstance(n, ast.Constant) and isinstance(n.value, int) and not isinstance(n.value, bool)):
                return False
            b[p.id] = n.value
            return True
        return isinstance(n, ast.Name) and n.id == p.id
    if type(p) is not type(n):
        return False
    for fld in p._fields:
        if fld in ('ctx', 'type_comment', 'kind'):
            continue
        pv, nv = getattr(p, fld, None), getattr(n, fld, None)
        if isinstance(pv, list):
            if not isinstance(nv, list) or len(pv) != len(nv):
                return False
            for x, y in zip(pv, nv):
                if isinstance(x, ast.AST):
                    if not match(x, y, b):
                        return False
                elif x != y:
                    return False
        elif isinstance(pv, ast.AST):
            if not isinstance(nv, ast.AST) or not match(pv, nv, b):
                return False
        elif pv != nv:
            return False
    return True


PAT = {k: P(v) for k, v in {
    'nonzero': "E_a[np.nonzero(E_a)]",
    'percentile': "np.percentile(E_a, E_q)",
    'nan': "np.nan",
    'isnan': "np.isnan(E_x)",
    'convert': "convert_to_int(E_i, dtype=np.uint8)",
    'ndim': "E_i.ndim",
    'validate': "validate_tuple(E_s, E_n)",
    'tuple': "tuple(E_l)",
    'int_div_sqrt': "int(E_x / np.sqrt(E_n))",
    'int': "int(E_x)",
    'len0': "len(E_x) == 0",
    'sum0': "np.sum(E_m) == 0",
    'dilation': "ndimage.grey_dilation(E_i, E_s, mode='constant')",
    'argwhere': "np.vstack(np.where(E_m)).T",
    'shape': "np.array(E_i.shape)",
    'shape1': "E_p.shape[1]",
    'any_rows': "np.any(E_m, 1)",
    'np_any': "np.any(E_v)",
    'py_any': "any(E_v)",
    'sum_rows': "np.sum(E_m, 1)",
    'where3': "np.where(E_c, E_a, E_b)",
    'empty': "np.empty((0, E_n))",
    'kdtree': "cKDTree(E_r, 30).query_pairs(1 - 1e-07)",
    'fromiter': "np.fromiter((F_x[K_k] for F_x in E_d), dtype=int)",
    'asarray': "np.asarray(E_v)",
    'unique': "np.unique(E_v)",
    'delete': "np.delete(E_p, E_i, axis=0)",
    'isframe': "isinstance(E_p, pd.DataFrame)",
    'values': "E_p.values",
    'warn': "warnings.warn(E_s, UserWarning)",
    'is_none': "F_x is None",
}.items()}


def cmt(text):
    return text.replace('"', "'").replace('(*', '( *').replace('*)', '* )')


def assigned(stmts):
    out = []

    def add(x):
        if x not in out:
            out.append(x)

    def target(t):
        if isinstance(t, ast.Name):
            add(t.id)
        elif isinstance(t, ast.Tuple):
            for x in t.elts:
                target(x)
        elif isinstance(t, ast.Subscript) and isinstance(t.value, ast.Name):
            add(t.value.id)
        else:
            fail(t, 'unsupported assignment target')

    def walk(ss):
        for s in ss:
            if isinstance(s, ast.Assign):
                for t in s.targets:
                    target(t)
            elif isinstance(s, ast.AugAssign):
                target(s.target)
            elif isinstance(s, ast.If):
                walk(s.body); walk(s.orelse)
    walk(stmts)
    return out


SIGS = {
    'percentile_threshold': dict(names=['image', 'percentile'], defaults=[], params=[('image', 'image'), ('percentile', 'Q')], ret='F',
                                 extra='(np_percentile : list Z -> Q -> Q) ', call='np_percentile'),
    'where_close': dict(names=['pos', 'separation', 'intensity'], defaults=['None'],
                        params=[('pos', 'rows'), ('separation', 'qvec'), ('intensity', 'optzvec')], ret='idx',
                        extra='{A : Type} (inj : A -> list Q) (pos_is_frame : bool) '),
    'drop_close': dict(names=['pos', 'separation', 'intensity'], defaults=['None'],
                       params=[('pos', 'rows'), ('separation', 'qvec'), ('intensity', 'optzvec')], ret='rows',
                       extra='{A : Type} (inj : A -> list Q) (pos_is_frame : bool) '),
    'grey_dilation': dict(names=['image', 'separation', 'percentile', 'margin', 'precise'], defaults=['64', 'None', 'True'],
                          params=[('image', 'image'), ('separation', 'qvec'), ('percentile', 'Q'), ('margin', 'optzvec'), ('precise', 'B')],
                          ret='zrows', extra='(np_percentile : list Z -> Q -> Q) (image_is_float : bool) '),
}
ORDER = ['percentile_threshold', 'where_close', 'drop_close', 'grey_dilation']


class Fn:
    def __init__(self, fdef):
        self.f = fdef
        self.name = fdef.name
        self.sig = SIGS[fdef.name]
        self.env = {}
        self.opaque = {}
        for n, t in self.sig['params']:
            self.bind(fdef, n, t)

    # -------------------------------------------------------------- environment
    def bind(self, node, name, ty):
        if name in RESERVED or name.startswith('_') or not name.isidentifier() or not name.isascii():
            fail(node, 'variable name %s collides with the generated vocabulary' % name)
        self.env[name] = ty
        self.opaque.pop(name, None)

    def var(self, node, name):
        if name in self.opaque:
            fail(node, 'name %s is read where it has no value in the model (%s)' % (name, self.opaque[name]))
        if name not in self.env:
            fail(node, 'name %s is read where it is not bound' % name)
        return name, self.env[name]

    # -------------------------------------------------------------- expressions
    def exT(self, e, *want):
        s, t = self.ex(e)
        if t not in want:
            fail(e, 'expression `%s` has type %s, expected %s' % (ast.unparse(e), t, ' or '.join(want)))
        return s

    def exQ(self, e):
        if isinstance(e, ast.Constant) and isinstance(e.value, int) and not isinstance(e.value, bool):
            return '(%d # 1)%%Q' % e.value if e.value >= 0 else '((%d) # 1)%%Q' % e.value
        return self.exT(e, 'Q')

    def exZ(self, e):
        if isinstance(e, ast.Constant) and isinstance(e.value, int) and not isinstance(e.value, bool):
            return '%d' % e.value if e.value >= 0 else '(%d)' % e.value
        return self.exT(e, 'Z')

    def exND(self, e):
        s, t = self.ex(e)
        if t == 'image':
            return '(nd %s)' % s
        if t == 'ndZ':
            return s
        fail(e, 'expression `%s` has type %s, expected an integer n-D array' % (ast.unparse(e), t))

    def exRows(self, e):
        """rows expression with its embedding and frame flag"""
        s, t = self.ex(e)
        if t not in ROWINFO:
            fail(e, 'expression `%s` has type %s, expected an N x d array' % (ast.unparse(e), t))
        return s, t, ROWINFO[t][0], ROWINFO[t][1]

    @staticmethod
    def is_const(e):
        return isinstance(e, ast.Constant) and isinstance(e.value, int) and not isinstance(e.value, bool)

    def ex(self, e):
        b = {}
        if match(PAT['nonzero'], e, b):
            return '(np_nonzero_values %s)' % self.exND(b['E_a']), 'zvec'
        b = {}
        if match(PAT['percentile'], e, b):
            if 'call' not in self.sig:
                fail(e, 'np.percentile outside percentile_threshold')
            return '(py_float (np_percentile %s %s))' % (self.exT(b['E_a'], 'zvec'), self.exQ(b['E_q'])), 'F'
        if match(PAT['nan'], e, {}):
            return 'np_nan', 'F'
        b = {}
        if match(PAT['isnan'], e, b):
            return '(np_isnan %s)' % self.exT(b['E_x'], 'F'), 'B'
        b = {}
        if match(PAT['ndim'], e, b):
            return '(np_ndim %s)' % self.exT(b['E_i'], 'image'), 'Z'
        b = {}
        if match(PAT['validate'], e, b):
            s, t = self.ex(b['E_s'])
            if t not in ('qvec', 'zvec'):
                fail(e, 'validate_tuple of a %s' % t)
            return '(validate_tuple %s %s)' % (s, self.exZ(b['E_n'])), t
        b = {}
        if match(PAT['tuple'], e, b):
            s, t = self.ex(b['E_l'])
            if t not in ('qvec', 'zvec', 'bvec'):
                fail(e, 'tuple() of a %s' % t)
            return s, t
        b = {}
        if match(PAT['int_div_sqrt'], e, b):
            return '(int_div_sqrt %s %s)' % (self.exQ(b['E_x']), self.exZ(b['E_n'])), 'Z'
        b = {}
        if match(PAT['int'], e, b):
            return '(py_int %s)' % self.exT(b['E_x'], 'Q'), 'Z'
        b = {}
        if match(PAT['len0'], e, b):
            s, t = self.ex(b['E_x'])
            if t not in LISTS:
                fail(e, 'len of a %s' % t)
            return '(py_len %s =? 0)' % s, 'B'
        b = {}
        if match(PAT['sum0'], e, b):
            return '(np_sum_bool %s =? 0)' % self.exT(b['E_m'], 'ndB'), 'B'
        b = {}
        if match(PAT['dilation'], e, b):
            return '(ndimage_grey_dilation_constant %s %s)' % (self.exT(b['E_i'], 'image'), self.exT(b['E_s'], 'zvec')), 'ndZ'
        b = {}
        if match(PAT['argwhere'], e, b):
            return '(np_argwhere %s)' % self.exT(b['E_m'], 'ndB'), 'zrows'
        b = {}
        if match(PAT['shape'], e, b):
            return '(np_shape %s)' % self.exT(b['E_i'], 'image'), 'zvec'
        b = {}
        if match(PAT['shape1'], e, b):
            s, t, inj, _ = self.exRows(b['E_p'])
            return '(np_shape1 %s %s)' % (inj, s), 'Z'
        b = {}
        if match(PAT['any_rows'], e, b):
            return '(np_any_rows %s)' % self.exT(b['E_m'], 'bmat'), 'bvec'
        b = {}
        if match(PAT['np_any'], e, b) or match(PAT['py_any'], e, b):
            return '(np_any %s)' % self.exT(b['E_v'], 'bvec'), 'B'
        b = {}
        if match(PAT['sum_rows'], e, b):
            return '(np_sum_rows %s)' % self.exT(b['E_m'], 'qrows'), 'qvec'
        b = {}
        if match(PAT['where3'], e, b):
            c = self.exT(b['E_c'], 'bvec')
            x, tx = self.ex(b['E_a'])
            y, ty = self.ex(b['E_b'])
            if tx != ty or tx not in ('idx', 'zvec'):
                fail(e, 'np.where over %s and %s' % (tx, ty))
            return '(np_where3 %s %s %s)' % (c, x, y), tx
        b = {}
        if match(PAT['empty'], e, b):
            return '(np_empty_rows %s)' % self.exZ(b['E_n']), 'zrows'
        b = {}
        if match(PAT['kdtree'], e, b):
            return '(ckdtree_query_pairs_lt1 %s)' % self.exT(b['E_r'], 'qrows'), 'pairs'
        b = {}
        if match(PAT['fromiter'], e, b):
            if b['K_k'] not in (0, 1):
                fail(e, 'component %r of a pair' % b['K_k'])
            return '(map %s %s)' % (('fst', 'snd')[b['K_k']], self.exT(b['E_d'], 'pairs')), 'idx'
        b = {}
        if match(PAT['asarray'], e, b):
            return '(np_asarray %s)' % self.exT(b['E_v'], 'zvec'), 'zvec'
        b = {}
        if match(PAT['unique'], e, b):
            return '(np_unique %s)' % self.exT(b['E_v'], 'idx'), 'idx'
        b = {}
        if match(PAT['delete'], e, b):
            s, t, _, _ = self.exRows(b['E_p'])
            return '(np_delete %s %s)' % (s, self.exT(b['E_i'], 'idx')), t
        b = {}
        if match(PAT['isframe'], e, b):
            s, t, _, flag = self.exRows(b['E_p'])
            return flag, 'B'
        b = {}
        if match(PAT['values'], e, b):
            s, t, _, _ = self.exRows(b['E_p'])
            return '(df_values %s)' % s, t
        if isinstance(e, ast.Name):
            if e.id in ('True', 'False'):
                fail(e, 'unsupported constant')
            return self.var(e, e.id)
        if isinstance(e, ast.Constant):
            fail(e, 'constant %r in a position where its type is not determined' % (e.value,))
        if isinstance(e, ast.ListComp):
            g = e.generators
            if len(g) != 1 or g[0].ifs or g[0].is_async or not isinstance(g[0].target, ast.Name):
                fail(e, 'unsupported list comprehension')
            src, ts = self.ex(g[0].iter)
            if ts not in ('qvec', 'zvec'):
                fail(e, 'list comprehension over a %s' % ts)
            x = g[0].target.id
            saved = (self.env.get(x), self.opaque.get(x))
            self.bind(e, x, 'Q' if ts == 'qvec' else 'Z')
            body, tb = self.ex(e.elt)
            self.env.pop(x, None)
            if saved[0] is not None:
                self.env[x] = saved[0]
            if saved[1] is not None:
                self.opaque[x] = saved[1]
            out = {'Q': 'qvec', 'Z': 'zvec', 'B': 'bvec'}.get(tb)
            if out is None:
                fail(e, 'list comprehension producing %s' % tb)
            return '(map (fun %s => %s) %s)' % (x, body, src), out
        if isinstance(e, ast.UnaryOp):
            if isinstance(e.op, ast.Invert):
                return '(vec_not %s)' % self.exT(e.operand, 'bvec'), 'bvec'
            fail(e, 'unsupported unary operator')
        if isinstance(e, ast.BinOp):
            return self.binop(e)
        if isinstance(e, ast.Compare):
            return self.compare(e)
        if isinstance(e, ast.Subscript):
            v, tv = self.ex(e.value)
            i, ti = self.ex(e.slice)
            if tv in ('image', 'ndZ') and ti == 'ndB':
                return '(np_mask_index %s %s)' % ('(nd %s)' % v if tv == 'image' else v, i), 'zvec'
            if tv in ('zvec', 'zrows', 'idx', 'rows', 'qrows') and ti == 'bvec':
                return '(mask_select %s %s)' % (i, v), tv
            if tv == 'qrows' and ti == 'idx':
                return '(np_take_rows %s %s)' % (v, i), 'qrows'
            if tv == 'zvec' and ti == 'idx':
                return '(np_take %s %s)' % (v, i), 'zvec'
            fail(e, 'unsupported indexing of a %s by a %s' % (tv, ti))
        if isinstance(e, ast.Call):
            return self.call(e)
        fail(e, 'unsupported expression `%s`' % ast.unparse(e))

    def binop(self, e):
        l, r, op = e.left, e.right, e.op
        if self.is_const(l) and self.is_const(r):
            fail(e, 'constant arithmetic')
        tl = None if self.is_const(l) else self.ex(l)
        tr = None if self.is_const(r) else self.ex(r)
        ty = (tl or tr)[1]
        other = (tr or tl)[1]
        if ty == 'Q' and other == 'Q':
            a, c = self.exQ(l), self.exQ(r)
            for k, f in ((ast.Add, 'Qplus'), (ast.Sub, 'Qminus'), (ast.Mult, 'Qmult'), (ast.Div, 'Qdiv')):
                if isinstance(op, k):
                    return '(%s %s %s)' % (f, a, c), 'Q'
            fail(e, 'unsupported operator on rationals')
        if ty == 'Z' and other == 'Z':
            a, c = self.exZ(l), self.exZ(r)
            for k, f in ((ast.Add, '+'), (ast.Sub, '-'), (ast.Mult, '*')):
                if isinstance(op, k):
                    return '(%s %s %s)' % (a, f, c), 'Z'
            fail(e, 'unsupported operator on integers')
        if isinstance(op, ast.Sub) and tl and tl[1] == 'zvec' and tr and tr[1] == 'zvec':
            return '(vec_sub %s %s)' % (tl[0], tr[0]), 'zvec'
        if isinstance(op, ast.Sub) and tl and tl[1] == 'zvec' and tr is None:
            return '(vec_sub_scalar %s %s)' % (tl[0], self.exZ(r)), 'zvec'
        if isinstance(op, ast.Div) and tl and tl[1] in ROWINFO and tr and tr[1] == 'qvec':
            return '(np_div_rows %s %s %s)' % (ROWINFO[tl[1]][0], tl[0], tr[0]), 'qrows'
        if isinstance(op, ast.BitAnd) and tl and tr and tl[1] == 'ndB' and tr[1] == 'ndB':
            return '(np_and %s %s)' % (tl[0], tr[0]), 'ndB'
        if isinstance(op, ast.BitOr) and tl and tr and tl[1] == 'bmat' and tr[1] == 'bmat':
            return '(mat_or %s %s)' % (tl[0], tr[0]), 'bmat'
        fail(e, 'unsupported operator %s on %s and %s' % (type(op).__name__, tl[1] if tl else 'a constant', tr[1] if tr else 'a constant'))

    def compare(self, e):
        if len(e.ops) != 1:
            fail(e, 'chained comparison')
        op, l, r = e.ops[0], e.left, e.comparators[0]
        if self.is_const(l):
            fail(e, 'constant on the left of a comparison')
        a, ta = self.ex(l)
        if self.is_const(r):
            if ta == 'Q' and isinstance(op, ast.Eq):
                return '(Qeq_bool %s %s)' % (a, self.exQ(r)), 'B'
            if ta == 'Z':
                for k, f in ((ast.Eq, '=?'), (ast.Lt, '<?'), (ast.LtE, '<=?')):
                    if isinstance(op, k):
                        return '(%s %s %s)' % (a, f, self.exZ(r)), 'B'
            fail(e, 'unsupported comparison of a %s with a constant' % ta)
        c, tc = self.ex(r)
        nd = lambda s, t: '(nd %s)' % s if t == 'image' else s
        if ta in ('image', 'ndZ') and tc in ('image', 'ndZ') and isinstance(op, ast.Eq):
            return '(np_eq %s %s)' % (nd(a, ta), nd(c, tc)), 'ndB'
        if ta in ('image', 'ndZ') and tc == 'F':
            for k, f in ((ast.Gt, 'np_gt'), (ast.GtE, 'np_ge')):
                if isinstance(op, k):
                    return '(%s %s %s)' % (f, nd(a, ta), c), 'ndB'
        if ta == 'zrows' and tc == 'zvec':
            for k, f in ((ast.Lt, 'rows_lt'), (ast.Gt, 'rows_gt'), (ast.LtE, 'rows_le'), (ast.GtE, 'rows_ge')):
                if isinstance(op, k):
                    return '(%s %s %s)' % (f, a, c), 'bmat'
        if ta == 'qvec' and tc == 'qvec' and isinstance(op, ast.Gt):
            return '(vec_gtQ %s %s)' % (a, c), 'bvec'
        if ta == 'zvec' and tc == 'zvec':
            for k, f in ((ast.Gt, 'vec_gtZ'), (ast.Eq, 'vec_eqZ'), (ast.Lt, 'vec_ltZ'), (ast.GtE, 'vec_geZ'), (ast.LtE, 'vec_leZ')):
                if isinstance(op, k):
                    return '(%s %s %s)' % (f, a, c), 'bvec'
        if ta == 'Z' and tc == 'Z':
            for k, f in ((ast.Eq, '=?'), (ast.Lt, '<?'), (ast.LtE, '<=?')):
                if isinstance(op, k):
                    return '(%s %s %s)' % (a, f, c), 'B'
        fail(e, 'unsupported comparison %s of a %s with a %s' % (type(op).__name__, ta, tc))

    def call(self, e):
        if not isinstance(e.func, ast.Name) or e.keywords:
            fail(e, 'unsupported call `%s`' % ast.unparse(e))
        fn = e.func.id
        if fn == 'percentile_threshold' and self.name == 'grey_dilation' and len(e.args) == 2:
            return '(percentile_threshold np_percentile %s %s)' % (self.exT(e.args[0], 'image'), self.exQ(e.args[1])), 'F'
        if fn in ('where_close', 'drop_close') and len(e.args) == 3 and \
                ((fn == 'where_close' and self.name == 'drop_close') or (fn == 'drop_close' and self.name == 'grey_dilation')):
            s, t, inj, flag = self.exRows(e.args[0])
            sep = self.exT(e.args[1], 'qvec')
            i, ti = self.ex(e.args[2])
            if ti == 'zvec':
                i = '(Some %s)' % i
            elif ti != 'optzvec':
                fail(e, 'intensity argument of type %s' % ti)
            return '(%s %s %s %s %s %s)' % (fn, inj, flag, s, sep, i), ('idx' if fn == 'where_close' else t)
        fail(e, 'unsupported call `%s`' % ast.unparse(e))

    # -------------------------------------------------------------- statements
    def tup(self, names):
        return '(' + ', '.join(names) + ')' if len(names) != 1 else names[0]

    def pat(self, names):
        return "'(" + ', '.join(names) + ')' if len(names) != 1 else names[0]

    def no_tail(self, node):
        def t():
            fail(node, 'control reaches the end of a block that has to return')
        return t

    def seq(self, stmts, tail, ind):
        if not stmts:
            return ind + tail()
        s, rest = stmts[0], stmts[1:]

        def go():
            return self.seq(rest, tail, ind)

        if isinstance(s, ast.Pass):
            return go()
        if isinstance(s, ast.Expr) and isinstance(s.value, ast.Constant) and isinstance(s.value.value, str):
            return go()
        if isinstance(s, ast.Expr):
            b = {}
            if match(PAT['warn'], s.value, b) and isinstance(b['E_s'], ast.Constant) and isinstance(b['E_s'].value, str):
                return '%s(* warnings.warn: %s *)\n' % (ind, cmt(b['E_s'].value)) + go()
            fail(s, 'unsupported statement `%s`' % ast.unparse(s))
        if isinstance(s, ast.Return):
            if rest:
                fail(s, 'statements after return')
            if s.value is None:
                fail(s, 'return without a value')
            ret = self.sig['ret']
            if isinstance(s.value, ast.List) and not s.value.elts and ret in LISTS:
                return ind + '[]'
            v, t = self.ex(s.value)
            if t != ret:
                fail(s, 'return of a %s from a function returning %s' % (t, ret))
            return ind + v
        if isinstance(s, ast.Assign):
            return self.assign(s, ind, go)
        if isinstance(s, ast.If):
            return self.ifstmt(s, rest, tail, ind)
        fail(s, 'unsupported statement %s' % type(s).__name__)

    def assign(self, s, ind, go):
        if len(s.targets) != 1:
            fail(s, 'chained assignment')
        t = s.targets[0]
        b = {}
        # factor, image = convert_to_int(image, dtype=np.uint8)
        if isinstance(t, ast.Tuple) and match(PAT['convert'], s.value, b):
            if self.name != 'grey_dilation' or len(t.elts) != 2 or not all(isinstance(x, ast.Name) for x in t.elts) \
                    or t.elts[0].id == t.elts[1].id:
                fail(s, 'unsupported use of convert_to_int')
            src = self.exT(b['E_i'], 'image')
            self.env.pop(t.elts[0].id, None)
            self.opaque[t.elts[0].id] = 'the scale factor of convert_to_int is not modelled'
            self.bind(s, t.elts[1].id, 'image')
            return '%slet %s := convert_to_int_uint8 image_is_float %s in\n' % (ind, t.elts[1].id, src) + go()
        if isinstance(t, ast.Name):
            v, tv = self.ex(s.value)
            self.bind(s, t.id, tv)
            return '%slet %s := %s in\n' % (ind, t.id, v) + go()
        if isinstance(t, ast.Subscript) and isinstance(t.value, ast.Name):
            n, tn = self.var(s, t.value.id)
            m = self.exT(t.slice, 'bvec')
            v, tv = self.ex(s.value)
            if tn != tv or tn not in ('idx', 'zvec'):
                fail(s, 'unsupported mask assignment of a %s into a %s' % (tv, tn))
            self.bind(s, n, tn)
            return '%slet %s := np_mask_assign %s %s %s in\n' % (ind, n, n, m, v) + go()
        fail(s, 'unsupported assignment target')

    def snapshot(self):
        return dict(self.env), dict(self.opaque)

    def restore(self, snap):
        self.env, self.opaque = dict(snap[0]), dict(snap[1])

    def ifstmt(self, s, rest, tail, ind):
        none = {}
        is_none = match(PAT['is_none'], s.test, none)
        x = none.get('F_x')
        if is_none:
            _, tx = self.var(s, x)
            if tx != 'optzvec':
                fail(s, '`is None` on a %s' % tx)
            cond = None
        else:
            cond = self.exT(s.test, 'B')
        snap = self.snapshot()

        def enter(branch):
            """environment at the start of a branch: 'then' / 'else'"""
            self.restore(snap)
            if is_none and branch == 'then':
                self.env.pop(x, None)
                self.opaque[x] = 'it is None here'
            if is_none and branch == 'else':
                self.env[x] = 'zvec'

        # ---- early return: if c: [...] return e
        if s.body and isinstance(s.body[-1], ast.Return) and not s.orelse:
            if is_none:
                fail(s, 'unsupported early return on `is None`')
            for n in s.body[:-1]:
                for k in ast.walk(n):
                    if isinstance(k, ast.Return):
                        fail(k, 'nested return')
            enter('then')
            a = self.seq(s.body, self.no_tail(s), ind + '  ')
            self.restore(snap)
            return '%sif %s then\n%s\n%selse\n' % (ind, cond, a, ind) + self.seq(rest, tail, ind)
        for n in s.body + s.orelse:
            for k in ast.walk(n):
                if isinstance(k, ast.Return):
                    fail(k, 'unsupported return inside an if')
        # ---- if x is None: x = e
        if is_none and not s.orelse and len(s.body) == 1 and isinstance(s.body[0], ast.Assign) \
                and len(s.body[0].targets) == 1 and isinstance(s.body[0].targets[0], ast.Name) and s.body[0].targets[0].id == x:
            enter('then')
            v = self.exT(s.body[0].value, 'zvec')
            self.restore(snap)
            self.bind(s, x, 'zvec')
            return '%slet %s := match %s with None => %s | Some %s => %s end in\n' % (ind, x, x, v, x, x) + self.seq(rest, tail, ind)
        # ---- general: two passes (the first finds out which variables come out of the branches)
        W = [v for v in assigned([s]) if not (is_none and v == x)]

        def run(fin):
            enter('then')
            a = self.seq(s.body, fin, ind + '    ')
            ea = dict(self.env)
            enter('else')
            bb = self.seq(s.orelse, fin, ind + '    ')
            eb = dict(self.env)
            return a, bb, ea, eb

        _, _, ea, eb = run(lambda: 'tt')
        out = []
        for v in W:
            if v in ea and v in eb:
                if ea[v] != eb[v]:
                    fail(s, 'variable %s has type %s in one branch and %s in the other' % (v, ea[v], eb[v]))
                out.append(v)
        if not out:
            fail(s, 'an if that changes nothing visible')
        a, bb, ea, eb = run(lambda: self.tup(out))
        self.restore(snap)
        for v in W:
            if v in out:
                self.bind(s, v, ea[v])
            else:
                self.env.pop(v, None)
                self.opaque[v] = 'assigned in only one branch of the if at line %d' % s.lineno
        if is_none and x in assigned([s]):
            self.env.pop(x, None)
            self.opaque[x] = 'rebound inside the `is None` test at line %d' % s.lineno
        if is_none:
            head = '%slet %s :=\n%s  match %s with\n%s  | None =>\n%s\n%s  | Some %s =>\n%s\n%s  end in\n' % (
                ind, self.pat(out), ind, x, ind, a, ind, x, bb, ind)
        else:
            head = '%slet %s :=\n%s  if %s then\n%s\n%s  else\n%s in\n' % (ind, self.pat(out), ind, cond, a, ind, bb)
        return head + self.seq(rest, tail, ind)

    # -------------------------------------------------------------- function
    def translate(self):
        for s in self.f.body:
            for n in ast.walk(s):
                if isinstance(n, (ast.While, ast.For, ast.Try, ast.With, ast.DictComp, ast.SetComp, ast.Yield, ast.YieldFrom,
                                  ast.FunctionDef, ast.Lambda, ast.Global, ast.Nonlocal, ast.Delete, ast.Raise, ast.Await,
                                  ast.NamedExpr, ast.Starred, ast.IfExp, ast.AugAssign, ast.Assert, ast.BoolOp)):
                    fail(n, 'unsupported construct %s' % type(n).__name__)
        main = self.seq(list(self.f.body), self.no_tail(self.f), '  ')
        binders = self.sig['extra'] + ''.join('(%s : %s) ' % (n, COQTY[t]) for n, t in self.sig['params'])
        out = '(* ===== %s (line %d) ===== *)\n' % (self.name, self.f.lineno)
        out += 'Definition %s %s: %s :=\n%s.\n' % (self.name, binders, COQTY[self.sig['ret']], main)
        return out


def check_sig(fdef, names, defaults):
    a = fdef.args
    got = [x.arg for x in a.args]
    if got != names or a.vararg or a.kwonlyargs or getattr(a, 'posonlyargs', []) or a.kwarg:
        fail(fdef, 'signature of %s changed: %s' % (fdef.name, got))
    if [ast.unparse(d) for d in a.defaults] != defaults:
        fail(fdef, 'defaults of %s changed: %s' % (fdef.name, [ast.unparse(d) for d in a.defaults]))
    if fdef.decorator_list:
        fail(fdef, 'decorated function')


HEADER = """(* GENERATED by tools/py2coq_find.py from trackpy/find.py -- do not edit.
   percentile_threshold, where_close, drop_close and grey_dilation, statement by statement, as
   let-bound Gallina over Model/PyFind.v (vocabulary, list of the numpy / scipy primitives,
   conventions; see also the translator's docstring).
   Extra parameters:  np_percentile  : np.percentile (named primitive)
                      image_is_float : whether the image handed to grey_dilation has a float dtype
                      A, inj         : row type of pos and its embedding into rationals
                      pos_is_frame   : isinstance(pos, pd.DataFrame)
   Pinned defaults: grey_dilation(percentile=64, margin=None, precise=True); intensity=None. *)
From Coq Require Import ZArith QArith List Bool.
From TP Require Import Model.Dilation Model.PyFind.
Import ListNotations.
Open Scope Z_scope.
"""

WANT_IMPORTS = {'np': ('numpy', None), 'pd': ('pandas', None), 'ndimage': ('scipy', 'ndimage'), 'cKDTree': ('scipy.spatial', 'cKDTree'),
                'validate_tuple': ('.utils', 'validate_tuple'), 'convert_to_int': ('.preprocessing', 'convert_to_int'),
                'warnings': ('warnings', None)}


def translate(repo):
    path = os.path.join(repo, 'trackpy', 'find.py')
    src = open(path).read()
    tree = ast.parse(src)
    defs = {}
    imports = {}
    for n in tree.body:
        if isinstance(n, ast.FunctionDef):
            if n.name in defs:
                fail(n, 'function %s defined twice' % n.name)
            defs[n.name] = n
        elif isinstance(n, ast.ImportFrom):
            for al in n.names:
                if (al.asname or al.name) in imports:
                    fail(n, 'name %s imported twice' % (al.asname or al.name))
                imports[al.asname or al.name] = (('.' * n.level) + (n.module or ''), al.name)
        elif isinstance(n, ast.Import):
            for al in n.names:
                if (al.asname or al.name) in imports:
                    fail(n, 'name %s imported twice' % (al.asname or al.name))
                imports[al.asname or al.name] = (al.name, None)
        elif isinstance(n, ast.Assign) and ast.unparse(n) == 'logger = logging.getLogger(__name__)':
            pass
        elif isinstance(n, ast.Expr) and isinstance(n.value, ast.Constant) and isinstance(n.value.value, str):
            pass
        else:
            fail(n, 'unexpected module-level statement `%s`' % ast.unparse(n).split('\n')[0])
    for k, v in WANT_IMPORTS.items():
        if imports.get(k) != v:
            raise TranslationError('the module no longer binds %s to %s%s' % (k, v[0], '.' + v[1] if v[1] else ''))
    for k in list(defs) + ['logger']:
        if k in imports:
            raise TranslationError('name %s is both imported and defined' % k)
    text = HEADER
    for name in ORDER:
        if name not in defs:
            raise TranslationError('function %s not found' % name)
        check_sig(defs[name], SIGS[name]['names'], SIGS[name]['defaults'])
        text += '\n' + Fn(defs[name]).translate()
    return text


def main():
    ap = argparse.ArgumentParser()
    ap.add_argument('--repo', default=os.environ.get('TRACKPY_REPO', '/repo'))
    ap.add_argument('--out', default=os.path.join(os.path.dirname(os.path.dirname(os.path.abspath(__file__))), 'coq', 'Gen', 'find.v'))
    ap.add_argument('--stdout', action='store_true')
    a = ap.parse_args()
    try:
        text = translate(a.repo)
    except TranslationError as e:
        sys.stderr.write('py2coq_find: TRANSLATION ERROR: %s\n' % e)
        sys.exit(2)
    except (OSError, SyntaxError) as e:
        sys.stderr.write('py2coq_find: TRANSLATION ERROR: cannot read / parse the source: %s\n' % e)
        sys.exit(2)
    except Exception as e:      # fail closed on anything unforeseen
        sys.stderr.write('py2coq_find: TRANSLATION ERROR: internal error %r\n' % (e,))
        sys.exit(2)
    if a.stdout:
        sys.stdout.write(text)
        return
    old = open(a.out).read() if os.path.exists(a.out) else None
    if old != text:
        os.makedirs(os.path.dirname(a.out), exist_ok=True)
        tmp = a.out + '.tmp%d' % os.getpid()
        with open(tmp, 'w') as f:
            f.write(text)
        os.replace(tmp, a.out)
        print('py2coq_find: wrote %s (changed)' % a.out)
    else:
        print('py2coq_find: %s up to date' % a.out)


if __name__ == '__main__':
    main()
