#!/usr/bin/env python3
"""Fail-closed translator (route T) for C01: the table plumbing of the linker entry points.

Reads  $TRACKPY_REPO/trackpy/linking/utils.py  and  $TRACKPY_REPO/trackpy/linking/linking.py
(default /repo) with the Python `ast` module and regenerates  /verif/coq/Gen/coords.v :

    utils.py     coords_from_df, coords_from_df_iter          -> py_coords_from_df, py_coords_from_df_iter
    linking.py   link_iter, link (alias link_df), link_df_iter -> py_link_iter, py_link, py_link_df_iter
                 link once more, with the sort of the rows as an oracle -> py_link_srt (py_link = its stable instance)

as shallow, state-passing Gallina over the vocabulary of coq/Model/PyCoords.v (types, conventions
and the meaning of every primitive: that file).  Proofs/CoordsGen.v proves the generated functions
equal to the hand-written models the C01 theorems are stated about (Model/CoordsFromDf.v,
Model/LinkTable.v, Model/Link.v) for all inputs and carries the C01 theorems over.

Embedding
  * a Python variable is a let-/bind-bound Coq variable of the same name; every assignment and every
    in-place change of an object (`f[c] = v`, `pandas_sort(f, c, inplace=True)`,
    `linker.init_level(..)`, `ids.extend(..)`, `idx += 1`) rebinds the variable; a variable has one
    type for its whole life (int may widen to None-or-int where two branches meet);
  * an operation that can raise is bound in the exception monad: rbind (op) (fun v => ..);
    sub-expressions are bound left to right (Python's evaluation order) to tmp<k>;
  * a generator function is `gen_body (let yielded_ := [] in .. ROk yielded_)`; `yield e` is
    `let yielded_ := yielded_ ++ [e] in`; a generator VALUE is res (list _) (eager: see PyCoords.v);
  * `for` loops are lambda-lifted: `py_<fn>_loop<k> <variables read> st it`; st is the tuple of the
    variables the body assigns that exist before the loop (unit when none), it the item; the loop is
    `for_loop` or, inside a generator function, `for_gen` (the body returns (state, what it yielded));
    the loop targets are not readable after the loop;
  * an `if` that is not the last statement of its block is bound:
        rbind (if c then .. ROk <tuple> else .. ROk <tuple>) (fun '<tuple> => ..)
    with the tuple of the variables it assigns (existing before it, or assigned in both branches),
    in alphabetical order;
  * `if X is None:` for an optional parameter X is `match X with Some tmp0 => .. | None => .. end`;
    `if isinstance(v, np.ndarray):` for an item v of link_iter's iterable is
    `match v with IArr v__arr => .. | ITup v__t v__c => .. end` (v is the array resp. the pair inside);
  * an iterator / generator variable may be used ONCE (iter, next, tee, enumerate, zip, for, passing it to a call all
    hand it on; `x = next(g)` leaves the rest in g): Python consumes iterators, the model's generators are values,
    so a second use -- or a use inside a loop body -- is a translation error (itertools.tee gives two);
  * in-place operations on a DataFrame are accepted only on a variable that holds a fresh copy
    (`x = y.copy()`): changing the caller's object is a translation error;
  * search_range and **kwargs are not translated: they may only be forwarded, verbatim, to
    `Linker(search_range, **kwargs)` and `link_iter(<iterable>, search_range, **kwargs)`; the generated
    functions take the interface `L : LinkerI` (= the class Linker with those arguments) instead.

Primitives (exact syntactic patterns; anything else is an error): see the table in Model/PyCoords.v.

Anything outside this subset: exit status 2, nothing written (the check treats that like a broken proof).

Usage:  py2coq_coords.py [--repo /repo] [--out /verif/coq/Gen/coords.v] [--stdout]
"""
import ast, sys, os, argparse


class TranslationError(Exception):
    pass


def fail(node, msg):
    raise TranslationError('line %s: %s' % (getattr(node, 'lineno', '?'), msg))


# ---------------------------------------------------------------------------------------------
# types
# ---------------------------------------------------------------------------------------------
ATOMS = {'Z': 'Z', 'optZ': 'option Z', 'str': 'string', 'names': 'list string', 'optnames': 'option (list string)',
         'df': 'DataFrame', 'ser': 'Series', 'coords': 'coords', 'listZ': 'list Z', 'arrZ': 'list Z', 'arrN': 'list nat',
         'idxs': 'list nat', 'listcoords': 'list coords', 'item': 'item', 'linker': 'LState L', 'bool': 'bool', 'unit': 'unit'}


def cty(t, ctx='top'):
    """Coq text of a type; ctx: 'top' (no parentheses needed), 'prod' (component of a product), 'arg' (argument)"""
    if isinstance(t, str):
        s = ATOMS[t]
        if ' ' in s and ctx == 'arg':
            return '(' + s + ')'
        return s
    if t[0] == 'pair':
        s = ' * '.join(cty(x, 'prod') for x in t[1:])
        return '(' + s + ')' if ctx in ('arg', 'prod') else s
    if t[0] == 'gen':
        s = 'gen ' + cty(t[1], 'arg')
        return '(' + s + ')' if ctx == 'arg' else s
    if t[0] == 'list':
        s = 'list ' + cty(t[1], 'arg')
        return '(' + s + ')' if ctx == 'arg' else s
    raise TranslationError('internal: type %r' % (t,))


RESERVED = {'as', 'at', 'in', 'if', 'then', 'else', 'let', 'fun', 'match', 'with', 'end', 'fix', 'cofix', 'forall', 'exists',
            'return', 'where', 'using', 'for', 'Type', 'Prop', 'Set', 'SProp', 'L', 'st', 'it', 'tt', 'res', 'ROk', 'RRaise',
            'rbind', 'gen', 'map', 'Some', 'None', 'true', 'false', 'list', 'option', 'bool', 'Z', 'nat', 'string', 'unit',
            'negb', 'fst', 'snd', 'item', 'coords', 'cell', 'row', 'DataFrame', 'Series', 'length', 'combine', 'seq', 'pt',
            'yielded_', 'IArr', 'ITup', 'assoc', 'upd', 'rle', 'exn', 'mapM', 'filter', 'app', 'nil', 'cons', 'id', 'metric',
            'mem', 'src', 'live', 'now', 'srt', 'sort_oracle', 'stable_sort'}


def cq(n):
    if n in RESERVED or n.startswith(('p_', 'py_', 'np_', 'tmp', 'gen_', 'it_', 'l_', 's_', 'df_', 'd_', 'E')) or n.endswith(('__arr', '__t', '__c')):
        return n + '_'
    return n


def cstr(s):
    if not isinstance(s, str) or not s or any(ord(c) < 32 or ord(c) > 126 or c == '"' for c in s):
        raise TranslationError('unsupported string literal %r' % (s,))
    return '"%s"%%string' % s


def is_none(e):
    return isinstance(e, ast.Constant) and e.value is None


def is_name(e, n=None):
    return isinstance(e, ast.Name) and (n is None or e.id == n)


def is_attr(e, base, attr):
    return isinstance(e, ast.Attribute) and e.attr == attr and is_name(e.value, base)


def intconst(e):
    if isinstance(e, ast.Constant) and isinstance(e.value, int) and not isinstance(e.value, bool):
        return e.value
    if isinstance(e, ast.UnaryOp) and isinstance(e.op, ast.USub) and isinstance(e.operand, ast.Constant) \
            and isinstance(e.operand.value, int) and not isinstance(e.operand.value, bool):
        return -e.operand.value
    return None


def zlit(v):
    return '%d' % v if v >= 0 else '(%d)' % v


def assigned_names(stmts):
    """names (re)bound by a statement list, in order of first occurrence (loop targets included)"""
    out = []

    def add(x):
        if x not in out:
            out.append(x)

    def target(t):
        if isinstance(t, ast.Name):
            add(t.id)
        elif isinstance(t, ast.Tuple):
            for x in t.elts:
                target(x)
        elif isinstance(t, ast.Subscript) and isinstance(t.value, ast.Name):
            add(t.value.id)
        else:
            fail(t, 'unsupported assignment target `%s`' % ast.unparse(t))
    for s in stmts:
        if isinstance(s, ast.Assign):
            for t in s.targets:
                target(t)
        elif isinstance(s, ast.AugAssign):
            target(s.target)
        elif isinstance(s, ast.For):
            target(s.target)
            for x in assigned_names(s.body):
                add(x)
        elif isinstance(s, ast.If):
            for x in assigned_names(s.body) + assigned_names(s.orelse):
                add(x)
        elif isinstance(s, ast.Expr) and isinstance(s.value, ast.Call) and isinstance(s.value.func, ast.Attribute) \
                and isinstance(s.value.func.value, ast.Name) and s.value.func.attr in ('init_level', 'next_level', 'extend'):
            add(s.value.func.value.id)
        elif isinstance(s, ast.Expr) and isinstance(s.value, ast.Call) and is_name(s.value.func, 'pandas_sort') \
                and s.value.args and isinstance(s.value.args[0], ast.Name):
            add(s.value.args[0].id)
    return out


LOGGER_INFO = "logger.info('Frame {}: {} trajectories present.'.format(t, len(linker.particle_ids)))"

# Python signature -> translated parameters; dropped: search_range, kwargs
SIGS = {
    'coords_from_df': dict(args=['df', 'pos_columns', 't_column'], defaults=[], kwarg=None,
                           params=[('df', 'df'), ('pos_columns', 'names'), ('t_column', 'str')], L=False,
                           kind='gen', ytype=('pair', 'Z', 'coords')),
    'coords_from_df_iter': dict(args=['df_iter', 'pos_columns', 't_column'], defaults=[], kwarg=None,
                                params=[('df_iter', ('gen', 'df')), ('pos_columns', 'names'), ('t_column', 'str')], L=False,
                                kind='gen', ytype=('pair', 'optZ', 'coords')),
    'link_iter': dict(args=['coords_iter', 'search_range'], defaults=[], kwarg='kwargs',
                      params=[('coords_iter', ('gen', 'item'))], L=True, kind='gen', ytype=('pair', 'optZ', 'listZ')),
    'link': dict(args=['f', 'search_range', 'pos_columns', 't_column'], defaults=['None', "'frame'"], kwarg='kwargs',
                 params=[('f', 'df'), ('pos_columns', 'optnames'), ('t_column', 'str')], L=True, kind='fun', rtype='df',
                 hints={'ids': 'listZ'}, sorts=True),
    'link_df_iter': dict(args=['f_iter', 'search_range', 'pos_columns', 't_column'], defaults=['None', "'frame'"], kwarg='kwargs',
                         params=[('f_iter', ('gen', 'df')), ('pos_columns', 'optnames'), ('t_column', 'str')], L=True,
                         kind='gen', ytype='df'),
}


class Fn:
    def __init__(self, fdef, sig, loops_out, srt=False):
        self.f = fdef
        self.name = fdef.name
        self.srt = srt         # True: the variant py_<name>_srt, pandas_sort is the oracle `srt : sort_oracle`
        self.usesSort = False
        self.sig = sig
        self.isgen = sig['kind'] == 'gen'
        self.env = {}          # python name -> (coq term, type)
        self.order = []        # binding order of python names
        self.owned = set()     # DataFrame variables holding a fresh copy
        self.consumed = set()  # generator variables that have been handed on (an iterator can be consumed once)
        self.pre = []
        self.ntmp = 0
        self.nloop = 0
        self.loops_out = loops_out
        self.hints = sig.get('hints', {})
        self.usesL = False
        for n, t in sig['params']:
            self.bind(n, t)

    # ------------------------------------------------------------------ environment
    def tmp(self):
        self.ntmp += 1
        return 'tmp%d' % self.ntmp

    def bind(self, name, ty, term=None):
        if name in self.env and self.env[name][1] != ty and self.env[name][1] != 'none':
            old = self.env[name][1]
            if not (old == 'optnames' and ty == 'names') and not (old == 'item' and ty in ('coords', ('pair', 'optZ', 'coords'))):
                raise TranslationError('variable %s changes type from %s to %s' % (name, old, ty))
        self.env[name] = (term if term is not None else cq(name), ty)
        self.consumed.discard(name)
        if name not in self.order:
            self.order.append(name)

    def var(self, node, name):
        if name not in self.env:
            fail(node, 'name %s is read where it is not bound (or is outside the translated subset)' % name)
        t, ty = self.env[name]
        if ty == 'none':
            fail(node, 'name %s is read where it is None' % name)
        if isinstance(ty, tuple) and ty[0] == 'gen':
            # every use of an iterator hands it on (iter, next, tee, enumerate, zip, for, a call): the model's generators are
            # values, Python's are consumed, so a second use would mean something else in Python
            if name in self.consumed:
                fail(node, 'the iterator %s is used a second time (it has been consumed; use itertools.tee)' % name)
            self.consumed.add(name)
        return t, ty

    def snapshot(self):
        return (dict(self.env), list(self.order), set(self.owned), list(self.pre), self.ntmp, self.nloop, len(self.loops_out), self.usesL,
                set(self.consumed))

    def restore(self, s):
        self.env, self.order, self.owned, self.pre, self.ntmp, self.nloop = dict(s[0]), list(s[1]), set(s[2]), list(s[3]), s[4], s[5]
        del self.loops_out[s[6]:]
        self.usesL = s[7]
        self.consumed = set(s[8])

    # ------------------------------------------------------------------ expressions
    def monadic(self, term, ty):
        t = self.tmp()
        self.pre.append([t, term])
        return t, ty

    def coerce(self, node, s, t, want):
        if t == want:
            return s
        if t == 'Z' and want == 'optZ':
            return '(Some %s)' % s
        if t == 'none' and want in ('optZ', 'optnames'):
            return 'None'
        if isinstance(t, tuple) and isinstance(want, tuple) and t[0] == 'pair' and want[0] == 'pair' and len(t) == len(want):
            fail(node, 'a pair of type %s where %s is expected (only literal tuples are converted)' % (t, want))
        fail(node, 'expression `%s` has type %s, expected %s' % (ast.unparse(node), t, want))

    def exT(self, e, want):
        if isinstance(e, ast.Tuple) and isinstance(want, tuple) and want[0] == 'pair' and len(e.elts) == len(want) - 1:
            return '(' + ', '.join(self.exT(x, w) for x, w in zip(e.elts, want[1:])) + ')'
        if is_none(e):
            return self.coerce(e, 'None', 'none', want)
        s, t = self.ex(e)
        return self.coerce(e, s, t, want)

    def ex(self, e):
        if isinstance(e, ast.Name):
            return self.var(e, e.id)
        v = intconst(e)
        if v is not None:
            return zlit(v), 'Z'
        if isinstance(e, ast.Constant):
            if isinstance(e.value, str):
                return cstr(e.value), 'str'
            fail(e, 'unsupported constant %r' % (e.value,))
        if isinstance(e, ast.List) and not e.elts:
            fail(e, 'an empty list literal is only supported as `name = []` for a declared name')
        if isinstance(e, ast.Tuple):
            parts = [self.ex(x) for x in e.elts]
            return '(' + ', '.join(p[0] for p in parts) + ')', ('pair',) + tuple(p[1] for p in parts)
        if isinstance(e, ast.Subscript):
            return self.subscript(e)
        if isinstance(e, ast.Attribute):
            if e.attr == 'values':
                s, t = self.ex(e.value)
                if t == 'ser':
                    return '(s_values %s)' % s, 'arrZ'
                if t == 'df':
                    return '(df_values %s)' % s, 'coords'
                fail(e, '.values of a %s' % (t,))
            if e.attr == 'particle_ids':
                s, t = self.ex(e.value)
                if t != 'linker':
                    fail(e, '.particle_ids of a %s' % (t,))
                self.usesL = True
                return '(l_particle_ids L %s)' % s, 'listZ'
            fail(e, 'unsupported attribute `%s`' % ast.unparse(e))
        if isinstance(e, ast.Call):
            return self.call(e)
        if isinstance(e, ast.Compare):
            if len(e.ops) != 1 or not isinstance(e.ops[0], ast.Eq):
                fail(e, 'unsupported comparison `%s`' % ast.unparse(e))
            a, ta = self.ex(e.left)
            b, tb = self.ex(e.comparators[0])
            if ta != 'Z' or tb != 'Z':
                fail(e, 'comparison of %s with %s' % (ta, tb))
            return '(%s =? %s)' % (a, b), 'bool'
        if isinstance(e, ast.UnaryOp) and isinstance(e.op, ast.Not):
            s, t = self.ex(e.operand)
            if t != 'bool':
                fail(e, '`not` on a %s' % (t,))
            return '(negb %s)' % s, 'bool'
        if isinstance(e, ast.BinOp) and isinstance(e.op, ast.Add):
            a, ta = self.ex(e.left)
            b, tb = self.ex(e.right)
            if ta == 'Z' and tb == 'Z':
                return '(%s + %s)' % (a, b), 'Z'
            fail(e, '`+` on %s and %s' % (ta, tb))
        if isinstance(e, ast.GeneratorExp):
            return self.genexp(e)
        fail(e, 'unsupported expression `%s`' % ast.unparse(e))

    def subscript(self, e):
        sl = e.slice
        # ser.iloc[0]
        if isinstance(e.value, ast.Attribute) and e.value.attr == 'iloc':
            s, t = self.ex(e.value.value)
            if t != 'ser' or intconst(sl) != 0:
                fail(e, 'only <Series>.iloc[0] is supported')
            return self.monadic('s_iloc0 %s' % s, 'Z')
        s, t = self.ex(e.value)
        if isinstance(sl, ast.Slice):
            if sl.lower is not None or sl.step is not None or intconst(sl.upper) != -1 or t not in ('arrN', 'arrZ'):
                fail(e, 'only <array>[:-1] is supported')
            return '(py_droplast %s)' % s, t
        if t == 'df':
            i, ti = self.ex(sl)
            if ti == 'str':
                return self.monadic('p_getitem %s %s' % (s, i), 'ser')
            if ti == 'names':
                return self.monadic('p_getitems %s %s' % (s, i), 'df')
            fail(e, 'DataFrame indexed by a %s' % (ti,))
        if t in ('arrZ', 'coords', 'listcoords', 'arrN'):
            i, ti = self.ex(sl)
            elt = {'arrZ': 'Z', 'listcoords': 'coords'}
            if ti == 'Z' and t in elt:
                return self.monadic('py_index %s %s' % (s, i), elt[t])
            if ti == 'idxs' and t in ('arrZ', 'coords'):
                return self.monadic('np_take %s %s' % (s, i), t)
            fail(e, '%s indexed by a %s' % (t, ti))
        fail(e, 'unsupported subscript `%s` (base of type %s)' % (ast.unparse(e), t))

    def kw(self, e, spec):
        """keywords must be exactly spec: [(name, predicate)]"""
        if len(e.keywords) != len(spec):
            return False
        for k, (n, p) in zip(e.keywords, spec):
            if k.arg != n or not p(k.value):
                return False
        return True

    def forwarded(self, e, first):
        """call f(<first..>, search_range, **kwargs): returns the leading positional arguments"""
        if len(e.args) != first + 1 or not is_name(e.args[first], 'search_range') or any(isinstance(a, ast.Starred) for a in e.args) \
                or len(e.keywords) != 1 or e.keywords[0].arg is not None or not is_name(e.keywords[0].value, 'kwargs'):
            fail(e, 'call `%s`: search_range and **kwargs must be forwarded verbatim' % ast.unparse(e))
        return e.args[:first]

    def call(self, e):
        f = e.func
        if any(isinstance(a, ast.Starred) for a in e.args):
            fail(e, 'unsupported call `%s`' % ast.unparse(e))
        if isinstance(f, ast.Name):
            n = f.id
            if n in self.env:
                fail(e, 'call of the local name %s' % n)
            if n == 'len' and len(e.args) == 1 and not e.keywords:
                s, t = self.ex(e.args[0])
                if t == 'df':
                    return '(p_len %s)' % s, 'Z'
                if t in ('names', 'listZ'):
                    return '(py_len %s)' % s, 'Z'
                fail(e, 'len of a %s' % (t,))
            if n == 'range' and len(e.args) == 2 and not e.keywords:
                a, ta = self.ex(e.args[0])
                b, tb = self.ex(e.args[1])
                if ta != 'Z' or tb != 'Z':
                    fail(e, 'range of %s, %s' % (ta, tb))
                return '(py_range %s %s)' % (a, b), ('list', 'Z')
            if n == 'iter' and len(e.args) == 1 and not e.keywords:
                s, t = self.ex(e.args[0])
                if not (isinstance(t, tuple) and t[0] == 'gen'):
                    fail(e, 'iter of a %s' % (t,))
                return '(gen_iter %s)' % s, t
            if n == 'enumerate' and len(e.args) == 1 and self.kw(e, [('start', lambda v: intconst(v) is not None)]):
                s, t = self.ex(e.args[0])
                if t != ('gen', 'item'):
                    fail(e, 'enumerate of a %s' % (t,))
                return '(gen_enumerate %s %s)' % (zlit(intconst(e.keywords[0].value)), s), t
            if n == 'zip' and len(e.args) == 2 and not e.keywords:
                a, ta = self.ex(e.args[0])
                b, tb = self.ex(e.args[1])
                if not (isinstance(ta, tuple) and ta[0] == 'gen' and isinstance(tb, tuple) and tb[0] == 'gen'):
                    fail(e, 'zip of %s, %s' % (ta, tb))
                return '(gen_zip %s %s)' % (a, b), ('gen', ('pair', ta[1], tb[1]))
            if n == 'guess_pos_columns' and len(e.args) == 1 and not e.keywords:
                s, t = self.ex(e.args[0])
                if t != 'df':
                    fail(e, 'guess_pos_columns of a %s' % (t,))
                return '(guess_pos_columns %s)' % s, 'names'
            if n == 'Linker':
                self.forwarded(e, 0)
                self.usesL = True
                return self.monadic('l_new L', 'linker')
            if n == 'link_iter':
                (a,) = self.forwarded(e, 1)
                s, t = self.ex(a)
                self.usesL = True
                if t == ('gen', ('pair', 'Z', 'coords')):
                    s = '(gen_items_Z %s)' % s
                elif t == ('gen', ('pair', 'optZ', 'coords')):
                    s = '(gen_items %s)' % s
                elif t != ('gen', 'item'):
                    fail(e, 'link_iter of a %s' % (t,))
                return '(py_link_iter L %s)' % s, ('gen', SIGS['link_iter']['ytype'])
            if n in ('coords_from_df', 'coords_from_df_iter') and len(e.args) == 3 and not e.keywords:
                sig = SIGS[n]
                args = [self.exT(a, ty) for a, (_, ty) in zip(e.args, sig['params'])]
                return '(py_%s %s)' % (n, ' '.join(args)), ('gen', sig['ytype'])
            fail(e, 'unsupported call `%s`' % ast.unparse(e))
        if not isinstance(f, ast.Attribute):
            fail(e, 'unsupported call `%s`' % ast.unparse(e))
        m = f.attr
        # module functions
        if is_name(f.value, 'np') and 'np' not in self.env:
            if m == 'argsort' and len(e.args) == 1 and self.kw(e, [('kind', lambda v: isinstance(v, ast.Constant) and v.value == 'mergesort')]):
                s, t = self.ex(e.args[0])
                if t != 'arrZ':
                    fail(e, 'argsort of a %s' % (t,))
                return '(np_argsort_stable %s)' % s, 'idxs'
            if m == 'unique' and len(e.args) == 1 and self.kw(e, [('return_counts', lambda v: isinstance(v, ast.Constant) and v.value is True)]):
                s, t = self.ex(e.args[0])
                if t != 'arrZ':
                    fail(e, 'np.unique of a %s' % (t,))
                return '(np_unique_counts %s)' % s, ('pair', 'arrZ', 'arrN')
            if m == 'cumsum' and len(e.args) == 1 and not e.keywords:
                s, t = self.ex(e.args[0])
                if t != 'arrN':
                    fail(e, 'np.cumsum of a %s' % (t,))
                return '(np_cumsum %s)' % s, 'arrN'
            if m == 'split' and len(e.args) == 2 and not e.keywords:
                a, ta = self.ex(e.args[0])
                b, tb = self.ex(e.args[1])
                if ta != 'coords' or tb != 'arrN':
                    fail(e, 'np.split of %s, %s' % (ta, tb))
                return '(np_split %s %s)' % (a, b), 'listcoords'
            if m == 'empty' and len(e.args) == 1 and not e.keywords and isinstance(e.args[0], ast.Tuple) and len(e.args[0].elts) == 2 \
                    and intconst(e.args[0].elts[0]) == 0:
                s, t = self.ex(e.args[0].elts[1])
                if t != 'Z':
                    fail(e, 'np.empty((0, <%s>))' % (t,))
                return '(np_empty0 %s)' % s, 'coords'
            if m == 'issubdtype' and len(e.args) == 2 and not e.keywords and isinstance(e.args[0], ast.Attribute) and e.args[0].attr == 'dtype' \
                    and is_attr(e.args[1], 'np', 'integer'):
                s, t = self.ex(e.args[0].value)
                if t != 'ser':
                    fail(e, 'dtype of a %s' % (t,))
                return '(s_int %s)' % s, 'bool'
            fail(e, 'unsupported numpy call `%s`' % ast.unparse(e))
        if is_name(f.value, 'itertools') and 'itertools' not in self.env:
            if m == 'tee' and len(e.args) == 1 and not e.keywords:
                s, t = self.ex(e.args[0])
                if not (isinstance(t, tuple) and t[0] == 'gen'):
                    fail(e, 'tee of a %s' % (t,))
                return '(it_tee %s)' % s, ('pair', t, t)
            fail(e, 'unsupported itertools call `%s`' % ast.unparse(e))
        # methods
        s, t = self.ex(f.value)
        if m == 'copy' and t == 'df' and not e.args and not e.keywords:
            return '(p_copy %s)' % s, 'df'
        if m == 'astype' and t == 'ser' and len(e.args) == 1 and not e.keywords and is_attr(e.args[0], 'np', 'int64'):
            return '(s_astype_int64 %s)' % s, 'ser'
        fail(e, 'unsupported call `%s` (receiver of type %s)' % (ast.unparse(e), t))

    def genexp(self, e):
        g = e.generators
        if len(g) != 1 or g[0].ifs or g[0].is_async or not isinstance(g[0].target, ast.Tuple) \
                or not all(isinstance(x, ast.Name) for x in g[0].target.elts) or not isinstance(e.elt, ast.Name):
            fail(e, 'unsupported generator expression')
        names = [x.id for x in g[0].target.elts]
        if len(set(names)) != len(names) or e.elt.id not in names or any(n in self.env for n in names):
            fail(e, 'unsupported generator expression (targets must be fresh names, the element one of them)')
        npre = len(self.pre)
        s, t = self.ex(g[0].iter)
        if len(self.pre) != npre:
            fail(e, 'an operation that can raise while building a generator expression')
        if not (isinstance(t, tuple) and t[0] == 'gen' and isinstance(t[1], tuple) and t[1][0] == 'pair' and len(t[1]) == len(names) + 1):
            fail(e, 'generator expression over a %s' % (t,))
        et = t[1][1 + names.index(e.elt.id)]
        return "(gen_map (fun '(%s) => %s) %s)" % (', '.join(cq(n) for n in names), cq(e.elt.id), s), ('gen', et)

    # ------------------------------------------------------------------ statements
    def flush(self, ind):
        pre, self.pre = self.pre, []
        head = ''.join('%srbind (%s) (fun %s =>\n' % (ind, m, p) for p, m in pre)
        return head, ')' * len(pre)

    def tup(self, names, coerce=None):
        if not names:
            return 'tt'
        parts = []
        for n in names:
            s, t = self.env[n]
            if coerce and coerce.get(n) and coerce[n] != t:
                s = self.coerce(self.f, s, t, coerce[n])
            parts.append(s)
        return '(' + ', '.join(parts) + ')' if len(parts) != 1 else parts[0]

    def pat(self, names):
        if not names:
            return '_'
        return "'(" + ', '.join(cq(n) for n in names) + ')' if len(names) != 1 else cq(names[0])

    def seq(self, stmts, tail, ind):
        if not stmts:
            return ind + tail()
        s, rest = stmts[0], stmts[1:]

        def go():
            return self.seq(rest, tail, ind)

        if isinstance(s, ast.Pass):
            return go()
        if isinstance(s, ast.Expr) and isinstance(s.value, ast.Constant) and isinstance(s.value.value, str):
            return go()
        if isinstance(s, ast.Delete):
            for t in s.targets:
                if not isinstance(t, ast.Name) or t.id not in self.env or t.id in [p for p, _ in self.sig['params']]:
                    fail(s, 'unsupported del')
                del self.env[t.id]
            return go()
        if isinstance(s, ast.Expr):
            return self.exprstmt(s, go, ind)
        if isinstance(s, ast.Return):
            if rest or self.isgen or s.value is None:
                fail(s, 'unsupported return')
            v = self.exT(s.value, self.sig['rtype'])
            head, close = self.flush(ind)
            return head + '%sROk %s' % (ind, v) + close
        if isinstance(s, ast.Assign):
            return self.assign(s, go, ind)
        if isinstance(s, ast.AugAssign):
            if not isinstance(s.target, ast.Name) or not isinstance(s.op, ast.Add):
                fail(s, 'unsupported augmented assignment')
            a, ta = self.var(s, s.target.id)
            b, tb = self.ex(s.value)
            if ta != 'Z' or tb != 'Z':
                fail(s, '`+=` on %s and %s' % (ta, tb))
            head, close = self.flush(ind)
            self.bind(s.target.id, 'Z')
            return head + '%slet %s := %s + %s in\n' % (ind, cq(s.target.id), a, b) + go() + close
        if isinstance(s, ast.If):
            return self.ifstmt(s, rest, tail, ind)
        if isinstance(s, ast.For):
            return self.forstmt(s, go, ind)
        fail(s, 'unsupported statement %s' % type(s).__name__)

    def need_owned(self, node, name):
        if name not in self.owned:
            fail(node, 'in-place operation on the DataFrame %s, which is not a fresh copy: the caller\'s object would change' % name)

    def exprstmt(self, s, go, ind):
        v = s.value
        if isinstance(v, ast.Yield):
            if not self.isgen or v.value is None:
                fail(s, 'unsupported yield')
            t = self.exT(v.value, self.sig['ytype'])
            head, close = self.flush(ind)
            return head + '%slet yielded_ := yielded_ ++ [%s] in\n' % (ind, t) + go() + close
        if isinstance(v, ast.Call) and ast.unparse(v) == LOGGER_INFO and 'logger' not in self.env:
            return '%s(* %s : no effect on the results *)\n' % (ind, 'logger.info(..)') + go()
        if isinstance(v, ast.Call) and is_name(v.func, 'pandas_sort'):
            if len(v.args) != 2 or not isinstance(v.args[0], ast.Name) or \
                    not self.kw(v, [('inplace', lambda x: isinstance(x, ast.Constant) and x.value is True)]):
                fail(s, 'only pandas_sort(<df>, <column>, inplace=True) is supported')
            d, td = self.var(s, v.args[0].id)
            c = self.exT(v.args[1], 'str')
            if td != 'df':
                fail(s, 'pandas_sort of a %s' % (td,))
            self.need_owned(s, v.args[0].id)
            head, close = self.flush(ind)
            self.usesSort = True
            prim = 'pandas_sort_inplace_by srt' if self.srt else 'pandas_sort_inplace'
            return head + '%srbind (%s %s %s) (fun %s =>\n' % (ind, prim, d, c, d) + go() + ')' + close
        if isinstance(v, ast.Call) and isinstance(v.func, ast.Attribute) and isinstance(v.func.value, ast.Name) and not v.keywords:
            o = v.func.value.id
            so, to = self.var(s, o)
            m = v.func.attr
            if to == 'linker' and m in ('init_level', 'next_level') and len(v.args) == 2:
                c = self.exT(v.args[0], 'coords')
                t = self.exT(v.args[1], 'optZ')
                self.usesL = True
                head, close = self.flush(ind)
                return head + '%srbind (l_%s L %s %s %s) (fun %s =>\n' % (ind, m, so, c, t, so) + go() + ')' + close
            if to == 'listZ' and m == 'extend' and len(v.args) == 1:
                a = self.exT(v.args[0], 'listZ')
                head, close = self.flush(ind)
                return head + '%slet %s := %s ++ %s in\n' % (ind, so, so, a) + go() + close
        fail(s, 'unsupported expression statement `%s`' % ast.unparse(s))

    def assign(self, s, go, ind):
        if len(s.targets) != 1:
            fail(s, 'chained assignment')
        t = s.targets[0]
        # df[c] = value
        if isinstance(t, ast.Subscript):
            if not isinstance(t.value, ast.Name):
                fail(s, 'unsupported assignment target')
            d, td = self.var(s, t.value.id)
            if td != 'df':
                fail(s, 'item assignment on a %s' % (td,))
            self.need_owned(s, t.value.id)
            c = self.exT(t.slice, 'str')
            v, tv = self.ex(s.value)
            prim = {'ser': 'p_setitem', 'listZ': 'p_setitem_list'}.get(tv)
            if prim is None:
                fail(s, 'a %s is assigned to a column' % (tv,))
            head, close = self.flush(ind)
            return head + '%srbind (%s %s %s %s) (fun %s =>\n' % (ind, prim, d, c, v, d) + go() + ')' + close
        # x = next(g)
        if isinstance(t, ast.Name) and isinstance(s.value, ast.Call) and is_name(s.value.func, 'next') and len(s.value.args) == 1 \
                and not s.value.keywords and isinstance(s.value.args[0], ast.Name) and 'next' not in self.env:
            g = s.value.args[0].id
            sg, tg = self.var(s, g)
            if not (isinstance(tg, tuple) and tg[0] == 'gen') or g == t.id:
                fail(s, 'next of a %s' % (tg,))
            head, close = self.flush(ind)
            self.bind(t.id, tg[1])
            self.bind(g, tg)           # next() leaves the rest of the iterator in g
            return head + "%srbind (gen_next %s) (fun '(%s, %s) =>\n" % (ind, sg, cq(t.id), sg) + go() + ')' + close
        # x = []
        if isinstance(t, ast.Name) and isinstance(s.value, ast.List) and not s.value.elts:
            ty = self.hints.get(t.id)
            if ty is None:
                fail(s, 'empty list assigned to an undeclared name')
            self.bind(t.id, ty)
            return '%slet %s := [] in\n' % (ind, cq(t.id)) + go()
        if isinstance(t, ast.Tuple):
            if not all(isinstance(x, ast.Name) for x in t.elts) or len({x.id for x in t.elts}) != len(t.elts):
                fail(s, 'unsupported assignment target')
            v, tv = self.ex(s.value)
            if not (isinstance(tv, tuple) and tv[0] == 'pair' and len(tv) == len(t.elts) + 1):
                fail(s, 'a %s is unpacked into %d names' % (tv, len(t.elts)))
            head, close = self.flush(ind)
            for x, ty in zip(t.elts, tv[1:]):
                self.bind(x.id, ty)
                self.owned.discard(x.id)
            return head + "%slet '(%s) := %s in\n" % (ind, ', '.join(cq(x.id) for x in t.elts), v) + go() + close
        if not isinstance(t, ast.Name):
            fail(s, 'unsupported assignment target `%s`' % ast.unparse(t))
        v, tv = self.ex(s.value)
        if not (isinstance(tv, tuple) or tv in ATOMS):
            fail(s, 'cannot bind a value of type %s' % (tv,))
        fresh_copy = isinstance(s.value, ast.Call) and isinstance(s.value.func, ast.Attribute) and s.value.func.attr == 'copy' and tv == 'df'
        if self.pre and self.pre[-1][0] == v:
            self.pre[-1][0] = cq(t.id)
            head, close = self.flush(ind)
            self.bind(t.id, tv)
            self.owned.discard(t.id)
            return head + go() + close
        head, close = self.flush(ind)
        self.bind(t.id, tv)
        self.owned.discard(t.id)
        if fresh_copy:
            self.owned.add(t.id)
        return head + '%slet %s := %s in\n' % (ind, cq(t.id), v) + go() + close

    # -- if -------------------------------------------------------------------------------------
    def ifstmt(self, s, rest, tail, ind):
        for n in ast.walk(s):
            if isinstance(n, (ast.Return, ast.Continue, ast.Break, ast.Raise)):
                fail(n, 'unsupported control flow inside an if')
        last = not rest
        t = s.test
        kind, hd = 'if', None
        narrow = [None, None]     # per branch: (name, term, type)
        if isinstance(t, ast.Compare) and len(t.ops) == 1 and isinstance(t.ops[0], ast.Is) and is_none(t.comparators[0]) \
                and isinstance(t.left, ast.Name) and self.env.get(t.left.id, (0, 0))[1] == 'optnames':
            x = t.left.id
            if s.orelse:
                fail(s, '`if %s is None` with an else branch' % x)
            kind = 'optnone'
        elif isinstance(t, ast.Call) and is_name(t.func, 'isinstance') and len(t.args) == 2 and not t.keywords \
                and isinstance(t.args[0], ast.Name) and is_attr(t.args[1], 'np', 'ndarray') and 'isinstance' not in self.env \
                and self.env.get(t.args[0].id, (0, 0))[1] == 'item':
            x = t.args[0].id
            kind = 'isarr'
        else:
            c, tc = self.ex(t)
            if tc != 'bool':
                fail(s, 'condition of type %s' % (tc,))
        head, close = self.flush(ind)
        ab, ao = assigned_names(s.body), assigned_names(s.orelse)
        W = sorted(v for v in dict.fromkeys(ab + ao) if (v in self.env or (v in ab and v in ao)))
        if not last and not W:
            fail(s, 'an if that changes nothing visible')

        def run(body, pre_env, coerce, i2):
            """translate one branch from the state `base`"""
            self.restore(base)
            for n, term, ty in pre_env:
                self.env[n] = (term, ty)
            if last:
                txt = self.seq(list(body), tail, i2)
            else:
                def fin():
                    for w in W:
                        if w not in self.env or self.env[w][1] == 'none':
                            fail(s, 'variable %s is not assigned in every branch' % w)
                    return 'ROk ' + self.tup(W, coerce)
                txt = self.seq(list(body), fin, i2)
            if self.pre:
                fail(s, 'internal: pending binds at the end of a branch')
            return txt, {w: self.env.get(w, (None, None))[1] for w in W}, self.snapshot()

        base = self.snapshot()
        bi = ind if last else ind + '    '
        i2 = bi + '  '
        if kind == 'optnone':
            envs = [[(x, cq(x), 'none')], [(x, 'tmp0', 'names')]]
            bodies = [s.body, []]
        elif kind == 'isarr':
            envs = [[(x, cq(x) + '__arr', 'coords')], [(x, '(%s__t, %s__c)' % (cq(x), cq(x)), ('pair', 'optZ', 'coords'))]]
            bodies = [s.body, s.orelse]
        else:
            envs = [[], []]
            bodies = [s.body, s.orelse]
        # first pass: types per branch; second pass with the unified types
        res1 = [run(b, e, None, i2) for b, e in zip(bodies, envs)]
        uni = {}
        for w in W:
            ta, tb = res1[0][1][w], res1[1][1][w]
            if ta == tb:
                uni[w] = ta
            elif {ta, tb} == {'Z', 'optZ'}:
                uni[w] = 'optZ'
            else:
                fail(s, 'variable %s gets different types in the branches of an if (%s, %s)' % (w, ta, tb))
        res = [run(b, e, uni, i2) for b, e in zip(bodies, envs)]
        if not last:
            # loops lifted in both passes are identical text; keep those of the last runs (restore() dropped the others)
            pass
        a, b = res[0][0], res[1][0]
        if kind == 'optnone':
            body = '%smatch %s with\n%s| Some tmp0 =>\n%s\n%s| None =>\n%s\n%send' % (bi, base[0][x][0], bi, b, bi, a, bi)
        elif kind == 'isarr':
            xx = base[0][x][0]
            body = '%smatch %s with\n%s| IArr %s__arr =>\n%s\n%s| ITup %s__t %s__c =>\n%s\n%send' % (
                bi, xx, bi, xx, a, bi, xx, xx, b, bi)
        else:
            body = '%sif %s then\n%s\n%selse\n%s' % (bi, c, a, bi, b)
        # both branches lift their loops into loops_out; a loop inside an if is not needed by the sources: refuse
        for n in ast.walk(s):
            if isinstance(n, ast.For):
                fail(n, 'a for loop inside an if')
        if last:
            self.restore(base)
            return head + body + close
        self.restore(base)
        self.consumed = set().union(*[r[2][8] for r in res])
        for w in W:
            self.bind(w, uni[w])
            if w in self.owned and not all(w in r[2][2] for r in res):
                self.owned.discard(w)
        if kind == 'optnone':
            self.env[x] = (cq(x), 'names')
        self.ntmp = max(r[2][4] for r in res)
        return head + '%srbind (\n%s) (fun %s =>\n' % (ind, body, self.pat(W)) + self.seq(rest, tail, ind) + ')' + close

    # -- for ------------------------------------------------------------------------------------
    def forstmt(self, s, go, ind):
        if s.orelse:
            fail(s, 'for-else')
        for n in ast.walk(s):
            if isinstance(n, (ast.Return, ast.Continue, ast.Break, ast.Raise)):
                fail(n, 'unsupported control flow inside a for loop')
        for n in s.body:
            for m in ast.walk(n):
                if isinstance(m, ast.For):
                    fail(m, 'nested for loops')
        it, tit = self.ex(s.iter)
        if isinstance(tit, tuple) and tit[0] == 'gen':
            it, _ = self.monadic(it if not it.startswith('(') else it[1:-1], ('list', tit[1]))
            elt = tit[1]
        elif isinstance(tit, tuple) and tit[0] == 'list':
            elt = tit[1]
        else:
            fail(s, 'for over a %s' % (tit,))
        head, close = self.flush(ind)
        # loop targets
        if isinstance(s.target, ast.Name):
            targets = [s.target.id]
        elif isinstance(s.target, ast.Tuple) and all(isinstance(x, ast.Name) for x in s.target.elts):
            targets = [x.id for x in s.target.elts]
        else:
            fail(s, 'unsupported loop target')
        if len(set(targets)) != len(targets):
            fail(s, 'unsupported loop target')
        assigned = [v for v in assigned_names(s.body) if v not in targets]
        state = [v for v in self.order if v in assigned and v in self.env]
        for v in assigned:
            if v not in self.env:
                pass    # local to the body
        self.nloop += 1
        lname = 'py_%s_loop%d' % (self.name, self.nloop)
        outer = self.snapshot()
        # ---- the lifted body
        stty = ('pair',) + tuple(self.env[v][1] for v in state) if len(state) > 1 else (self.env[state[0]][1] if state else 'unit')
        lines = []
        i1 = '  '
        if len(state) == 1:
            lines.append('%slet %s := st in\n' % (i1, self.env[state[0]][0]))
        elif state:
            lines.append("%slet '(%s) := st in\n" % (i1, ', '.join(self.env[v][0] for v in state)))
        if self.isgen:
            lines.append('%slet yielded_ := [] in\n' % i1)
        closers = ''
        if len(targets) == 1:
            self.bind(targets[0], elt)
            self.owned.discard(targets[0])
            lines.append('%slet %s := it in\n' % (i1, cq(targets[0])))
        elif elt == 'item' and len(targets) == 2:
            self.bind(targets[0], 'optZ')
            self.bind(targets[1], 'coords')
            lines.append("%srbind (item_unpack it) (fun '(%s, %s) =>\n" % (i1, cq(targets[0]), cq(targets[1])))
            closers = ')'
        elif isinstance(elt, tuple) and elt[0] == 'pair' and len(elt) == len(targets) + 1:
            for x, ty in zip(targets, elt[1:]):
                self.bind(x, ty)
                self.owned.discard(x)
            lines.append("%slet '(%s) := it in\n" % (i1, ', '.join(cq(x) for x in targets)))
        else:
            fail(s, 'an item of type %s is unpacked into %d names' % (elt, len(targets)))
        before = dict(outer[0])
        used_L0 = self.usesL
        self.usesL = False

        def fin():
            st = self.tup(state)
            return 'ROk (%s, yielded_)' % st if self.isgen else 'ROk %s' % st
        body = self.seq(list(s.body), fin, i1)
        bodyL = self.usesL
        for v in state:
            if self.env[v][1] != before[v][1]:
                fail(s, 'variable %s changes type inside the loop' % v)
        # free variables of the body: read names that are bound outside, not state, not targets
        read = []
        for n in s.body:
            for m in ast.walk(n):
                if isinstance(m, ast.Name) and isinstance(m.ctx, ast.Load) and m.id in before and m.id not in state \
                        and m.id not in targets and m.id not in read:
                    read.append(m.id)
        for v in read:
            if v in assigned:
                fail(s, 'internal: %s' % v)
        free = [v for v in outer[1] if v in read]
        for v in free:
            if isinstance(before[v][1], tuple) and before[v][1][0] == 'gen':
                fail(s, 'the iterator %s is used inside a loop body' % v)
        binders = ('(L : LinkerI) ' if bodyL else '') + ''.join('(%s : %s) ' % (before[v][0], cty(before[v][1])) for v in free)
        ity = cty(elt)
        if self.isgen:
            rty = 'res (%s * list %s)' % (cty(stty, 'prod'), cty(self.sig['ytype'], 'arg'))
        else:
            rty = 'res %s' % cty(stty, 'arg')
        src = ast.unparse(s).split('\n')[0]
        text = '(* line %d: %s *)\nDefinition %s %s(st : %s) (it : %s) : %s :=\n%s%s%s.\n' % (
            s.lineno, src.replace('(*', '( *').replace('*)', '* )'), lname, binders, cty(stty), ity, rty, ''.join(lines), body, closers)
        ntmp_body = self.ntmp
        self.restore(outer)
        self.ntmp = outer[4]
        self.loops_out.append(text)
        self.usesL = used_L0 or bodyL
        for x in targets:           # not readable after the loop
            self.env.pop(x, None)
        call = '%s%s' % (lname, ''.join(' ' + (before[v][0]) for v in (['L'] if False else [])))
        call = lname + (' L' if bodyL else '') + ''.join(' ' + before[v][0] for v in free)
        if free or bodyL:
            call = '(' + call + ')'
        st0 = self.tup(state)
        if self.isgen:
            ys = self.tmp()
            out = head + "%srbind (for_gen %s %s %s) (fun '(%s, %s) =>\n%slet yielded_ := yielded_ ++ %s in\n" % (
                ind, call, it, st0, self.pat(state).lstrip("'").strip('()') if state else '_', ys, ind, ys)
        else:
            out = head + '%srbind (for_loop %s %s %s) (fun %s =>\n' % (ind, call, it, st0, self.pat(state))
        return out + go() + ')' + close

    # ------------------------------------------------------------------ function
    def translate(self):
        body = list(self.f.body)
        for s in body:
            for n in ast.walk(s):
                if isinstance(n, (ast.While, ast.With, ast.DictComp, ast.SetComp, ast.ListComp, ast.YieldFrom, ast.FunctionDef,
                                  ast.ClassDef, ast.Global, ast.Nonlocal, ast.Await, ast.NamedExpr, ast.Assert, ast.Import,
                                  ast.ImportFrom, ast.Try, ast.Lambda, ast.AsyncFor, ast.AsyncWith, ast.Starred)):
                    fail(n, 'unsupported construct %s' % type(n).__name__)
        has_yield = any(isinstance(n, (ast.Yield, ast.YieldFrom)) for s in body for n in ast.walk(s))
        if has_yield != self.isgen:
            fail(self.f, '%s is %sa generator function' % (self.name, '' if has_yield else 'not '))
        if self.isgen:
            def tail():
                return 'ROk yielded_'
            main = '  gen_body (\n  let yielded_ := [] in\n' + self.seq(body, tail, '  ') + ')'
            rty = cty(('gen', self.sig['ytype']))
        else:
            if not body or not isinstance(body[-1], ast.Return):
                fail(self.f, 'the function does not end with a return')

            def tail():
                fail(self.f, 'a path without return')
            main = self.seq(body, tail, '  ')
            rty = 'res ' + cty(self.sig['rtype'], 'arg')
        if self.sig['L'] != self.usesL:
            fail(self.f, '%s %s the Linker' % (self.name, 'does not use' if self.sig['L'] else 'uses'))
        if bool(self.sig.get('sorts')) != self.usesSort:
            fail(self.f, '%s %s pandas_sort' % (self.name, 'does not call' if self.sig.get('sorts') else 'calls'))
        binders = ('(srt : sort_oracle) ' if self.srt else '') + ('(L : LinkerI) ' if self.sig['L'] else '') + \
            ''.join('(%s : %s) ' % (cq(n), cty(t)) for n, t in self.sig['params'])
        return 'Definition py_%s%s %s: %s :=\n%s.\n' % (self.name, '_srt' if self.srt else '', binders, rty, main)


def check_sig(fdef, sig):
    a = fdef.args
    got = [x.arg for x in a.args]
    if got != sig['args'] or a.vararg or a.kwonlyargs or getattr(a, 'posonlyargs', []) or (a.kwarg.arg if a.kwarg else None) != sig['kwarg']:
        fail(fdef, 'signature of %s changed: %s' % (fdef.name, ast.unparse(a)))
    if [ast.unparse(d) for d in a.defaults] != sig['defaults']:
        fail(fdef, 'defaults of %s changed: %s' % (fdef.name, [ast.unparse(d) for d in a.defaults]))
    if fdef.decorator_list:
        fail(fdef, 'decorated function')


def module_defs(tree, wanted, what, aliases=()):
    """the unique module-level definitions of the wanted functions; nothing else in the module may bind those names
    (apart from the listed aliases `a = f`, which must come right after f is defined and are checked by the caller)"""
    defs = {}
    for n in tree.body:
        if isinstance(n, ast.FunctionDef) and n.name in wanted:
            if n.name in defs:
                raise TranslationError('%s: function %s defined twice' % (what, n.name))
            defs[n.name] = n
    names = set(wanted) | {a for a, _ in aliases}
    alias_seen = set()
    for n in ast.walk(tree):
        bound = []
        if isinstance(n, (ast.FunctionDef, ast.ClassDef, ast.AsyncFunctionDef)) and n.name in names and defs.get(n.name) is not n:
            bound.append(n.name)
        if isinstance(n, ast.Name) and isinstance(n.ctx, (ast.Store, ast.Del)) and n.id in names:
            if (n.id in [a for a, _ in aliases]) and n.id not in alias_seen:
                alias_seen.add(n.id)
            else:
                bound.append(n.id)
        if isinstance(n, ast.alias) and (n.asname or n.name.split('.')[0]) in names:
            # `from .utils import coords_from_df` in linking.py binds the utils functions: allowed only for names not defined here
            if (n.asname or n.name) in defs:
                bound.append(n.asname or n.name)
        if bound:
            raise TranslationError('%s: %s is bound a second time (line %s)' % (what, bound[0], getattr(n, 'lineno', '?')))
    for w in wanted:
        if w not in defs:
            raise TranslationError('%s: function %s not found' % (what, w))
    for a, f in aliases:
        ok = [n for n in tree.body if isinstance(n, ast.Assign) and len(n.targets) == 1 and is_name(n.targets[0], a) and is_name(n.value, f)]
        if len(ok) != 1:
            raise TranslationError('%s: expected exactly one module-level `%s = %s`' % (what, a, f))
    return defs


def imports_ok(tree, what, needed):
    """the names the translated functions use as globals must be what the patterns assume"""
    found = {}
    for n in tree.body:
        if isinstance(n, ast.Import):
            for a in n.names:
                found[a.asname or a.name.split('.')[0]] = 'import ' + a.name
        elif isinstance(n, ast.ImportFrom):
            for a in n.names:
                found[a.asname or a.name] = 'from %s%s import %s' % ('.' * n.level, n.module or '', a.name)
        elif isinstance(n, ast.Assign) and len(n.targets) == 1 and isinstance(n.targets[0], ast.Name):
            found[n.targets[0].id] = ast.unparse(n.value)
    for name, want in needed.items():
        if found.get(name) != want:
            raise TranslationError('%s: global %s is `%s`, expected `%s`' % (what, name, found.get(name), want))


HEADER = """(* GENERATED by tools/py2coq_coords.py from trackpy/linking/utils.py and trackpy/linking/linking.py -- do not edit.
   coords_from_df, coords_from_df_iter (utils.py) and link_iter, link (= link_df), link_df_iter (linking.py),
   statement by statement, as state-passing Gallina over Model/PyCoords.v (vocabulary, conventions, the list
   of the pandas / numpy / itertools primitives; see also the translator's docstring).
   Extra parameter:  L : LinkerI   the class Linker applied to (search_range, **kwargs); those two Python
                     parameters are only forwarded to it (checked) and are dropped.
   Extra parameter of py_link_srt:  srt : sort_oracle   what pandas_sort(f, t_column, inplace=True) does to the rows
                     (pandas' default sort is not stable); py_link is the same text with the stable sort.
   Generators are eager (res (list _)); `yield e` appends to yielded_.
   Pinned defaults: link(pos_columns=None, t_column='frame'), link_df_iter(pos_columns=None, t_column='frame'). *)
From Coq Require Import String ZArith List Bool.
From TP Require Import Model.Assign Model.Link Model.LinkTable Model.PyCoords.
Import ListNotations.
Open Scope Z_scope.
"""


def translate(repo):
    out = []
    upath = os.path.join(repo, 'trackpy', 'linking', 'utils.py')
    utree = ast.parse(open(upath).read())
    udefs = module_defs(utree, ['coords_from_df', 'coords_from_df_iter'], 'linking/utils.py')
    imports_ok(utree, 'linking/utils.py', {'np': 'import numpy'})
    lpath = os.path.join(repo, 'trackpy', 'linking', 'linking.py')
    ltree = ast.parse(open(lpath).read())
    ldefs = module_defs(ltree, ['link_iter', 'link', 'link_df_iter'], 'linking/linking.py', aliases=[('link_df', 'link')])
    imports_ok(ltree, 'linking/linking.py', {'np': 'import numpy', 'itertools': 'import itertools',
                                             'guess_pos_columns': 'from ..utils import guess_pos_columns',
                                             'pandas_sort': 'from ..utils import pandas_sort',
                                             'coords_from_df': 'from .utils import coords_from_df',
                                             'coords_from_df_iter': 'from .utils import coords_from_df_iter',
                                             'logger': 'logging.getLogger(__name__)'})
    # the Linker class must be the one defined in linking.py
    if sum(1 for n in ltree.body if isinstance(n, ast.ClassDef) and n.name == 'Linker') != 1:
        raise TranslationError('linking/linking.py: class Linker not found (or defined twice)')
    for n in ast.walk(ltree):
        if isinstance(n, ast.Name) and isinstance(n.ctx, (ast.Store, ast.Del)) and n.id in ('Linker', 'np', 'itertools', 'guess_pos_columns',
                                                                                         'pandas_sort', 'coords_from_df',
                                                                                         'coords_from_df_iter', 'logger') \
                and not (n.id == 'logger' and getattr(n, 'col_offset', 1) == 0):
            raise TranslationError('linking/linking.py: %s is rebound (line %s)' % (n.id, n.lineno))
    for name, defs, where in (('coords_from_df', udefs, 'utils.py'), ('coords_from_df_iter', udefs, 'utils.py'),
                              ('link_iter', ldefs, 'linking.py'), ('link', ldefs, 'linking.py'), ('link_df_iter', ldefs, 'linking.py')):
        sig = SIGS[name]
        check_sig(defs[name], sig)
        loops = []
        fn = Fn(defs[name], sig, loops)
        main = fn.translate()
        out.append('(* ===== %s (%s line %d) ===== *)\n' % (name, where, defs[name].lineno) + '\n'.join(loops + [main]))
        if sig.get('sorts'):
            # the same statements once more, pandas_sort read as the oracle `srt` (pandas' default sort_values is
            # not stable): py_<name>_srt.  Everything but that one primitive must come out the same.
            loops2 = []
            main2 = Fn(defs[name], sig, loops2, srt=True).translate()
            want = main.replace('Definition py_%s (' % name, 'Definition py_%s_srt (srt : sort_oracle) (' % name, 1) \
                       .replace('(pandas_sort_inplace ', '(pandas_sort_inplace_by srt ')
            if loops2 != loops or main2 != want or main2 == main:
                raise TranslationError('%s: the translation with the sort oracle differs from the one with the stable sort '
                                       'in more than the sort' % name)
            out.append('(* ===== %s once more: pandas_sort(.., inplace=True) is DataFrame.sort_values with pandas\' default\n'
                       '   kind (quicksort, NOT stable); here it is the oracle srt (Model/PyCoords.v: sort_oracle), of which\n'
                       '   the theorems assume only sort_ok (Model/SortOracle.v).  py_%s above is the instance srt := stable_sort\n'
                       '   (by conversion: Proofs/CoordsGen2.v py_%s_is_stable_instance). ===== *)\n' % (name, name, name) + main2)
    out.append('(* link_df = link *)\nDefinition py_link_df := py_link.\nDefinition py_link_df_srt := py_link_srt.\n')
    return HEADER + '\n' + '\n'.join(out)


def main():
    ap = argparse.ArgumentParser()
    ap.add_argument('--repo', default=os.environ.get('TRACKPY_REPO', '/repo'))
    ap.add_argument('--out', default=os.path.join(os.path.dirname(os.path.dirname(os.path.abspath(__file__))), 'coq', 'Gen', 'coords.v'))
    ap.add_argument('--stdout', action='store_true')
    a = ap.parse_args()
    try:
        text = translate(a.repo)
    except TranslationError as e:
        sys.stderr.write('py2coq_coords: TRANSLATION ERROR: %s\n' % e)
        sys.exit(2)
    except (OSError, SyntaxError) as e:
        sys.stderr.write('py2coq_coords: TRANSLATION ERROR: cannot read / parse the source: %s\n' % e)
        sys.exit(2)
    except Exception as e:      # fail closed on anything unforeseen
        sys.stderr.write('py2coq_coords: TRANSLATION ERROR: internal error %r\n' % (e,))
        sys.exit(2)
    if a.stdout:
        sys.stdout.write(text)
        return
    old = open(a.out).read() if os.path.exists(a.out) else None
    if old != text:
        os.makedirs(os.path.dirname(a.out), exist_ok=True)
        tmp = a.out + '.tmp%d' % os.getpid()
        with open(tmp, 'w') as f:
            f.write(text)
        os.replace(tmp, a.out)
        print('py2coq_coords: wrote %s (changed)' % a.out)
    else:
        print('py2coq_coords: %s up to date' % a.out)


if __name__ == '__main__':
    main()
