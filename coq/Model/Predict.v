(* C11: prediction.  [link_step] already takes the predictor as a parameter
   [pred : nat -> src -> pt] (target step, source) applied to every live source,
   remembered ones included (Linker.update_hash -> prev_hash.set_predictor).
   Here: the uniform-drift predictor and the drifted movie.  No proofs. *)
From Coq Require Import ZArith List Bool.
From TP Require Import Model.Assign Model.Link.
Import ListNotations.
Open Scope Z_scope.

(* p + a, coordinate-wise (coordinates beyond the length of [a] are left alone) *)
Fixpoint shift (a p : pt) {struct p} : pt :=
  match p with
  | [] => []
  | x :: p' => match a with [] => p | y :: a' => (x + y) :: shift a' p' end
  end.
Definition scale (k : Z) (v : pt) : pt := map (Z.mul k) v.

(* frame number (the t handed to the predictor) of step i *)
Definition tag (tags : list Z) (i : nat) : Z := nth i tags 0.

(* extrapolate each particle by exactly v per frame: pos + v * (t1 - particle.t) *)
Definition pred_drift (v : pt) (tags : list Z) (t1 : nat) (s : src) : pt :=
  shift (scale (tag tags t1 - tag tags (s_seen s)) v) (s_pos s).

(* the movie with the drift v*t added to frame t *)
Definition drift_frames (v : pt) (tags : list Z) (k : nat) (frames : list (list pt)) : list (list pt) :=
  mapi_from (fun i ds => map (shift (scale (tag tags i) v)) ds) k frames.
