(* trackpy/linking/utils.py : coords_from_df, following the code:
     idxs = np.argsort(times, kind="mergesort")            (stable)
     unique_times, time_counts = np.unique(times, return_counts=True)
     pos_by_frame = np.split(pos, np.cumsum(time_counts)[:-1])
     for time in range(unique_times[0], unique_times[-1] + 1):
         if time == unique_times[idx]: yield pos_by_frame[idx]; idx += 1
         else: yield empty
   Proofs/CoordsFromDf.v shows it equals the declarative [table_frames] of
   Model/LinkTable.v (rows of frame t, in input order, for every t in [min, max]).
   No proofs here. *)
From Coq Require Import ZArith List Bool.
From TP Require Import Model.Assign Model.Link Model.LinkTable.
Import ListNotations.
Open Scope Z_scope.

(* stable sort by frame: a row goes before the first row whose frame is not smaller *)
Fixpoint insert_r (r : row) (l : list row) : list row :=
  match l with
  | [] => [r]
  | x :: l' => if r_frame x <? r_frame r then x :: insert_r r l' else r :: x :: l'
  end.
Definition sort_rows (l : list row) : list row := fold_right insert_r [] l.

(* np.unique + np.split on the sorted array: maximal runs of equal frame *)
Fixpoint runs (l : list row) : list (Z * list row) :=
  match l with
  | [] => []
  | r :: l' =>
    match runs l' with
    | (t, rs) :: rest => if r_frame r =? t then (t, r :: rs) :: rest else (r_frame r, [r]) :: (t, rs) :: rest
    | [] => [(r_frame r, [r])]
    end
  end.

(* the generator loop: time runs over range(first, last+1), idx over the runs *)
Fixpoint walk (t : Z) (n : nat) (rs : list (Z * list row)) : list (list row) :=
  match n with
  | O => []
  | S n' =>
    match rs with
    | (t', fr) :: rest => if t =? t' then fr :: walk (t + 1) n' rest else [] :: walk (t + 1) n' rs
    | [] => [] :: walk (t + 1) n' []
    end
  end.

Definition coords_from_df (rows : list row) : list (list row) :=
  match runs (sort_rows rows) with
  | [] => []
  | (t0, fr0) :: rest =>
    let tl := fst (last rest (t0, fr0)) in
    walk t0 (Z.to_nat (tl - t0 + 1)) ((t0, fr0) :: rest)
  end.

(* correspondence helper: the implementation's per-frame row ids against the model's *)
Fixpoint ids_eqb (a b : list (list nat)) : bool :=
  match a, b with
  | [], [] => true
  | x :: a', y :: b' => (if list_eq_dec Nat.eq_dec x y then true else false) && ids_eqb a' b'
  | _, _ => false
  end.
Definition check_cfd (rows : list row) (out : list (list nat)) : N :=
  if ids_eqb (map (map r_id) (coords_from_df rows)) out then 0%N else 1%N.
