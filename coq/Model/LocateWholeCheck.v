(* Executable check used by vp/props/c09.py (result code in N, 0 = ok): the model of the
   whole integer preprocess=False locate (Model/LocateWhole.locate_whole) against the table
   trackpy.locate itself returned for the same image.  No proofs in this file. *)
From Coq Require Import ZArith NArith QArith Qabs List Bool Arith.
From TP Require Import Model.Dilation Model.COM Model.COMCheck Model.Equivariance Model.LocateTail Model.LocateWhole.
Import ListNotations.
Open Scope Q_scope.

(* float position against the model's exact rational *)
Definition near_pos (a b : Q) : bool := Qle_bool (Qabs (a - b)) (1 # 1073741824).

(* a pair of refined rows whose rescaled distance is within 1e-6 of 1: cKDTree.query_pairs(1 - 1e-7)
   on float coordinates and the exact "< 1" of the model may disagree: skipped, counted *)
Definition borderline (sep : list Q) (table : list output) : bool :=
  existsb (fun xy => let d2 := d2r sep (o_pos (fst xy)) (o_pos (snd xy)) in
                     Qle_bool (999998 # 1000000) d2 && Qle_bool d2 (1000002 # 1000000))
          (ordpairs table).

(* 0 ok | 40 number of rows | 41 a position | 42 a mass |
   97 a pair at the separation boundary (skipped) | 98 a tie (outside the theorems; skipped) |
   99 a shift decision within 2^-40 of shift_thresh (skipped) *)
Definition check_whole (thr : Q) (P : lparams) (T : tparams) (im : image) (rows : list (list Q * Q)) : N :=
  let mx := find_maxima (fun _ => thr) P im in
  if existsb (degenerate (pix im) (lp_radius P) (shape im) (lp_thresh P) (pred (iters_of (lp_maxit P)))) mx then 99%N
  else
    let table := map (refine_at P im) mx in
    if negb (no_tie (lp_sep P) T table) then 98%N
    else if borderline (lp_sep P) table then 97%N
    else
      let model := tail_out (lp_sep P) T table in
      if negb (length model =? length rows)%nat then 40%N
      else fold_left (fun acc mo =>
                        if N.eqb acc 0 then
                          match mo with (o, (pos, mass)) =>
                            if negb (Equivariance.all2 near_pos (o_pos o) pos) then 41%N
                            else if negb (Qeq_bool (out_mass o) mass) then 42%N else 0%N
                          end
                        else acc) (combine model rows) 0%N.
