(* C09, route T for the head of locate: concrete replay of the parts of Gen/locatehead.v that the harness (H) of
   Model/LocateheadCheck.v does not execute (integer images, preprocess=False only).  vp/props/c09.py, harness (P),
   runs the implementation and hands what it observed to these functions, which EXECUTE the generated functions on the
   same input and compare:

     check_convert     preprocessing.convert_to_int on a FLOAT image (2-D; image_max == 0, negative values, the scale
                       factor iinfo(dtype).max / image.max()) and scale_to_gamut / scalefactor_to_gamut
     check_invert_int  preprocessing.invert_image on an integer image (xor with iinfo(dtype).max)
     check_invert_flt  preprocessing.invert_image on a float image (1 - image)
     check_threshold   locate(preprocess=True, threshold=None) on an INTEGER image: the image locate hands to
                       grey_dilation (bandpass with the default threshold 1, then convert_to_int to the raw dtype), as
                       observed through a wrapper around trackpy.feature.grey_dilation, against the [image] component
                       of the executed generated head py_locate_head

   Floats: the implementation computes in float64, the generated functions in exact rationals.  A pixel is compared
   exactly unless its exact pre-truncation value is within 2^-20 of an integer (then truncation may legitimately fall
   on either side: |difference| <= 1 is accepted) or, for check_threshold, its exact band-passed value is within 2^-20
   of the threshold (the whole case is skipped, code 99).  [strict] cases (dyadic inputs on which every float operation
   is exact) are compared exactly.  No proofs in this file. *)
From Coq Require Import ZArith NArith QArith Qabs Qround List Bool String.
From TP Require Import Model.Dilation Model.COM Model.LocateTail Model.LocatePipe Model.StaticError Model.PyTail
                       Model.PyLocatehead Model.LocatePipe2 Gen.locatehead Model.LocateheadCheck.
From TP Require Model.PyPreproc Model.PyRefine Model.Bandpass Gen.preproc.
Import ListNotations.
Open Scope Z_scope.

Definition eps20 : Q := 1 # 1048576.
Definition eps50 : Q := 1 # 1125899906842624.

(* distance of q to the nearest integer *)
Definition int_dist (q : Q) : Q :=
  let f := (q - inject_Z (Qfloor q))%Q in if Qle_bool f (1 # 2) then f else (1 - f)%Q.
Definition near_int (q : Q) : bool := Qle_bool (int_dist q) eps20.

Definition qrel_near (a b : Q) : bool := Qle_bool (Qabs (a - b)) (Qabs a * eps50).

(* pixelwise comparison of an integer image g (generated) with the observed rows o; [pre y x] is the exact value before
   truncation.  0 ok | 2 shape | 3 a pixel *)
Definition rows_of_image (im : image) : list (list Z) :=
  map (fun y => map (fun x => pix im [y; x]) (zrange (ix (shape im) 1))) (zrange (ix (shape im) 0)).

Fixpoint cmp_row (strict : bool) (g o : list Z) (pre : list Q) : N :=
  match g, o, pre with
  | [], [], _ => 0%N
  | a :: g', b :: o', e :: pre' =>
      if a =? b then cmp_row strict g' o' pre'
      else if negb strict && near_int e && (Z.abs (a - b) <=? 1) then cmp_row strict g' o' pre'
      else 3%N
  | _, _, _ => 2%N
  end.
Fixpoint cmp_rows (strict : bool) (g o : list (list Z)) (pre : list (list Q)) : N :=
  match g, o, pre with
  | [], [], _ => 0%N
  | a :: g', b :: o', e :: pre' => match cmp_row strict a b e with 0%N => cmp_rows strict g' o' pre' | k => k end
  | _, _, _ => 2%N
  end.

(* ---------------------------------------------------------------- convert_to_int / scale_to_gamut on a float image *)
Record ccase := mkCC {
  cc_img : list (list Q);          (* the float image, row by row, exact values *)
  cc_signed : bool; cc_bits : Z;   (* the integer dtype asked for *)
  cc_strict : bool;                (* every float operation of the implementation is exact on this input *)
  cc_sf : Q;                       (* observed scale factor *)
  cc_obs : list (list Z);          (* observed integer image *)
  cc_gamut : option (Q * list (list Z)) }.   (* scalefactor_to_gamut, scale_to_gamut(image, dtype) as observed (image.max() <> 0) *)

(* 0 ok | 1 scale factor | 2 shape | 3 a pixel | 4 the generated function raised / returned a float image | 5 dtype
   | 11-15 the same for scale_to_gamut / scalefactor_to_gamut *)
Definition check_convert (c : ccase) : N :=
  let d := mkDT (cc_signed c) (cc_bits c) in
  match py_convert_to_int fops2 (ImF (cc_img c)) (DInt d) with
  | ROk (sf, ImZ d' g) =>
      if negb (int_dtype_eqb d d') then 5%N
      else if negb (if cc_strict c then Qeq_bool sf (cc_sf c) else qrel_near sf (cc_sf c)) then 1%N
      else
        let pre := map (map (fun v => (sf * (if Qle_bool 0 v then v else 0))%Q)) (cc_img c) in
        match cmp_rows (cc_strict c) (rows_of_image g) (cc_obs c) pre with
        | 0%N =>
            match cc_gamut c with
            | None => 0%N
            | Some (gsf, gobs) =>
                match py_scalefactor_to_gamut fops2 (ImF (cc_img c)) (DInt d), py_scale_to_gamut fops2 (ImF (cc_img c)) (DInt d) None with
                | ROk sf2, ROk (ImZ d2 g2) =>
                    if negb (int_dtype_eqb d d2) then 15%N
                    else if negb (if cc_strict c then Qeq_bool sf2 gsf else qrel_near sf2 gsf) then 11%N
                    else match cmp_rows (cc_strict c) (rows_of_image g2) gobs pre with 0%N => 0%N | k => (10 + k)%N end
                | _, _ => 14%N
                end
            end
        | k => k
        end
  | _ => 4%N
  end.

(* ---------------------------------------------------------------- invert_image *)
Record icase := mkIC { ic_signed : bool; ic_bits : Z; ic_rows : list (list Z); ic_obs : list (list Z) }.
(* 0 ok | 2 shape | 3 a pixel | 4 raised | 5 dtype *)
Definition check_invert_int (c : icase) : N :=
  let d := mkDT (ic_signed c) (ic_bits c) in
  match py_invert_image fops2 (ImZ d (image_of_rows (ic_rows c))) None with
  | ROk (ImZ d' g) =>
      if negb (int_dtype_eqb d d') then 5%N
      else cmp_rows true (rows_of_image {| shape := shape (image_of_rows (ic_rows c)); data := data g |}) (ic_obs c)
                    (map (map inject_Z) (ic_rows c))
  | _ => 4%N
  end.

Record fcase := mkFC { fc_rows : list (list Q); fc_obs : list (list Q) }.
Fixpoint qcmp_row (g o : list Q) : N :=
  match g, o with
  | [], [] => 0%N
  | a :: g', b :: o' => if Qle_bool (Qabs (a - b)) eps50 then qcmp_row g' o' else 3%N
  | _, _ => 2%N
  end.
Fixpoint qcmp_rows (g o : list (list Q)) : N :=
  match g, o with
  | [], [] => 0%N
  | a :: g', b :: o' => match qcmp_row a b with 0%N => qcmp_rows g' o' | k => k end
  | _, _ => 2%N
  end.
(* values in [-8, 8]: one float subtraction is within 2^-50 of the exact one *)
Definition check_invert_flt (c : fcase) : N :=
  match py_invert_image fops2 (ImF (fc_rows c)) None with
  | ROk (ImF g) => qcmp_rows g (fc_obs c)
  | _ => 4%N
  end.

(* ---------------------------------------------------------------- the default threshold of locate, preprocess=True *)
Record tcase := mkTC {
  tc_signed : bool; tc_bits : Z;
  tc_rows : list (list Z);                 (* the integer image *)
  tc_diameter : Z;                         (* scalar diameter; noise_size = 1, smoothing_size = None (diameter) *)
  tc_exp : list (Q * Q);                   (* np.exp as observed: (argument, value) for the arguments of gaussian_kernel *)
  tc_obs : list (list Z) }.                (* the image locate handed to grey_dilation *)

Definition exp_lookup (t : list (Q * Q)) (q : Q) : Q :=
  match find (fun kv => Qeq_bool (fst kv) q) t with Some kv => snd kv | None => 0%Q end.

Definition head_image {A} (r : PyRefine.out_frame * list Q * list string * Q * Q * option Q * option nat * bool *
                               np_img A * np_img A * list Z * nat * list Q * list (list Z) * list Z) : np_img A :=
  let '(_, _, _, _, _, _, _, _, image, _, _, _, _, _, _) := r in image.

Definition qmax_rows (l : list (list Q)) : Q :=
  fold_left (fun a b => if Qle_bool a b then b else a) (List.concat l) 0%Q.

(* 0 ok | 2 shape | 3 a pixel | 4 the generated head raised | 5 dtype | 6 the generated bandpass raised (guard)
   | 99 a band-passed value within 2^-20 of the threshold 1 (skipped) *)
Definition check_threshold (c : tcase) : N :=
  let d := mkDT (tc_signed c) (tc_bits c) in
  let im := image_of_rows (tc_rows c) in
  let nexp := exp_lookup (tc_exp c) in
  match py_locate_head fops2 (fun _ _ => 1%Q) nexp false (ImZ d im) (PyPreproc.PyScalar (tc_diameter c)) None None None
                       (PyPreproc.PyScalar 1%Q) None None false 64%Q None true 1 None None false "python"%string with
  | ROk r =>
      match head_image r with
      | ImZ d' g =>
          if negb (int_dtype_eqb d d') then 5%N else
          (* the guard: the exact band-passed image before thresholding (threshold far below every value) *)
          match Gen.preproc.py_bandpass PyPreproc.nd2 nexp (img2_of_int im) PyPreproc.np_integer_dtype
                                        (PyPreproc.PyScalar 1%Q) (PyPreproc.PyScalar (tc_diameter c))
                                        (Some (- (1000000000))%Q) Gen.preproc.py_bandpass_default_truncate with
          | PyPreproc.Ret R =>
              if existsb (existsb (fun v => Qle_bool (Qabs (v - 1)) eps20)) R then 99%N else
              let B := map (map (fun v => if Qle_bool 1 v then v else 0%Q)) R in
              let M := qmax_rows B in
              let sf := if Qeq_bool M 0 then 1%Q else (inject_Z (iinfo_max d) / M)%Q in
              cmp_rows false (rows_of_image g) (tc_obs c) (map (map (fun v => (sf * v)%Q)) B)
          | _ => 6%N
          end
      | ImF _ => 4%N
      end
  | RRaise _ => 4%N
  end.
