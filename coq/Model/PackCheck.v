(* C15 correspondence driver: runs the Pack model at A := Z and compares with
   what trackpy's vect_from_params / vect_to_params returned on the same
   integer-valued input (None = the Python call raised).
   Result codes (N): 0 agree, 1 values differ, 2 model raises / Python returned,
   3 model returns / Python raised.  No proofs in this file. *)
From Coq Require Import ZArith NArith List Bool.
From TP Require Import Model.Pack.
Import ListNotations.
Open Scope Z_scope.

Fixpoint zlist_eqb (a b : list Z) : bool :=
  match a, b with
  | [], [] => true
  | x :: a', y :: b' => Z.eqb x y && zlist_eqb a' b'
  | _, _ => false
  end.

Fixpoint zmat_eqb (a b : list (list Z)) : bool :=
  match a, b with
  | [], [] => true
  | x :: a', y :: b' => zlist_eqb x y && zmat_eqb a' b'
  | _, _ => false
  end.

Definition z_sum (l : list Z) : option Z := Some (fold_right Z.add 0 l).
Definition z_min (l : list Z) : option Z :=
  match l with [] => None | x :: r => Some (fold_right Z.min x r) end.
Definition z_max (l : list Z) : option Z :=
  match l with [] => None | x :: r => Some (fold_right Z.max x r) end.

(* 0: operation=None, 1: np.sum, 2: np.min, 3: np.max *)
Definition op_of (code : N) : option (list Z -> option Z) :=
  match code with
  | 0%N => None
  | 1%N => Some z_sum
  | 2%N => Some z_min
  | _ => Some z_max
  end.

Definition check_pack (c : N * groups_t * list nat * list (list Z) * option (list Z)) : N :=
  match c with
  | (code, groups, modes, cols, expected) =>
      match pack (op_of code) groups modes cols, expected with
      | Some v, Some e => if zlist_eqb v e then 0%N else 1%N
      | None, None => 0%N
      | None, Some _ => 2%N
      | Some _, None => 3%N
      end
  end.

Definition check_unpack (c : groups_t * nat * list nat * list Z * list (list Z) * option (list (list Z))) : N :=
  match c with
  | (groups, n, modes, vect, cols, expected) =>
      match unpack groups n modes vect cols, expected with
      | Some (P, _), Some e => if zmat_eqb P e then 0%N else 1%N
      | None, None => 0%N
      | None, Some _ => 2%N
      | Some _, None => 3%N
      end
  end.
