(* C01, route T: what is assumed of DataFrame.sort_values as trackpy.link calls it
   (pandas_sort(f, t_column, inplace=True): pandas' default kind is quicksort, which is not
   stable).  The generated py_link_srt (Gen/coords.v) takes the sort as an oracle
   [srt : sort_oracle] (Model/PyCoords.v); the theorems of Proofs/CoordsGen2.v assume [sort_ok srt]
   and nothing else: the rows come back as a permutation of the rows that went in, ordered by
   the key.  Which of the rows with equal keys comes first is left open.  Declarative
   definitions and example oracles only; no proofs. *)
From Coq Require Import String ZArith List Bool Permutation.
From TP Require Import Model.Assign Model.Link Model.LinkTable Model.PyCoords.
Import ListNotations.
Open Scope Z_scope.

(* ordered by an integer key: no element is followed (anywhere later) by one with a smaller key *)
Inductive sorted_by {A} (key : A -> Z) : list A -> Prop :=
| sorted_nil : sorted_by key []
| sorted_cons a l : Forall (fun x => key a <= key x) l -> sorted_by key l -> sorted_by key (a :: l).

Definition sort_ok (srt : sort_oracle) : Prop :=
  forall key l, Permutation (srt key l) l /\ sorted_by key (srt key l).

(* example oracles that are NOT stable:
   - rows of equal key come back in the reverse of the caller's order *)
Definition reversing_sort : sort_oracle := fun key l => isort_k key (rev l).
(* - ties broken by a second key the caller does not control (here: larger identity first) *)
Definition id_desc_sort : sort_oracle := fun key l => isort_k key (isort_k (fun r => - Z.of_nat (d_id r)) l).

(* the frames (row lists per frame number) are the same up to the order within each frame *)
Definition frames_perm (a b : list (list row)) : Prop := Forall2 (@Permutation row) a b.

(* link's frame coercion `f[t_column] = f[t_column].astype(np.int64)` (done when the dtype of the frame
   column is not an integer type), per row: the cell is re-written with its own value *)
Definition coerce_frame (tc : string) (f : DataFrame) (r : drow) : drow :=
  if mem_str tc (df_float f) then set_cell tc (cell tc r) r else r.
