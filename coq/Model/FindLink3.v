(* C14: hand-written model of FindLinker.next_level / assign_links AS THE CODE IS, one level
   closer to trackpy/linking/find_link.py and subnet.py than Model/FindLink.v:

   * the subnets are an explicit argument [gs] (any list of groups): the code visits the
     dictionary Subnets.subnets in its own order, and which subnets exist is decided by
     Subnets.compute / include_lost / merge_lost_subnets ([code_groups] below).  Every theorem
     about the step needs only that [gs] is a partition of the source points;
   * a source point is a RAW item (index, forward_cands in insertion order, no null link); the
     subnet linker reads it through [ext_item] exactly as Model/FindLink.group_step does;
   * only the CLAIMED relocated points enter the frame (self.hash): a relocated point is an
     object, identified by a fresh number [c_next] (never reused); the points the frame holds
     beyond the detected ones are [c_added] with their numbers [c_ids]; at the end the links
     are read against the final frame ([pos_of_id]).  Model/FindLink.group_step keeps every
     relocated point within range.

   No proofs in this file. *)
From Coq Require Import ZArith QArith List Bool Arith.
From TP Require Import Model.Assign Model.Link Model.FindLink.
Import ListNotations.
Open Scope Z_scope.

(* ------------------------------------------------------------ raw source points *)
Definition raw_items (m : metric) (pred : nat -> src -> pt) (st : lstate) (ds : list pt) : list item :=
  mapi_from (fun i s => (i, real_cands m (pred (now st) s) ds 0)) 0 (live st).

Definition has_cands (it : item) : bool := negb (length (snd it) =? 0)%nat.

(* ------------------------------------------------------------ the dictionary of subnets *)
Definition sdict := list (nat * group).

Fixpoint d_get (k : nat) (d : sdict) : option group :=
  match d with
  | [] => None
  | (k', g) :: d' => if Nat.eqb k k' then Some g else d_get k d'
  end.
(* d[k] = g : replace the first binding, else append (dicts keep insertion order) *)
Fixpoint d_set (k : nat) (g : group) (d : sdict) : sdict :=
  match d with
  | [] => [(k, g)]
  | (k', g') :: d' => if Nat.eqb k k' then (k', g) :: d' else (k', g') :: d_set k g d'
  end.
(* del d[k] : the first binding *)
Fixpoint d_del (k : nat) (d : sdict) : sdict :=
  match d with
  | [] => []
  | (k', g') :: d' => if Nat.eqb k k' then d' else (k', g') :: d_del k d'
  end.
Definition d_max (d : sdict) : nat := fold_left Nat.max (map fst d) 0%nat.
(* p.subnet : the key of the first subnet that holds source p *)
Fixpoint d_key_of (p : nat) (d : sdict) : option nat :=
  match d with
  | [] => None
  | (k, g) :: d' => if has_src p g then Some k else d_key_of p d'
  end.
(* subnets[i2] takes over subnets[i1], which is deleted *)
Definition d_merge (d : sdict) (i2 i1 : nat) : sdict :=
  if Nat.eqb i1 i2 then d else
  match d_get i1 d, d_get i2 d with
  | Some g1, Some g2 => d_del i1 (d_set i2 (g2 ++ g1) d)
  | _, _ => d
  end.

Definition enum_from {A} (k : nat) (l : list A) : list (nat * A) := combine (seq k (length l)) l.

(* Subnets.__init__ (reset + compute): the connected components of the candidate graph of the
   sources that have a candidate (a source without one never enters a subnet) *)
Definition subnets_compute (items : list item) : sdict := enum_from 0 (components (filter has_cands items)).

(* Subnets.include_lost: every source without a candidate becomes a subnet of its own, under
   fresh keys *)
Fixpoint lost_from (k : nat) (items : list item) : sdict :=
  match items with
  | [] => []
  | it :: items' => if has_cands it then lost_from k items' else (k, [it]) :: lost_from (S k) items'
  end.
Definition include_lost_c (d : sdict) (items : list item) : sdict :=
  d ++ lost_from (if (0 <? length d)%nat then S (d_max d) else 0%nat) items.

(* Subnets.merge_lost_subnets: every source p of a subnet with more sources than destinations,
   and every source wp within 2*search_range of it (all of them, in the order of the source
   hash: the neighbour cap and the KD-tree's order are not modelled), end up in one subnet: the
   one with the smaller key takes the other over *)
Definition near_sources (m : metric) (pos : nat -> pt) (n : nat) (p : nat) : list nat :=
  filter (fun j => d2w (mw m) (pos p) (pos j) <=? 4 * mR2 m) (seq 0 n).

Definition merge_one (d : sdict) (p wp : nat) : sdict :=
  match d_key_of p d, d_key_of wp d with
  | Some i1, Some i2 =>
    if Nat.eqb i1 i2 then d else if (i1 <? i2)%nat then d_merge d i1 i2 else d_merge d i2 i1
  | _, _ => d
  end.

Definition lost_sources (d : sdict) : list item :=
  flat_map (fun k => match d_get k d with
                     | Some g => if (0 <? shortage g)%nat then g else []
                     | None => []
                     end) (map fst d).

Definition merge_lost_c (m : metric) (pos : nat -> pt) (n : nat) (d : sdict) : sdict :=
  fold_left (fun d (p : item) => fold_left (fun d wp => merge_one d (fst p) wp) (near_sources m pos n (fst p)) d)
            (lost_sources d) d.

(* the subnets FindLinker.assign_links iterates over *)
Definition code_groups (m : metric) (pred : nat -> src -> pt) (st : lstate) (ds : list pt) : list group :=
  let items := raw_items m pred st ds in
  map snd (merge_lost_c m (src_pos pred st) (length (live st)) (include_lost_c (subnets_compute items) items)).

(* ------------------------------------------------------------ one subnet *)
Record cacc := { c_added : list pt; c_ids : list nat; c_next : nat; c_links : list link_t }.

Definition claimed_b (l : list link_t) (j : nat) : bool :=
  existsb (fun x : link_t => match fst (snd x) with Some j' => Nat.eqb j' j | None => false end) l.

Fixpoint keep {A} (mask : list bool) (l : list A) : list A :=
  match mask, l with
  | b :: mask', x :: l' => if b then x :: keep mask' l' else keep mask' l'
  | _, _ => []
  end.

Definition group_step_c (m : metric) (max_size : nat) (pred : nat -> src -> pt) (rel : reloc_fn)
           (st : lstate) (ds : list pt) (a : cacc) (g : group) : result cacc :=
  let sh := shortage g in
  let pos := map (fun it : item => src_pos pred st (fst it)) g in
  let new := if (0 <? sh)%nat
             then filter (in_range_any m pos) (rel pos (ds ++ c_added a) sh)
             else [] in
  let base := c_next a in
  match solve_group max_size (map (ext_item m pred st ds new base) g) with
  | Oversize => Oversize
  | Ok l =>
    let mask := map (claimed_b l) (seq base (length new)) in
    Ok {| c_added := c_added a ++ keep mask new;
          c_ids := c_ids a ++ keep mask (seq base (length new));
          c_next := (base + length new)%nat;
          c_links := c_links a ++ l |}
  end.

Fixpoint groups_run_c (m : metric) (max_size : nat) (pred : nat -> src -> pt) (rel : reloc_fn)
         (st : lstate) (ds : list pt) (a : cacc) (gs : list group) : result cacc :=
  match gs with
  | [] => Ok a
  | g :: gs' =>
    match group_step_c m max_size pred rel st ds a g with
    | Oversize => Oversize
    | Ok a' => groups_run_c m max_size pred rel st ds a' gs'
    end
  end.

(* where the point numbered j sits in the final frame (detected points are numbered by their
   index; a number that is nowhere stays what it is) *)
Fixpoint index_of (j : nat) (l : list nat) : option nat :=
  match l with
  | [] => None
  | x :: l' => if Nat.eqb x j then Some 0%nat else option_map S (index_of j l')
  end.
Definition pos_of_id (nds : nat) (ids : list nat) (j : nat) : nat :=
  if (j <? nds)%nat then j else
  match index_of j ids with Some p => (nds + p)%nat | None => j end.

Definition final_link (nds : nat) (ids : list nat) (l : link_t) : link_t :=
  (fst l, (option_map (pos_of_id nds ids) (fst (snd l)), snd (snd l))).

Definition cacc0 (ds : list pt) : cacc := {| c_added := []; c_ids := []; c_next := length ds; c_links := [] |}.

(* FindLinker.next_level on the subnets [gs] *)
Definition find_step_gs (m : metric) (mem max_size : nat) (pred : nat -> src -> pt) (rel : reloc_fn)
           (gs : list group) (st : lstate) (ds : list pt) : result (lstate * list nat * list pt) :=
  match groups_run_c m max_size pred rel st ds (cacc0 ds) gs with
  | Oversize => Oversize
  | Ok a =>
    let D := ds ++ c_added a in
    let (st', labs) := apply_links mem st D (map (final_link (length ds) (c_ids a)) (c_links a)) in
    Ok (st', labs, D)
  end.

(* ... on the subnets the code builds *)
Definition find_step_c (m : metric) (mem max_size : nat) (pred : nat -> src -> pt) (rel : reloc_fn)
           (st : lstate) (ds : list pt) : result (lstate * list nat * list pt) :=
  find_step_gs m mem max_size pred rel (code_groups m pred st ds) st ds.

(* the frame loop, with the grouping of every step a parameter *)
Definition grouping := lstate -> list pt -> list group.

Fixpoint find_run_gs (m : metric) (mem max_size : nat) (pred : nat -> src -> pt) (grp : grouping)
         (st : lstate) (frames : list (list pt * reloc_fn)) : result (list (list nat * list pt)) :=
  match frames with
  | [] => Ok []
  | (ds, rel) :: rest =>
    match find_step_gs m mem max_size pred rel (grp st ds) st ds with
    | Oversize => Oversize
    | Ok (st', labs, D) =>
      match find_run_gs m mem max_size pred grp st' rest with
      | Oversize => Oversize
      | Ok out => Ok ((labs, D) :: out)
      end
    end
  end.

Definition find_link_gs (m : metric) (mem max_size : nat) (pred : nat -> src -> pt) (grp : grouping)
           (f0 : list pt) (rest : list (list pt * reloc_fn)) : result (list (list nat * list pt)) :=
  let (st, labs) := init_state f0 in
  match find_run_gs m mem max_size pred grp st rest with
  | Oversize => Oversize
  | Ok out => Ok ((labs, f0) :: out)
  end.

Definition find_link_c (m : metric) (mem max_size : nat) (pred : nat -> src -> pt) :=
  find_link_gs m mem max_size pred (code_groups m pred).
