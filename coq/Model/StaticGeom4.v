(* Vocabulary for the 3-D edge correction beyond the single-axis regime
   (Proofs/StaticLune.v, Proofs/StaticGeom4.v).  Definitions only.

   Slicing the sphere of radius r perpendicular to a coordinate axis ax at
   height t gives a circle of radius rho r t = sqrt(r^2 - t^2) in the plane of
   the two other coordinates; the four faces parallel to ax cut that circle
   exactly as the four walls of the 2-D problem cut a circle of that radius. *)
From Coq Require Import Reals List.
From TP Require Import Model.StaticGeom Model.StaticGeom2 Model.StaticGeom3.
Import ListNotations.
Open Scope R_scope.

Definition rho (r t : R) : R := sqrt (r * r - t * t).

(* wall distances of the four faces parallel to ax, in the order
   (cos-, cos+, sin-, sin+) of the in-plane coordinates of sphere_pt ax:
   AX: (y, z);  AY: (z, x);  AZ: (x, y) *)
Definition lateral (ax : axis) (xm xp ym yp zm zp : R) : R * R * R * R :=
  match ax with
  | AX => (ym, yp, zm, zp)
  | AY => (zm, zp, xm, xp)
  | AZ => (xm, xp, ym, yp)
  end.

(* angular measure of the slice at height t of (sphere /\ box):
   nothing outside the slab -lo <= t <= hi of the two faces perpendicular to
   ax; inside it the 2-D edge correction arclen_2d of the slice circle,
   divided by its radius *)
Definition slice_measure (r lo hi hl hr hb ht t : R) : R :=
  if Rle_dec (- lo) t then
    if Rle_dec t hi then arclen_2d (rho r t) hl hr hb ht / rho r t else 0
  else 0.

Definition slice_measure_ax (ax : axis) (r xm xp ym yp zm zp t : R) : R :=
  let '(hl, hr, hb, ht) := lateral ax xm xp ym yp zm zp in
  slice_measure r (fst (along ax xm xp ym yp zm zp)) (snd (along ax xm xp ym yp zm zp)) hl hr hb ht t.

(* the parts of the sphere cut off by one half-space / by two perpendicular
   half-spaces (closed), as sets of points relative to the centre *)
Definition beyond_x (dx : R) (p : R * R * R) : Prop := dx <= X3 p.
Definition beyond_xy (dx dy : R) (p : R * R * R) : Prop := dx <= X3 p /\ dy <= Y3 p.

(* [no_cross r f g]: the caps of the faces at distances f and g do not overlap
   (the code's edge mask f^2 + g^2 < r^2 is off) *)
Definition no_cross (r f g : R) : Prop := r * r <= f * f + g * g.

(* neither face perpendicular to ax has a cap overlapping the cap of a face
   parallel to ax: every edge term that is switched on belongs to a box edge
   parallel to ax (and no corner term is on) *)
Definition edges_parallel_only (ax : axis) (r xm xp ym yp zm zp : R) : Prop :=
  let '(hl, hr, hb, ht) := lateral ax xm xp ym yp zm zp in
  let lo := fst (along ax xm xp ym yp zm zp) in
  let hi := snd (along ax xm xp ym yp zm zp) in
  (no_cross r lo hl /\ no_cross r lo hr /\ no_cross r lo hb /\ no_cross r lo ht) /\
  (no_cross r hi hl /\ no_cross r hi hr /\ no_cross r hi hb /\ no_cross r hi ht).
