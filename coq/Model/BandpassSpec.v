(* Declarative statement of "the documented filter" for C10, written with
   lists, sums and index arithmetic only (no model vocabulary, no proofs).

     smoothed(p)  = sum over offsets a_i in [-lw_i, lw_i] of
                      prod_i g_i(a_i) * image0(p + a)        image0 = image, 0 outside
     g_i(x)       = E_i(x) / sum_{y=-lw_i..lw_i} E_i(y)       E_i(x) = exp(-x^2/(2 lshort_i^2))
     lw_i         = floor(truncate * lshort_i + 1/2)          (no smoothing when lshort_i <= 0)
     average(p)   = mean over offsets b_i in [-(llong_i-1)/2, (llong_i-1)/2] of
                      imageE(p + b)                           imageE = image, edge values repeated
     bandpass(p)  = let d = smoothed(p) - average(p) in if d >= threshold then d else 0

   g_i is even (E depends on |x| only), so the correlation written here IS the
   convolution (Proofs/Bandpass.v, smooth2_convolution). *)
From Coq Require Import ZArith QArith Qround List Bool.
Import ListNotations.
Open Scope Q_scope.

(* sum_{k<n} f k   and   sum_{x=-r..r} f x *)
Fixpoint Qsum (n : nat) (f : nat -> Q) : Q :=
  match n with O => 0 | S n' => Qsum n' f + f n' end.
Definition Qsum_sym (r : Z) (f : Z -> Q) : Q :=
  Qsum (Z.to_nat (2 * r + 1)) (fun k => f (Z.of_nat k - r)%Z).

(* pixel access *)
Definition px2 (im : list (list Q)) (i j : Z) : Q :=
  nth (Z.to_nat j) (nth (Z.to_nat i) im []) 0.
Definition px3 (im : list (list (list Q))) (i j k : Z) : Q :=
  nth (Z.to_nat k) (nth (Z.to_nat j) (nth (Z.to_nat i) im []) []) 0.

Definition inside (n : nat) (i : Z) : bool := (0 <=? i)%Z && (i <? Z.of_nat n)%Z.
Definition clamp (n : nat) (i : Z) : Z := Z.max 0 (Z.min i (Z.of_nat n - 1)).

(* shapes *)
Definition rect2 (H W : nat) (im : list (list Q)) : Prop :=
  length im = H /\ Forall (fun r => length r = W) im.
Definition rect3 (D H W : nat) (im : list (list (list Q))) : Prop :=
  length im = D /\ Forall (rect2 H W) im.

(* the image continued beyond its border: by zeros / by repeating the edge *)
Definition zero_ext2 (H W : nat) im (i j : Z) : Q :=
  if inside H i && inside W j then px2 im i j else 0.
Definition edge_ext2 (H W : nat) im (i j : Z) : Q := px2 im (clamp H i) (clamp W j).
Definition zero_ext3 (D H W : nat) im (i j k : Z) : Q :=
  if inside D i && inside H j && inside W k then px3 im i j k else 0.
Definition edge_ext3 (D H W : nat) im (i j k : Z) : Q :=
  px3 im (clamp D i) (clamp H j) (clamp W k).

(* the truncated normalised Gaussian of one axis.  [expo] tabulates
   exp(-n^2/(2 sigma^2)) for n = 0, 1, 2, ... *)
Definition gtab (expo : list Q) (x : Z) : Q := nth (Z.abs_nat x) expo 0.
Definition gauss_hw (truncate sigma : Q) : Z :=
  if Qle_bool sigma 0 then 0%Z else Qfloor (truncate * sigma + (1 # 2)).
Definition gauss_w (truncate sigma : Q) (expo : list Q) (x : Z) : Q :=
  if Qle_bool sigma 0 then 1
  else gtab expo x / Qsum_sym (gauss_hw truncate sigma) (gtab expo).

(* half side of the averaging box *)
Definition box_hw (llong : Z) : Z := ((llong - 1) / 2)%Z.

Definition clip_below (threshold v : Q) : Q := if Qle_bool threshold v then v else 0.

(* ---- 2-D ---- *)
Definition smooth2 (H W : nat) (ly lx : Z) (gy gx : Z -> Q) im (i j : Z) : Q :=
  Qsum_sym ly (fun a => Qsum_sym lx (fun b =>
    gy a * gx b * zero_ext2 H W im (i + a) (j + b))).

Definition average2 (H W : nat) (by_ bx : Z) im (i j : Z) : Q :=
  Qsum_sym by_ (fun a => Qsum_sym bx (fun b => edge_ext2 H W im (i + a) (j + b)))
  / inject_Z ((2 * by_ + 1) * (2 * bx + 1)).

(* ---- 3-D ---- *)
Definition smooth3 (D H W : nat) (lz ly lx : Z) (gz gy gx : Z -> Q) im (i j k : Z) : Q :=
  Qsum_sym lz (fun a => Qsum_sym ly (fun b => Qsum_sym lx (fun c =>
    gz a * gy b * gx c * zero_ext3 D H W im (i + a) (j + b) (k + c)))).

Definition average3 (D H W : nat) (bz by_ bx : Z) im (i j k : Z) : Q :=
  Qsum_sym bz (fun a => Qsum_sym by_ (fun b => Qsum_sym bx (fun c =>
    edge_ext3 D H W im (i + a) (j + b) (k + c))))
  / inject_Z ((2 * bz + 1) * (2 * by_ + 1) * (2 * bx + 1)).

(* ---- the documented result, pixel (i, j) of an H x W image ---- *)
Definition difference2 (H W : nat) (truncate lshort_y lshort_x : Q) (Ey Ex : list Q)
           (llong_y llong_x : Z) im (i j : Z) : Q :=
  smooth2 H W (gauss_hw truncate lshort_y) (gauss_hw truncate lshort_x)
          (gauss_w truncate lshort_y Ey) (gauss_w truncate lshort_x Ex) im i j
  - average2 H W (box_hw llong_y) (box_hw llong_x) im i j.

Definition documented2 (H W : nat) (truncate lshort_y lshort_x : Q) (Ey Ex : list Q)
           (llong_y llong_x : Z) (threshold : Q) im (i j : Z) : Q :=
  clip_below threshold (difference2 H W truncate lshort_y lshort_x Ey Ex llong_y llong_x im i j).

(* B is A with the two axes exchanged *)
Definition transposed2 (H W : nat) (A B : list (list Q)) : Prop :=
  rect2 H W A /\ rect2 W H B /\
  forall i j, (0 <= i < Z.of_nat H)%Z -> (0 <= j < Z.of_nat W)%Z -> px2 B j i = px2 A i j.

Definition scale2 (c : Q) (im : list (list Q)) : list (list Q) := map (map (Qmult c)) im.
