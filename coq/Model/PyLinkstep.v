(* Run-time vocabulary of Gen/linkstep.v, the file tools/py2coq_linkstep.py generates (route T)
   from the CURRENT source text of the per-step bookkeeping of the Linker:

     Subnets.__init__ / reset / compute / __iter__ / lost      trackpy/linking/subnet.py
     subnet_linker_recursive                                   trackpy/linking/subnetlinker.py
     Linker.next_level / assign_links / apply_links / particle_ids
                                                               trackpy/linking/linking.py

   Hand-written and small: it says what each Python construct of the translated subset means.
   The control vocabulary is that of Model/PyLinker.v (outcomes Normal / Continue / Return /
   Raise, for-loops as [ofor], a def closed by [fn_end]) extended by return VALUES and by local
   variables that are mutated inside loops: a def runs in a state  (self, local1, ..., localn)
   -- the world and every local the def assigns at its top level, in order of first assignment,
   with a blank value before that (the translator checks assignment before use).

   WORLD.  One record [lk] stands for the Linker object, the Subnets object it owns and the
   attributes of the Point objects of the current step.  As in Model/SubnetMerge.v and
   Model/PyLinker.v a point is its INDEX in its frame's list:

     source_hash.points      the list k_srcs of Model.Link.src (track id, position, frame of
                             observation: the attributes of a source Point that persist);
                             the point itself is its index, source_hash.points[k] = k
     dest_hash.points        k_dests (positions of the new frame's points, frame number k_now)
     p.forward_cands         k_fc   : association list  source index -> list of candidates
                             (destination index or None, dist**2): a fresh Point has []
     p.subnet, subnets       k_mst  : Model.SubnetMerge.mst, the heap Gen/linker_core.py_assign_subnet
                             works on (dictionary id -> (source set, dest set) in insertion
                             order; attribute maps, no binding = None)
     p.track (dest point)    k_dtrack : association list  dest index -> track id
     self.mem_set            k_mem_set : list of src; a Point object is identified by
     self.mem_history        (track id, frame of observation) = Model.MemQueue.key_of, the
                             convention of Model/MemQueue.v
     track_cls.counter       k_counter
     MAX_SUB_NET_SIZE, search_range**2, memory      k_max_size, k_R2, k_memory

   dist.  As in Model/PyLinker.v a distance is carried as its SQUARE (an exact integer):
   dists[i, j] is the squared distance the KD-tree reports, search_range is k_R2; sorting by
   x[1] sorts by the square (same order for non-negative numbers); float rounding is not modelled.

   sets.  A Python set is a list without meaning of its order; `for x in s`, s.pop() and
   [s for s in s_sn] go through [set_iter ord]: the iteration order is the parameter [ord]
   of the generated functions (the same set iterated twice without change iterates in the
   same order, as in CPython).  The dictionary keeps insertion order (Python >= 3.7).

   KD-tree.  source_hash.query(dest_hash.coords_mapped, max_neighbors, rescale=False,
   search_range=...) stays a NAMED PRIMITIVE: its result (dists, inds) together with
   nn = np.sum(np.isfinite(dists), 1) is the parameter [q : kdq]: for destination i the list
   of (inds[i, j], dists[i, j]**2), j < nn[i], nearest first.  What it returns on given
   coordinates is a hypothesis of the theorems (Proofs/LinkstepGen.v, [query_ok]).

   update_hash.  self.update_hash(coords, t, extra_data) is [update_hash_abs]: the index-level
   abstract of Gen/predict.py_Linker_update_hash (C11, Proofs/PredictGen.gen_update_hash):
   the source points of the step are the points of the current self.hash followed by the
   points of self.mem_set in iteration order, each with empty forward_cands; the destination
   points are new Points at coords with frame number t and no track.  The .subnet
   attributes are whatever earlier steps left (not reset here: Subnets.reset does that).
   No proofs in this file. *)
From Coq Require Import ZArith List Bool Arith.
From TP Require Import Model.Assign Model.Link Model.MemQueue Model.SubnetMerge Model.PyLinker.
Import ListNotations.

(* ---------- control ---------- *)
Inductive xexn := XIndexError | XKeyError | XValueError | XTypeError | XAttributeError | XException
                | XSubnetOversizeException | XOutOfFuel.
Definition of_exn (e : exn) : xexn :=
  match e with
  | IndexError => XIndexError | KeyError => XKeyError | ValueError => XValueError
  | SubnetOversizeException => XSubnetOversizeException | OutOfFuel => XOutOfFuel
  end.

Inductive oc (S V : Type) :=
| ONormal (s : S)
| OContinue (s : S)
| OReturn (s : S) (v : V)
| ORaise (e : xexn).
Arguments ONormal {S V} s.
Arguments OContinue {S V} s.
Arguments OReturn {S V} s v.
Arguments ORaise {S V} e.

Inductive fres (W V : Type) := FDone (w : W) (v : V) | FFail (e : xexn).
Arguments FDone {W V} w v.
Arguments FFail {W V} e.

Definition obind {S V : Type} (o : oc S V) (k : S -> oc S V) : oc S V :=
  match o with
  | ONormal s => k s
  | OContinue s => OContinue s
  | OReturn s v => OReturn s v
  | ORaise e => ORaise e
  end.

Fixpoint ofor {A S V : Type} (body : A -> S -> oc S V) (l : list A) (s : S) : oc S V :=
  match l with
  | [] => ONormal s
  | x :: l' =>
    match body x s with
    | ONormal s' => ofor body l' s'
    | OContinue s' => ofor body l' s'
    | OReturn s' v => OReturn s' v
    | ORaise e => ORaise e
    end
  end.

(* end of a def: [proj] keeps the world of the final state; falling off the end returns
   [dflt] (Some tt for a def that returns nothing; None for a def whose callers unpack the
   value: returning None there is the TypeError of the unpacking) *)
Definition fn_end {S W V : Type} (proj : S -> W) (dflt : option V) (o : oc S V) : fres W V :=
  match o with
  | ONormal s | OContinue s => match dflt with Some v => FDone (proj s) v | None => FFail XTypeError end
  | OReturn s v => FDone (proj s) v
  | ORaise e => FFail e
  end.

(* ---------- lists, ranges, sets ---------- *)
Definition enumerate {A : Type} (l : list A) : list (nat * A) := combine (seq 0 (length l)) l.
Definition range (n : nat) : list nat := seq 0 n.
Definition set_iter (ord : list nat -> list nat) (s : list nat) : list nat := ord s.
(* s.pop(): the first element in iteration order; KeyError on the empty set.  (The removal from
   the set is not modelled: the translator accepts pop() only in `return`, and the caller
   Linker.assign_links never reads the two sets again.) *)
Definition set_pop (ord : list nat -> list nat) (s : list nat) : option nat := hd_error (set_iter ord s).
Definition nset_in (x : nat) (s : list nat) : bool := existsb (Nat.eqb x) s.
(* a - b *)
Definition nset_diff (a b : list nat) : list nat := filter (fun x => negb (nset_in x b)) a.
(* set(l) for a list of destination points or None: None is never equal to a point *)
Fixpoint somes {A : Type} (l : list (option A)) : list A :=
  match l with [] => [] | Some x :: l' => x :: somes l' | None :: l' => somes l' end.

(* ---------- the KD-tree query (primitive) ---------- *)
Definition kdq := list (list (nat * Z)).
Definition kd_nn (q : kdq) (i : nat) : option nat := option_map (@length _) (nth_error q i).
Definition kd_ind (q : kdq) (i j : nat) : option nat :=
  match nth_error q i with Some r => option_map fst (nth_error r j) | None => None end.
Definition kd_dist (q : kdq) (i j : nat) : option Z :=
  match nth_error q i with Some r => option_map snd (nth_error r j) | None => None end.

(* ---------- forward_cands ---------- *)
Definition fcmap := list (nat * list cand).
Fixpoint fget (p : nat) (m : fcmap) : list cand :=
  match m with
  | [] => []
  | (k, v) :: m' => if Nat.eqb p k then v else fget p m'
  end.
Definition fset (p : nat) (v : list cand) (m : fcmap) : fcmap := (p, v) :: m.
(* l.sort(key=lambda x: x[1]) : stable *)
Fixpoint insert_cost (x : cand) (l : list cand) : list cand :=
  match l with
  | [] => [x]
  | y :: l' => if (snd x <=? snd y)%Z then x :: l else y :: insert_cost x l'
  end.
Definition sort_cands (l : list cand) : list cand := fold_right insert_cost [] l.

(* ---------- memory sets: Point objects identified by (track id, frame) ---------- *)
Definition pset_in (x : src) (s : list src) : bool := mem_in (key_of x) (map key_of s).
Definition pset_add (x : src) (s : list src) : list src := if pset_in x s then s else s ++ [x].
Definition pset_remove (x : src) (s : list src) : option (list src) :=
  if pset_in x s then Some (filter (fun y => negb (key_eqb (key_of x) (key_of y))) s) else None.
Definition pset_minus (a b : list src) : list src := filter (fun x => negb (pset_in x b)) a.
Definition pset_union (a b : list src) : list src := a ++ pset_minus b a.

(* ---------- the world ---------- *)
Record lk := mk_lk {
  k_srcs : list src;
  k_dests : list pt;
  k_now : nat;
  k_fc : fcmap;
  k_mst : mst;
  k_includes_lost : bool;
  k_dtrack : amap;
  k_mem_set : list src;
  k_mem_history : list (list src);
  k_memory : nat;
  k_counter : nat;
  k_max_size : nat;
  k_R2 : Z
}.

Definition set_fc (w : lk) (v : fcmap) : lk :=
  mk_lk (k_srcs w) (k_dests w) (k_now w) v (k_mst w) (k_includes_lost w) (k_dtrack w) (k_mem_set w)
        (k_mem_history w) (k_memory w) (k_counter w) (k_max_size w) (k_R2 w).
Definition set_mst (w : lk) (v : mst) : lk :=
  mk_lk (k_srcs w) (k_dests w) (k_now w) (k_fc w) v (k_includes_lost w) (k_dtrack w) (k_mem_set w)
        (k_mem_history w) (k_memory w) (k_counter w) (k_max_size w) (k_R2 w).
Definition set_includes_lost (w : lk) (v : bool) : lk :=
  mk_lk (k_srcs w) (k_dests w) (k_now w) (k_fc w) (k_mst w) v (k_dtrack w) (k_mem_set w)
        (k_mem_history w) (k_memory w) (k_counter w) (k_max_size w) (k_R2 w).
Definition set_dtrack (w : lk) (v : amap) : lk :=
  mk_lk (k_srcs w) (k_dests w) (k_now w) (k_fc w) (k_mst w) (k_includes_lost w) v (k_mem_set w)
        (k_mem_history w) (k_memory w) (k_counter w) (k_max_size w) (k_R2 w).
Definition set_mem_set (w : lk) (v : list src) : lk :=
  mk_lk (k_srcs w) (k_dests w) (k_now w) (k_fc w) (k_mst w) (k_includes_lost w) (k_dtrack w) v
        (k_mem_history w) (k_memory w) (k_counter w) (k_max_size w) (k_R2 w).
Definition set_mem_history (w : lk) (v : list (list src)) : lk :=
  mk_lk (k_srcs w) (k_dests w) (k_now w) (k_fc w) (k_mst w) (k_includes_lost w) (k_dtrack w) (k_mem_set w)
        v (k_memory w) (k_counter w) (k_max_size w) (k_R2 w).
Definition set_counter (w : lk) (v : nat) : lk :=
  mk_lk (k_srcs w) (k_dests w) (k_now w) (k_fc w) (k_mst w) (k_includes_lost w) (k_dtrack w) (k_mem_set w)
        (k_mem_history w) (k_memory w) v (k_max_size w) (k_R2 w).

(* points are indices *)
Definition source_points (w : lk) : list nat := seq 0 (length (k_srcs w)).
Definition dest_points (w : lk) : list nat := seq 0 (length (k_dests w)).
Definition dummy_src : src := {| s_lab := 0; s_pos := []; s_seen := 0 |}.
Definition src_at (w : lk) (p : nat) : src := nth p (k_srcs w) dummy_src.

(* p.forward_cands *)
Definition get_forward_cands (w : lk) (p : nat) : list cand := fget p (k_fc w).
Definition set_forward_cands (w : lk) (p : nat) (v : list cand) : lk := set_fc w (fset p v (k_fc w)).
Definition fc_append (w : lk) (p : nat) (x : cand) : lk :=
  set_forward_cands w p (get_forward_cands w p ++ [x]).
Definition fc_sort (w : lk) (p : nat) : lk := set_forward_cands w p (sort_cands (get_forward_cands w p)).
(* the source Point as SubnetLinker sees it: Model.PyLinker.spoint = (index, forward_cands) *)
Definition spoint_of (w : lk) (p : nat) : spoint := (p, get_forward_cands w p).

(* Subnets: dictionary and .subnet attributes *)
(* self.subnets = dict() *)
Definition dict_clear (w : lk) : lk :=
  set_mst w {| subs := []; ssub := ssub (k_mst w); dsub := dsub (k_mst w) |}.
(* self.subnets[i] = v : a new key goes to the end (insertion order), an old one keeps its place *)
Definition dict_setitem (w : lk) (i : nat) (v : sets) : lk :=
  set_mst w {| subs := match sfind i (subs (k_mst w)) with
                       | Some _ => sput i v (subs (k_mst w))
                       | None => subs (k_mst w) ++ [(i, v)]
                       end;
               ssub := ssub (k_mst w); dsub := dsub (k_mst w) |}.
(* p.subnet = None (source point): no binding *)
Definition clear_subnet_src (w : lk) (p : nat) : lk :=
  set_mst w {| subs := subs (k_mst w);
               ssub := filter (fun kv : nat * nat => negb (Nat.eqb (fst kv) p)) (ssub (k_mst w));
               dsub := dsub (k_mst w) |}.
(* p.subnet = i (dest point) *)
Definition assign_subnet_dst (w : lk) (p i : nat) : lk := set_mst w (set_subnet_dst (k_mst w) p i).
(* (self.subnets[key] for key in self.subnets) *)
Definition dict_values (w : lk) : list sets := map snd (subs (k_mst w)).
(* p.subnet is None (source point) *)
Definition subnet_is_none (w : lk) (p : nat) : bool := is_none (get_subnet_src (k_mst w) p).

(* zip( *best_pairs) unpacked into two lists: TypeError on None, ValueError when there is
   nothing to unpack *)
Definition unzip_pairs (bp : option (list spair)) : xexn + (list (option nat) * list (option nat)) :=
  match bp with
  | None => inl XTypeError
  | Some [] => inl XValueError
  | Some l => inr (map (fun p : spair => Some (fst (fst p))) l, map (fun p : spair => snd p) l)
  end.

(* tracks.  sp.track.add_point(dp): dp gets the track of sp; Point.add_to_track raises Exception
   when dp already is in a track *)
Definition track_add_point (w : lk) (sp dp : nat) : option lk :=
  match alook dp (k_dtrack w) with
  | Some _ => None
  | None => Some (set_dtrack w (aset dp (s_lab (src_at w sp)) (k_dtrack w)))
  end.
(* self.track_cls(dp): a new track (the counter advances even when dp is None), dp is added to it *)
Definition track_new (w : lk) (dp : option nat) : option lk :=
  let w' := set_counter w (S (k_counter w)) in
  match dp with
  | None => Some w'
  | Some d => match alook d (k_dtrack w) with
              | Some _ => None
              | None => Some (set_dtrack w' (aset d (k_counter w) (k_dtrack w)))
              end
  end.
(* [p.track.id for p in self.hash.points]: AttributeError when a point has no track *)
Fixpoint track_ids (m : amap) (l : list nat) : option (list nat) :=
  match l with
  | [] => Some []
  | d :: l' => match alook d m, track_ids m l' with
               | Some i, Some r => Some (i :: r)
               | _, _ => None
               end
  end.

(* memory *)
Definition mem_set_in (w : lk) (sp : nat) : bool := pset_in (src_at w sp) (k_mem_set w).
Definition mem_set_remove (w : lk) (sp : nat) : option lk :=
  option_map (set_mem_set w) (pset_remove (src_at w sp) (k_mem_set w)).
(* self.mem_history.pop(0) *)
Definition history_pop0 (w : lk) : option (list src * lk) :=
  match k_mem_history w with
  | [] => None
  | h :: r => Some (h, set_mem_history w r)
  end.

(* the points of the current self.hash as the persistent attributes a later step reads:
   (track id, position, frame number) *)
Definition hash_srcs (w : lk) : list src :=
  map (fun jp : nat * pt => {| s_lab := match alook (fst jp) (k_dtrack w) with Some i => i | None => 0 end;
                               s_pos := snd jp; s_seen := k_now w |})
      (enumerate (k_dests w)).
Definition update_hash_abs (ord : list src -> list src) (w : lk) (coords : list pt) (t : nat) : lk :=
  mk_lk (hash_srcs w ++ ord (k_mem_set w)) coords t [] (k_mst w) (k_includes_lost w) [] (k_mem_set w)
        (k_mem_history w) (k_memory w) (k_counter w) (k_max_size w) (k_R2 w).
