(* C12: adaptive search (linking.py: adaptive_link_wrap; subnet.py: split_subnet).
   An oversize subnet is re-split with the range multiplied by adaptive_step = p/q
   until every part fits; each part ("leaf") is solved with ITS range as the cost
   of not linking.  Ranges are r*(p/q)^k; squared comparisons are done in integers
   by cross-multiplication: at level k,  c <= range_k^2  <=>  c * q^(2k) <= R2 * p^(2k).
   No proofs in this file. *)
From Coq Require Import ZArith NArith List Bool.
From TP Require Import Model.Assign Model.Link Model.LinkCheck.
Import ListNotations.
Open Scope Z_scope.

Record acfg := { a_max : nat;              (* MAX_SUB_NET_SIZE_ADAPTIVE *)
                 a_p : Z; a_q : Z;          (* adaptive_step = p/q, 0 < p < q *)
                 a_sn : Z; a_sd : Z }.      (* adaptive_stop / search_range = sn/sd *)

Definition num (a : acfg) (k : nat) : Z := Z.pow (a_p a) (2 * Z.of_nat k).
Definition den (a : acfg) (k : nat) : Z := Z.pow (a_q a) (2 * Z.of_nat k).
(* search_range_k <= adaptive_stop *)
Definition at_stop (a : acfg) (k : nat) : bool :=
  Z.pow (a_p a) (Z.of_nat k) * a_sd a <=? a_sn a * Z.pow (a_q a) (Z.of_nat k).

Definition is_real (dc : cand) : bool := match fst dc with Some _ => true | None => false end.
Definition strip_null (it : item) : item := (fst it, filter is_real (snd it)).
(* split_subnet: keep the candidates with dist <= new_range (the list is sorted: break at the first longer one) *)
Definition prune (a : acfg) (R2 : Z) (k : nat) (it : item) : item :=
  (fst it, filter (fun dc : cand => snd dc * den a k <=? R2 * num a k) (snd it)).

Inductive aleaf :=
| Leaf (k : nat) (g : group)      (* solved at range_k; candidate lists pruned to range_k, no null link *)
| Dropped (i : nat)               (* source left without candidate by a split: lost *)
| OutOfFuel.

Definition has_cands (it : item) : bool := match snd it with [] => false | _ => true end.

(* run f on every part in order; the first Oversize aborts; results are concatenated,
   the dropped sources come last *)
Fixpoint seq_res (f : group -> result (list aleaf)) (ps : list group) (tail : list aleaf) : result (list aleaf) :=
  match ps with
  | [] => Ok tail
  | p :: ps' =>
    match f p with
    | Oversize => Oversize
    | Ok l => match seq_res f ps' tail with Oversize => Oversize | Ok l' => Ok (l ++ l') end
    end
  end.

Fixpoint asplit (fuel : nat) (a : acfg) (R2 : Z) (k : nat) (g : group) {struct fuel} : result (list aleaf) :=
  if (length g <=? a_max a)%nat then Ok [Leaf k g]
  else if at_stop a k then Oversize
  else match fuel with
       | O => Ok [OutOfFuel]
       | S fuel' =>
         let g' := map (prune a R2 (S k)) g in
         let dropped := map (fun it : item => Dropped (fst it)) (filter (fun it => negb (has_cands it)) g') in
         seq_res (asplit fuel' a R2 (S k)) (components (filter has_cands g')) dropped
       end.

Fixpoint asplit_all (fuel : nat) (a : acfg) (R2 : Z) (gs : list group) : result (list aleaf) :=
  match gs with
  | [] => Ok []
  | g :: gs' =>
    match asplit fuel a R2 0 (map strip_null g) with
    | Oversize => Oversize
    | Ok l => match asplit_all fuel a R2 gs' with Oversize => Oversize | Ok l' => Ok (l ++ l') end
    end
  end.

(* a leaf is solved by the ordinary subnet solver with costs brought to the common
   denominator q^(2k) and the null link at range_k^2 *)
Definition leaf_items (a : acfg) (R2 : Z) (k : nat) (g : group) : group :=
  map (fun it : item => (fst it, map (fun dc : cand => (fst dc, snd dc * den a k)) (snd it) ++ [(None, R2 * num a k)])) g.

Definition solve_leaf (a : acfg) (R2 : Z) (lf : aleaf) : list link_t :=
  match lf with
  | Leaf k g => match solve_group (length g) (leaf_items a R2 k g) with Ok l => l | Oversize => [] end
  | Dropped i => [(i, (None, 0))]
  | OutOfFuel => []
  end.

Definition astep_leaves (fuel : nat) (a : acfg) (m : metric) (pred : nat -> src -> pt) (st : lstate) (ds : list pt)
  : result (list aleaf) :=
  asplit_all fuel a (mR2 m) (components (items_of m pred st ds)).

Definition astep_links (fuel : nat) (a : acfg) (m : metric) (pred : nat -> src -> pt) (st : lstate) (ds : list pt)
  : result (list link_t) :=
  match astep_leaves fuel a m pred st ds with
  | Oversize => Oversize
  | Ok ls => Ok (flat_map (solve_leaf a (mR2 m)) ls)
  end.

Definition alink_step (fuel : nat) (a : acfg) (m : metric) (mem : nat) (st : lstate) (ds : list pt)
  : result (lstate * list nat) :=
  match astep_links fuel a m no_pred st ds with
  | Oversize => Oversize
  | Ok links => Ok (apply_links mem st ds links)
  end.

(* ---- monitor: the implementation's labelling, leaf by leaf ---- *)
Definition impl_dest (links : list link_t) (i : nat) : option (option nat * Z) :=
  match find (fun l : link_t => Nat.eqb (fst l) i) links with Some l => Some (snd l) | None => None end.

(* cost of the implementation's choices on a leaf, or None when a link is not one of the leaf's candidates *)
Fixpoint leaf_cost (a : acfg) (R2 : Z) (k : nat) (links : list link_t) (g : group) : option Z :=
  match g with
  | [] => Some 0
  | (i, cs) :: g' =>
    match leaf_cost a R2 k links g' with
    | None => None
    | Some rest =>
      match impl_dest links i with
      | Some (Some j, c) => if existsb (fun dc : cand => match fst dc with Some j' => Nat.eqb j j' && (snd dc =? c) | None => false end) cs
                            then Some (c * den a k + rest) else None
      | _ => Some (R2 * num a k + rest)
      end
    end
  end.

Fixpoint check_leaves (a : acfg) (R2 : Z) (links : list link_t) (ls : list aleaf) : N :=
  match ls with
  | [] => 0%N
  | Leaf k g :: ls' =>
    match leaf_cost a R2 k links g with
    | None => 2%N
    | Some c => let opt := links_total (solve_leaf a R2 (Leaf k g)) in
                if opt <? c then 3%N else if c <? opt then 7%N else check_leaves a R2 links ls'
    end
  | Dropped i :: ls' =>
    match impl_dest links i with
    | Some (Some _, _) => 2%N
    | _ => check_leaves a R2 links ls'
    end
  | OutOfFuel :: _ => 10%N
  end.

Definition acheck_step (fuel : nat) (a : acfg) (m : metric) (mem : nat) (st : lstate) (ds : list pt) (labs : list nat) : N * lstate :=
  let links := links_of_labels m no_pred st ds labs in
  let st' := resync mem st ds labs links in
  if negb (Nat.eqb (length labs) (length ds)) then (6%N, st')
  else if negb (nodup_b labs) then (1%N, st')
  else if negb (born_fresh st labs) then (4%N, st')
  else match astep_leaves fuel a m no_pred st ds with
       | Oversize => (5%N, st')
       | Ok ls => (check_leaves a (mR2 m) links ls, st')
       end.

Fixpoint acheck_run_from (fuel : nat) (a : acfg) (m : metric) (mem : nat) (st : lstate) (frames : list (list pt)) (out : list obs) : N :=
  match frames, out with
  | [], [] => 0%N
  | ds :: rest, Labels labs :: out' =>
    let (c, st') := acheck_step fuel a m mem st ds labs in
    if N.eqb c 0 then acheck_run_from fuel a m mem st' rest out' else c
  | ds :: rest, Raised :: _ =>
    match astep_leaves fuel a m no_pred st ds with Oversize => 0%N | Ok _ => 8%N end
  | _, _ => 6%N
  end.

Definition acheck_run (fuel : nat) (a : acfg) (m : metric) (mem : nat) (frames : list (list pt)) (out : list obs) : N :=
  match frames, out with
  | [], [] => 0%N
  | f0 :: rest, Labels l0 :: out' =>
    if negb (Nat.eqb (length l0) (length f0)) then 6%N
    else if negb (nodup_b l0) then 1%N
    else acheck_run_from fuel a m mem (init_of_labels f0 l0) rest out'
  | _, _ => 6%N
  end.
