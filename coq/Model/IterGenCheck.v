(* Driver and executable comparison for the GENERATED explicit-stack solver (Gen/iterative.v):
     nr_fuel          iterations that always suffice (Proofs/IterativeGen.v): twice the machine's
                      bound cost_full on the sorted sources
     check_gen_iter   the real nonrecursive_link, the generated def and the stack machine of
                      Model/Iterative.v on the same ordered sources: same order of the returned
                      sources, same destination per source (tie-breaking included)
   No proofs in this file. *)
From Coq Require Import ZArith NArith List Bool Arith.
From TP Require Import Model.Assign Model.Link Model.Iterative Model.PyLinker Model.PyIterative Gen.iterative.
Import ListNotations.

Definition nr_fuel (s_sn : list spoint) : nat :=
  2 * cost_full (map snd (sort_key (fun x : spoint => length (forward_cands x)) s_sn)).

Fixpoint eq_choice_it (a b : list (nat * option nat)) : bool :=
  match a, b with
  | [], [] => true
  | (s1, d1) :: a', (s2, d2) :: b' => Nat.eqb s1 s2 && opt_eqb d1 d2 && eq_choice_it a' b'
  | _, _ => false
  end.

(* c = (candidate lists of the sources in the order they were handed to nonrecursive_link,
        max_size, what the real function did: None = it raised SubnetOversizeException,
        Some (source position, destination) in the order of the returned source_list) *)
Definition check_gen_iter (c : list (list cand) * Z * option (list (nat * option nat))) : N :=
  let '(srcs, ms, impl) := c in
  let items := combine (seq 0 (length srcs)) srcs in
  match py_nonrecursive_link (nr_fuel items) items ms, impl with
  | Fail SubnetOversizeException, None => 0%N
  | Fail _, _ => 40%N
  | Done None, _ => 45%N
  | Done (Some _), None => 44%N
  | Done (Some (_, None)), Some _ => 43%N
  | Done (Some (sl, Some back)), Some ich =>
    let ch := combine (map fst sl) back in
    if negb (Nat.eqb (length back) (length sl) && eq_choice_it ch ich) then 41%N
    else match nonrecursive_link (cost_full (map snd sl)) (map snd sl) with
         | Some (Some (_, a)) => if eq_choice_it ch (combine (map fst sl) (map fst a)) then 0%N else 42%N
         | _ => 42%N
         end
  end.
