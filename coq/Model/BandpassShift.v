(* C09 -- translation equivariance WITH preprocessing: vocabulary (no proofs in this file).

   The exact rational model of bandpass (Model/Bandpass.v, characterised pixel for pixel by
   Model/BandpassSpec.v / Properties/C10.v) is applied to CANVASES: a blank (zero) H x W
   (x D) array that shows a content g of extent h x w at the offset (oy, ox).

     place2 oy ox h w g i j     the "plane function": g (i - oy) (j - ox) inside the box
                                [oy, oy + h) x [ox, ox + w), 0 everywhere else (no canvas border)
     pasted2 H W oy ox h w g im the H x W nested list im shows that plane function on its pixels
     paddedb sh off csh ghw bhw THE PADDING HYPOTHESIS, a boolean on (canvas shape, offset of the
                                content box, shape of the content box, Gaussian half-widths,
                                boxcar half-widths), one entry per axis, any number of axes:
                                on every axis  max(ghw, bhw) <= off  and
                                off + csh + max(ghw, bhw) <= sh  -- the content is surrounded by
                                blank pixels at least as wide as the reach of both filters, so
                                that neither the zero border of the Gaussian pass (mode
                                'constant') nor the replicated border of the boxcar pass (mode
                                'nearest') can see a non-blank pixel
     reach ghw bhw              per-axis max(ghw, bhw)
     plane_doc2                 documented2 (Model/BandpassSpec.v) with the plane function in the
                                place of the two continuations of the image (zeros / repeated edge)
     bp_content2                the content of the bandpassed canvas, in content coordinates: the
                                box grows by the reach on every side; it does not mention the
                                canvas or the offset
     qmoved2 dy dx              "the second Q image is the first one, (dy, dx) further, blank
                                elsewhere", pixel for pixel (zero_ext2: 0 outside the array)
   and the same in 3-D. *)
From Coq Require Import ZArith QArith List Bool.
From TP Require Import Model.Bandpass Model.BandpassSpec Model.BandpassSpec3.
Import ListNotations.
Open Scope Q_scope.

(* o <= x < o + n *)
Definition in_iv (o n x : Z) : bool := (o <=? x)%Z && (x <? o + n)%Z.

(* ---------------------------------------------------------------- padding, any number of axes *)
Fixpoint reach (ghw bhw : list Z) : list Z :=
  match ghw, bhw with
  | g :: ghw', b :: bhw' => Z.max g b :: reach ghw' bhw'
  | _, _ => []
  end.

Fixpoint paddedb (sh off csh ghw bhw : list Z) : bool :=
  match sh, off, csh, ghw, bhw with
  | [], [], [], [], [] => true
  | n :: sh', o :: off', c :: csh', g :: ghw', b :: bhw' =>
      (Z.max g b <=? o)%Z && (o + c + Z.max g b <=? n)%Z && paddedb sh' off' csh' ghw' bhw'
  | _, _, _, _, _ => false
  end.

(* ---------------------------------------------------------------- 2-D *)
Definition place2 (oy ox h w : Z) (g : Z -> Z -> Q) (i j : Z) : Q :=
  if in_iv oy h i && in_iv ox w j then g (i - oy)%Z (j - ox)%Z else 0.

Definition pasted2 (H W : nat) (oy ox h w : Z) (g : Z -> Z -> Q) (im : img2) : Prop :=
  rect2 H W im /\
  forall i j, (0 <= i < Z.of_nat H)%Z -> (0 <= j < Z.of_nat W)%Z -> px2 im i j == place2 oy ox h w g i j.

Definition plane_doc2 (ly lx : Z) (gy gx : Z -> Q) (by_ bx : Z) (thr : Q) (f : Z -> Z -> Q) (i j : Z) : Q :=
  clip_below thr
    (Qsum_sym ly (fun a => Qsum_sym lx (fun b => gy a * gx b * f (i + a)%Z (j + b)%Z))
     - Qsum_sym by_ (fun a => Qsum_sym bx (fun b => f (i + a)%Z (j + b)%Z))
       / inject_Z ((2 * by_ + 1) * (2 * bx + 1))).

(* per-axis parameters of bandpass as the half-widths of the two filters *)
Definition ghw_of (truncate : Q) (p : axis_par) : Z := gauss_hw truncate (sigma p).
Definition bhw_of (p : axis_par) : Z := box_hw (size p).
Definition reach_of (truncate : Q) (p : axis_par) : Z := Z.max (ghw_of truncate p) (bhw_of p).

Definition bp_content2 (truncate : Q) (py px : axis_par) (thr : Q) (h w : Z) (g : Z -> Z -> Q) (i j : Z) : Q :=
  plane_doc2 (ghw_of truncate py) (ghw_of truncate px)
             (gauss_w truncate (sigma py) (expo py)) (gauss_w truncate (sigma px) (expo px))
             (bhw_of py) (bhw_of px) thr (place2 0 0 h w g)
             (i - reach_of truncate py)%Z (j - reach_of truncate px)%Z.

Definition qmoved2 (dy dx : Z) (H1 W1 : nat) (out1 : img2) (H2 W2 : nat) (out2 : img2) : Prop :=
  forall i j, zero_ext2 H2 W2 out2 (i + dy)%Z (j + dx)%Z == zero_ext2 H1 W1 out1 i j.

(* ---------------------------------------------------------------- 3-D *)
Definition place3 (oz oy ox d h w : Z) (g : Z -> Z -> Z -> Q) (i j k : Z) : Q :=
  if in_iv oz d i && in_iv oy h j && in_iv ox w k then g (i - oz)%Z (j - oy)%Z (k - ox)%Z else 0.

Definition pasted3 (D H W : nat) (oz oy ox d h w : Z) (g : Z -> Z -> Z -> Q) (im : img3) : Prop :=
  rect3 D H W im /\
  forall i j k, (0 <= i < Z.of_nat D)%Z -> (0 <= j < Z.of_nat H)%Z -> (0 <= k < Z.of_nat W)%Z ->
    px3 im i j k == place3 oz oy ox d h w g i j k.

Definition plane_doc3 (lz ly lx : Z) (gz gy gx : Z -> Q) (bz by_ bx : Z) (thr : Q) (f : Z -> Z -> Z -> Q)
           (i j k : Z) : Q :=
  clip_below thr
    (Qsum_sym lz (fun a => Qsum_sym ly (fun b => Qsum_sym lx (fun c =>
       gz a * gy b * gx c * f (i + a)%Z (j + b)%Z (k + c)%Z)))
     - Qsum_sym bz (fun a => Qsum_sym by_ (fun b => Qsum_sym bx (fun c => f (i + a)%Z (j + b)%Z (k + c)%Z)))
       / inject_Z ((2 * bz + 1) * (2 * by_ + 1) * (2 * bx + 1))).

Definition bp_content3 (truncate : Q) (pz py px : axis_par) (thr : Q) (d h w : Z) (g : Z -> Z -> Z -> Q)
           (i j k : Z) : Q :=
  plane_doc3 (ghw_of truncate pz) (ghw_of truncate py) (ghw_of truncate px)
             (gauss_w truncate (sigma pz) (expo pz)) (gauss_w truncate (sigma py) (expo py))
             (gauss_w truncate (sigma px) (expo px))
             (bhw_of pz) (bhw_of py) (bhw_of px) thr (place3 0 0 0 d h w g)
             (i - reach_of truncate pz)%Z (j - reach_of truncate py)%Z (k - reach_of truncate px)%Z.

Definition qmoved3 (dz dy dx : Z) (D1 H1 W1 : nat) (out1 : img3) (D2 H2 W2 : nat) (out2 : img3) : Prop :=
  forall i j k, zero_ext3 D2 H2 W2 out2 (i + dz)%Z (j + dy)%Z (k + dx)%Z == zero_ext3 D1 H1 W1 out1 i j k.

(* ---------------------------------------------------------------- a concrete canvas (examples) *)
(* the H x W nested list tabulating the plane function *)
Definition canvas2 (H W : nat) (oy ox h w : Z) (g : Z -> Z -> Q) : img2 :=
  map (fun i => map (fun j => place2 oy ox h w g (Z.of_nat i) (Z.of_nat j)) (seq 0 W)) (seq 0 H).
Definition canvas3 (D H W : nat) (oz oy ox d h w : Z) (g : Z -> Z -> Z -> Q) : img3 :=
  map (fun i => map (fun j => map (fun k => place3 oz oy ox d h w g (Z.of_nat i) (Z.of_nat j) (Z.of_nat k))
                                  (seq 0 W)) (seq 0 H)) (seq 0 D).
