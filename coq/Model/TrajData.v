(* Data-flow model of the trajectory stages: which stage reads the *index* of
   the table it is given, and when.  A table body is a list of (index values,
   row); the numeric work of each stage (the linker's labels, the drift curve,
   the group decision of a filter) is a section variable applied to the rows in
   the order the stage presents them, because those numbers are the subject of
   other properties (C01/C02, C18, and Model/TrajFilter.v for the filters).
   What is modelled here, following the pandas calls of each stage:
     reset_index(drop=True), set_index(keys, drop=False), sort_values (stable,
     the index travels with its row), sort_index, and
     Series.sub(other, level='frame') which READS the index of the table.
   No proofs in this file. *)
From Coq Require Import ZArith List Bool.
From TP Require Import Model.TrajFilter.
Import ListNotations.
Open Scope Z_scope.

Section Data.
  Variable R : Type.                      (* one row: all its column values *)
  Variable fr : R -> Z.                   (* column 'frame' *)
  Variable part : R -> Z.                 (* column 'particle' *)

  Definition ixv := list Z.               (* index values of one row, one per level *)
  Definition body := list (ixv * R).

  (* ---- numeric kernels (order-sensitive functions of the rows only) ---- *)
  Variable k_link : list R -> list R.         (* rows sorted by frame -> same rows, 'particle' set *)
  Variable k_link_partial : list R -> list R.
  Variable k_keep_stubs : list R -> R -> bool.     (* group decision, Model/TrajFilter.v *)
  Variable k_keep_clusters : list R -> R -> bool.
  Variable drift_t : Type.
  Variable k_drift : list R -> drift_t.       (* rows sorted by (particle, frame) -> drift curve *)
  Variable k_sub : drift_t -> Z -> R -> R.    (* subtract the drift at one frame from one row *)

  (* ---- pandas primitives on bodies ---- *)
  Fixpoint number_from (i : Z) (rows : list R) : body :=
    match rows with [] => [] | r :: rows' => ([i], r) :: number_from (i + 1) rows' end.
  Definition reset_index_drop (b : body) : body := number_from 0 (map snd b).
  Definition set_index (keys : list (R -> Z)) (b : body) : body :=
    map (fun p => (map (fun k => k (snd p)) keys, snd p)) b.
  Definition sort_values (leb : R -> R -> bool) (b : body) : body :=
    isort (fun p q => leb (snd p) (snd q)) b.
  Fixpoint lex_leb (a b : ixv) : bool :=
    match a, b with
    | [], _ => true
    | _ :: _, [] => false
    | x :: a', y :: b' => (x <? y) || ((x =? y) && lex_leb a' b')
    end.
  Definition sort_index (b : body) : body := isort (fun p q => lex_leb (fst p) (fst q)) b.

  Definition by_frame (r1 r2 : R) : bool := fr r1 <=? fr r2.
  Definition by_particle_frame (r1 r2 : R) : bool := lex_leb [part r1; fr r1] [part r2; fr r2].

  (* ---- stages ---- *)
  (* link: f.copy(); pandas_sort(f, 'frame'); f['particle'] = ids   (list assignment: positional) *)
  Definition d_link (b : body) : body :=
    let b1 := sort_values by_frame b in combine (map fst b1) (k_link (map snd b1)).
  Definition d_link_partial (b : body) : body :=
    let b1 := sort_values by_frame b in combine (map fst b1) (k_link_partial (map snd b1)).

  (* filters: reset_index(drop=True).groupby('particle').filter(f).set_index('frame', drop=False) *)
  Definition d_filter (keep : list R -> R -> bool) (b : body) : body :=
    let b0 := reset_index_drop b in
    set_index [fr] (filter (fun p => keep (map snd b0) (snd p)) b0).

  (* compute_drift: pandas_sort(traj[cols].reset_index(drop=True), ['particle','frame']) ... *)
  Definition d_compute_drift (b : body) : drift_t :=
    k_drift (map snd (sort_values by_particle_frame (reset_index_drop b))).

  (* subtract_drift: drift = compute_drift(traj); traj.copy();
     traj.set_index(['frame','particle'], drop=False); traj.sort_index(level='frame');
     traj[col] = traj[col].sub(drift[col], fill_value=0, level='frame')
     -- the drift subtracted from a row is the one at the row's INDEX value of level 'frame' *)
  Definition d_subtract_drift (b : body) : body :=
    let d := d_compute_drift b in
    let b2 := sort_index (set_index [fr; part] b) in
    map (fun p => (fst p, k_sub d (nth 0 (fst p) 0) (snd p))) b2.

  Inductive dstage := DLink | DLinkPartial | DFilterStubs | DFilterClusters | DSubtractDrift.
  Definition d_run1 (st : dstage) : body -> body :=
    match st with
    | DLink => d_link | DLinkPartial => d_link_partial
    | DFilterStubs => d_filter k_keep_stubs | DFilterClusters => d_filter k_keep_clusters
    | DSubtractDrift => d_subtract_drift
    end.
  Fixpoint d_run (ps : list dstage) (b : body) : body :=
    match ps with [] => b | st :: ps' => d_run ps' (d_run1 st b) end.

  (* the same data in a plain default-indexed table *)
  Definition default_indexed (b : body) : body := reset_index_drop b.
End Data.
