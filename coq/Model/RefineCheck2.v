(* Executable checks added for C16 (run by vp/props/c16.py through vm_compute).

   check_drive : replay of one unit of a real refine_leastsq run through the
       driver model Model/RefineDriver2.v.  The harness records, per
       iteration of the recentring loop, whether prepare_subimages raised
       (img) and what minimize returned (opts: OFail, or OSucc x rms with
       rms = sqrt(fun / residual_factor) computed as the code computes it),
       and the number n_obs of loop bodies entered.  The model is run with
       these tables as oracles; it must agree with the implementation on the
       number of iterations, on failed / fitted, on every written-back
       parameter (exactly: values are copied, not computed) and on the cost.
       The float comparison `sum((new_coords - coords)**2) < max_shift**2` is
       the only rounded decision: the model is run with max_shift (1 -+ tol)
       and a unit on which the two runs differ is reported as ambiguous
       (code 47: skipped and counted by the harness).
       Codes >= 100 are "agrees", and say how the unit ended: 100 break + fitted,
       101 break + rms_dev > max_rms_dev, 102 max_iter exhausted without break +
       fitted, 103 exhausted + rms_dev > max_rms_dev, 104 RefineException inside
       the loop, 105 non-finite start values.
       Other codes: 1 failed unit but a parameter differs from its input;
       31 non-finite start but a cost; 41 model fails, implementation has a
       cost; 42 model fits, implementation has cost NaN; 43 fitted rows differ
       from the model's; 44 cost differs from the model's; 45 model lets an
       exception escape; 46 number of iterations differs; 47 ambiguous.

   (check_gen_box, which executes the GENERATED bounds code, lives in
   Model/RefineGenCheck.v so that this file does not depend on Gen/.)
   No proofs in this file. *)
From Coq Require Import QArith Qabs List Bool Arith NArith.
From TP Require Import Model.RefineBounds Model.RefineDriver Model.RefineCheck Model.RefineDriver2.
Import ListNotations.
Open Scope Q_scope.

Definition optq_eqb (a b : option Q) : bool :=
  match a, b with
  | None, None => true
  | Some x, Some y => Qeq_bool x y
  | _, _ => false
  end.
Definition lstate_eqb (a b : lstate) : bool :=
  qcols_eqb (l_params a) (l_params b) && qcols_eqb (l_coords a) (l_coords b) && optq_eqb (l_rms a) (l_rms b).
Definition lres2_eqb (a b : lres2) : bool :=
  match a, b with
  | L2Exc n, L2Exc m => Nat.eqb n m
  | L2Err n, L2Err m => Nat.eqb n m
  | L2End s b1 n, L2End t b2 m => lstate_eqb s t && Bool.eqb b1 b2 && Nat.eqb n m
  | _, _ => false
  end.

Definition drive (d : bdict) (radius : list Q) (ps : list pkind) (modes : list nat) (ndim : nat) (g : grouping)
           (max_iter : nat) (max_shift : Q) (img : list bool) (opts : list ores) (params : list (list Q)) : lres2 :=
  run_loop (table_image img) (table_opt opts) ps modes ndim d radius max_iter max_shift 0%nat g params.

Definition failed_ok (start out : list (list ext)) (cost : list ext) (code ok : N) : N :=
  if forallb is_nan cost then (if cols_eqb start out then ok else 1%N) else code.

Definition check_drive (d : bdict) (radius : list Q) (ps : list pkind) (modes : list nat) (ndim : nat) (g : grouping)
           (max_iter : nat) (max_shift max_rms_dev tol : Q)
           (start : list (list ext)) (img : list bool) (opts : list ores) (n_obs : nat)
           (out : list (list ext)) (cost : list ext) : N :=
  match all_fin2 start with
  | None => failed_ok start out cost 31%N 105%N
  | Some params =>
    let r1 := drive d radius ps modes ndim g max_iter (max_shift * (1 - tol)) img opts params in
    let r2 := drive d radius ps modes ndim g max_iter (max_shift * (1 + tol)) img opts params in
    if negb (lres2_eqb r1 r2) then 47%N
    else match r1 with
         | L2Err _ => 45%N
         | L2Exc n => if negb (Nat.eqb n n_obs) then 46%N else failed_ok start out cost 41%N 104%N
         | L2End s brk n =>
           if negb (Nat.eqb n n_obs) then 46%N
           else match after_loop max_rms_dev s with
                | Raised => 45%N
                | Failed => failed_ok start out cost 41%N (if brk then 101%N else 103%N)
                | Fitted p r =>
                  if forallb is_nan cost then 42%N
                  else if negb (cols_eqb (map (map Fin) p) out) then 43%N
                  else if forallb (ext_eqb (Fin r)) cost then (if brk then 100%N else 102%N) else 44%N
                end
         end
  end.

