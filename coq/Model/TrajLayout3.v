(* C20: Model/TrajLayout.v extended to tables that have a column 'z' (3-D features).

   Model/TrajLayout.v fixes pos_columns = ['y', 'x'].  In trackpy the stages that are
   called with pos_columns=None split in two groups (trackpy as of the `fix:` commits):

     guess_pos_columns(f)  (['z','y','x'] when 'z' in f, else ['y','x']):
         link, link_partial, compute_drift (hence subtract_drift: it loops over
         drift.columns), cluster
     the literal ['x', 'y'], whatever the table has:
         msd, imsd, emsd, proximity, relate_frames

   The stages of the first group are restated here with [guess_pos s] in place of
   [pos_columns]; the second group and the two filters (which read no position column)
   are Model/TrajLayout.v's, unchanged.  On a table without 'z' every definition below
   reduces to the one of Model/TrajLayout.v (Proofs/TrajGen3.v: run_producer3_2d).
   No proofs in this file. *)
From Coq Require Import String Ascii List Bool NArith.
From TP Require Import Model.TrajLayout.
Import ListNotations.
Local Open Scope string_scope.

(* trackpy/utils.py guess_pos_columns *)
Definition guess_pos (s : schema) : list name :=
  if has_col "z" s then ["z"; "y"; "x"] else ["y"; "x"].

Definition st_link3 (v : version) (s : schema) : outcome :=
  getitems (guess_pos s) s >>= getitem "frame" >>= pandas_sort v (ByStr "frame") >>= add_col "particle".

Definition st_compute_drift3 (v : version) (s : schema) : outcome :=
  let pos := guess_pos s in
  (if drift_sorts_copy v
   then select (pos ++ ["particle"; "frame"]) s >>= reset_index_drop >>= pandas_sort v (ByList ["particle"; "frame"])
   else pandas_sort v (ByList ["particle"; "frame"]) s >>= select (pos ++ ["particle"; "frame"]))
  >>= fun fs => Ok {| idx := idx fs; cols := pos ++ ["particle"; "frame_diff"; "frame"] |}
  >>= select (pos ++ ["frame"]) >>= label "frame"
  >>= fun _ => Ok {| idx := [Some "frame"]; cols := pos |}.

(* for col in drift.columns: traj[col] = traj[col].sub(drift[col], level='frame') *)
Definition st_subtract_drift3 (v : version) (s : schema) : outcome :=
  st_compute_drift3 v s >>= fun drift =>
  (if has_col "particle" s then set_index ["frame"; "particle"] s else set_index ["frame"] s)
  >>= fun t => if has_level "frame" t then getitems (cols drift) t else Missing.

Definition st_cluster3 (v : version) (s : schema) : outcome :=
  (if cluster_by_values v then getitem "frame" s else label "frame" s)
  >>= getitems (guess_pos s) >>= add_col "cluster" >>= add_col "cluster_size".

Definition run_producer3 (v : version) (p : producer) : schema -> outcome :=
  match p with
  | PLink | PLinkPartial => st_link3 v
  | PFilterStubs => st_filter_stubs v | PFilterClusters => st_filter_clusters v
  | PSubtractDrift => st_subtract_drift3 v
  end.
Definition run_consumer3 (v : version) (c : consumer) : schema -> outcome :=
  match c with
  | CProd p => run_producer3 v p
  | CComputeDrift => st_compute_drift3 v
  | CCluster => st_cluster3 v
  | c => run_consumer v c        (* msd, imsd, emsd, proximity, relate_frames: ['x', 'y'] *)
  end.
Fixpoint run_pipeline3 (v : version) (ps : list producer) (s : schema) : outcome :=
  match ps with
  | [] => Ok s
  | p :: ps' => run_producer3 v p s >>= run_pipeline3 v ps'
  end.

(* the ordinary 3-D table: locate's columns for a 3-D image, linked *)
Definition default_table3 : schema :=
  {| idx := [None]; cols := ["z"; "y"; "x"; "mass"; "size"; "frame"; "particle"] |}.

(* correspondence entry point, as Model/TrajLayout.v check_layout *)
Definition check_layout3 (c : schema * list nat * option (list (option name) * list name) * list N) : N :=
  let '(s0, pipe, obs, cobs) := c in
  match run_pipeline3 fixed (map producer_of pipe) s0, obs with
  | Ok s, Some (names, columns) =>
    if negb (list_eqb opt_name_eqb (idx s) names) then 2%N
    else if negb (list_eqb String.eqb (cols s) columns) then 3%N
    else first_diff 10%N (map (fun c => outcome_code (run_consumer3 fixed c s)) all_consumers) cobs
  | Ok _, None => 1%N
  | _, Some _ => 1%N
  | _, None => 0%N
  end.
