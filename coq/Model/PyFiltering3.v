(* C20, route T: the rows / data-flow interpretations of Model/PyFiltering.v for tables that
   have MORE columns than the three (two) the hand-written models name -- in particular the
   position columns z, y, x.

   RowsI and BodyI answer `c in df` from the columns a [row] / a body names, so for them
   `'z' in f` is always False and guess_pos_columns can only say ['y', 'x'].  Here the table's
   remaining column labels are a parameter [xcols] of the interpretation (e.g.
   ["z"; "y"; "x"; "mass"]):

     RowsI3 xcols   a table is its list of rows (Model/TrajFilter.v: particle, frame, size and the
                    row id that stands for every other value of the row) AND has the columns xcols:
                    `c in df` is True for them; reading one (df[c]) leaves the universe of the
                    interpretation (EUnmodelled: the values are not in a [row]) -- that the generated
                    filters never do so is what Proofs/TrajGen3.v proves;
     BodyI3 .. xcols   a table is a list of (index values, row) with R abstract, and has the columns
                    xcols; the numeric kernels of the data-flow stages are given the position columns
                    the generated guess_pos_columns answers.
   Everything else is Model/PyFiltering.v's RowsI / BodyI, field by field.
   No proofs in this file. *)
From Coq Require Import ZArith QArith String List Bool.
From TP Require Import Model.TrajFilter Model.TrajLayout Model.TrajData Model.PyFiltering.
Import ListNotations.
Local Open Scope string_scope.

Definition mem_name (c : name) (l : list name) : bool := existsb (String.eqb c) l.

Section Rows3.
  Variable xcols : list name.

  Definition RowsI3 : pandas := {|
    DataFrame := list row;
    GroupBy := list row;
    Series := list (option Q);
    p_getitem := fun rows c =>
      match row_col c with
      | Some f => ROk (map f rows)
      | None => if mem_name c xcols then RRaise EUnmodelled else RRaise EKeyError
      end;
    p_contains := fun c _ => match row_col c with Some _ => true | None => mem_name c xcols end;
    p_reset_index_drop := fun rows => ROk rows;
    p_groupby := fun rows c =>
      if String.eqb c "particle" then ROk rows
      else match row_col c with
           | Some _ => RRaise EUnmodelled
           | None => if mem_name c xcols then RRaise EUnmodelled else RRaise EKeyError
           end;
    p_gb_filter := rows_gb_filter;
    p_set_index_keep := fun rows c =>
      match row_col c with
      | Some _ => ROk rows
      | None => if mem_name c xcols then ROk rows else RRaise EKeyError
      end;
    p_count := fun s => Z.of_nat (length (somes s));
    p_mean := fun s => qmean (somes s);
    p_quantile := fun s q => quantile (somes s) q;
    p_index_name := fun _ => None;
    p_index_nlevels := fun _ => 1%Z;
    p_index_names := fun _ => [None];
    p_set_index_name := fun rows _ => rows;
    p_set_index_names := fun rows _ => rows;
    p_sort_values := fun _ _ _ => RRaise EUnmodelled
  |}.
End Rows3.

Section Body3.
  Variable R : Type.
  Variable fr part : R -> Z.
  Variable keep : list R -> R -> bool.
  Variable xcols : list name.

  Definition BodyI3 : pandas := {|
    DataFrame := body R;
    GroupBy := body R;
    Series := unit;
    p_getitem := fun _ _ => ROk tt;
    p_contains := fun c _ => match body_col R fr part c with Some _ => true | None => mem_name c xcols end;
    p_reset_index_drop := fun b => ROk (TrajData.reset_index_drop R b);
    p_groupby := fun b c => if String.eqb c "particle" then ROk b else RRaise EUnmodelled;
    p_gb_filter := fun g _ => ROk (filter (fun p => keep (map snd g) (snd p)) g);
    p_set_index_keep := fun b c =>
      match body_col R fr part c with
      | Some k => ROk (TrajData.set_index R [k] b)
      | None => RRaise EUnmodelled
      end;
    p_count := fun _ => 0%Z;
    p_mean := fun _ => None;
    p_quantile := fun _ _ => None;
    p_index_name := fun _ => None;
    p_index_nlevels := fun _ => 1%Z;
    p_index_names := fun _ => [None];
    p_set_index_name := fun b _ => b;
    p_set_index_names := fun b _ => b;
    p_sort_values := fun b by_ inplace =>
      match body_cols R fr part (by_keys by_) with
      | Some keys =>
        let sorted := sort_values R (leb_of R keys) b in
        ROk (if inplace then sorted else b, if inplace then None else Some sorted)
      | None => RRaise EUnmodelled
      end
  |}.
End Body3.

(* what guess_pos_columns answers for a table whose further columns are xcols *)
Definition guess_of (xcols : list name) : list name :=
  if mem_name "z" xcols then ["z"; "y"; "x"] else ["y"; "x"].
