(* C15 (gradient) -- model of the residual / jacobian closures built by
   trackpy/refine/least_squares.py : FitFunctions.get_residual (lines 273-341),
   over the real numbers (not executable: calculus is the subject).
   The scalar model functions themselves (r2_*, dr2_*, gauss/ring fun/dfun)
   are generated from the source into Gen/fitfun.v.  No proofs in this file. *)
From Coq Require Import Reals List.
From TP Require Import Model.Pack.
Import ListNotations.
Open Scope R_scope.

Definition sumR (l : list R) : R := fold_right Rplus 0 l.

(* np.sum(a * b) for two 1-d arrays *)
Fixpoint dot (a b : list R) : R :=
  match a, b with
  | x :: a', y :: b' => x * y + dot a' b'
  | _, _ => 0
  end.

(* sum over all entries of the element-wise product of two arrays held as
   lists of columns *)
Fixpoint mdot (G D : list (list R)) : R :=
  match G, D with
  | g :: G', d :: D' => dot g d + mdot G' D'
  | _, _ => 0
  end.

(* `operation=np.sum` as handed to vect_from_params by jacobian() *)
Definition np_sum : option (list R -> option R) := Some (fun l => Some (sumR l)).

(* One pixel of one feature, jacobian() lines 320-333:
     model, deriv = model_dfun(r2, params[i, -n_fun_params:], ndim)
     derivs[j, 0, mask]                 = model
     derivs[j, 1:1+len(dr2dx), mask]    = signal * (deriv[0] * dr2dx)
     derivs[j, -n_fun_params:, mask]    = signal * deriv[1:]
   `md` is the pair returned by model_dfun, `dr2dx` the value of dr2_fun.
   The row is indexed by parameter column - 1:
     (signal, <pos>, <size>, <extra model parameters>). *)
Definition derivs_row (signal : R) (md : R * list R) (dr2dx : list R) : list R :=
  fst md :: map (fun d => signal * (nth 0 (snd md) 0 * d)) dr2dx
         ++ map (fun d => signal * d) (tl (snd md)).

(* ---- one cluster of residual() / jacobian(), abstract in the pixel type ----
   X : pixels that survive np.nansum (those whose diff is not NaN),
   F : features of the cluster.
   img x            image[x]
   val f x          signal_f * model_f(x) where mask_f[x], else 0
   row f x          derivs[j_f, :, x]      (all-zero where not mask_f[x])
   len              len(image)  (all pixels of the sub-image, NaN ones included)  *)
Section Cluster.
Context {X F : Type}.
Variables (pixels : list X) (feats : list F) (len : R).
Variable img : X -> R.

(* diff = image - background;  diff[mask] -= signal * model   for every feature *)
Definition diff_at (bg : R) (val : F -> X -> R) (x : X) : R :=
  img x - bg - sumR (map (fun f => val f x) feats).

(* result += np.nansum(diff**2) / len(image) *)
Definition cluster_residual (bg : R) (val : F -> X -> R) : R :=
  sumR (map (fun x => (diff_at bg val x) ^ 2) pixels) / len.

(* result[indices, 1:] = np.nansum(-2 * diff * derivs, axis=2) / len(image) : entry k of feature f *)
Definition grad_entry (bg : R) (val : F -> X -> R) (row : F -> X -> list R) (f : F) (k : nat) : R :=
  sumR (map (fun x => -2 * diff_at bg val x * nth k (row f x) 0) pixels) / len.

(* result[indices, 0] = np.nansum(-2 * diff) / (n_cluster * len(image)) *)
Definition grad_bg (bg : R) (val : F -> X -> R) : R :=
  sumR (map (fun x => -2 * diff_at bg val x) pixels) / (INR (length feats) * len).

End Cluster.
