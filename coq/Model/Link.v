(* Model of one trackpy Linker (trackpy/linking/linking.py, subnet.py,
   subnetlinker.py): candidate search, subnets, subnet solving, label
   bookkeeping and memory.  Coordinates are integers (every float64 input is a
   dyadic rational; the harness scales a whole case by one power of two).
   No proofs in this file. *)
From Coq Require Import ZArith List Bool.
From TP Require Import Model.Assign.
Import ListNotations.
Open Scope Z_scope.

Definition pt := list Z.
(* weighted squared distance: isotropic range r -> w = [1;..], R2 = r^2;
   per-axis ranges (r1..rk) -> w_i = prod_{j<>i} r_j^2, R2 = prod r_j^2
   (= "divide coordinates by the range and use range 1", without division) *)
Record metric := { mw : list Z; mR2 : Z }.

Fixpoint d2w (w : list Z) (p q : pt) : Z :=
  match w, p, q with
  | wi :: w', pi :: p', qi :: q' => wi * ((pi - qi) * (pi - qi)) + d2w w' p' q'
  | _, _, _ => 0
  end.

(* ---- candidates of one source: destinations within range, sorted by
   distance (stable like list.sort: among equal distances the destination order is kept; fold_right places
   the later candidates first, so a candidate goes BEFORE the already placed ones of equal cost), then the null link ---- *)
Fixpoint insert_c (x : cand) (l : list cand) : list cand :=
  match l with
  | [] => [x]
  | y :: l' => if snd y <? snd x then y :: insert_c x l' else x :: y :: l'
  end.
Definition sort_c (l : list cand) : list cand := fold_right insert_c [] l.

Fixpoint real_cands (m : metric) (sp : pt) (ds : list pt) (j : nat) : list cand :=
  match ds with
  | [] => []
  | d :: ds' =>
    let c := d2w (mw m) sp d in
    if c <=? mR2 m then (Some j, c) :: real_cands m sp ds' (S j) else real_cands m sp ds' (S j)
  end.

Definition cands_of (m : metric) (nullc : Z) (sp : pt) (ds : list pt) : list cand :=
  sort_c (real_cands m sp ds 0) ++ [(None, nullc)].

(* ---- subnets: connected components of the candidate graph ---- *)
Definition item := (nat * list cand)%type.        (* source index, its candidates *)
Definition group := list item.
Definition gdests (g : group) : list nat := flat_map (fun it : item => reals (snd it)) g.
Definition shares (a b : list nat) : bool := existsb (fun x => existsb (Nat.eqb x) b) a.
Definition add_item (gs : list group) (x : item) : list group :=
  let tch := filter (fun g => shares (reals (snd x)) (gdests g)) gs in
  let oth := filter (fun g => negb (shares (reals (snd x)) (gdests g))) gs in
  (x :: concat tch) :: oth.
Definition components (items : list item) : list group := fold_left add_item items [].

(* ---- solving one subnet ---- *)
Inductive result (A : Type) := Ok (a : A) | Oversize.
Arguments Ok {A} a.
Arguments Oversize {A}.

(* s_lst.sort(key=lambda x: len(x.forward_cands))  -- stable: an item goes BEFORE the already placed
   items of equal key (fold_right places the later items first) *)
Fixpoint insert_i (x : item) (l : list item) : list item :=
  match l with
  | [] => [x]
  | y :: l' => if (length (snd y) <? length (snd x))%nat then y :: insert_i x l' else x :: y :: l'
  end.
Definition sort_items (l : list item) : list item := fold_right insert_i [] l.

Definition link_t := (nat * cand)%type.            (* source index, chosen candidate *)

Definition solve_group (max_size : nat) (g : group) : result (list link_t) :=
  if (max_size <? length g)%nat then Oversize
  else let s := sort_items g in
       match solve (map snd s) with
       | Some (_, a) => Ok (combine (map fst s) a)
       | None => Ok []     (* unreachable: every candidate list ends with the null link (solve_some) *)
       end.

Fixpoint solve_groups (max_size : nat) (gs : list group) : result (list link_t) :=
  match gs with
  | [] => Ok []
  | g :: gs' =>
    match solve_group max_size g with
    | Oversize => Oversize
    | Ok l => match solve_groups max_size gs' with
              | Oversize => Oversize
              | Ok l' => Ok (l ++ l')
              end
    end
  end.

(* ---- linker state ---- *)
Record src := { s_lab : nat; s_pos : pt; s_seen : nat }.
Record lstate := { live : list src; now : nat; next_id : nat }.

Fixpoint mapi_from {A B} (f : nat -> A -> B) (i : nat) (l : list A) : list B :=
  match l with [] => [] | x :: l' => f i x :: mapi_from f (S i) l' end.

Definition items_of (m : metric) (pred : nat -> src -> pt) (st : lstate) (ds : list pt) : list item :=
  mapi_from (fun i s => (i, cands_of m (mR2 m) (pred (now st) s) ds)) 0 (live st).

(* which source links to destination j *)
Fixpoint source_of (links : list link_t) (j : nat) : option nat :=
  match links with
  | [] => None
  | (i, (Some k, _)) :: l' => if Nat.eqb k j then Some i else source_of l' j
  | (_, (None, _)) :: l' => source_of l' j
  end.

Definition lab_of (st : lstate) (i : nat) : nat :=
  match nth_error (live st) i with Some s => s_lab s | None => 0%nat end.

(* labels of the destinations, in destination order; fresh ids in destination order *)
Fixpoint assign_labels (st : lstate) (links : list link_t) (nd : nat) (j : nat) (fresh : nat)
  : list nat * nat :=
  match nd with
  | O => ([], fresh)
  | S nd' =>
    match source_of links j with
    | Some i => let (ls, f) := assign_labels st links nd' (S j) fresh in (lab_of st i :: ls, f)
    | None => let (ls, f) := assign_labels st links nd' (S j) (S fresh) in (fresh :: ls, f)
    end
  end.

Definition unlinked_b (links : list link_t) (i : nat) : bool :=
  existsb (fun l : link_t => Nat.eqb (fst l) i && match fst (snd l) with None => true | Some _ => false end) links.

(* sources that stay eligible: unmatched at this step and still young enough.
   apply_links: new_mem_set / mem_history queue of length [memory] *)
Fixpoint remembered (mem : nat) (t : nat) (links : list link_t) (i : nat) (l : list src) : list src :=
  match l with
  | [] => []
  | s :: l' =>
    if unlinked_b links i && (t - s_seen s <=? mem)%nat
    then s :: remembered mem t links (S i) l' else remembered mem t links (S i) l'
  end.

Fixpoint mk_srcs (t : nat) (labs : list nat) (ds : list pt) : list src :=
  match labs, ds with
  | lb :: labs', d :: ds' => {| s_lab := lb; s_pos := d; s_seen := t |} :: mk_srcs t labs' ds'
  | _, _ => []
  end.

Definition step_links (m : metric) (max_size : nat) (pred : nat -> src -> pt)
           (st : lstate) (ds : list pt) : result (list link_t) :=
  solve_groups max_size (components (items_of m pred st ds)).

Definition apply_links (mem : nat) (st : lstate) (ds : list pt) (links : list link_t)
  : lstate * list nat :=
  let (labs, fresh) := assign_labels st links (length ds) 0 (next_id st) in
  ({| live := mk_srcs (now st) labs ds ++ remembered mem (now st) links 0 (live st);
      now := S (now st); next_id := fresh |}, labs).

Definition link_step (m : metric) (mem max_size : nat) (pred : nat -> src -> pt)
           (st : lstate) (ds : list pt) : result (lstate * list nat) :=
  match step_links m max_size pred st ds with
  | Oversize => Oversize
  | Ok links => Ok (apply_links mem st ds links)
  end.

Definition no_pred (t : nat) (s : src) : pt := s_pos s.

(* init_level: every feature of the first frame starts a track *)
Definition init_state (ds : list pt) : lstate * list nat :=
  let labs := seq 0 (length ds) in
  ({| live := mk_srcs 0 labs ds; now := 1; next_id := length ds |}, labs).

Fixpoint run_from (m : metric) (mem max_size : nat) (pred : nat -> src -> pt)
         (st : lstate) (frames : list (list pt)) : result (list (list nat)) :=
  match frames with
  | [] => Ok []
  | ds :: rest =>
    match link_step m mem max_size pred st ds with
    | Oversize => Oversize
    | Ok (st', labs) =>
      match run_from m mem max_size pred st' rest with
      | Oversize => Oversize
      | Ok ls => Ok (labs :: ls)
      end
    end
  end.

(* link_iter on a list of frames *)
Definition link_iter (m : metric) (mem max_size : nat) (pred : nat -> src -> pt)
           (frames : list (list pt)) : result (list (list nat)) :=
  match frames with
  | [] => Ok []
  | f0 :: rest =>
    let (st, labs) := init_state f0 in
    match run_from m mem max_size pred st rest with
    | Oversize => Oversize
    | Ok ls => Ok (labs :: ls)
    end
  end.
