(* Executable monitor for C01/C02: replays the labelling an implementation
   produced, step by step, re-synchronising the model state to the
   implementation's own labels (so ties resolved differently do not
   desynchronise), and decides at every step
     - labels unique within the frame, born labels fresh,
     - every link joins a live source (previous frame or still remembered)
       to a destination within range,
     - the cost of the step equals the optimum found by the verified solver.
   Result codes (N): 0 ok. No proofs in this file. *)
From Coq Require Import ZArith NArith List Bool.
From TP Require Import Model.Assign Model.Link.
Import ListNotations.
Open Scope Z_scope.

Fixpoint find_lab (labs : list nat) (L : nat) (j : nat) : option nat :=
  match labs with
  | [] => None
  | x :: labs' => if Nat.eqb x L then Some j else find_lab labs' L (S j)
  end.

Fixpoint nodup_b (l : list nat) : bool :=
  match l with
  | [] => true
  | x :: l' => negb (existsb (Nat.eqb x) l') && nodup_b l'
  end.

Definition links_of_labels (m : metric) (pred : nat -> src -> pt) (st : lstate)
           (ds : list pt) (labs : list nat) : list link_t :=
  mapi_from (fun i s =>
     match find_lab labs (s_lab s) 0 with
     | Some j => (i, (Some j, d2w (mw m) (pred (now st) s) (nth j ds [])))
     | None => (i, (None, mR2 m))
     end) 0 (live st).

Definition links_in_range (m : metric) (links : list link_t) : bool :=
  forallb (fun l : link_t => match fst (snd l) with Some _ => snd (snd l) <=? mR2 m | None => true end) links.

Definition born_fresh (st : lstate) (labs : list nat) : bool :=
  forallb (fun L => existsb (fun s => Nat.eqb (s_lab s) L) (live st) || (next_id st <=? L)%nat) labs.

Definition max_list (l : list nat) : nat := fold_right Nat.max 0%nat l.

Definition resync (mem : nat) (st : lstate) (ds : list pt) (labs : list nat) (links : list link_t) : lstate :=
  {| live := mk_srcs (now st) labs ds ++ remembered mem (now st) links 0 (live st);
     now := S (now st);
     next_id := Nat.max (next_id st) (match labs with [] => 0 | _ => S (max_list labs) end) |}.

Definition links_total (links : list link_t) : Z := total (map snd links).

(* one step: code, new state *)
Definition check_step (m : metric) (mem max_size : nat) (pred : nat -> src -> pt)
           (st : lstate) (ds : list pt) (labs : list nat) : N * lstate :=
  let links := links_of_labels m pred st ds labs in
  let st' := resync mem st ds labs links in
  if negb (Nat.eqb (length labs) (length ds)) then (6%N, st')
  else if negb (nodup_b labs) then (1%N, st')
  else if negb (born_fresh st labs) then (4%N, st')
  else if negb (links_in_range m links) then (2%N, st')
  else match step_links m max_size pred st ds with
       | Oversize => (5%N, st')
       | Ok opt =>
         if links_total opt <? links_total links then (3%N, st')
         else if links_total links <? links_total opt then (7%N, st')
         else (0%N, st')
       end.

(* outcome of the implementation at a step *)
Inductive obs := Labels (l : list nat) | Raised.

Fixpoint check_run_from (m : metric) (mem max_size : nat) (pred : nat -> src -> pt)
         (st : lstate) (frames : list (list pt)) (out : list obs) : N :=
  match frames, out with
  | [], [] => 0%N
  | ds :: rest, Labels labs :: out' =>
    let (c, st') := check_step m mem max_size pred st ds labs in
    if N.eqb c 0 then check_run_from m mem max_size pred st' rest out' else c
  | ds :: rest, Raised :: _ =>
    match step_links m max_size pred st ds with
    | Oversize => 0%N
    | Ok _ => 8%N        (* implementation raised, model finds every subnet within the limit *)
    end
  | _, _ => 6%N
  end.

Definition init_of_labels (ds : list pt) (labs : list nat) : lstate :=
  {| live := mk_srcs 0 labs ds; now := 1;
     next_id := match labs with [] => 0%nat | _ => S (max_list labs) end |}.

Definition check_run (m : metric) (mem max_size : nat) (pred : nat -> src -> pt)
           (frames : list (list pt)) (out : list obs) : N :=
  match frames, out with
  | [], [] => 0%N
  | f0 :: rest, Labels l0 :: out' =>
    if negb (Nat.eqb (length l0) (length f0)) then 6%N
    else if negb (nodup_b l0) then 1%N
    else check_run_from m mem max_size pred (init_of_labels f0 l0) rest out'
  | _, _ => 6%N
  end.

(* sizes of the model's subnets at each step of its own run (for coverage statistics
   and for comparison with Linker.subnets) *)
Definition group_sizes (m : metric) (pred : nat -> src -> pt) (st : lstate) (ds : list pt) : list nat :=
  map (fun g => length g) (components (items_of m pred st ds)).

(* ---- monitor for a single subnet: the implementation's choice per source ---- *)
Definition cand_eqb (a b : cand) : bool :=
  match fst a, fst b with
  | Some x, Some y => Nat.eqb x y && Z.eqb (snd a) (snd b)
  | None, None => Z.eqb (snd a) (snd b)
  | _, _ => false
  end.

Fixpoint all_in (srcs : list (list cand)) (ch : list cand) : bool :=
  match srcs, ch with
  | [], [] => true
  | cs :: srcs', c :: ch' => existsb (cand_eqb c) cs && all_in srcs' ch'
  | _, _ => false
  end.

Definition check_choice (srcs : list (list cand)) (ch : list cand) : N :=
  if negb (Nat.eqb (length srcs) (length ch)) then 6%N
  else if negb (all_in srcs ch) then 1%N
  else if negb (nodup_b (reals ch)) then 2%N
  else match solve srcs with
       | None => 7%N
       | Some (v, _) => if v <? total ch then 3%N else if total ch <? v then 7%N else 0%N
       end.
