(* Run-time vocabulary of Gen/adaptive.v, the file tools/py2coq_adaptive.py generates (route T)
   from the CURRENT source text of

     adaptive_link_wrap     trackpy/linking/linking.py
     split_subnet           trackpy/linking/subnet.py
     subnet_linker_drop     trackpy/linking/subnetlinker.py

   Hand-written and small; it says what each Python construct of the translated subset means.
   (Same style as Model/PyLinker.v, but self-contained: value-returning functions, try/except,
   break, exceptions that carry the heap.)

   control     a statement (block) runs in a state S (= the heap plus the mutable locals of the
               function, a record "frame") and ends in an [outcome]:
                 Normal s      fell through to the next statement
                 Break s       `break`               (consumed by the enclosing for: loop ends)
                 Continue s    `continue`            (consumed by the enclosing for: next item)
                 Return s r    `return r`            (consumed by the end of the def)
                 Raise s e     an exception, with the state at the moment it was raised (what an
                               `except` clause resumes from)
               s1 ; s2              bind (s1) (fun state => s2)
               for x in l: body     for_each (fun x state => body) l state
               try: b except E: h   try_except (b) E (fun state exc => h) ; a bare `raise` in h is Raise state exc
               def ...              fn_end heap_of (body) : fresult   (Done heap r | Fail heap e);
                                    falling off the end returns None, which the callers here unpack
                                    as a tuple: TypeError
               r = f(...)           match f heap ... with Fail h e => Raise (frame with heap h) e
                                                        | Done h r => ... end
               recursion            explicit fuel; running out is Fail NoFuel
               a local assigned once is a Coq let; a local that is re-assigned, or mutated in a loop
               (sn_spl, sn_dpl, new_fcs), is a field of the frame

   heap        h_fc  : source index -> its forward_cands  (sp.forward_cands = l  is fc_set)
               h_sn  : Model.SubnetMerge.mst = the .subnet attributes of source / destination
                       points (ssub / dsub; None = no binding) and the dictionary `subnets`
                       (subs; split_subnet's local dict is this slot, `subnets = dict()` empties it)
               a point is its index (a nat); a candidate is Model.Assign.cand =
               (destination index or None, dist**2).  `for dp, dist in sp.forward_cands` binds dp to
               the first component; dist may occur only in `dist <= x` (rendered n_dist_le on the
               squared distance) and in the tuple (dp, dist) that rebuilds the candidate.
   sets        a set is a list without an order that matters: iteration = list order, len = length,
               s.pop() = (an arbitrary element:) the first, KeyError when empty.  Sets are passed BY
               VALUE: the removal done by a callee's pop() is not seen by the caller (the only pops
               are on the return path of subnet_linker_drop; no caller reads the sets again).
   generator   (subnets[key] for key in subnets) over a dict nothing mutates afterwards = the list of
               its values in insertion order.
   numbers     search ranges are an abstract type [num] with the three operations the code uses
               (n_mul: *, n_le: <=, n_dist_le: dist <= x).  Python: IEEE doubles.  The model
               (Model/Adaptive.v) uses exact rationals; Q_ops below is that instance.  The float
               product search_range*adaptive_step equals the rational one exactly when it is
               representable (binary adaptive_step, what the C12 harness generates and checks
               with its "ladder" test); otherwise it is the rational rounded to nearest.
   **kwargs    an opaque value passed through unchanged to subnet_linker.
   No proofs in this file. *)
From Coq Require Import ZArith QArith List Bool Arith.
From TP Require Import Model.Assign Model.Link Model.SubnetMerge Model.SplitSubnet.
Import ListNotations.

Inductive exn := KeyError | ValueError | AttributeError | TypeError | SubnetOversizeException | NoFuel.
Definition exn_eqb (a b : exn) : bool :=
  match a, b with
  | KeyError, KeyError | ValueError, ValueError | AttributeError, AttributeError | TypeError, TypeError
  | SubnetOversizeException, SubnetOversizeException | NoFuel, NoFuel => true
  | _, _ => false
  end.

Inductive outcome (S R : Type) :=
| Normal (s : S)
| Break (s : S)
| Continue (s : S)
| Return (s : S) (r : R)
| Raise (s : S) (e : exn).
Arguments Normal {S R} s.
Arguments Break {S R} s.
Arguments Continue {S R} s.
Arguments Return {S R} s r.
Arguments Raise {S R} s e.

Definition bind {S R : Type} (o : outcome S R) (k : S -> outcome S R) : outcome S R :=
  match o with
  | Normal s => k s
  | other => other
  end.

Fixpoint for_each {A S R : Type} (body : A -> S -> outcome S R) (l : list A) (s : S) : outcome S R :=
  match l with
  | [] => Normal s
  | x :: l' =>
    match body x s with
    | Normal s' => for_each body l' s'
    | Continue s' => for_each body l' s'
    | Break s' => Normal s'
    | Return s' r => Return s' r
    | Raise s' e => Raise s' e
    end
  end.

Definition try_except {S R : Type} (body : outcome S R) (cls : exn) (handler : S -> exn -> outcome S R) : outcome S R :=
  match body with
  | Raise s e => if exn_eqb e cls then handler s e else Raise s e
  | other => other
  end.

(* ---------- heap ---------- *)
Record heap := mk_heap { h_fc : fcmap; h_sn : mst }.
Definition set_h_fc (h : heap) (v : fcmap) : heap := mk_heap v (h_sn h).
Definition set_h_sn (h : heap) (v : mst) : heap := mk_heap (h_fc h) v.

Inductive fresult (R : Type) := Done (h : heap) (r : R) | Fail (h : heap) (e : exn).
Arguments Done {R} h r.
Arguments Fail {R} h e.

(* end of a def: break / continue outside a loop are refused by the translator *)
Definition fn_end {S R : Type} (heap_of : S -> heap) (o : outcome S R) : fresult R :=
  match o with
  | Return s r => Done (heap_of s) r
  | Raise s e => Fail (heap_of s) e
  | Normal s | Break s | Continue s => Fail (heap_of s) TypeError
  end.

(* what a caller can observe of a call when the heap is not of interest *)
Definition obs {R : Type} (r : fresult R) : R + exn :=
  match r with Done _ v => inl v | Fail _ e => inr e end.

(* ---------- numbers ---------- *)
Record num_ops (num : Type) := mk_ops {
  n_mul : num -> num -> num;              (* x * y *)
  n_le : num -> num -> bool;              (* x <= y *)
  n_dist_le : Z -> num -> bool            (* dist <= x, given dist**2 *)
}.
Arguments n_mul {num} _ _ _.
Arguments n_le {num} _ _ _.
Arguments n_dist_le {num} _ _ _.

(* exact rationals (the model's numbers): dist <= x  <=>  dist**2 <= x*x  for x >= 0 *)
Definition Q_ops : num_ops Q :=
  mk_ops Q Qmult Qle_bool (fun c x => Qle_bool (inject_Z c) (x * x)).

(* ---------- sets, lists ---------- *)
Definition set_pop (s : list nat) : option nat := match s with [] => None | x :: _ => Some x end.
Definition enumerate {A : Type} (l : list A) : list (nat * A) := combine (seq 0 (length l)) l.
Definition opts (l : list nat) : list (option nat) := map Some l.         (* a list of points used where None may occur *)
Definition nones (n : nat) : list (option nat) := repeat None n.           (* [None] * n *)
Definition list_append {A : Type} (l : list A) (x : A) : list A := l ++ [x].
Definition list_extend {A : Type} (l t : list A) : list A := l ++ t.

(* ---------- points and the dictionary (split_subnet) ---------- *)
Definition forward_cands (h : heap) (sp : nat) : list cand := fc_get sp (h_fc h).
Definition set_forward_cands (h : heap) (sp : nat) (l : list cand) : heap := set_h_fc h (fc_set sp l (h_fc h)).
Definition set_subs (m : mst) (v : list sn) : mst := {| subs := v; ssub := ssub m; dsub := dsub m |}.
Definition dict_new (h : heap) : heap := set_h_sn h (set_subs (h_sn h) []).                   (* subnets = dict() *)
Definition dict_set (h : heap) (i : nat) (v : sets) : heap :=                                   (* subnets[i] = v *)
  set_h_sn h (set_subs (h_sn h) (sset i v (subs (h_sn h)))).
Definition dict_values (h : heap) : list sets := map snd (subs (h_sn h)).                       (* (subnets[key] for key in subnets) *)
Definition set_subnet_dst (h : heap) (d i : nat) : heap :=                                      (* dp.subnet = i *)
  set_h_sn h {| subs := subs (h_sn h); ssub := ssub (h_sn h); dsub := aset d i (dsub (h_sn h)) |}.
Definition clear_subnet_src (h : heap) (s : nat) : heap := set_h_sn h (clear_src (h_sn h) s).  (* sp.subnet = None *)
Definition singleton_dst (d : nat) : sets := ([], [d]).                                         (* set(), {dp} *)

(* an external function on the subnet heap (assign_subnet): its result *)
Inductive mresult := MDone (m : mst) | MFail (e : exn).

(* ---------- frames (mutable locals) ---------- *)
(* adaptive_link_wrap: sn_spl, sn_dpl *)
Record wrap_frame := mk_wrap { w_heap : heap; sn_spl : list (option nat); sn_dpl : list (option nat) }.
Definition wrap_frame0 (h : heap) : wrap_frame := mk_wrap h [] [].     (* locals unbound: never read before assigned (checked by the translator) *)
Definition set_w_heap (f : wrap_frame) (h : heap) : wrap_frame := mk_wrap h (sn_spl f) (sn_dpl f).
Definition set_sn_spl (f : wrap_frame) (v : list (option nat)) : wrap_frame := mk_wrap (w_heap f) v (sn_dpl f).
Definition set_sn_dpl (f : wrap_frame) (v : list (option nat)) : wrap_frame := mk_wrap (w_heap f) (sn_spl f) v.
(* split_subnet: new_fcs *)
Record split_frame := mk_split { s_heap : heap; new_fcs : list cand }.
Definition split_frame0 (h : heap) : split_frame := mk_split h [].
Definition set_s_heap (f : split_frame) (h : heap) : split_frame := mk_split h (new_fcs f).
Definition set_new_fcs (f : split_frame) (v : list cand) : split_frame := mk_split (s_heap f) v.
(* subnet_linker_drop: no mutable local *)
Record drop_frame := mk_drop { d_heap : heap }.
Definition drop_frame0 (h : heap) : drop_frame := mk_drop h.
Definition set_d_heap (f : drop_frame) (h : heap) : drop_frame := mk_drop h.

Definition pairs := (list (option nat) * list (option nat))%type.     (* (sn_spl, sn_dpl) *)
