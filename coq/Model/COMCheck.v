(* Executable check used by vp/props/c07.py: runs both engine models on a concrete
   image and compares them with what the two trackpy engines returned (floats passed
   as exact rationals), and decides the property's self-consistency clause on the
   implementation's own output with the declarative vocabulary of Model/COM.v
   (nbhd / centroid / gyration2 / brightest).  Result codes (N), 0 = ok.
   No proofs in this file. *)
From Coq Require Import ZArith NArith QArith Qabs List Bool.
From TP Require Import Model.COM.
Import ListNotations.
Open Scope Z_scope.

(* concrete image: row-major data of the given shape; anything outside reads 0
   (never reached when the start window is inside the image) *)
Definition in_range (shape idx : list Z) : bool :=
  (length idx =? length shape)%nat &&
  forallb (fun si => (0 <=? snd si) && (snd si <? fst si)) (combine shape idx).
Definition flat_index (shape idx : list Z) : Z :=
  fold_left (fun acc si => acc * fst si + snd si) (combine shape idx) 0.
Definition pix_of (shape data : list Z) (idx : list Z) : Z :=
  if in_range shape idx then nth (Z.to_nat (flat_index shape idx)) data 0 else 0.

(* observation of one engine: position, mass, sizes (None = NaN), signal, raw_mass *)
Definition obs := (list Q * Q * list (option Q) * Q * Q)%type.

Definition tol : Q := 1 # 1099511627776.      (* 2^-40 *)
Definition close (a b : Q) : bool := Qle_bool (Qabs (a - b)) (tol * (1 + Qabs b)).
Fixpoint all2 {A B} (f : A -> B -> bool) (l : list A) (m : list B) : bool :=
  match l, m with
  | [], [] => true
  | a :: l', b :: m' => f a b && all2 f l' m'
  | _, _ => false
  end.
(* observed size s against exact size^2 *)
Definition size_ok (o : option Q) (s2 : Q) : bool :=
  match o with
  | None => Qltb s2 0
  | Some s => Qle_bool 0 s2 && Qle_bool 0 s && close (s * s) s2
  end.
Definition isZ (scale : Z) (o : Q) (m : Z) : bool := Qeq_bool (o * inject_Z scale) (inject_Z m).

(* first differing column: 1 position, 2 mass, 3 size, 4 signal, 5 raw_mass; 0 none *)
Definition cmp_obs (scale : Z) (charz : bool) (o : obs) (m : output) : N :=
  match o with (pos, mass, sizes, signal, raw) =>
    if negb (all2 close pos (o_pos m)) then 1%N
    else if negb (isZ scale mass (o_mass m)) then 2%N
    else if negb charz then 0%N
    else match o_char m with
         | None => 3%N
         | Some (s2, sg, rw) =>
           if negb (all2 size_ok sizes s2) then 3%N
           else if negb (isZ scale signal sg) then 4%N
           else if negb (isZ scale raw rw) then 5%N else 0%N
         end
  end.

Definition Qlist_eqb := all2 Qeq_bool.
Definition out_eqb (a b : output) : bool :=
  Qlist_eqb (o_pos a) (o_pos b) && (o_mass a =? o_mass b) &&
  match o_char a, o_char b with
  | None, None => true
  | Some (s, g, r), Some (s', g', r') => Qlist_eqb s s' && (g =? g') && (r =? r')
  | _, _ => false
  end.

(* ---- the property's clause on an observation, in the declarative vocabulary ---- *)
Definition spec_output (pix rawpix : list Z -> Z) (radius : list Z) (charz : bool) (c : list Z) : output :=
  let pts := nbhd radius c in
  let dims := seq 0 (length radius) in
  let iso := forallb (fun r => r =? hd 0 radius) radius in
  mkOut (map (centroid pix pts) dims) (total pix pts)
        (if charz then Some (if iso then [gyration2 pix c pts] else map (gyration2_axis pix c pts) dims,
                             brightest pix pts, total rawpix pts)
         else None).

Definition inside_b (radius shape c : list Z) : bool :=
  forallb (fun d => (ix radius d <=? ix c d) && (ix c d <=? ix shape d - 1 - ix radius d)) (seq 0 (length radius)).

(* all window centres whose window lies inside the image *)
Definition inside_centres (radius shape : list Z) : list (list Z) :=
  map (fun q => map (fun d => ix q d + ix radius d) (seq 0 (length radius)))
      (grid (map (fun d => Z.max 0 (ix shape d - 2 * ix radius d)) (seq 0 (length radius)))).

Definition consistent (pix rawpix : list Z -> Z) (radius shape : list Z) (scale : Z) (charz : bool)
           (hint : list Z) (o : obs) : bool :=
  let ok c := inside_b radius shape c && (negb (total pix (nbhd radius c) =? 0)) &&
              N.eqb (cmp_obs scale charz o (spec_output pix rawpix radius charz c)) 0 in
  if ok hint then true else existsb ok (inside_centres radius shape).

(* a shift/break decision closer than 2^-40 to the threshold without being exactly on
   it cannot be trusted to the float implementation: counted as degenerate *)
Definition degenerate (pix : list Z -> Z) (radius shape : list Z) (thresh : Q) (n : nat) (start : list Z) : bool :=
  let m := binary_mask radius in
  existsb (fun c =>
     let cm := safe_com pix radius m c in
     existsb (fun d => let a := Qabs (qx cm d - inject_Z (ix radius d)) in
                       negb (Qeq_bool a thresh) && Qle_bool (Qabs (a - thresh)) tol)
             (seq 0 (length radius)))
    (ref_trace pix radius shape thresh m n start).

Record case := mkCase {
  c_shape : list Z; c_data : list Z; c_raw : list Z; c_radius : list Z; c_thresh : Q;
  c_maxit : Z; c_char : bool; c_start : list Z; c_scale : Z; c_py : obs; c_nb : obs }.

(* 0 ok | 97 malformed case | 98 premise fails (a visited window has zero mass) |
   99 degenerate margin | 20 the two models disagree (contradicts the theorem) |
   1..5 python engine differs from the model in column k but its row is still the
   centroid/mass/... of ONE inside window | 101..105 same and no inside window explains the row |
   11..15 / 111..115 same for the numba engine *)
Definition check_case (c : case) : N :=
  let pix := pix_of (c_shape c) (c_data c) in
  let raw := pix_of (c_shape c) (c_raw c) in
  let radius := c_radius c in
  let shape := c_shape c in
  let nd := length radius in
  if negb ((length shape =? nd)%nat && (length (c_start c) =? nd)%nat && (0 <? nd)%nat &&
           forallb (fun r => 1 <=? r) radius && inside_b radius shape (c_start c) && (1 <=? c_scale c) &&
           Qle_bool 0 (c_thresh c)) then 97%N
  else
  let n := pred (iters_of (c_maxit c)) in
  if negb (ref_nonzero pix radius shape (c_thresh c) (binary_mask radius) n (c_start c)) then 98%N
  else if degenerate pix radius shape (c_thresh c) n (c_start c) then 99%N
  else
  let mp := refine_python pix raw radius shape (c_thresh c) (c_maxit c) (c_char c) (c_start c) in
  let hint := r_rect (ref_loop pix radius shape (c_thresh c) (binary_mask radius) n (c_start c)) in
  match refine_numba pix raw radius shape (c_thresh c) (c_maxit c) (c_char c) (c_start c) with
  | KDivZero => 20%N
  | KOk mn =>
    if negb (out_eqb mp mn) then 20%N
    else
      let judge (o : obs) (base : N) : N :=
        let k := cmp_obs (c_scale c) (c_char c) o mp in
        if N.eqb k 0 then 0%N
        else if consistent pix raw radius shape (c_scale c) (c_char c) hint o then (base + k)%N
        else (base + 100 + k)%N in
      let a := judge (c_py c) 0%N in
      if negb (N.eqb a 0) then a else judge (c_nb c) 10%N
  end.

(* model-only evaluation for replay printing: final window centre and iterations used *)
Definition model_window (c : case) : list Z :=
  r_rect (ref_loop (pix_of (c_shape c) (c_data c)) (c_radius c) (c_shape c) (c_thresh c)
                   (binary_mask (c_radius c)) (pred (iters_of (c_maxit c))) (c_start c)).
