(* C18 -- executable model of trackpy.motion.compute_drift / subtract_drift
   (as the code is after the fix: commits; smoothing = 0).

   A trajectory table is a list of rows (row order = DataFrame row order).
   One position column is modelled at a time: pandas' diff / groupby.mean /
   cumsum / Series.sub are column-wise and the row mask and the groups depend on
   the particle and frame columns only, so the code treats every position column
   by the same scalar pipeline; the harness runs this model once per position
   column (2 or 3 per case).  [other] stands for all remaining columns of the
   row (the harness stores a unique row id there).

   Positions are exact rationals; NaN positions are outside the model.
   No proofs in this file. *)
From Coq Require Import ZArith QArith List Bool.
Import ListNotations.
Open Scope Z_scope.

Record row := mkRow { particle : Z; frame : Z; pos : Q; other : Z }.
Definition table := list row.
Definition drift := list (Z * Q).        (* DataFrame(pos, index=frame), index order *)

(* ---- sort_values(kind stable for several keys): stable insertion sort -------- *)
Fixpoint insert_by (le : row -> row -> bool) (x : row) (l : list row) : list row :=
  match l with
  | [] => [x]
  | y :: l' => if le x y then x :: l else y :: insert_by le x l'
  end.
Definition isort (le : row -> row -> bool) (l : list row) : list row :=
  fold_right (insert_by le) [] l.

(* lexicographic (particle, frame): pandas_sort(..., ['particle', 'frame']) *)
Definition le_pf (a b : row) : bool :=
  (particle a <? particle b) || ((particle a =? particle b) && (frame a <=? frame b)).
(* lexicographic (frame, particle): set_index(['frame','particle']); sort_index(level='frame') *)
Definition le_fp (a b : row) : bool :=
  (frame a <? frame b) || ((frame a =? frame b) && (particle a <=? particle b)).

(* ---- f_diff = f_sort[pos + ['particle','frame']].diff(); f_diff['frame'] = f_sort['frame'] *)
Record drow := mkD { d_pos : Q; d_particle : Z; d_frame : Z; d_at : Z }.

Fixpoint diff_from (prev : row) (l : list row) : list drow :=
  match l with
  | [] => []
  | r :: l' => mkD (pos r - pos prev)%Q (particle r - particle prev) (frame r - frame prev) (frame r)
               :: diff_from r l'
  end.
(* the first row of diff() is NaN in every column: it fails the mask and is dropped here *)
Definition diff (l : list row) : list drow :=
  match l with [] => [] | r :: l' => diff_from r l' end.

(* mask = (f_diff['particle'] == 0) & (f_diff['frame_diff'] == 1) *)
Definition mask (d : drow) : bool := (d_particle d =? 0) && (d_frame d =? 1).

Definition selected (t : table) : list drow := filter mask (diff (isort le_pf t)).

(* ---- groupby('frame').mean(): group keys ascending and distinct ------------- *)
Fixpoint insert_uniq (x : Z) (l : list Z) : list Z :=
  match l with
  | [] => [x]
  | y :: l' => if x <? y then x :: l else if x =? y then l else y :: insert_uniq x l'
  end.
Definition group_keys (l : list Z) : list Z := fold_right insert_uniq [] l.

Definition qsum (l : list Q) : Q := fold_right Qplus 0%Q l.
Definition qmean (l : list Q) : Q := (qsum l / inject_Z (Z.of_nat (length l)))%Q.

Definition group_mean (sel : list drow) (f : Z) : Q :=
  Qred (qmean (map d_pos (filter (fun d => d_at d =? f) sel))).

(* ---- cumsum() in index order ------------------------------------------------ *)
Fixpoint cumsum (acc : Q) (l : list (Z * Q)) : drift :=
  match l with
  | [] => []
  | (f, m) :: l' => let a := Qred (acc + m)%Q in (f, a) :: cumsum a l'
  end.

Definition compute_drift (t : table) : drift :=
  let sel := selected t in
  cumsum 0%Q (map (fun f => (f, group_mean sel f)) (group_keys (map d_at sel))).

(* ---- subtract_drift ---------------------------------------------------------
   traj = traj.copy(); set_index(['frame','particle'], drop=False);
   sort_index(level='frame'); traj[col] = traj[col].sub(drift[col], fill_value=0, level='frame')
   : every row gets the drift value of its frame subtracted; a frame without a
   drift value is filled with 0, i.e. left unchanged. *)
Fixpoint lookup (f : Z) (d : drift) : option Q :=
  match d with
  | [] => None
  | (g, v) :: d' => if g =? f then Some v else lookup f d'
  end.

Definition sub_row (d : drift) (r : row) : row :=
  match lookup (frame r) d with
  | Some v => mkRow (particle r) (frame r) (Qred (pos r - v)%Q) (other r)
  | None => r
  end.

Definition subtract_drift (t : table) (d : drift) : table :=
  map (sub_row d) (isort le_fp t).

(* subtract_drift(traj) with drift=None *)
Definition subtract_own_drift (t : table) : table := subtract_drift t (compute_drift t).
