(* Executable model of the driver loop of trackpy.refine.least_squares.
   refine_leastsq (lines 830-917 of /repo HEAD): one iteration per unit
   (a (frame, cluster) group at level 'cluster', the whole table at level
   'global'), the try / except RefineException / else structure, and the
   write-back  f.loc[f_iter.index, ...] = ...

   External behaviour enters as Section variables, with NO assumption made in
   this file:
     in_image coords   prepare_subimages does not raise "Coordinates are out of
                       image bounds" for these centre coordinates
     opt lo hi vect params_const coords
                       scipy.optimize.minimize(residual, vect, bounds=..., SLSQP)
                       on the residual built from the sub-images at `coords`
                       and the constant parameters `params_const`:
                       OFail = result['success'] false or the residual raised
                       RefineException (NaN in the vector);
                       OSucc x rms = success with result['x'] = x and
                       sqrt(result['fun'] / residual_factor) = rms.
   scipy raises ValueError when some lower bound exceeds its upper bound; that
   is modelled as outcome Raised (box_empty).  max_iter = 0 leaves rms_dev
   unbound (NameError): also Raised.  Constraints and compute_error are not
   modelled.  The table is column-major: pcols = the ff.params columns of f,
   cost = the 'cost' column (arbitrary content before the call).
   No proofs in this file. *)
From Coq Require Import QArith List Bool Arith.
From TP Require Import Model.RefineBounds.
Import ListNotations.
Open Scope Q_scope.

Inductive ores := OFail | OSucc (x : list Q) (rms : Q).
Inductive outcome := Failed | Fitted (cols : list (list Q)) (rms : Q) | Raised.
Inductive loopres := LFail | LRaise | LDone (params : list (list Q)) (rms : option Q).

Definition fin_of (e : ext) : option Q := match e with Fin q => Some q | _ => None end.
Fixpoint all_fin (l : list ext) : option (list Q) :=
  match l with
  | [] => Some []
  | e :: t => match fin_of e, all_fin t with Some q, Some r => Some (q :: r) | _, _ => None end
  end.
(* np.isfinite(params).all() *)
Fixpoint all_fin2 (cols : list (list ext)) : option (list (list Q)) :=
  match cols with
  | [] => Some []
  | c :: t => match all_fin c, all_fin2 t with Some q, Some r => Some (q :: r) | _, _ => None end
  end.

Definition Qlt_b (x y : Q) : bool := negb (Qle_bool y x).
Definition nrows {A} (cols : list (list A)) : nat := match cols with [] => 0%nat | c :: _ => length c end.
Definition row_at (i : nat) (cols : list (list Q)) : list Q := map (fun c => nth i c 0) cols.
Definition sumsq (a b : list Q) : Q :=
  fold_left Qplus (map2 (fun x y => (x - y) * (x - y)) a b) 0.
(* np.all(np.sum((new_coords - coords)**2, 1) < max_shift**2) *)
Definition all_small (new old : list (list Q)) (max_shift : Q) : bool :=
  forallb (fun i => Qlt_b (sumsq (row_at i new) (row_at i old)) (max_shift * max_shift)) (seq 0 (nrows new)).

Section Driver.
  Variable in_image : list (list Q) -> bool.
  Variable opt : list ext -> list ext -> list Q -> list (list Q) -> list (list Q) -> ores.

  Variable ps : list pkind.        (* ff.params *)
  Variable modes : list nat.       (* ff.modes *)
  Variable ndim : nat.
  Variable bd : bdict.             (* the bounds argument *)
  Variable radius : list Q.        (* diameter // 2 per axis *)
  Variable max_iter : nat.
  Variable max_shift max_rms_dev : Q.

  (* params[:, 2:2+ndim] *)
  Definition coords_of (cols : list (list Q)) : list (list Q) := firstn ndim (skipn 2 cols).

  (* for _n_iter in range(max_iter): ... *)
  Fixpoint loop (fuel : nat) (g : grouping) (lo hi : list ext) (vect : list Q)
           (params coords : list (list Q)) (rms : option Q) : loopres :=
    match fuel with
    | O => LDone params rms
    | S fuel' =>
      if negb (in_image coords) then LFail
      else if box_empty lo hi then LRaise
      else match opt lo hi vect params coords with
           | OFail => LFail
           | OSucc x r =>
             let params' := unpack modes g x params in
             let new_coords := coords_of params' in
             if all_small new_coords coords max_shift then LDone params' (Some r)
             else loop fuel' g lo hi vect params' new_coords (Some r)
           end
    end.

  (* the body of the try block for one unit *)
  Definition fit (g : grouping) (params_e : list (list ext)) : outcome :=
    match all_fin2 params_e with
    | None => Failed                                   (* 'Not all initial parameters are known' *)
    | Some params =>
      let vect := pack 0 qmean modes g params in
      let bs := validate_bounds bd radius ps in
      let lo := box_low bs modes g params in
      let hi := box_high bs modes g params in
      match loop max_iter g lo hi vect params (coords_of params) None with
      | LFail => Failed
      | LRaise => Raised
      | LDone _ None => Raised                         (* rms_dev unbound *)
      | LDone p (Some r) => if Qlt_b max_rms_dev r then Failed else Fitted p r
      end
    end.

  (* ---- the table and the write-back -------------------------------------- *)
  Record tbl := { pcols : list (list ext); cost : list ext }.

  Fixpoint set_nth {A} (i : nat) (v : A) (l : list A) : list A :=
    match l, i with
    | [], _ => []
    | _ :: t, O => v :: t
    | x :: t, S i' => x :: set_nth i' v t
    end.
  (* f.loc[idx, col] = vals *)
  Fixpoint scatter {A} (idx : list nat) (vals : list A) (col : list A) : list A :=
    match idx, vals with
    | i :: is, v :: vs => scatter is vs (set_nth i v col)
    | _, _ => col
    end.
  (* f.loc[idx, ff.params] = params *)
  Fixpoint write_cols (idx : list nat) (p : list (list Q)) (cols : list (list ext)) : list (list ext) :=
    match cols, p with
    | c :: cs, n :: ns => scatter idx (map Fin n) c :: write_cols idx ns cs
    | cs, [] => cs
    | [], _ => []
    end.

  Definition unit_t := (list nat * grouping)%type.   (* row positions of the unit, groups *)

  Definition step (t : tbl) (u : unit_t) : option tbl :=
    match fit (snd u) (map (select NaN (fst u)) (pcols t)) with
    | Raised => None
    | Failed => Some {| pcols := pcols t;
                        cost := scatter (fst u) (repeat NaN (length (fst u))) (cost t) |}
    | Fitted p r => Some {| pcols := write_cols (fst u) p (pcols t);
                            cost := scatter (fst u) (repeat (Fin r) (length (fst u))) (cost t) |}
    end.

  (* for _, f_iter in iterable: ...   None = an exception left refine_leastsq *)
  Fixpoint run (t : tbl) (us : list unit_t) : option tbl :=
    match us with
    | [] => Some t
    | u :: us' => match step t u with None => None | Some t' => run t' us' end
    end.
End Driver.
