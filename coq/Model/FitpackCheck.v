(* C15, route T: the generated closures of Gen/fitpack.v instantiated at Q
   (exact rationals, Qred after every operation), so that they can be executed
   with vm_compute next to FitFunctions.get_residual on integer-valued inputs
   with user-supplied (abstract) r2_fun / dr2_fun / model functions.
   The same generated text, at R, is what Proofs/FitpackGen2.v / FitpackGen3.v
   prove equal to Model/Jacobian2.v.  No proofs in this file. *)
From Coq Require Import ZArith QArith List Bool.
From TP Require Import Model.Pack Model.PyFitpack Gen.fitpack.
Import ListNotations.
Open Scope Q_scope.

Definition Q_ops : num_ops Q :=
  mk_ops Q 0%Q (fun a b => Qred (a + b)) (fun a b => Qred (a - b)) (fun a b => Qred (a * b)) (fun a b => Qred (a / b))
         inject_Z (fun k => inject_Z (Z.of_nat k)) (fun _ => false).

(* a toy problem: one cluster of two features over three pixels (pixel = its index),
   r2_fun(mesh, p) = mesh[0] - p[2], dr2_fun = [-1], model_fun(r2) = r2 (dfun: (r2, [1])),
   rows (background, signal, centre); modes (cluster, var, var) *)
Definition toy_image : image Q nat := mk_image [0%nat; 1%nat; 2%nat] 3%nat (fun x => inject_Z (Z.of_nat (x * x))).
Definition toy_residual (v : list Q) : pres Q :=
  get_residual_residual Q_ops (fun m p => nth 0%nat m 0 - nth 2%nat p 0) (fun _ _ => [-(1)]) (fun r2 _ _ => r2) (fun r2 _ _ => (r2, [1]))
    [] 2 [3%nat; 1%nat; 1%nat] 1%nat 1%nat [toy_image] [fun x => [inject_Z (Z.of_nat x)]] [[fun _ => true; fun x => Nat.ltb 0 x]]
    2%nat [[0; 0]; [0; 0]; [0; 0]] (Some [[[0%nat; 1%nat]]]) 1 v.
Definition toy_jacobian (v : list Q) : pres (list Q) :=
  get_residual_jacobian Q_ops (fun m p => nth 0%nat m 0 - nth 2%nat p 0) (fun _ _ => [-(1)]) (fun r2 _ _ => r2) (fun r2 _ _ => (r2, [1]))
    [] 2 [3%nat; 1%nat; 1%nat] 1%nat 1%nat [toy_image] [fun x => [inject_Z (Z.of_nat x)]] [[fun _ => true; fun x => Nat.ltb 0 x]]
    2%nat [[0; 0]; [0; 0]; [0; 0]] (Some [[[0%nat; 1%nat]]]) 1 v.
(* vect = (background of the cluster, signal_0, signal_1, centre_0, centre_1); the expected values are what
   FitFunctions.get_residual returns for the same data (custom fit_function dict, r2_fun / dr2_fun overridden):
   residual 7.0, jacobian [4.6667, 6.6667, 2.6667, -9.3333, -12.0] *)
Definition toy_vect : list Q := [1; 2; 3; 0; 1].
Definition toy_expected : pres Q * pres (list Q) := (POk 7, POk [14 # 3; 20 # 3; 8 # 3; -28 # 3; -12]).
