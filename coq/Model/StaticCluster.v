(* Model of trackpy/static.py : Clusters, cluster_iter, proximity.
   Feature indices and cluster ids are nat; coordinates are integers (every
   float64 of a case is a dyadic rational, the harness scales a whole case by
   one power of two); distances are compared squared.
   No proofs in this file. *)
From Coq Require Import ZArith List Bool Arith NArith.
Import ListNotations.

(* ------------------------------------------------------------------ *)
(* class Clusters                                                      *)
(* ------------------------------------------------------------------ *)
(* self.clusters : dict id -> set of feature indices   (association list in
   dict order, sets as duplicate-free lists);  self.pos_ids : list of ids *)
Record clusters := { cl : list (nat * list nat); pos_ids : list nat }.

(* __init__(indices = range(n)) *)
Definition init (n : nat) : clusters :=
  {| cl := map (fun i => (i, [i])) (seq 0 n); pos_ids := seq 0 n |}.

Fixpoint lookup (k : nat) (d : list (nat * list nat)) : list nat :=
  match d with
  | [] => []
  | (k', v) :: d' => if k =? k' then v else lookup k d'
  end.

(* d[k] = v  for a key that is present keeps the key's position *)
Fixpoint set_key (k : nat) (v : list nat) (d : list (nat * list nat)) : list (nat * list nat) :=
  match d with
  | [] => [(k, v)]
  | (k', v') :: d' => if k =? k' then (k, v) :: d' else (k', v') :: set_key k v d'
  end.

(* del d[k] *)
Definition del_key (k : nat) (d : list (nat * list nat)) : list (nat * list nat) :=
  filter (fun kv => negb (fst kv =? k)) d.

Fixpoint set_nth {A : Type} (i : nat) (x : A) (l : list A) : list A :=
  match l, i with
  | [], _ => []
  | _ :: l', O => x :: l'
  | y :: l', S i' => y :: set_nth i' x l'
  end.

(* def add(self, a, b):
       i1 = self.pos_ids[a]; i2 = self.pos_ids[b]
       if i1 != i2:
           self.clusters[i1] = self.clusters[i1].union(self.clusters[i2])
           for f in self.clusters[i2]: self.pos_ids[f] = i1
           del self.clusters[i2]                                         *)
Definition add (c : clusters) (a b : nat) : clusters :=
  let i1 := nth a (pos_ids c) 0 in
  let i2 := nth b (pos_ids c) 0 in
  if i1 =? i2 then c
  else
    let s2 := lookup i2 (cl c) in
    {| cl := del_key i2 (set_key i1 (lookup i1 (cl c) ++ s2) (cl c));
       pos_ids := fold_left (fun ids f => set_nth f i1 ids) s2 (pos_ids c) |}.

(* from_pairs(pairs, length) *)
Definition from_pairs (pairs : list (nat * nat)) (n : nat) : clusters :=
  fold_left (fun c ab => add c (fst ab) (snd ab)) pairs (init n).

(* cluster_size: result = [None]*len(pos_ids);
   for cluster in self: for f in cluster: result[f] = len(cluster) *)
Definition cluster_size (c : clusters) : list (option nat) :=
  fold_left (fun res kv => fold_left (fun r f => set_nth f (Some (length (snd kv))) r) (snd kv) res)
            (cl c) (repeat None (length (pos_ids c))).

(* ------------------------------------------------------------------ *)
(* from_coords: cKDTree(coords / separation).query_pairs(1)            *)
(* ------------------------------------------------------------------ *)
Definition pt := list Z.
(* isotropic separation s: w = [1;..], R2 = s^2;  per-axis (s1..sk):
   w_i = prod_{j<>i} s_j^2, R2 = prod s_j^2  ("divide by separation, radius 1"
   without division) *)
Fixpoint d2w (w : list Z) (p q : pt) : Z :=
  match w, p, q with
  | wi :: w', pi :: p', qi :: q' => (wi * ((pi - qi) * (pi - qi)) + d2w w' p' q')%Z
  | _, _, _ => 0%Z
  end.

Definition nearb (w : list Z) (R2 : Z) (pts : list pt) (i j : nat) : bool :=
  (d2w w (nth i pts []) (nth j pts []) <=? R2)%Z.

(* query_pairs returns the SET of pairs (i, j), i < j, within the radius; the
   iteration order of that set is arbitrary, so the theorems are stated for
   every list with this content; this is one such list (used by the monitor) *)
Definition all_pairs (w : list Z) (R2 : Z) (pts : list pt) : list (nat * nat) :=
  let n := length pts in
  flat_map (fun i => map (fun j => (i, j))
                         (filter (fun j => (i <? j) && nearb w R2 pts i j) (seq 0 n)))
           (seq 0 n).

(* ------------------------------------------------------------------ *)
(* cluster_iter: ids made unique across frames                         *)
(*   result['cluster'] = pos_ids + next_id; next_id = max + 1          *)
(* ------------------------------------------------------------------ *)
Fixpoint cluster_frames (next_id : nat) (frames : list (nat * list (nat * nat)))
  : list (list nat * list (option nat)) :=
  match frames with
  | [] => []
  | (n, pairs) :: fs =>
    let c := from_pairs pairs n in
    let ids := map (fun i => i + next_id) (pos_ids c) in
    (ids, cluster_size c) :: cluster_frames (list_max ids + 1) fs
  end.

(* ------------------------------------------------------------------ *)
(* monitor for the implementation's labels of one frame                 *)
(* ------------------------------------------------------------------ *)
Definition same_partition (n : nat) (l1 l2 : list nat) : bool :=
  forallb (fun i => forallb (fun j =>
     Bool.eqb (nth i l1 0 =? nth j l1 0) (nth i l2 0 =? nth j l2 0)) (seq 0 n)) (seq 0 n).

Definition opt_eqb (a b : option nat) : bool :=
  match a, b with Some x, Some y => x =? y | None, None => true | _, _ => false end.

Fixpoint list_eqb {A : Type} (e : A -> A -> bool) (l1 l2 : list A) : bool :=
  match l1, l2 with
  | [], [] => true
  | x :: l1', y :: l2' => e x y && list_eqb e l1' l2'
  | _, _ => false
  end.

(* 0 ok; 1 wrong lengths; 2 labels are not the connectivity partition;
   3 sizes are not the component sizes *)
Definition check_frame (w : list Z) (R2 : Z) (pts : list pt)
           (labels : list nat) (sizes : list nat) : N :=
  let n := length pts in
  if negb ((length labels =? n) && (length sizes =? n)) then 1%N
  else
    let c := from_pairs (all_pairs w R2 pts) n in
    if negb (same_partition n labels (pos_ids c)) then 2%N
    else if negb (list_eqb opt_eqb (map Some sizes) (cluster_size c)) then 3%N
    else 0%N.

Definition disjointb (l1 l2 : list nat) : bool :=
  forallb (fun x => negb (existsb (Nat.eqb x) l2)) l1.

Fixpoint all_disjoint (ls : list (list nat)) : bool :=
  match ls with
  | [] => true
  | l :: ls' => forallb (disjointb l) ls' && all_disjoint ls'
  end.

(* whole call of cluster(): frames = [(pts, labels, sizes)];
   4 = a cluster id is used in two frames; else first failing frame code *)
Definition check_cluster (w : list Z) (R2 : Z)
           (frames : list (list pt * (list nat * list nat))) : N :=
  let codes := map (fun f => check_frame w R2 (fst f) (fst (snd f)) (snd (snd f))) frames in
  match filter (fun c => negb (N.eqb c 0)) codes with
  | c :: _ => c
  | [] => if all_disjoint (map (fun f => fst (snd f)) frames) then 0%N else 4%N
  end.

(* exact correspondence for Clusters.from_pairs on an ordered pair list:
   pos_ids, cluster_size and the iteration order of the dict keys *)
Definition check_from_pairs (n : nat) (pairs : list (nat * nat))
           (ids : list nat) (sizes : list nat) (keys : list nat) : N :=
  let c := from_pairs pairs n in
  if negb (list_eqb Nat.eqb ids (pos_ids c)) then 1%N
  else if negb (list_eqb opt_eqb (map Some sizes) (cluster_size c)) then 2%N
  else if negb (list_eqb Nat.eqb keys (map fst (cl c))) then 3%N
  else 0%N.

(* ------------------------------------------------------------------ *)
(* proximity: tree.query(tree.data, 2)[0][:, 1]                         *)
(*   = entry 1 of the ascending list of distances from p to ALL points  *)
(* ------------------------------------------------------------------ *)
Fixpoint insertZ (x : Z) (l : list Z) : list Z :=
  match l with
  | [] => [x]
  | y :: l' => if (x <=? y)%Z then x :: y :: l' else y :: insertZ x l'
  end.
Definition sortZ (l : list Z) : list Z := fold_right insertZ [] l.

Definition d2 (p q : pt) : Z := d2w (map (fun _ => 1%Z) p) p q.

(* squared distance to the "second nearest" point of the tree (the nearest is
   the point itself); None = inf (fewer than two points) *)
Definition proximity2 (pts : list pt) : list (option Z) :=
  map (fun p => nth_error (sortZ (map (d2 p) pts)) 1) pts.

(* impl value x (exact rational of the float) against squared distance v:
   |x^2 - v| <= v * 2^-50  and x >= 0 *)
From Coq Require Import QArith Qabs.
Definition close_sqrt (x : Q) (v : Z) : bool :=
  Qle_bool 0 x &&
  Qle_bool (Qabs (x * x - inject_Z v)) (inject_Z v * (1 # (2 ^ 50))).

(* 0 ok; 1 length; 2 value differs; 3 inf-ness differs *)
Definition check_proximity (pts : list pt) (out : list (option Q)) : N :=
  let m := proximity2 pts in
  if negb (length out =? length m) then 1%N
  else
    fold_left (fun acc xm =>
      if negb (N.eqb acc 0) then acc else
      match xm with
      | (Some x, Some v) => if close_sqrt x v then 0%N else 2%N
      | (None, None) => 0%N
      | _ => 3%N
      end) (combine out m) 0%N.
