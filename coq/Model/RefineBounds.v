(* Executable model of the bounds machinery of trackpy/refine/least_squares.py
   (code as of /repo HEAD):
     FitFunctions.validate_bounds   (lines 344-385)
     FitFunctions.compute_bounds    (lines 387-411)
     vect_from_params / vect_to_params restricted to the modes refine_leastsq
     admits (0 const, 1 var, 2 global, 3 cluster; anything above raises
     NotImplemented before the loop).

   Numbers.  A float64 is modelled as  ext = NaN | -inf | +inf | Fin q  with q
   an exact rational.  The parameter array handed to compute_bounds is finite
   (refine_leastsq tests np.isfinite(params).all() first), so the arithmetic
   p - d, p / r, p + d, p * r has a rational left operand and an [ext] right
   operand and follows IEEE-754 for the special values (x/0 = +-inf, 0/0 = NaN,
   x/inf = 0, 0*inf = NaN).  Negative zero is not modelled (harness never
   produces it); rounding is not modelled (DESIGN 2.2).

   Arrays are column-major: a parameter array is the list of its columns
   params[:, j]; every loop of the Python over `enumerate(modes)` is a
   recursion over that list.

   Modelled, not verified: np.nanmax/np.nanmin over two stacked arrays and
   np.fmax/np.fmin = NaN-ignoring max/min; np.min/np.max/np.mean of a column
   slice; dict.get; `x is np.nan` = "key absent or value is the np.nan object".
   No proofs in this file. *)
From Coq Require Import QArith Qminmax List Bool Arith.
Import ListNotations.
Open Scope Q_scope.

Inductive ext := NaN | NInf | PInf | Fin (q : Q).

(* ---- IEEE special-value arithmetic with a finite left operand ------------ *)
Definition esub (p : Q) (d : ext) : ext :=
  match d with NaN => NaN | NInf => PInf | PInf => NInf | Fin q => Fin (p - q) end.
Definition eadd (p : Q) (d : ext) : ext :=
  match d with NaN => NaN | NInf => NInf | PInf => PInf | Fin q => Fin (p + q) end.
Definition ediv (p : Q) (r : ext) : ext :=
  match r with
  | NaN => NaN
  | NInf | PInf => Fin 0
  | Fin q => if Qeq_bool q 0
             then match p ?= 0 with Eq => NaN | Lt => NInf | Gt => PInf end
             else Fin (p / q)
  end.
Definition emul (p : Q) (r : ext) : ext :=
  match r with
  | NaN => NaN
  | PInf => match p ?= 0 with Eq => NaN | Lt => NInf | Gt => PInf end
  | NInf => match p ?= 0 with Eq => NaN | Lt => PInf | Gt => NInf end
  | Fin q => Fin (p * q)
  end.

(* np.fmax / np.nanmax of two: a NaN operand is ignored *)
Definition emax (a b : ext) : ext :=
  match a, b with
  | NaN, x => x
  | x, NaN => x
  | PInf, _ => PInf
  | _, PInf => PInf
  | NInf, x => x
  | x, NInf => x
  | Fin x, Fin y => if Qle_bool x y then Fin y else Fin x
  end.
Definition emin (a b : ext) : ext :=
  match a, b with
  | NaN, x => x
  | x, NaN => x
  | NInf, _ => NInf
  | _, NInf => NInf
  | PInf, x => x
  | x, PInf => x
  | Fin x, Fin y => if Qle_bool x y then Fin x else Fin y
  end.

(* bound_low[np.isnan(bound_low)] = -np.inf ; bound_high[...] = np.inf *)
Definition nan_to_ninf (x : ext) : ext := match x with NaN => NInf | _ => x end.
Definition nan_to_pinf (x : ext) : ext := match x with NaN => PInf | _ => x end.

(* one entry of bound_low / bound_high in compute_bounds:
     bound_low  = fmax(nanmax([p - diff[0], p / reldiff[0]]), abs[0]),  NaN -> -inf
     bound_high = fmin(nanmin([p + diff[1], p * reldiff[1]]), abs[1]),  NaN -> +inf *)
Definition bound_low (p : Q) (a d r : ext) : ext :=
  nan_to_ninf (emax (emax (esub p d) (ediv p r)) a).
Definition bound_high (p : Q) (a d r : ext) : ext :=
  nan_to_pinf (emin (emin (eadd p d) (emul p r)) a).

(* ---- validate_bounds ------------------------------------------------------ *)
(* the parameters of a fit function, in the order of FitFunctions.params:
   background, signal, <pos columns>, <size columns>, <extra parameters> *)
Inductive pkind := PBackground | PSignal | PPos (k : nat) | PSize (k : nat) | POther (k : nat).
(* '<name>' absolute, '<name>_abs' difference, '<name>_rel' relative *)
Inductive bform := FAbs | FDiff | FRel.
(* a key of the bounds dictionary: a parameter name, or the broadcast names
   'pos' / 'size' (for isotropic fits the parameter 'size' *is* the broadcast
   name, so the harness only ever emits KSize for it) *)
Inductive bkey := KParam (p : pkind) (f : bform) | KPos (f : bform) | KSize (f : bform).
(* a value: a number (broadcast to both rows) or a (low, high) pair *)
Inductive bval := Scalar (e : ext) | Pair (lo hi : ext).
Definition bdict := list (bkey * bval).

Definition pkind_eqb (a b : pkind) : bool :=
  match a, b with
  | PBackground, PBackground => true
  | PSignal, PSignal => true
  | PPos i, PPos j => Nat.eqb i j
  | PSize i, PSize j => Nat.eqb i j
  | POther i, POther j => Nat.eqb i j
  | _, _ => false
  end.
Definition bform_eqb (a b : bform) : bool :=
  match a, b with FAbs, FAbs => true | FDiff, FDiff => true | FRel, FRel => true | _, _ => false end.
Definition bkey_eqb (a b : bkey) : bool :=
  match a, b with
  | KParam p f, KParam q g => pkind_eqb p q && bform_eqb f g
  | KPos f, KPos g => bform_eqb f g
  | KSize f, KSize g => bform_eqb f g
  | _, _ => false
  end.

Fixpoint lookup (d : bdict) (k : bkey) : option bval :=
  match d with
  | [] => None
  | (k', v) :: t => if bkey_eqb k' k then Some v else lookup t k
  end.

(* bounds.get(key, np.nan) followed by the test `is np.nan` *)
Definition get (d : bdict) (k : bkey) : option bval :=
  match lookup d k with
  | Some (Scalar NaN) => None
  | x => x
  end.

(* own key first, then the broadcast key of the family *)
Definition get_form (d : bdict) (p : pkind) (f : bform) : option bval :=
  match get d (KParam p f) with
  | Some v => Some v
  | None => match p with
            | PPos _ => get d (KPos f)
            | PSize _ => get d (KSize f)
            | _ => None
            end
  end.

Definition to_pair (v : bval) : ext * ext :=
  match v with Scalar e => (e, e) | Pair a b => (a, b) end.

(* the float 1E-7 exactly *)
Definition eps : Q := 944473296573929 # 9444732965739290427392.

Definition default_abs (p : pkind) : ext * ext :=
  match p with
  | PBackground | PSignal | PSize _ => (Fin eps, NaN)
  | _ => (NaN, NaN)
  end.
Definition default_diff (radius : list Q) (p : pkind) : ext * ext :=
  match p with
  | PPos k => let r := nth k radius 0 in (Fin r, Fin r)
  | _ => (NaN, NaN)
  end.

(* one column of (abs_arr, diff_arr, reldiff_arr) *)
Record pbnd := { b_abs : ext * ext; b_diff : ext * ext; b_rel : ext * ext }.

Definition validate_one (d : bdict) (radius : list Q) (p : pkind) : pbnd :=
  {| b_abs := match get_form d p FAbs with Some v => to_pair v | None => default_abs p end;
     b_diff := match get_form d p FDiff with Some v => to_pair v | None => default_diff radius p end;
     b_rel := match get_form d p FRel with Some v => to_pair v | None => (NaN, NaN) end |}.

Definition validate_bounds (d : bdict) (radius : list Q) (ps : list pkind) : list pbnd :=
  map (validate_one d radius) ps.

(* ---- compute_bounds, entry-wise part --------------------------------------- *)
Definition low_col (b : pbnd) (col : list Q) : list ext :=
  map (fun p => bound_low p (fst (b_abs b)) (fst (b_diff b)) (fst (b_rel b))) col.
Definition high_col (b : pbnd) (col : list Q) : list ext :=
  map (fun p => bound_high p (snd (b_abs b)) (snd (b_diff b)) (snd (b_rel b))) col.

Fixpoint map2 {A B C : Type} (f : A -> B -> C) (l1 : list A) (l2 : list B) : list C :=
  match l1, l2 with
  | a :: t1, b :: t2 => f a b :: map2 f t1 t2
  | _, _ => []
  end.

Definition lows (bs : list pbnd) (cols : list (list Q)) : list (list ext) := map2 low_col bs cols.
Definition highs (bs : list pbnd) (cols : list (list Q)) : list (list ext) := map2 high_col bs cols.

(* ---- vect_from_params / vect_to_params ------------------------------------- *)
(* groups: None = the `groups=None` call of the per-cluster level;
   Some gs = the global level, gs = groups[0] = row positions of every cluster *)
Definition grouping := option (list (list nat)).

Definition select {A} (d : A) (grp : list nat) (col : list A) : list A :=
  map (fun i => nth i col d) grp.

Definition pack_col {A} (d : A) (op : list A -> A) (mode : nat) (g : grouping) (col : list A) : list A :=
  match mode with
  | 0%nat => []
  | 1%nat => col
  | 2%nat => [op col]
  | _ => match g with
         | None => [op col]
         | Some gs => map (fun grp => op (select d grp col)) gs
         end
  end.

Fixpoint pack {A} (d : A) (op : list A -> A) (modes : list nat) (g : grouping) (cols : list (list A)) : list A :=
  match modes, cols with
  | m :: ms, c :: cs => pack_col d op m g c ++ pack d op ms g cs
  | _, _ => []
  end.

(* np.min / np.max over a slice of an array without NaN (NaN already replaced);
   np.mean over a slice of finite numbers *)
Definition emin_list (l : list ext) : ext :=
  match l with [] => PInf | x :: t => fold_left emin t x end.
Definition emax_list (l : list ext) : ext :=
  match l with [] => NInf | x :: t => fold_left emax t x end.
Definition qmean (l : list Q) : Q :=
  Qred (fold_left Qplus l 0 / inject_Z (Z.of_nat (length l))).

Definition memb (i : nat) (grp : list nat) : bool := existsb (Nat.eqb i) grp.

(* result[group, j] = value   on one column, positions counted from k *)
Fixpoint set_from (k : nat) (grp : list nat) (v : Q) (col : list Q) : list Q :=
  match col with
  | [] => []
  | x :: t => (if memb k grp then v else x) :: set_from (S k) grp v t
  end.

(* for group, value in zip(groups_this, vect[current:current+len(groups_this)]) *)
Fixpoint assign_groups (gs : list (list nat)) (vs : list Q) (col : list Q) : list Q :=
  match gs, vs with
  | grp :: gs', v :: vs' => assign_groups gs' vs' (set_from 0 grp v col)
  | _, _ => col
  end.

Definition unpack_col (mode : nat) (g : grouping) (v : list Q) (col : list Q) : list Q * list Q :=
  let n := length col in
  match mode with
  | 0%nat => (col, v)
  | 1%nat => (firstn n v, skipn n v)
  | 2%nat => (repeat (hd 0 v) n, tl v)
  | _ => match g with
         | None => (repeat (hd 0 v) n, tl v)
         | Some gs => (assign_groups gs (firstn (length gs) v) col, skipn (length gs) v)
         end
  end.

Fixpoint unpack (modes : list nat) (g : grouping) (v : list Q) (cols : list (list Q)) : list (list Q) :=
  match modes, cols with
  | m :: ms, c :: cs => let (c', v') := unpack_col m g v c in c' :: unpack ms g v' cs
  | _, _ => []
  end.

(* compute_bounds: the two columns of the (len(vect), 2) array handed to SLSQP *)
Definition box_low (bs : list pbnd) (modes : list nat) (g : grouping) (cols : list (list Q)) : list ext :=
  pack NaN emin_list modes g (lows bs cols).
Definition box_high (bs : list pbnd) (modes : list nat) (g : grouping) (cols : list (list Q)) : list ext :=
  pack NaN emax_list modes g (highs bs cols).

(* ---- reading a bound as a constraint on a finite number ------------------ *)
(* a NaN bound is no bound *)
Definition sat_lowb (c : ext) (v : Q) : bool :=
  match c with NaN | NInf => true | PInf => false | Fin q => Qle_bool q v end.
Definition sat_highb (c : ext) (v : Q) : bool :=
  match c with NaN | PInf => true | NInf => false | Fin q => Qle_bool v q end.

(* scipy: "An upper bound is less than the corresponding lower bound" (ValueError) *)
Definition entry_empty (lo hi : ext) : bool :=
  match lo, hi with
  | PInf, PInf => false
  | NInf, NInf => false
  | PInf, _ => true
  | _, NInf => true
  | Fin a, Fin b => negb (Qle_bool a b)
  | _, _ => false
  end.
Definition box_empty (lo hi : list ext) : bool :=
  existsb (fun p => entry_empty (fst p) (snd p)) (combine lo hi).
