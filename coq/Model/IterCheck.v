(* correspondence of the stack-machine models with the real iterative solvers:
   exact equality of the returned choice per source (tie-breaking included) *)
From Coq Require Import ZArith NArith List Bool.
From TP Require Import Model.Assign Model.Iterative.
Import ListNotations.

Fixpoint same_choice (a : list cand) (dests : list (option nat)) : bool :=
  match a, dests with
  | [], [] => true
  | (d, _) :: a', d' :: dests' =>
    (match d, d' with Some x, Some y => Nat.eqb x y | None, None => true | _, _ => false end) && same_choice a' dests'
  | _, _ => false
  end.

(* numba = true: _numba_subnet_norecur; false: nonrecursive_link *)
Definition check_iter (numba : bool) (srcs : list (list cand)) (dests : list (option nat)) : N :=
  match (if numba then numba_link else nonrecursive_link) (cost_full srcs) srcs with
  | None => 10%N
  | Some None => 7%N
  | Some (Some (_, a)) => if same_choice a dests then 0%N else 11%N
  end.
