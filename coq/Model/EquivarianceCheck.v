(* Executable checks used by vp/props/c09.py (result codes in N, 0 = ok).
   No proofs in this file.

   check_pipeline : Model/Equivariance.locate_discrete against what trackpy returned
                    (find.grey_dilation(..., precise=False) then refine_com_arr, python
                    engine) on the same integer image;
   model_moved    : runs the model on two placements of the same content in blank
                    canvases and compares the two model tables (what
                    Proofs/Equivariance.locate_discrete_moved proves, executed);
   model_transposed : runs the model on an image and on its transpose (parameters
                    reversed) and compares the tables as multisets -- the part of the
                    property for which only the maxima stage is proved. *)
From Coq Require Import ZArith NArith QArith Qabs List Bool Arith.
From TP Require Import Model.Dilation Model.COM Model.COMCheck Model.Equivariance.
Import ListNotations.
Open Scope Z_scope.

Definition pt_eqb (a b : list Z) : bool := Equivariance.all2 Z.eqb a b.

(* 0 ok | 1 maxima differ from the model (as lists, np.where order) |
   10+k column k of some refined row differs (1 position, 2 mass, 3 size, 4 signal, 5 raw_mass) |
   99 a shift decision sits within 2^-40 of shift_thresh (float/exact may differ): skipped, counted *)
Definition check_pipeline (thr : Q) (P : lparams) (im : image) (coords : list (list Z)) (rows : list obs) : N :=
  let mx := find_maxima (fun _ => thr) P im in
  if negb (Equivariance.all2 pt_eqb mx coords) then 1%N
  else if existsb (degenerate (pix im) (lp_radius P) (shape im) (lp_thresh P) (pred (iters_of (lp_maxit P)))) mx then 99%N
  else
    let model := map (refine_at P im) mx in
    if negb (length model =? length rows)%nat then 2%N
    else fold_left (fun acc mo => if N.eqb acc 0 then
                                    let k := cmp_obs 1 (lp_char P) (snd mo) (fst mo) in
                                    if N.eqb k 0 then 0%N else (10 + k)%N
                                  else acc) (combine model rows) 0%N.

Definition qeq_list (a b : list Q) : bool := Equivariance.all2 Qeq_bool a b.
Definition char_eqb (a b : option (list Q * Z * Z)) : bool :=
  match a, b with
  | None, None => true
  | Some (s, g, r), Some (s', g', r') => qeq_list s s' && (g =? g') && (r =? r')
  | _, _ => false
  end.

Definition row_moved_b (d : list Z) (a b : output) : bool :=
  qeq_list (map (fun x => (fst x + inject_Z (snd x))%Q) (combine (o_pos a) d)) (o_pos b) &&
  (length (o_pos a) =? length d)%nat &&
  (o_mass a =? o_mass b) && char_eqb (o_char a) (o_char b).

(* 0 ok | 20 the two model tables are not related by the offset | 21 no maxima at all (trivial case) *)
Definition model_moved (thr : Q) (P : lparams) (content : image) (sh1 off1 sh2 off2 : list Z) : N :=
  let A := locate_discrete (fun _ => thr) P (embed sh1 off1 content) in
  let B := locate_discrete (fun _ => thr) P (embed sh2 off2 content) in
  if negb (Equivariance.all2 (row_moved_b (vsub off2 off1)) A B) then 20%N
  else match A with [] => 21%N | _ => 0%N end.

Definition row_rev_b (a b : output) : bool :=
  qeq_list (rev (o_pos a)) (o_pos b) && (o_mass a =? o_mass b) &&
  match o_char a, o_char b with
  | None, None => true
  | Some (s, g, r), Some (s', g', r') =>
      (* one size column when isotropic, else one per axis (reversed with the axes) *)
      qeq_list (rev s) s' && (g =? g') && (r =? r')
  | _, _ => false
  end.

(* 0 ok | 30 some row of one table has no partner in the other | 31 no maxima *)
Definition model_transposed (thr : Q) (P : lparams) (im : image) : N :=
  let A := locate_discrete (fun _ => thr) P im in
  let B := locate_discrete (fun _ => thr) (lp_rev P) (transpose im) in
  if negb ((length A =? length B)%nat &&
           forallb (fun a => existsb (row_rev_b a) B) A &&
           forallb (fun b => existsb (fun a => row_rev_b a b) A) B) then 30%N
  else match A with [] => 31%N | _ => 0%N end.
