(* C12: hand-written model of trackpy/linking/subnet.py : split_subnet, statement by statement,
   on the heap of Model/SubnetMerge.v (dictionary [subs] + the .subnet attribute maps).

     subnets = dict()
     for i, dp in enumerate(dest):  dp.subnet = i ; subnets[i] = set(), {dp}        reset_dests
     for sp in source:
         sp.subnet = None                                                            clear_src
         new_fcs = the prefix of sp.forward_cands with dist <= new_range             take_le
         sp.forward_cands = new_fcs
         for dp, dist in new_fcs: assign_subnet(sp, dp, subnets)                     step_o (Model/SubnetMerge.v)
     return (subnets[key] for key in subnets)                                        map snd (subs st)

   A source is its index, a destination its index; forward candidates live in a map
   source index -> candidate list (latest binding first).  [None] = an exception.
   No proofs in this file. *)
From Coq Require Import ZArith List Bool Arith.
From TP Require Import Model.Assign Model.Link Model.SubnetMerge.
Import ListNotations.

(* d[i] = v on a dict: replace in place, or append (dicts keep insertion order) *)
Fixpoint sset (i : nat) (v : sets) (l : list sn) : list sn :=
  match l with
  | [] => [(i, v)]
  | (i', v') :: l' => if Nat.eqb i i' then (i', v) :: l' else (i', v') :: sset i v l'
  end.
(* p.subnet = None *)
Definition clear_key (k : nat) (m : amap) : amap := filter (fun kv : nat * nat => negb (Nat.eqb (fst kv) k)) m.

Definition reset_dest (st : mst) (i d : nat) : mst :=
  {| subs := sset i ([], [d]) (subs st); ssub := ssub st; dsub := aset d i (dsub st) |}.
Fixpoint reset_dests (i : nat) (dest : list nat) (st : mst) : mst :=
  match dest with
  | [] => st
  | d :: ds => reset_dests (S i) ds (reset_dest st i d)
  end.
Definition clear_src (st : mst) (s : nat) : mst :=
  {| subs := subs st; ssub := clear_key s (ssub st); dsub := dsub st |}.

(* one source: its attribute is cleared, then assign_subnet with each kept destination in order *)
Definition split_src (o : option mst) (e : nat * list nat) : option mst :=
  match o with
  | None => None
  | Some st => fold_left step_o (map (pair (fst e)) (snd e)) (Some (clear_src st (fst e)))
  end.

(* the dictionary part of split_subnet: [srcs] = the sources in the order visited, each with the
   destinations of its kept candidates in order; [st0] = the heap before the call (only its
   attribute maps matter: the dictionary is fresh) *)
Definition split_dict (st0 : mst) (dest : list nat) (srcs : list (nat * list nat)) : option mst :=
  fold_left split_src srcs
            (Some (reset_dests 0 dest {| subs := []; ssub := ssub st0; dsub := dsub st0 |})).

(* ---- pruning: keep the prefix within the range, stop at the first longer one ---- *)
Fixpoint take_le (le : cand -> bool) (cs : list cand) : list cand :=
  match cs with
  | [] => []
  | c :: cs' => if le c then c :: take_le le cs' else []
  end.

(* destinations of a candidate list; a null candidate has no .subnet: AttributeError *)
Fixpoint cand_dests (cs : list cand) : option (list nat) :=
  match cs with
  | [] => Some []
  | (Some d, _) :: cs' => match cand_dests cs' with Some l => Some (d :: l) | None => None end
  | (None, _) :: _ => None
  end.

Definition fcmap := list (nat * list cand).
Fixpoint fc_get (s : nat) (m : fcmap) : list cand :=
  match m with
  | [] => []
  | (s', cs) :: m' => if Nat.eqb s s' then cs else fc_get s m'
  end.
Definition fc_set (s : nat) (cs : list cand) (m : fcmap) : fcmap := (s, cs) :: m.

Definition has_reals (it : item) : bool := match reals (snd it) with [] => false | _ => true end.
