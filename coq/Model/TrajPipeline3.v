(* C20: a concrete 3-D table through the whole pipeline of GENERATED functions

       link -> filter_stubs -> filter_clusters -> compute_drift -> subtract_drift -> imsd / emsd

   Every stage is the function a translator writes from the current source:
     link                              Gen/coords.v     py_link           (Model/PyCoords.v tables)
     filter_stubs / filter_clusters    Gen/filtering.v  py_filter_*       (RowsI3: Model/PyFiltering3.v)
     compute_drift / subtract_drift    Gen/drift.v      py_compute_drift / py_subtract_drift  (DriftI: Model/PyDrift.v)
     imsd / emsd                       Gen/msd.v        py_imsd / py_emsd (Model/PyMsd.v)
   and, next to the data, the LAYOUT the same stages leave behind (Proofs/TrajGenDrift.v x_run_pipeline:
   Gen/filtering.v in SchemaI, Gen/drift.v in SchemaDI).

   The four generated files speak four table vocabularies (each models what its property needs).
   The glue below only re-reads one table in the next vocabulary -- no stage logic:
     rows_of_df      PyCoords.DataFrame -> list TrajFilter.row    (particle, frame, size, row id)
     keep_rows       the rows of a DataFrame a filter kept, by row id, in the filter's order
     mtable_of_df    PyCoords.DataFrame -> PyDrift.mtable         (all value columns, exact rationals)
     ptdf_of_mtable  PyDrift.mtable -> PyMsd.ptdf                 (axis 0 = x, 1 = y, 2 = z)
   No proofs in this file. *)
From Coq Require Import ZArith QArith Qcanon String List Bool.
From TP Require Model.Assign Model.Link Model.LinkTable Model.PyCoords Gen.coords.
From TP Require Model.TrajFilter Model.TrajLayout Model.PyFiltering Model.PyFiltering3 Gen.filtering.
From TP Require Model.Drift Model.PyDrift Gen.drift.
From TP Require Model.MSD Model.PyMsd Gen.msd.
Import ListNotations.
Local Open Scope string_scope.

Module PC := TP.Model.PyCoords.
Module TF := TP.Model.TrajFilter.
Module PF := TP.Model.PyFiltering.
Module PD := TP.Model.PyDrift.
Module PM := TP.Model.PyMsd.

(* ---- glue ------------------------------------------------------------------------------------ *)
Definition rows_of_df (f : PC.DataFrame) : list TF.row :=
  map (fun r => {| TF.rid := PC.d_id r;
                   TF.pid := Some (PC.cell "particle" r);
                   TF.frame := Some (PC.cell "frame" r);
                   TF.size := Some (inject_Z (PC.cell "size" r)) |}) (PC.df_rows f).

Definition find_row (f : PC.DataFrame) (i : nat) : list PC.drow :=
  match List.find (fun r => Nat.eqb (PC.d_id r) i) (PC.df_rows f) with Some r => [r] | None => [] end.
Definition keep_rows (f : PC.DataFrame) (kept : list TF.row) : PC.DataFrame :=
  {| PC.df_columns := PC.df_columns f; PC.df_float := PC.df_float f;
     PC.df_rows := flat_map (fun k => find_row f (TF.rid k)) kept |}.

(* the columns of a table that are neither 'particle' nor 'frame' *)
Definition other_cols (f : PC.DataFrame) : list string := PD.value_names (PC.df_columns f).

Definition mtable_of_df (index : list string) (f : PC.DataFrame) : PD.mtable :=
  PD.mkMT (other_cols f) index
          (map (fun r => PD.mkM (PC.cell "particle" r) (PC.cell "frame" r)
                                (fun c => inject_Z (PC.cell c r)) (Z.of_nat (PC.d_id r))) (PC.df_rows f)).

Definition ptdf_of_mtable (T : PD.mtable) : PM.ptdf :=
  map (fun r => (PD.m_particle r, (PD.m_frame r, [Q2Qc (PD.m_val r "x"); Q2Qc (PD.m_val r "y"); Q2Qc (PD.m_val r "z")])))
      (PD.mt_rows T).

(* ---- the stages -------------------------------------------------------------------------------- *)
(* tp.link(f, 3): Euclidean metric in three dimensions, search_range 3, memory 0 *)
Definition ex3_linker : PC.LinkerI := PC.model_linker {| Link.mw := [1; 1; 1]%Z; Link.mR2 := 9%Z |} 0 30.
Definition s_link (f : PC.DataFrame) : option PC.DataFrame :=
  match coords.py_link ex3_linker f None "frame" with PC.ROk g => Some g | PC.RRaise _ => None end.

Definition s_filter_stubs (thr : Z) (f : PC.DataFrame) : option PC.DataFrame :=
  match filtering.py_filter_stubs (PyFiltering3.RowsI3 (other_cols f)) (rows_of_df f) thr with
  | PF.ROk kept => Some (keep_rows f kept) | PF.RRaise _ => None end.
Definition s_filter_clusters (cut : Q) (f : PC.DataFrame) : option PC.DataFrame :=
  match filtering.py_filter_clusters (PyFiltering3.RowsI3 (other_cols f)) (rows_of_df f) (8#10) (Some (Some cut)) with
  | PF.ROk kept => Some (keep_rows f kept) | PF.RRaise _ => None end.
(* what the generated guess_pos_columns answers on the filters' table *)
Definition s_guess (f : PC.DataFrame) : list string :=
  filtering.py_guess_pos_columns (PyFiltering3.RowsI3 (other_cols f)) (rows_of_df f).

Definition DI := PD.DriftI (fun d _ => d).
Definition s_compute_drift (T : PD.mtable) : PD.curve := drift.py_compute_drift DI T 0 None.
Definition s_subtract_drift (T : PD.mtable) : PD.mtable * PD.mtable := drift.py_subtract_drift DI T None false.

Definition q1 : Qc := Q2Qc 1.
(* tp.imsd(t, 1, 1, 3) / tp.emsd(t, 1, 1, 3, detail=True); pos: None (= ['x', 'y']) or the axis numbers *)
Definition s_imsd (pos : option (list nat)) (T : PD.mtable) : PM.pyres PM.widef :=
  msd.py_imsd (ptdf_of_mtable T) q1 q1 3 PM.LMsd pos.
Definition s_emsd (pos : option (list nat)) (T : PD.mtable) : PM.pyres PM.emsd_result :=
  msd.py_emsd (ptdf_of_mtable T) q1 q1 3 true pos.

(* ---- the table ---------------------------------------------------------------------------------- *)
(* four features: A and B live for four frames and drift together (+1 in x per frame; +1 in z from
   frame 1 to 2), B also wanders in y; C is seen twice (a stub); D is a big blob.  Rows are not in
   frame order and 'frame' is stored as a float column. *)
Definition mk (i : nat) (z y x mass size fr : Z) : PC.drow :=
  {| PC.d_id := i; PC.d_cells := [("z", z); ("y", y); ("x", x); ("mass", mass); ("size", size); ("frame", fr)] |}.
Definition ex3_table : PC.DataFrame :=
  {| PC.df_columns := ["z"; "y"; "x"; "mass"; "size"; "frame"];
     PC.df_float := ["z"; "y"; "x"; "mass"; "size"; "frame"];
     PC.df_rows :=
       [ mk 0  3  5 11 100 2 1;   mk 1  3  5 10 100 2 0;   mk 2  7  8 40 120 3 0;   mk 3  7  9 41 120 3 1;
         mk 4  4  5 12 100 2 2;   mk 5  8  8 42 120 3 2;   mk 6  8  9 43 120 3 3;   mk 7  4  5 13 100 2 3;
         mk 8  1 20 70  90 2 1;   mk 9  1 20 71  90 2 2;   mk 10 5 30 100 300 9 0;  mk 11 5 30 101 300 9 1;
         mk 12 6 30 102 300 9 2;  mk 13 6 30 103 300 9 3 ]%Z |}.

(* the whole run; None = some stage raised *)
Record run3 := {
  r_linked : PC.DataFrame; r_stubs : PC.DataFrame; r_clusters : PC.DataFrame;
  r_guess : list string; r_drift : PD.curve; r_caller : PD.mtable; r_sub : PD.mtable;
  r_imsd_xy : PM.pyres PM.widef; r_imsd_zyx : PM.pyres PM.widef; r_emsd_zyx : PM.pyres PM.emsd_result }.
Definition ex3_run : option run3 :=
  match s_link ex3_table with None => None | Some t1 =>
  match s_filter_stubs 3 t1 with None => None | Some t2 =>
  match s_filter_clusters (4#1) t2 with None => None | Some t3 =>
  let T := mtable_of_df ["frame"] t3 in          (* the filters index their result by 'frame' *)
  let (caller, T') := s_subtract_drift T in
  Some {| r_linked := t1; r_stubs := t2; r_clusters := t3; r_guess := s_guess t3;
          r_drift := s_compute_drift T; r_caller := caller; r_sub := T';
          r_imsd_xy := s_imsd None T'; r_imsd_zyx := s_imsd (Some [2; 1; 0]%nat) T';
          r_emsd_zyx := s_emsd (Some [2; 1; 0]%nat) T' |}
  end end end.

(* ---- readable views of the results (for the Example) ---------------------------------------------- *)
Definition ids_frames_labels (f : PC.DataFrame) : list (nat * Z * Z) :=
  map (fun r => (PC.d_id r, PC.cell "frame" r, PC.cell "particle" r)) (PC.df_rows f).
Definition show_curve (d : PD.curve) : list string * list (string * Drift.drift) :=
  (PD.cv_cols d, map (fun c => (c, PD.curve_col c d)) (PD.cv_cols d)).
(* row id, frame, particle, [z; y; x; size] *)
Definition show_rows (T : PD.mtable) : list (Z * Z * Z * list Q) :=
  map (fun m => (PD.m_other m, PD.m_frame m, PD.m_particle m, map (PD.m_val m) ["z"; "y"; "x"; "size"])) (PD.mt_rows T).
Definition cellQ (c : PM.cell) : option Q := option_map (fun q : Qc => this q) c.
(* lag times, index name, particle ids (the columns), one list of values per particle *)
Definition show_wide (w : PM.pyres PM.widef) : option (list Q * option string * list Z * list (list (option Q))) :=
  match w with
  | PM.Ret w => Some (map (fun q : Qc => this q) (PM.wf_index w), PM.wf_iname w, PM.wf_columns w, map (map cellQ) (PM.wf_vals w))
  | PM.Raise _ => None
  end.
Definition show_emsd (e : PM.pyres PM.emsd_result) : option (list Z * list (PM.lbl * list (option Q))) :=
  match e with
  | PM.Ret (PM.EmsdFrame f) => Some (PM.f_index f, map (fun lc => (fst lc, map cellQ (snd lc))) (PM.f_cols f))
  | _ => None
  end.
