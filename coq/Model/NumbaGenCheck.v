(* Statement vocabulary, driver and executable comparison for the GENERATED array-based solver
   (Gen/numbakernel.v):
     encd / kernel_inputs   how the kernel's integer arrays represent the candidate lists of the
                            sources (a destination is an injective non-negative code, the null
                            link is -1; only the first ncands[j] columns of row j are meaningful)
     bound_sum              an upper bound of every partial sum the search can form (sum over the
                            sources of their most expensive candidate)
     nk_loop / nk_tail      the `while 1` body of the generated kernel and its final if-chain, named
   No proofs in this file. *)
From Coq Require Import ZArith NArith List Bool Arith.
From TP Require Import Model.Assign Model.Link Model.Iterative Model.PyLinker Model.PyIterative
     Model.PyNumbakernel Gen.numbakernel.
Import ListNotations.
Open Scope Z_scope.

Definition encd (enc : nat -> Z) (d : option nat) : Z := match d with Some x => enc x | None => -1 end.

Definition kernel_inputs (enc : nat -> Z) (A : list (list cand)) (ncands : list Z) (cands dists : list (list Z)) : Prop :=
  ncands = map py_len A /\ length cands = length A /\
  forall p cs i c, nth_error A p = Some cs -> nth_error cs i = Some c ->
    py_index2 cands (Z.of_nat p) (Z.of_nat i) = Some (encd enc (fst c)) /\
    py_index2 dists (Z.of_nat p) (Z.of_nat i) = Some (snd c).

Definition max_cost (cs : list cand) : Z := fold_right (fun c m => Z.max (snd c) m) 0 cs.
Definition bound_sum (A : list (list cand)) : Z := fold_right (fun cs acc => max_cost cs + acc) 0 A.

(* the body of the generated `while 1` loop *)
Definition nk_body : nkl -> outcome nkl nk_result :=
  ltac:(let t := eval cbv delta [py__numba_subnet_norecur] in py__numba_subnet_norecur in
        match t with context [while_loop _ ?c ?b] => exact b end).

(* ... and the if-chain on delta that ends it (GO UP / GO DOWN / next candidate) *)
Definition nk_tail : nkl -> outcome nkl nk_result :=
  ltac:(let t := eval cbv delta [nk_body] in nk_body in
        match t with context [bind _ ?k] =>
          match k with (fun st => if Z.eqb (nk_delta st) _ then _ else _) => exact k end end).

(* ---------- executable comparison (vp/props/c03.py) ----------
   the real _numba_subnet_norecur (interpreted, numba is absent), called by the real numba_link,
   is intercepted: the arrays it receives and what it leaves behind are handed over together with
   the candidate lists of the sources (in numba_link's order) and the code numba_link gave every
   destination.  The generated kernel is run on the same arrays (cost_full iterations, the bound
   of Proofs/NumbakernelGen.v) and must leave the same loopcount and the same four register arrays;
   the arrays must represent the candidate lists as [kernel_inputs] says (executable form), and
   best_assignments must be the machine model's answer with the switches (true, true). *)
Fixpoint zlist_eqb (a b : list Z) : bool :=
  match a, b with
  | [], [] => true
  | x :: a', y :: b' => Z.eqb x y && zlist_eqb a' b'
  | _, _ => false
  end.

Definition enc_tab (tab : list (nat * Z)) (d : nat) : Z :=
  match find (fun p => Nat.eqb (fst p) d) tab with Some p => snd p | None => -2 - Z.of_nat d end.

Fixpoint tab_ok (tab : list (nat * Z)) : bool :=
  match tab with
  | [] => true
  | (d, z) :: t => (0 <=? z) && negb (existsb (fun p => Nat.eqb (fst p) d || Z.eqb (snd p) z) t) && tab_ok t
  end.

Definition opt_zeqb (o : option Z) (v : Z) : bool := match o with Some x => Z.eqb x v | None => false end.

Definition kernel_inputs_b (enc : nat -> Z) (A : list (list cand)) (ncands : list Z) (cands dists : list (list Z)) : bool :=
  zlist_eqb ncands (map py_len A) && Nat.eqb (length cands) (length A) &&
  forallb (fun pc : nat * list cand =>
    forallb (fun ic : nat * cand =>
      opt_zeqb (py_index2 cands (Z.of_nat (fst pc)) (Z.of_nat (fst ic))) (encd enc (fst (snd ic))) &&
      opt_zeqb (py_index2 dists (Z.of_nat (fst pc)) (Z.of_nat (fst ic))) (snd (snd ic)))
      (combine (seq 0 (length (snd pc))) (snd pc)))
    (combine (seq 0 (length A)) A).

Definition kernel_case := (list (list cand) * list (nat * Z) *
                           (list Z * list (list Z) * list (list Z) * list Z * list Z * list Z * list Z) *
                           (Z * list Z * list Z * list Z * list Z))%type.

Definition check_gen_kernel (c : kernel_case) : N :=
  let '(A, tab, (ncands, cands, dists, cura, sums, tmp, ba), (cnt_i, ba_i, cura_i, sums_i, tmp_i)) := c in
  let enc := enc_tab tab in
  if negb (tab_ok tab && kernel_inputs_b enc A ncands cands dists && (bound_sum A <=? lit_1e23)) then 51%N
  else match py__numba_subnet_norecur (cost_full A) ncands cands dists cura sums tmp ba with
       | Fail _ => 50%N
       | Done None => 55%N
       | Done (Some (cnt, st)) =>
         if negb (Z.eqb cnt cnt_i) then 52%N
         else if negb (zlist_eqb (nk_best_assignments st) ba_i && zlist_eqb (nk_cur_assignments st) cura_i &&
                       zlist_eqb (nk_cur_sums st) sums_i && zlist_eqb (nk_tmp_assignments st) tmp_i) then 53%N
         else match mrun true true (cost_full A) (minit A) with
              | Some (Some (v, a)) =>
                if zlist_eqb (nk_best_assignments st) (map (fun x : cand => encd enc (fst x)) a) && Z.eqb (nk_best_sum st) v then 0%N else 54%N
              | _ => 54%N
              end
       end.
