(* Executable model of trackpy.preprocessing.{lowpass, boxcar, bandpass}
   (trackpy/preprocessing.py:13-139) over Q, for 2-D and 3-D images.

   An image is a nested list (C order: the outermost list is axis 0).  The two
   scipy primitives are modelled by their mathematical meaning on ONE line
   of elements of an arbitrary "vector" type T (a number, a row, a plane):
     correlate1d(.., weights, axis, mode='constant', cval=0)
         out[i] = sum_k weights[k] * in[i + k - len(weights)//2]   (0 outside)
     uniform_filter1d(.., size, axis, mode='nearest')
         out[i] = (1/size) * sum_{k<size} in[clamp(i + k - size//2)]
   and are applied "along axis a" of a nested list exactly as the Python loops
   `for axis, _sigma in enumerate(sigma)` do, each pass overwriting the running
   result (output=result).

   trackpy.masks.gaussian_kernel (masks.py:90-96) is modelled too: half-width
   int(truncate*sigma + 0.5), np.arange(-lw, lw+1), exp(x**2/(-2 sigma**2)),
   division by the sum.  Only the exponential is an INPUT: the list
   expo = [exp(-n^2/(2 sigma^2)) | n = 0, 1, 2, ...] (as exact rationals of the
   floats math.exp returns; modelled, not verified).  No proofs in this file. *)
From Coq Require Import ZArith QArith List Bool.
Import ListNotations.
Open Scope Q_scope.

(* ---------- "vectors": numbers, rows, planes ------------------------------ *)
Record ops (T : Type) := mkops { tzero : T; tadd : T -> T -> T; tscale : Q -> T -> T }.
Arguments tzero {T}. Arguments tadd {T}. Arguments tscale {T}.

(* a + b and a / b on rationals; when both have the same denominator (the harness
   emits every table with one common denominator) no gcd is needed *)
Definition qadd (a b : Q) : Q :=
  if Z.eqb (Qnum a) 0 then b else if Z.eqb (Qnum b) 0 then a
  else if Pos.eqb (Qden a) (Qden b) then Qmake (Qnum a + Qnum b) (Qden a) else Qred (a + b).
Definition qdiv (a b : Q) : Q :=
  match Qnum b with
  | Zpos nb => if Pos.eqb (Qden a) (Qden b) then Qmake (Qnum a) nb else a / b
  | _ => a / b
  end.

Definition qops : ops Q := mkops Q 0 qadd (fun c a => c * a).

(* element-wise sum; the empty list is the zero vector of every length *)
Fixpoint vadd {T} (add : T -> T -> T) (a b : list T) : list T :=
  match a, b with
  | [], _ => b
  | _, [] => a
  | x :: a', y :: b' => add x y :: vadd add a' b'
  end.

Definition lops {T} (o : ops T) : ops (list T) :=
  mkops (list T) [] (vadd (tadd o)) (fun c => map (tscale o c)).

(* ---------- the two scipy line filters ----------------------------------- *)
Section Line.
  Context {T : Type} (o : ops T).

  (* mode='constant', cval=0 *)
  Definition get0 (xs : list T) (i : Z) : T :=
    if (i <? 0)%Z then tzero o else nth (Z.to_nat i) xs (tzero o).

  (* mode='nearest' *)
  Definition clampn (n : nat) (i : Z) : nat :=
    if (i <? 0)%Z then 0%nat else Nat.min (Z.to_nat i) (n - 1).
  Definition getn (xs : list T) (i : Z) : T := nth (clampn (length xs) i) xs (tzero o).

  (* sum_k w[k] * xs[i + k] *)
  Fixpoint wsum (w : list Q) (xs : list T) (i : Z) : T :=
    match w with
    | [] => tzero o
    | c :: w' => tadd o (tscale o c (get0 xs i)) (wsum w' xs (i + 1))
    end.

  Definition radius (w : list Q) : Z := Z.of_nat (length w / 2).

  Definition correlate1d (w : list Q) (xs : list T) : list T :=
    map (fun i => wsum w xs (Z.of_nat i - radius w)) (seq 0 (length xs)).

  (* sum_{k<n} xs[clamp (i + k)] *)
  Fixpoint bsum (n : nat) (xs : list T) (i : Z) : T :=
    match n with
    | O => tzero o
    | S n' => tadd o (getn xs i) (bsum n' xs (i + 1))
    end.

  Definition uniform1d (s : Z) (xs : list T) : list T :=
    map (fun i => tscale o (1 # Z.to_pos s) (bsum (Z.to_nat s) xs (Z.of_nat i - s / 2)))
        (seq 0 (length xs)).
End Line.

(* a line filter usable at every nesting level *)
Definition line_filter := forall T : Type, ops T -> list T -> list T.
Definition gauss_filter (w : list Q) : line_filter := fun T o => correlate1d o w.
Definition box_filter (s : Z) : line_filter := fun T o => uniform1d o s.

(* ---------- images -------------------------------------------------------- *)
Definition row := list Q.
Definition img2 := list row.
Definition img3 := list img2.
Definition rops : ops row := lops qops.
Definition pops : ops img2 := lops rops.

Definition along2 (F : line_filter) (axis : nat) (im : img2) : img2 :=
  match axis with
  | O => F row rops im
  | _ => map (F Q qops) im
  end.

Definition along3 (F : line_filter) (axis : nat) (im : img3) : img3 :=
  match axis with
  | O => F img2 pops im
  | S a => map (along2 F a) im
  end.

(* ---------- masks.gaussian_kernel ---------------------------------------- *)
(* Python int(): truncation toward zero *)
Definition Qtrunc (q : Q) : Z := Z.quot (Qnum q) (Zpos (Qden q)).

Definition half_width (sigma truncate : Q) : Z := Qtrunc (truncate * sigma + (1 # 2)).

(* np.arange(lo, lo + n) *)
Fixpoint arange (lo : Z) (n : nat) : list Z :=
  match n with O => [] | S n' => lo :: arange (lo + 1) n' end.

Definition qsum_list (l : list Q) : Q := fold_right qadd 0 l.

Definition gaussian_kernel (sigma truncate : Q) (expo : list Q) : list Q :=
  let lw := half_width sigma truncate in
  let x := arange (- lw) (Z.to_nat (2 * lw + 1)) in
  let result := map (fun xi => nth (Z.abs_nat xi) expo 0) x in     (* np.exp(x**2/(-2*sigma**2)) *)
  let total := qsum_list result in
  map (fun r => qdiv r total) result.                              (* result / np.sum(result) *)

(* per-axis parameters after validate_tuple: lshort_a, the exponential table for
   that lshort_a, llong_a; truncate is shared by all axes *)
Record axis_par := mkpar { sigma : Q; expo : list Q; size : Z }.
Definition kern (truncate : Q) (p : axis_par) : list Q := gaussian_kernel (sigma p) truncate (expo p).

Fixpoint enumerate_from {A} (k : nat) (l : list A) : list (nat * A) :=
  match l with [] => [] | x :: l' => (k, x) :: enumerate_from (S k) l' end.

Definition Qlt_b (a b : Q) : bool := negb (Qle_bool b a).

Section Generic.
  Context {I : Type} (along : line_filter -> nat -> I -> I).

  (* preprocessing.py:41-46 *)
  Definition lowpass_g (truncate : Q) (pars : list axis_par) (image : I) : I :=
    let result := image (* np.array(image, dtype=float): a new array *) in
    fold_left (fun result ap =>
                 if Qlt_b 0 (sigma (snd ap))
                 then along (gauss_filter (kern truncate (snd ap))) (fst ap) result
                 else result)
              (enumerate_from 0 pars) result.

  (* preprocessing.py:71-79 *)
  Definition boxcar_g (pars : list axis_par) (image : I) : option I :=
    if negb (forallb (fun p => Z.odd (size p)) pars) then None   (* ValueError: must be odd *)
    else
      let result := image (* image.copy() *) in
      Some (fold_left (fun result ap =>
                         if (1 <? size (snd ap))%Z
                         then along (box_filter (size (snd ap))) (fst ap) result
                         else result)
                      (enumerate_from 0 pars) result).
End Generic.

Inductive outcome (A : Type) : Type :=
| Ok (a : A)
| ErrScale      (* "The smoothing length scale must be larger than the noise length scale." *)
| ErrEven.      (* "Smoothing size must be an odd integer. Round up." *)
Arguments Ok {A}. Arguments ErrScale {A}. Arguments ErrEven {A}.

Definition clip (thr v : Q) : Q := if Qle_bool thr v then v else 0.

Fixpoint map2 {A B C} (f : A -> B -> C) (a : list A) (b : list B) : list C :=
  match a, b with
  | x :: a', y :: b' => f x y :: map2 f a' b'
  | _, _ => []
  end.

Definition guard (pars : list axis_par) : bool :=
  existsb (fun p => Qle_bool (inject_Z (size p)) (sigma p)) pars.   (* lshort >= llong *)

(* ---------- 2-D ----------------------------------------------------------- *)
Definition lowpass2 (truncate : Q) (py px : axis_par) : img2 -> img2 := lowpass_g along2 truncate [py; px].
Definition boxcar2 (py px : axis_par) : img2 -> option img2 := boxcar_g along2 [py; px].

(* preprocessing.py:124-138: everything before the final np.where *)
Definition bandpass2_pre (truncate : Q) (py px : axis_par) (image : img2) : outcome img2 :=
  if guard [py; px] then ErrScale
  else match boxcar2 py px image with
       | None => ErrEven
       | Some background =>
           let result := lowpass2 truncate py px image in
           Ok (map2 (map2 Qminus) result background)            (* result -= background *)
       end.

Definition map_outcome {A B} (f : A -> B) (r : outcome A) : outcome B :=
  match r with Ok a => Ok (f a) | ErrScale => ErrScale | ErrEven => ErrEven end.

(* preprocessing.py:139  np.where(result >= threshold, result, 0) *)
Definition bandpass2 (truncate : Q) (py px : axis_par) (threshold : Q) (image : img2) : outcome img2 :=
  map_outcome (map (map (clip threshold))) (bandpass2_pre truncate py px image).

(* ---------- 3-D ----------------------------------------------------------- *)
Definition lowpass3 (truncate : Q) (pz py px : axis_par) : img3 -> img3 := lowpass_g along3 truncate [pz; py; px].
Definition boxcar3 (pz py px : axis_par) : img3 -> option img3 := boxcar_g along3 [pz; py; px].

Definition bandpass3_pre (truncate : Q) (pz py px : axis_par) (image : img3) : outcome img3 :=
  if guard [pz; py; px] then ErrScale
  else match boxcar3 pz py px image with
       | None => ErrEven
       | Some background =>
           let result := lowpass3 truncate pz py px image in
           Ok (map2 (map2 (map2 Qminus)) result background)
       end.

Definition bandpass3 (truncate : Q) (pz py px : axis_par) (threshold : Q) (image : img3) : outcome img3 :=
  map_outcome (map (map (map (clip threshold)))) (bandpass3_pre truncate pz py px image).
