(* C09 -- translation equivariance WITH preprocessing, part 2: what locate(preprocess=True) does to an
   INTEGER 2-D image between `image = bandpass(...)` and `coords = grey_dilation(image, ...)`, as the composition
   of the GENERATED functions (Gen/preproc.py_bandpass, Gen/locatehead.py_convert_to_int) over nested lists of
   exact rationals (Model/PyLocatehead.fops2).  No proofs in this file.

     preprocess_stage np_exp dt raw noise_size smoothing_size threshold
         = convert_to_int(bandpass(raw as float, noise_size, smoothing_size, threshold, truncate=4), dtype of raw)
         : (scale_factor, the integer image handed to grey_dilation / refine_com)
     pre_content   the content of that image, in content coordinates (box grown by the filter reach):
                   trunc(scale_factor * max(bandpassed content, 0))
   Proofs/PreprocessMoved.v: py_locate_head with preprocess=True is validation ; preprocess_stage ; the rest
   (gen_head_preprocess_stage), and preprocess_stage of a padded canvas is the canvas of pre_content. *)
From Coq Require Import ZArith QArith List Bool String.
From TP Require Model.Bandpass Model.BandpassSpec Model.BandpassShift Model.BandpassGen Model.PyPreproc Gen.preproc.
From TP Require Import Model.Dilation Model.COM Model.Equivariance Model.PyTail Model.PyLocatehead Gen.locatehead.
Import ListNotations.
Open Scope Z_scope.

Definition preprocess_stage (np_exp : Q -> Q) (dt : int_dtype) (raw : image) (noise_size : list Q)
           (smoothing_size : list Z) (threshold : Q) : res (Q * np_img Bandpass.img2) :=
  rbind (of_bandpass (Gen.preproc.py_bandpass PyPreproc.nd2 np_exp (img2_of_int raw) PyPreproc.np_integer_dtype
                        (PyPreproc.PySeq noise_size) (PyPreproc.PySeq smoothing_size) (Some threshold)
                        Gen.preproc.py_bandpass_default_truncate))
        (fun image => py_convert_to_int fops2 image (DInt dt)).

(* the per-axis parameters of the hand model of bandpass that the generated code uses (truncate = 4) *)
Definition stage_par (np_exp : Q -> Q) (noise : Q) (smooth : Z) : Bandpass.axis_par :=
  BandpassGen.axis_of np_exp Gen.preproc.py_bandpass_default_truncate noise smooth.
Definition stage_reach (np_exp : Q -> Q) (noise : Q) (smooth : Z) : Z :=
  BandpassShift.reach_of Gen.preproc.py_bandpass_default_truncate (stage_par np_exp noise smooth).

(* the integer content as a function of two indices *)
Definition content_fn (content : image) (i j : Z) : Q := inject_Z (pix content [i; j]).

(* image.clip(min=0) on one value *)
Definition clip0q (v : Q) : Q := if Qle_bool 0 v then v else 0%Q.

Definition pre_value (np_exp : Q -> Q) (sf : Q) (ny nx : Q) (sy sx : Z) (thr : Q) (content : image) (p : list Z) : Z :=
  Bandpass.Qtrunc (sf * clip0q (BandpassShift.bp_content2 Gen.preproc.py_bandpass_default_truncate
                                   (stage_par np_exp ny sy) (stage_par np_exp nx sx) thr
                                   (ix (shape content) 0) (ix (shape content) 1) (content_fn content)
                                   (ix p 0) (ix p 1)))%Q.

Definition pre_shape (np_exp : Q -> Q) (ny nx : Q) (sy sx : Z) (content : image) : list Z :=
  [ix (shape content) 0 + 2 * stage_reach np_exp ny sy; ix (shape content) 1 + 2 * stage_reach np_exp nx sx].

Definition pre_content (np_exp : Q -> Q) (sf : Q) (ny nx : Q) (sy sx : Z) (thr : Q) (content : image) : image :=
  {| shape := pre_shape np_exp ny nx sy sx content;
     data := arr_of (pre_shape np_exp ny nx sy sx content) (pre_value np_exp sf ny nx sy sx thr content) |}.
