(* Drivers and executable comparisons for the GENERATED linking core (Gen/linker_core.v):
     py_run_edges       Subnets.reset() then the generated assign_subnet on every visited spair
     check_gen_linker   the real SubnetLinker object, the generated constructor and the
                        model [solve] on the same ordered sources: same best_pairs / best_sum
     check_gen_subnets  the dictionary a real Subnets.compute() left, the generated
                        assign_subnet and the model on the same pairs: same partition
   No proofs in this file. *)
From Coq Require Import ZArith NArith List Bool Arith.
From TP Require Import Model.Assign Model.Link Model.SubnetMerge Model.PyLinker Gen.linker_core.
Import ListNotations.

Definition py_step_o (o : option mst) (e : nat * nat) : option mst :=
  match o with Some st => to_option (py_assign_subnet st (fst e) (snd e)) | None => None end.
Definition py_run_edges (nd : nat) (es : list (nat * nat)) : option mst :=
  fold_left py_step_o es (Some (init nd)).

Definition eq_od (a b : option nat) : bool := opt_eqb a b.
Fixpoint eq_choice (a b : list (nat * option nat)) : bool :=
  match a, b with
  | [], [] => true
  | (s1, d1) :: a', (s2, d2) :: b' => Nat.eqb s1 s2 && eq_od d1 d2 && eq_choice a' b'
  | _, _ => false
  end.

(* c = (candidate lists of the sources in the order they were handed to SubnetLinker,
        max_size, what the real object ended with: None = it raised SubnetOversizeException,
        Some best_pairs as (source position, destination)) *)
Definition check_gen_linker (c : list (list cand) * nat * option (list (nat * option nat))) : N :=
  let '(srcs, ms, impl) := c in
  let items := combine (seq 0 (length srcs)) srcs in
  match py_SubnetLinker_init items ms, impl with
  | Fail SubnetOversizeException, None => 0%N
  | Fail _, _ => 20%N
  | Done _, None => 24%N
  | Done o, Some ich =>
    match best_pairs o, best_sum o, solve (map snd (s_lst o)) with
    | Some bp, Some v, Some (v', a) =>
      if negb (eq_choice (map (fun p : spair => (fst (fst p), snd p)) bp) ich) then 21%N
      else if negb (Z.eqb v v' && eq_choice (map (fun p : spair => (fst (fst p), snd p)) bp)
                                            (combine (map fst (s_lst o)) (map fst a))) then 22%N
      else 0%N
    | _, _, _ => 23%N
    end
  end.

(* a Python set is a list here (Model/PyLinker.v): compare with the real dictionary as sets *)
Definition as_sets (st : mst) : mst :=
  {| subs := map (fun e : sn => (fst e, (nodup Nat.eq_dec (fst (snd e)), nodup Nat.eq_dec (snd (snd e))))) (subs st);
     ssub := ssub st; dsub := dsub st |}.

Definition check_gen_subnets (c : nat * list (nat * nat) * list sets) : N :=
  let '(nd, es, impl) := c in
  match py_run_edges nd es, run_edges nd es with
  | Some st, Some st' =>
    if negb (eq_sets (canon (as_sets st)) impl) then 31%N
    else if negb (eq_sets (canon st) (canon st')) then 32%N else 0%N
  | None, None => 33%N
  | _, _ => 32%N
  end.
