(* Executable correspondence checks and monitor for C16 (run by vp/props/c16.py
   through vm_compute).  Result codes (N): 0 = ok.

   check_validate : FitFunctions.validate_bounds(bounds, radius) of the
                    implementation equals Model.validate_bounds (exact: no arithmetic)
   check_box      : FitFunctions.compute_bounds(...) of the implementation equals
                    Model box_low / box_high (special values exactly, finite
                    values within the relative tolerance handed in)
   check_unit     : monitor on one unit (cluster, or whole table at level
                    'global') of a real refine_leastsq run: start rows, rows
                    returned, cost column.
   No proofs in this file. *)
From Coq Require Import QArith Qabs List Bool Arith NArith.
From TP Require Import Model.RefineBounds Model.RefineDriver.
Import ListNotations.
Open Scope Q_scope.

Definition ext_eqb (a b : ext) : bool :=
  match a, b with
  | NaN, NaN | NInf, NInf | PInf, PInf => true
  | Fin x, Fin y => Qeq_bool x y
  | _, _ => false
  end.
Definition ext_close (tol : Q) (a b : ext) : bool :=
  match a, b with
  | NaN, NaN | NInf, NInf | PInf, PInf => true
  | Fin x, Fin y => Qle_bool (Qabs (x - y)) (tol * (1 + Qabs x))
  | _, _ => false
  end.
Definition pair_eqb (a b : ext * ext) : bool := ext_eqb (fst a) (fst b) && ext_eqb (snd a) (snd b).

Fixpoint forallb2 {A B} (f : A -> B -> bool) (l1 : list A) (l2 : list B) : bool :=
  match l1, l2 with
  | [], [] => true
  | a :: t1, b :: t2 => f a b && forallb2 f t1 t2
  | _, _ => false
  end.

(* impl: per parameter ((abs_lo, abs_hi), (diff_lo, diff_hi), (rel_lo, rel_hi)) *)
Definition check_validate (d : bdict) (radius : list Q) (ps : list pkind)
           (impl : list ((ext * ext) * (ext * ext) * (ext * ext))) : N :=
  let m := validate_bounds d radius ps in
  if negb (Nat.eqb (length m) (length impl)) then 6%N
  else if negb (forallb2 (fun b i => pair_eqb (b_abs b) (fst (fst i))) m impl) then 11%N
  else if negb (forallb2 (fun b i => pair_eqb (b_diff b) (snd (fst i))) m impl) then 12%N
  else if negb (forallb2 (fun b i => pair_eqb (b_rel b) (snd i)) m impl) then 13%N
  else 0%N.

Definition check_box (d : bdict) (radius : list Q) (ps : list pkind) (modes : list nat) (g : grouping)
           (cols : list (list Q)) (impl_lo impl_hi : list ext) (tol : Q) : N :=
  let bs := validate_bounds d radius ps in
  let lo := box_low bs modes g cols in
  let hi := box_high bs modes g cols in
  if negb (Nat.eqb (length lo) (length impl_lo) && Nat.eqb (length hi) (length impl_hi)) then 6%N
  else if negb (forallb2 (ext_close tol) lo impl_lo) then 21%N
  else if negb (forallb2 (ext_close tol) hi impl_hi) then 22%N
  else 0%N.

(* ---- monitor ---------------------------------------------------------------- *)
Definition is_nan (e : ext) : bool := match e with NaN => true | _ => false end.
Definition is_fin (e : ext) : bool := match e with Fin _ => true | _ => false end.

Definition sat_low_tol (tol : Q) (c : ext) (v : Q) : bool :=
  match c with NaN | NInf => true | PInf => false | Fin q => Qle_bool (q - tol * (1 + Qabs q)) v end.
Definition sat_high_tol (tol : Q) (c : ext) (v : Q) : bool :=
  match c with NaN | PInf => true | NInf => false | Fin q => Qle_bool v (q + tol * (1 + Qabs q)) end.

Definition hd0 (l : list Q) : Q := hd 0 l.
Definition cols_eqb (a b : list (list ext)) : bool := forallb2 (forallb2 ext_eqb) a b.
Definition qcols_eqb (a b : list (list Q)) : bool := forallb2 (forallb2 Qeq_bool) a b.

(* codes: 1 failed unit (cost NaN) but a parameter differs from its input value
          2 fitted vector outside the box [box_low, box_high]
          4 fitted rows are not unpack(vector): a const column changed, or a
            global/cluster column is not constant on its group
          5 cost NaN on some rows of the unit and not on others
          6 shapes disagree
          31 unit with a non-finite start parameter reported as fitted
          32 fitted unit contains a non-finite parameter
          33 cost differs within the unit / negative *)
Definition check_unit (d : bdict) (radius : list Q) (ps : list pkind) (modes : list nat) (g : grouping)
           (start out : list (list ext)) (cost : list ext) (tol : Q) : N :=
  if negb (Nat.eqb (length start) (length ps) && Nat.eqb (length out) (length ps) && Nat.eqb (length modes) (length ps)) then 6%N
  else if forallb is_nan cost then (if cols_eqb start out then 0%N else 1%N)
  else if existsb is_nan cost then 5%N
  else match all_fin2 start with
       | None => 31%N
       | Some s =>
         match all_fin2 out, all_fin cost with
         | Some o, Some (c0 :: cs) =>
           if negb (forallb (Qeq_bool c0) cs && Qle_bool 0 c0) then 33%N
           else
             let v := pack 0 hd0 modes g o in
             if negb (qcols_eqb (unpack modes g v s) o) then 4%N
             else
               let bs := validate_bounds d radius ps in
               if forallb2 (sat_low_tol tol) (box_low bs modes g s) v
                  && forallb2 (sat_high_tol tol) (box_high bs modes g s) v
               then 0%N else 2%N
         | _, _ => 32%N
         end
       end.

(* does the model predict scipy's ValueError for this unit (given it is inside the image)? *)
Definition unit_box_empty (d : bdict) (radius : list Q) (ps : list pkind) (modes : list nat) (g : grouping)
           (start : list (list ext)) : N :=
  match all_fin2 start with
  | None => 0%N
  | Some s => let bs := validate_bounds d radius ps in
              if box_empty (box_low bs modes g s) (box_high bs modes g s) then 1%N else 0%N
  end.
