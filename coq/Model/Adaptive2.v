(* C12 / route T: the hand-written models the generated functions of Gen/adaptive.v are proved
   equal to (Proofs/AdaptiveGen.v).

     asplit_g         Model/Adaptive.asplit with the splitting function abstracted
                      (asplit = asplit_g (model_splitter a R2): Proofs/AdaptiveGen.asplit_is_g)
     model_splitter   what asplit does: prune, drop the sources left without candidate, components
     py_splitter      what split_subnet does, as a pure function of the group: keep the prefix of
                      each candidate list within the range (take_le), then the dictionary of
                      Model/SplitSubnet.split_dict; its values are the parts (parts without a source
                      included: a destination no source can reach any more)
     msplit           split_subnet on the heap of Model/PyAdaptive.v
   No proofs in this file. *)
From Coq Require Import ZArith NArith List Bool Arith.
From TP Require Import Model.Assign Model.Link Model.LinkCheck Model.Adaptive Model.SubnetMerge Model.SplitSubnet
     Model.Strategies Model.PyAdaptive.
Import ListNotations.
Open Scope Z_scope.

Definition sgroup := (group * list nat)%type.            (* a subnet: sources with their candidates, destinations *)
Definition splitter := nat -> group -> list nat -> list sgroup * list nat.   (* level -> subnet -> parts, dropped sources *)

Fixpoint seq_res_g {A : Type} (f : A -> result (list aleaf)) (ps : list A) (tail : list aleaf) : result (list aleaf) :=
  match ps with
  | [] => Ok tail
  | p :: ps' =>
    match f p with
    | Oversize => Oversize
    | Ok l => match seq_res_g f ps' tail with Oversize => Oversize | Ok l' => Ok (l ++ l') end
    end
  end.

Fixpoint asplit_g (sp : splitter) (fuel : nat) (a : acfg) (k : nat) (g : group) (ds : list nat) {struct fuel}
  : result (list aleaf) :=
  if (length g <=? a_max a)%nat then Ok [Leaf k g]
  else if at_stop a k then Oversize
  else match fuel with
       | O => Ok [OutOfFuel]
       | S fuel' =>
         seq_res_g (fun p : sgroup => asplit_g sp fuel' a (S k) (fst p) (snd p))
                   (fst (sp (S k) g ds)) (map Dropped (snd (sp (S k) g ds)))
       end.

Definition model_splitter (a : acfg) (R2 : Z) : splitter := fun k g ds =>
  let g' := map (prune a R2 k) g in
  (map (fun p : group => (p, @nil nat)) (components (filter has_cands g')),
   map fst (filter (fun it => negb (has_cands it)) g')).

(* dist <= range_k on the squared distance (the model's integer comparison) *)
Definition le_lvl (a : acfg) (R2 : Z) (k : nat) (dc : cand) : bool := snd dc * den a k <=? R2 * num a k.
Definition take_item (a : acfg) (R2 : Z) (k : nat) (it : item) : item := (fst it, take_le (le_lvl a R2 k) (snd it)).

Definition empty_mst : mst := {| subs := []; ssub := []; dsub := [] |}.
Definition edges_of_group (g : group) : list (nat * list nat) := map (fun it : item => (fst it, reals (snd it))) g.
Definition cands_in (g : group) (s : nat) : list cand := fc_get s g.          (* a group is a map source -> candidates *)
Definition part_of (g : group) (v : sets) : sgroup := (map (fun s => (s, cands_in g s)) (fst v), snd v).

Definition py_splitter (a : acfg) (R2 : Z) : splitter := fun k g ds =>
  let g' := map (take_item a R2 k) g in
  match split_dict empty_mst ds (edges_of_group g') with
  | Some st => (map (part_of g') (map snd (subs st)), map fst (filter (fun it => negb (has_reals it)) g'))
  | None => ([], [])
  end.

(* ---- split_subnet on the heap, source by source as the code does it ---- *)
(* for dp, dist in new_fcs: assign_subnet(sp, dp, subnets); a null candidate has no .subnet: exception *)
Fixpoint assign_all (s : nat) (cs : list cand) (m : mst) : option mst :=
  match cs with
  | [] => Some m
  | (Some d, _) :: cs' => match assign_subnet m (s, d) with Some m' => assign_all s cs' m' | None => None end
  | (None, _) :: _ => None
  end.

Fixpoint msplit_src (le : cand -> bool) (source : list nat) (fc : fcmap) (m : mst) : option (fcmap * mst) :=
  match source with
  | [] => Some (fc, m)
  | s :: ss =>
    let cs := take_le le (fc_get s fc) in
    match assign_all s cs (clear_src m s) with
    | None => None
    | Some m' => msplit_src le ss (fc_set s cs fc) m'
    end
  end.

Definition msplit (le : cand -> bool) (h : heap) (source dest : list nat) : option (heap * list sets) :=
  match msplit_src le source (h_fc h) (reset_dests 0 dest (set_subs (h_sn h) [])) with
  | Some (fc, m) => Some (mk_heap fc m, map snd (subs m))
  | None => None
  end.

(* ---- links: the (source, destination) pairs of a subnet linker's answer that have a source ---- *)
Definition links_of (p : pairs) : list (nat * option nat) :=
  flat_map (fun sd : option nat * option nat => match fst sd with Some s => [(s, snd sd)] | None => [] end)
           (combine (fst p) (snd p)).
Definition wf_pairs (p : pairs) : Prop := length (fst p) = length (snd p).
Definition strip_cost (l : link_t) : nat * option nat := (fst l, fst (snd l)).

Definition grp (h : heap) (ss : list nat) : group := map (fun s => (s, fc_get s (h_fc h))) ss.

(* what the leaves of the model amount to, given the subnet linker's answer [slv] on a group that fits *)
Definition leaf_links (slv : nat -> group -> list (nat * option nat)) (lf : aleaf) : list (nat * option nat) :=
  match lf with Leaf k g => slv k g | Dropped _ => [] | OutOfFuel => [] end.

(* the destination set of a group *)
Definition dests_of (g : group) : list nat := nodup Nat.eq_dec (gdests g).

(* every group of [gs] handed to subnet_linker_drop with its destination set, in order; the first raise aborts *)
Definition real_first (cs : list cand) : Prop :=
  match cs with (None, _) :: _ => reals cs = [] | _ => True end.
