(* Model of trackpy/linking/partial.py : link_partial and reconnect_traj_patch
   (as repaired by "fix: reconnect_traj_patch no longer reuses ids that are
   already claimed"), plus a variant of the pinned (pre-fix) reconnect.

   A table is a list of rows.  A row carries its identity (position in the
   caller's table), its frame number, the 'particle' column and the
   '_old_particle' column.  Positions and other payload columns do not take
   part in the bookkeeping; the in-range linking (link_iter, properties
   C01/C02) is an argument [linker : frame number -> ids yielded for that
   frame], i.e. an arbitrary in-range labelling.

   Python dicts are association lists with "last assignment wins" = cons +
   first match; sets are lists.  No proofs in this file. *)
From Coq Require Import ZArith List Bool.
Import ListNotations.
Open Scope Z_scope.

Record row := mkrow { rid : nat; frame : Z; part : Z; oldp : Z }.
Definition set_part (r : row) (v : Z) : row := mkrow (rid r) (frame r) v (oldp r).
Definition set_old (r : row) (v : Z) : row := mkrow (rid r) (frame r) (part r) v.

Inductive perr := EAssert | EValue | ERuntime | EFuel.
Inductive presult (A : Type) := POk (a : A) | PRaises (e : perr).
Arguments POk {A} a.
Arguments PRaises {A} e.

(* ---- dicts and sets ------------------------------------------------------ *)
Definition amap := list (Z * Z).
Fixpoint get (m : amap) (k : Z) : option Z :=
  match m with
  | [] => None
  | (k', v) :: m' => if k =? k' then Some v else get m' k
  end.
Definition put (m : amap) (k v : Z) : amap := (k, v) :: m.
Definition put_all (m : amap) (kvs : list (Z * Z)) : amap :=
  fold_left (fun m kv => put m (fst kv) (snd kv)) kvs m.
(* Series.replace(dict): simultaneous, values that are not keys stay *)
Definition replace_with (m : amap) (x : Z) : Z :=
  match get m x with Some v => v | None => x end.
Definition memZ (x : Z) (l : list Z) : bool := existsb (Z.eqb x) l.

(* ---- pandas_sort(f, t_column): rows ordered by frame (modelled stable) ---- *)
Fixpoint insert_row (r : row) (l : list row) : list row :=
  match l with
  | [] => [r]
  | x :: t => if frame r <=? frame x then r :: l else x :: insert_row r t
  end.
Definition sort_rows (l : list row) : list row := fold_right insert_row [] l.

(* ---- f.loc[f[t_column] == i, 'particle'] = _ids  (boolean mask; the k-th
   row of frame i receives the k-th id; a length mismatch raises) ---- *)
Fixpoint assign_mask (i : Z) (ids : list Z) (t : list row) : option (list row) :=
  match t with
  | [] => match ids with [] => Some [] | _ :: _ => None end
  | r :: t' =>
    if frame r =? i then
      match ids with
      | [] => None
      | id :: ids' => option_map (cons (set_part r id)) (assign_mask i ids' t')
      end
    else option_map (cons r) (assign_mask i ids t')
  end.

(* for i, _ids in link_iter(coords_iter, ...):
       if len(_ids) == 0: continue      (fix 9c4ed21: a frame without features)
       f.loc[f[t_column] == i, 'particle'] = _ids *)
Fixpoint relink (frames : list Z) (linker : Z -> list Z) (t : list row) : option (list row) :=
  match frames with
  | [] => Some t
  | i :: fs =>
    match linker i with
    | [] => relink fs linker t
    | _ :: _ =>
      match assign_mask i (linker i) t with
      | None => None
      | Some t' => relink fs linker t'
      end
    end
  end.

Definition Zrange (s e : Z) : list Z := map (fun k => s + Z.of_nat k) (seq 0 (Z.to_nat (e - s))).

(* ---- reconnect_traj_patch -------------------------------------------------- *)
Definition in_patch (s e : Z) (r : row) : bool := (s <=? frame r) && (frame r <? e).

(* f.loc[f[t_column] == i, ['particle', old_particle_column]].values *)
Definition pairs_at (i : Z) (t : list row) : list (Z * Z) :=
  map (fun r => (part r, oldp r)) (filter (fun r => frame r =? i) t).

Definition first_step (mp : amap) (po : Z * Z) : amap :=
  let (p_new, p_old) := po in
  if p_old <? 0 then mp else put mp p_new p_old.
Definition first_pass (s : Z) (t : list row) : amap := fold_left first_step (pairs_at s t) [].

Record lstate := mkl { l_mp : amap; l_ma : amap; l_rb : list (Z * Z) }.

Definition last_step (claimed : list Z) (st : lstate) (po : Z * Z) : lstate :=
  let (p_new, p_old) := po in
  if p_old <? 0 then st else
  match get (l_mp st) p_new with
  | Some v =>            (* already connected to a track before the patch: renumber after *)
    mkl (l_mp st) (put (l_ma st) p_old v) (l_rb st)
  | None =>
    if memZ p_old claimed
    then mkl (l_mp st) (l_ma st) (l_rb st ++ [(p_new, p_old)])   (* reborn *)
    else mkl (put (l_mp st) p_new p_old) (l_ma st) (l_rb st)     (* created inside: take the id after *)
  end.

(* itertools.filterfalse(lambda x: x in used, itertools.count()) *)
Fixpoint find_fresh (used : list Z) (c : Z) (fuel : nat) : option Z :=
  match fuel with
  | O => None
  | S k => if memZ c used then find_fresh used (c + 1) k else Some c
  end.
Fixpoint gen_take (used : list Z) (c : Z) (n : nat) : option (list Z) :=
  match n with
  | O => Some []
  | S n' =>
    match find_fresh used c (S (length used)) with
    | None => None
    | Some x =>
      match gen_take used (x + 1) n' with
      | None => None
      | Some l => Some (x :: l)
      end
    end
  end.

Definition relabel (s e : Z) (mp ma : amap) (r : row) : row :=
  if in_patch s e r then set_part r (replace_with mp (part r))
  else if e <=? frame r then set_part r (replace_with ma (part r))
  else r.

(* state after the two boundary passes *)
Definition boundary (t : list row) (s e : Z) : lstate :=
  let mp1 := first_pass s t in
  let claimed := map snd mp1 in
  fold_left (last_step claimed) (pairs_at (e - 1) t) (mkl mp1 [] []).

Definition remaining_of (t : list row) (s e : Z) (st : lstate) : list Z :=
  filter (fun n => negb (match get (l_mp st) n with Some _ => true | None => false end)
                   && negb (memZ n (map fst (l_rb st))))
         (nodup Z.eq_dec (map part (filter (in_patch s e) t))).

Definition used_of (t : list row) (s e : Z) (st : lstate) : list Z :=
  map part (filter (fun r => negb (in_patch s e r)) t) ++ map oldp t
  ++ map snd (l_mp st) ++ map snd (l_ma st).

(* final mapping_patch / mapping_after.  (The Python guard "if remaining or
   reborn" only skips two empty loops.)  Fresh ids go to the reborn tracks
   first, then to the remaining ones, consecutively from one generator. *)
Definition final_maps (t : list row) (s e : Z) : option (amap * amap) :=
  let st := boundary t s e in
  let remaining := remaining_of t s e st in
  let used := used_of t s e st in
  match gen_take used 0 (length (l_rb st) + length remaining) with
  | None => None
  | Some ids =>
    let mp := put_all (l_mp st) (combine (map fst (l_rb st) ++ remaining) ids) in
    let ma := put_all (l_ma st) (combine (map snd (l_rb st)) ids) in
    Some (mp, ma)
  end.

Definition reconnect (t : list row) (s e : Z) : presult (list row) :=
  if negb (s <? e) then PRaises EAssert else
  match final_maps t s e with
  | None => PRaises EFuel
  | Some (mp, ma) => POk (map (relabel s e mp ma) t)
  end.

(* ---- link_partial ------------------------------------------------------------ *)
(* full_range = (min frame, max frame + 1); an empty table raises (int(nan)) *)
Definition frame_span (f : list row) : option (Z * Z) :=
  match map frame f with
  | [] => None
  | x :: xs => Some (fold_left Z.min xs x, fold_left Z.max xs x + 1)
  end.

Definition clamp (lo hi : Z) (lr : Z * Z) : Z * Z :=
  let (a, b) := lr in
  ((if a <? lo then lo else a), (if hi <? b then hi else b)).

(* everything after the sort; [t] is the sorted copy, [lo, hi) the full range *)
Definition patch (lo hi : Z) (t : list row) (lr : Z * Z) (linker : Z -> list Z) : presult (list row) :=
  if negb (fst lr <? snd lr) then PRaises EAssert else
  let (s, e) := clamp lo hi lr in
  let partial := (lo <? s) || (e <? hi) in
  let t1 := map (fun r => set_old r (part r)) t in          (* f['_old_particle'] = f['particle'].copy() *)
  if negb (s <? e) then PRaises ERuntime else                (* link_iter over no frames *)
  match relink (Zrange s e) linker t1 with
  | None => PRaises EValue
  | Some t2 => if partial then reconnect t2 s e else POk t2
  end.

(* the table between the relinking loop and reconnect_traj_patch *)
Definition relinked (lo hi : Z) (t : list row) (lr : Z * Z) (linker : Z -> list Z) : option (list row) :=
  let (s, e) := clamp lo hi lr in
  relink (Zrange s e) linker (map (fun r => set_old r (part r)) t).

Definition link_partial (f : list row) (lr : Z * Z) (linker : Z -> list Z) : presult (list row) :=
  match frame_span f with
  | None => PRaises EValue
  | Some (lo, hi) => patch lo hi (sort_rows f) lr linker
  end.

(* ---- the pinned (pre-fix) reconnect_traj_patch, for the refutation witnesses ---- *)
Definition last_step_pinned (st : lstate) (po : Z * Z) : lstate :=
  let (p_new, p_old) := po in
  if p_old <? 0 then st else
  match get (l_mp st) p_new with
  | Some v => mkl (l_mp st) (put (l_ma st) p_old v) (l_rb st)
  | None => mkl (put (l_mp st) p_new p_old) (l_ma st) (l_rb st)
  end.

Definition reconnect_pinned (t : list row) (s e : Z) : presult (list row) :=
  if negb (s <? e) then PRaises EAssert else
  let st := fold_left last_step_pinned (pairs_at (e - 1) t) (mkl (first_pass s t) [] []) in
  let remaining := remaining_of t s e st in
  let used := map part (filter (fun r => negb (in_patch s e r)) t) in
  match gen_take used 0 (length remaining) with
  | None => PRaises EFuel
  | Some ids =>
    POk (map (relabel s e (put_all (l_mp st) (combine remaining ids)) (l_ma st)) t)
  end.
