(* Executable model of trackpy/linking/find_link.py (FindLinker) as it is in
   /repo now: get_relocate_candidates / relocate / assign_links, on top of the
   linker model Model/Link.v and the image vocabulary of Model/Dilation.v.

   Scope: isotropic parameters, integer pixel coordinates (find_link without
   refine and without predictor positions being fractional), integer images
   (preprocess=False).  A float parameter x (search_range, separation) is
   handed over as the integer x*k for one common scale k (fk).

   Coordinates are ABSOLUTE image coordinates throughout: the Python works on
   the slice `im_masked` with slice-relative coordinates and adds `origin` at
   the end; every operation between is translation invariant, except that
   characterize() is evaluated on the slice, so its NaN rule refers to the
   slice box (modelled literally).
   [fixed P = true] is the code as it is now (commit "fix: FindLinker rejects
   relocation candidates near the image edge using absolute coordinates":
   edge rejection on absolute coordinates, NaN-robust minmass cut);
   [fixed P = false] is the code as it WAS (defect F16): edge rejection compared
   the slice-relative coordinate with the FULL image shape, and
   argsort(mass)[::-1][:count] put NaN masses first.

   Modelled, not verified: np.percentile (the frame's threshold is an input),
   cKDTree.query_ball_point (= all points within the radius), np.argsort on
   equal masses (the model is a stable descending sort; the correspondence
   compares modulo ties), scipy grey_dilation (as in Model/Dilation.v), the
   max_neighbors cap of the KD-tree queries, dict/set iteration order of the
   subnets (the theorems hold for every order).
   No proofs in this file. *)
From Coq Require Import ZArith QArith Qround List Bool Arith.
From TP Require Import Model.Assign Model.Link Model.Dilation.
Import ListNotations.
Open Scope Z_scope.

(* ------------------------------------------------------------ geometry *)
Fixpoint sqd (p q : list Z) : Z :=
  match p, q with
  | a :: p', b :: q' => (a - b) * (a - b) + sqd p' q'
  | _, _ => 0
  end.

Fixpoint vsub (p q : list Z) : list Z :=
  match p, q with
  | a :: p', b :: q' => (a - b) :: vsub p' q'
  | _, _ => []
  end.

(* dist(a, p) <= R/k  resp.  < R/k   (k, R >= 0) *)
Definition within_b (k R : Z) (a p : pt) : bool := k * k * sqd a p <=? R * R.
Definition inside_b (k R : Z) (a p : pt) : bool := k * k * sqd a p <? R * R.
Definition near_any (k R : Z) (ps : list pt) (a : pt) : bool := existsb (within_b k R a) ps.
Definition close_any (k R : Z) (ps : list pt) (a : pt) : bool := existsb (inside_b k R a) ps.

Record fparams := {
  fmet : metric;    (* the linker's metric: weights and search_range^2 (scaled) *)
  fk : Z;           (* common scale of sepk and bgk *)
  sepk : Z;         (* separation * fk *)
  bgk : Z;          (* bg_radius * fk *)
  rad : Z;          (* radius = diameter // 2 = margin *)
  slr : Z;          (* slice_radius = int(search_range + radius + 1), pixels *)
  dil : Z;          (* dilation_size = int(2 * separation / sqrt(ndim)) *)
  minmass : Q;
  fixed : bool;
}.

(* FindLinker.__init__ : derived radii from search_range*k, separation*k, radius.
   [old_bg] = the pinned formula slice_radius + radius + 1 (defect F12). *)
Definition mk_params (ndim k srk sepk_ rad_ : Z) (minmass_ : Q) (old_bg fixed_ : bool) : fparams :=
  let slr_ := (srk + (rad_ + 1) * k) / k in
  {| fmet := {| mw := repeat (k * k) (Z.to_nat ndim); mR2 := srk * srk |};
     fk := k; sepk := sepk_;
     bgk := slr_ * k + (if old_bg then rad_ * k else Z.max (rad_ * k) sepk_) + k;
     rad := rad_; slr := slr_;
     dil := box_size ndim (Qmake sepk_ (Z.to_pos k));
     minmass := minmass_; fixed := fixed_ |}.

(* ------------------------------------------------------------ the slice *)
Fixpoint in_reach (sh : list Z) (R : Z) (p : pt) : bool :=
  match sh, p with
  | n :: sh', c :: p' => (- R <=? c) && (c <? n + R) && in_reach sh' R p'
  | _, _ => true
  end.

Definition lmin (v : Z) (vs : list Z) : Z := fold_left Z.min vs v.

Fixpoint cols (n : nat) (ps : list pt) : list (list Z) :=
  match n with
  | O => []
  | S n' => map (fun p => hd 0 p) ps :: cols n' (map (fun p => tl p) ps)
  end.

(* masks.get_slice: per axis the half-open pixel range [lo, hi); None when no
   position has a pixel inside the image *)
Definition slice_box (sh : list Z) (R : Z) (pos : list pt) : option (list (Z * Z)) :=
  match filter (in_reach sh R) pos with
  | [] => None
  | ps =>
    Some (map (fun nc : Z * list Z =>
                 match snd nc with
                 | [] => (0, 0)
                 | c :: cs => (Z.max 0 (lmin c cs - R), Z.min (fst nc) (max_of c cs + R + 1))
                 end)
              (combine sh (cols (length sh) ps)))
  end.

Fixpoint in_rng (bx : list (Z * Z)) (a : pt) : bool :=
  match bx, a with
  | r :: bx', x :: a' => (fst r <=? x) && (x <? snd r) && in_rng bx' a'
  | [], [] => true
  | _, _ => false
  end.

Definition box_pixels (bx : list (Z * Z)) : list pt :=
  prod_ranges (map (fun r : Z * Z => (fst r, snd r - 1)) bx).

Definition sumZ (l : list Z) : Z := fold_right Z.add 0 l.

(* im_masked after both masks, as a function of the absolute pixel; 0 outside
   the slice (what mode='constant' and characterize see) *)
Definition mslice (P : fparams) (im : image) (bx : list (Z * Z)) (pos bg : list pt) (a : pt) : Z :=
  if in_rng bx a then
    if near_any 1 (slr P) pos a then
      if close_any (fk P) (sepk P) bg a then 0 else pix im a
    else 0
  else 0.

(* self.hash.query_points(pos, self.bg_radius) *)
Definition background (P : fparams) (pos known : list pt) : list pt :=
  filter (fun b => near_any (fk P) (bgk P) pos b) known.

Definition dil_at (f : pt -> Z) (sizes : list Z) (a : pt) : Z :=
  match map f (box sizes a) with
  | [] => 0
  | v :: vs => max_of v vs
  end.

Definition is_peak (f : pt -> Z) (sizes : list Z) (t : Q) (a : pt) : bool :=
  let v := f a in if gt_thr t v then v =? dil_at f sizes a else false.

(* characterize(coords, im_masked, radius)['mass'] : NaN (None) when the feature
   region leaves the slice *)
Fixpoint leaves_box (bx : list (Z * Z)) (r : Z) (a : pt) : bool :=
  match bx, a with
  | b :: bx', x :: a' => (x - r <? fst b) || (snd b <=? x + r) || leaves_box bx' r a'
  | _, _ => false
  end.

Definition disc (r : Z) (a : pt) : list pt :=
  filter (fun x => sqd x a <=? r * r) (prod_ranges (map (fun x => (x - r, x + r)) a)).

Definition char_mass (f : pt -> Z) (bx : list (Z * Z)) (r : Z) (a : pt) : option Z :=
  if leaves_box bx r a then None else Some (sumZ (map f (disc r a))).

(* descending by mass, NaN first (np.argsort puts NaN last; [::-1]) ; stable *)
Definition cm := (pt * option Z)%type.
Definition mass_ge (x y : option Z) : bool :=     (* x sorts before-or-equal y *)
  match x, y with
  | None, _ => true
  | Some _, None => false
  | Some a, Some b => b <=? a
  end.
Fixpoint insert_m (x : cm) (l : list cm) : list cm :=
  match l with
  | [] => [x]
  | y :: l' => if mass_ge (snd y) (snd x) then y :: insert_m x l' else x :: y :: l'
  end.
Definition sort_m (l : list cm) : list cm := fold_right insert_m [] l.

Definition mass_ok (mm : Q) (x : option Z) : bool :=
  match x with None => false | Some v => Qle_bool mm (inject_Z v) end.

Definition sepQ (P : fparams) : Q := Qmake (sepk P) (Z.to_pos (fk P)).

(* FindLinker.get_relocate_candidates(pos): coordinates (absolute) with masses,
   best first.  [t] = percentile threshold of the frame (None: black frame);
   [known] = the points of self.hash at this moment. *)
Definition relocate_cands (P : fparams) (im : image) (t : option Q) (pos known : list pt) : list cm :=
  let sh := shape im in
  match slice_box sh (slr P) pos with
  | None => []
  | Some bx =>
    let px := box_pixels bx in
    if sumZ (map (pix im) px) =? 0 then [] else
    if sumZ (map (mslice P im bx pos []) px) =? 0 then [] else
    let f := mslice P im bx pos (background P pos known) in
    match t with
    | None => []
    | Some t =>
      let sizes := map (fun _ => dil P) sh in
      let maxima := filter (is_peak f sizes t) px in
      let margin := map (fun _ => rad P) sh in
      let origin := map fst bx in
      let inner := filter (fun a => negb (near_edge sh margin (if fixed P then a else vsub a origin))) maxima in
      let ranged := filter (fun a => existsb (fun p => d2w (mw (fmet P)) p a <=? mR2 (fmet P)) pos) inner in
      let kept := drop_close (map inject_Z) ranged (map (fun _ => sepQ P) sh) (Some (map f ranged)) in
      let chars := sort_m (map (fun a => (a, char_mass f bx (rad P) a)) kept) in
      if fixed P then filter (fun x => mass_ok (minmass P) (snd x)) chars
      else firstn (length (filter (fun x => mass_ok (minmass P) (snd x)) chars)) chars
    end
  end.

(* FindLinker.relocate(pos, n) *)
Definition relocate (P : fparams) (im : image) (t : option Q) (pos known : list pt) (n : nat) : list pt :=
  map fst (firstn n (relocate_cands P im t pos known)).

(* ------------------------------------------------- subnets with lost sources *)
Fixpoint dedup (l : list nat) : list nat :=
  match l with
  | [] => []
  | x :: l' => if existsb (Nat.eqb x) l' then dedup l' else x :: dedup l'
  end.

Definition shortage (g : group) : nat := (length g - length (dedup (gdests g)))%nat.

Definition has_src (i : nat) (g : group) : bool := existsb (fun it : item => Nat.eqb (fst it) i) g.

(* merge the subnet of source j into the subnet of source i *)
Definition merge_pair (gs : list group) (i j : nat) : list group :=
  let gi := filter (has_src i) gs in
  let gj := filter (fun g => negb (has_src i g) && has_src j g) gs in
  match gj with
  | [] => gs
  | _ => (concat gi ++ concat gj) :: filter (fun g => negb (has_src i g) && negb (has_src j g)) gs
  end.

Definition src_pos (pred : nat -> src -> pt) (st : lstate) (i : nat) : pt :=
  match nth_error (live st) i with Some s => pred (now st) s | None => [] end.

(* Subnets.merge_lost_subnets: every source of a subnet with more sources than
   destinations pulls in the subnets of all sources within 2*search_range *)
Definition merge_lost (m : metric) (pred : nat -> src -> pt) (st : lstate) (gs : list group) : list group :=
  let lost := flat_map (fun g => if (0 <? shortage g)%nat then map fst g else []) gs in
  fold_left (fun gs i =>
     fold_left (fun gs j =>
        if d2w (mw m) (src_pos pred st i) (src_pos pred st j) <=? 4 * mR2 m
        then merge_pair gs i j else gs)
       (seq 0 (length (live st))) gs)
    lost gs.

(* ------------------------------------------------- FindLinker.assign_links *)
(* relocation oracle of one frame: positions of the group's sources, points
   known so far, number wanted -> new points *)
Definition reloc_fn := list pt -> list pt -> nat -> list pt.

Definition in_range_any (m : metric) (ps : list pt) (q : pt) : bool :=
  existsb (fun p => d2w (mw m) p q <=? mR2 m) ps.

(* candidates of source i after add_dest_points: its destinations among the
   detected points [ds] and among the new points [new] (numbered from [base]) *)
Definition ext_item (m : metric) (pred : nat -> src -> pt) (st : lstate)
           (ds new : list pt) (base : nat) (it : item) : item :=
  let sp := src_pos pred st (fst it) in
  (fst it, sort_c (real_cands m sp ds 0 ++ real_cands m sp new base) ++ [(None, mR2 m)]).

Record acc := { a_added : list pt; a_links : list link_t }.

Definition group_step (m : metric) (max_size : nat) (pred : nat -> src -> pt) (rel : reloc_fn)
           (st : lstate) (ds : list pt) (a : acc) (g : group) : result acc :=
  let sh := shortage g in
  let pos := map (fun it : item => src_pos pred st (fst it)) g in
  let new := if (0 <? sh)%nat
             then filter (in_range_any m pos) (rel pos (ds ++ a_added a) sh)   (* add_dest_points keeps what is in range *)
             else [] in
  let base := (length ds + length (a_added a))%nat in
  match solve_group max_size (map (ext_item m pred st ds new base) g) with
  | Oversize => Oversize
  | Ok l => Ok {| a_added := a_added a ++ new; a_links := a_links a ++ l |}
  end.

Fixpoint groups_run (m : metric) (max_size : nat) (pred : nat -> src -> pt) (rel : reloc_fn)
         (st : lstate) (ds : list pt) (a : acc) (gs : list group) : result acc :=
  match gs with
  | [] => Ok a
  | g :: gs' =>
    match group_step m max_size pred rel st ds a g with
    | Oversize => Oversize
    | Ok a' => groups_run m max_size pred rel st ds a' gs'
    end
  end.

Definition find_groups (m : metric) (pred : nat -> src -> pt) (st : lstate) (ds : list pt) : list group :=
  merge_lost m pred st (components (items_of m pred st ds)).

(* FindLinker.next_level: new state, labels of the frame, the frame's points
   (detected ++ relocated, the order of self.hash.points) *)
Definition find_step (m : metric) (mem max_size : nat) (pred : nat -> src -> pt) (rel : reloc_fn)
           (st : lstate) (ds : list pt) : result (lstate * list nat * list pt) :=
  match groups_run m max_size pred rel st ds {| a_added := []; a_links := [] |} (find_groups m pred st ds) with
  | Oversize => Oversize
  | Ok a =>
    let D := ds ++ a_added a in
    let (st', labs) := apply_links mem st D (a_links a) in
    Ok (st', labs, D)
  end.

(* a movie: per frame the detected points handed to the linker and the oracle *)
Fixpoint find_run (m : metric) (mem max_size : nat) (pred : nat -> src -> pt)
         (st : lstate) (frames : list (list pt * reloc_fn)) : result (list (list nat * list pt)) :=
  match frames with
  | [] => Ok []
  | (ds, rel) :: rest =>
    match find_step m mem max_size pred rel st ds with
    | Oversize => Oversize
    | Ok (st', labs, D) =>
      match find_run m mem max_size pred st' rest with
      | Oversize => Oversize
      | Ok out => Ok ((labs, D) :: out)
      end
    end
  end.

Definition find_link_model (m : metric) (mem max_size : nat) (pred : nat -> src -> pt)
           (f0 : list pt) (rest : list (list pt * reloc_fn)) : result (list (list nat * list pt)) :=
  let (st, labs) := init_state f0 in
  match find_run m mem max_size pred st rest with
  | Oversize => Oversize
  | Ok out => Ok ((labs, f0) :: out)
  end.

(* the oracle of a frame with image [im] and threshold [t] *)
Definition image_reloc (P : fparams) (im : image) (t : option Q) : reloc_fn :=
  fun pos known n => relocate P im t pos known n.
