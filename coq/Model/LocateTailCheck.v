(* Executable checkers used by vp/props/c08.py:
   - [monitor]     decides Spec.output_ok on a table returned by locate;
   - [check_mask]  decides Spec.selection_of for "restricted result vs
                   unrestricted result" given which unrestricted rows were kept;
   - [corr_select] / [corr_ep] / [check_wc] compare the implementation's
                   observations with the model of Model/LocateTail.v.
   Soundness of monitor / check_mask is proved in Proofs/LocateTail.v.
   No proofs in this file. *)
From Coq Require Import QArith Qabs List Bool Arith NArith.
From TP Require Import Model.LocateTail.
Import ListNotations.
Open Scope Q_scope.

(* ------------------------------------------------------------- monitor *)
Fixpoint inside_b (shape p : list Q) : bool :=
  match shape, p with
  | [], [] => true
  | n :: shape', x :: p' => Qle_bool 0 x && Qle_bool x (n - 1) && inside_b shape' p'
  | _, _ => false
  end.

Fixpoint all_ordpairs_b {A} (f : A -> A -> bool) (l : list A) : bool :=
  match l with
  | [] => true
  | x :: t => forallb (f x) t && all_ordpairs_b f t
  end.

Definition ep_ok_b (strict : bool) (v : fval) : bool :=
  match v with
  | FNaN => true | FPInf => true | FNInf => false
  | FVal e => if strict then Qltb 0 e else Qle_bool 0 e
  end.

Definition size_ok_b (maxsize : option Q) (r : row) : bool :=
  match maxsize with None => true | Some s => Qltb (r_size r) s end.

(* result codes: 0 ok; 1 mass <= minmass; 2 size >= maxsize; 3 outside image;
   4 two features closer than separation; 5 negative ep;
   6 ep = 0 although the measured noise is positive *)
Definition monitor (shape sep : list Q) (minmass : Q) (maxsize : option Q)
           (noise_positive : bool) (out : list (row * list fval)) : N :=
  if negb (forallb (fun x => Qltb minmass (r_mass (fst x))) out) then 1%N
  else if negb (forallb (fun x => size_ok_b maxsize (fst x)) out) then 2%N
  else if negb (forallb (fun x => inside_b shape (r_pos (fst x))) out) then 3%N
  else if forallb (Qltb 0) sep &&
          negb (all_ordpairs_b (fun a b => negb (close sep (r_pos a) (r_pos b))) (map fst out)) then 4%N
  else if negb (forallb (fun x => forallb (ep_ok_b false) (snd x)) out) then 5%N
  else if noise_positive && negb (forallb (fun x => forallb (ep_ok_b true) (snd x)) out) then 6%N
  else 0%N.

(* -------------------------------------------- restricted vs unrestricted *)
Fixpoint select_mask {A} (mask : list bool) (l : list A) : list A :=
  match mask, l with
  | b :: mask', x :: l' => if b then x :: select_mask mask' l' else select_mask mask' l'
  | _, _ => []
  end.

(* codes: 0 ok; 1 kept row has mass <= minmass; 2 kept row has size >= maxsize;
   3 a passing row was removed although topn is not set;
   4 more than topn rows; 5 fewer than topn rows although a passing row was removed;
   6 mask length wrong; 7 a removed passing row is more massive than a kept one *)
Definition check_mask (minmass : Q) (maxsize : option Q) (topn : option nat)
           (cands : list row) (mask : list bool) : N :=
  if negb (length mask =? length cands)%nat then 6%N else
  let kept := select_mask mask cands in
  let removed := select_mask (map negb mask) cands in
  if negb (forallb (fun r => Qltb minmass (r_mass r)) kept) then 1%N
  else if negb (forallb (size_ok_b maxsize) kept) then 2%N
  else
    let lost := filter (passes minmass maxsize) removed in
    match topn with
    | None => match lost with [] => 0%N | _ => 3%N end
    | Some n =>
        if negb (length kept <=? n)%nat then 4%N
        else match lost with
             | [] => 0%N
             | _ => if negb (length kept =? n)%nat then 5%N
                    else if forallb (fun r => forallb (fun o => Qle_bool (r_mass r) (r_mass o)) kept) lost
                         then 0%N else 7%N
             end
    end.

(* ------------------------------------------- correspondence with the model *)
Fixpoint mask_labels (k : nat) (mask : list bool) : list nat :=
  match mask with
  | [] => []
  | b :: t => if b then k :: mask_labels (S k) t else mask_labels (S k) t
  end.

Definition same_set (a b : list nat) : bool :=
  forallb (fun x => mem x b) a && forallb (fun x => mem x a) b.

Fixpoint qlist_eqb (a b : list Q) : bool :=
  match a, b with
  | [], [] => true
  | x :: a', y :: b' => Qeq_bool x y && qlist_eqb a' b'
  | _, _ => false
  end.

(* the model's selection against the implementation's (given as a mask over
   the unrestricted rows).  Equal-mass rows at the topn cut are
   interchangeable (numpy's argsort is not stable): then only the multiset of
   kept masses is compared.  codes: 0 ok; 1 different row set; 2 different masses *)
Definition corr_select (minmass : Q) (maxsize : option Q) (topn : option nat)
           (cands : list row) (mask : list bool) : N :=
  let m := select minmass maxsize topn cands in
  let mlabs := map fst m in
  let ilabs := mask_labels 0 mask in
  let lost := filter (fun x => passes minmass maxsize (snd x) && negb (mem (fst x) mlabs)) (index cands) in
  let tie := existsb (fun x => existsb (fun y => Qeq_bool (lmass x) (lmass y)) m) lost in
  if tie
  then (if qlist_eqb (map lmass (sort_mass m))
                     (map lmass (sort_mass (filter (fun x => mem (fst x) ilabs) (index cands))))
        then 0%N else 2%N)
  else (if same_set mlabs ilabs then 0%N else 1%N).

(* ep columns: model value against the float result, relative tolerance tol.
   codes: 0 ok; 1 NaN/inf pattern differs; 2 value differs; 3 column count *)
Definition corr_ep_one (tol : Q) (m i : fval) : N :=
  match m, i with
  | FNaN, FNaN => 0%N | FPInf, FPInf => 0%N | FNInf, FNInf => 0%N
  | FVal e, FVal e' => if Qle_bool (Qabs (e - e')) (tol * Qabs e) then 0%N else 2%N
  | _, _ => 1%N
  end.

Fixpoint first_nonzero (l : list N) : N :=
  match l with [] => 0%N | x :: t => if N.eqb x 0 then first_nonzero t else x end.

Fixpoint corr_ep_cols (tol : Q) (m i : list fval) : N :=
  match m, i with
  | [], [] => 0%N
  | a :: m', b :: i' => match corr_ep_one tol a b with 0%N => corr_ep_cols tol m' i' | c => c end
  | _, _ => 3%N
  end.

Definition corr_ep (noise black : option Q) (npx : Q) (cs : list Q) (tol : Q)
           (rows : list (Q * list fval)) : N :=
  first_nonzero (map (fun x => corr_ep_cols tol
                                 (ep_row noise black npx cs (mkrow [] 0 0 (fst x))) (snd x)) rows).

(* where_close called directly: same set of dropped indices *)
Definition check_wc (sep : list Q) (pts : list (list Q * Q)) (impl_drop : list nat) : N :=
  if same_set (where_close sep pts) impl_drop then 0%N else 1%N.

(* whole tail up to the filters, from the rows returned by refine_com (the
   harness repeats locate's head with trackpy's own public functions): the
   implementation's unrestricted table, given as a mask over the pre-dedupe
   rows, against  select (candidates pre).  Rows are compared in table order
   by position, size and raw_mass (the mass column is rescaled in floats).
   codes: 0 ok; 1 different rows *)
Definition row_key_eqb (a b : row) : bool :=
  qlist_eqb (r_pos a) (r_pos b) && Qeq_bool (r_size a) (r_size b) && Qeq_bool (r_raw a) (r_raw b).

Fixpoint list_eqb {A} (f : A -> A -> bool) (a b : list A) : bool :=
  match a, b with
  | [], [] => true
  | x :: a', y :: b' => f x y && list_eqb f a' b'
  | _, _ => false
  end.

Definition corr_tail (sep : list Q) (sf minmass : Q) (maxsize : option Q)
           (pre : list row) (mask : list bool) : N :=
  let m := map snd (select minmass maxsize None (candidates sep sf pre)) in
  if list_eqb row_key_eqb m (select_mask mask pre) then 0%N else 1%N.

(* ------------------------------------------------------ one locate case *)
Record lcase := mk_lcase {
  c_shape : list Q; c_sep : list Q;
  c_mm0 : Q; c_ms0 : option Q;                       (* filters of the unrestricted run *)
  c_rows0 : list (row * list fval);                  (* its table *)
  c_noise_pos : bool;
  c_noise : option Q; c_black : option Q; c_npx : Q; c_cs : list Q; c_tol : Q;
  c_eprows : list (Q * list fval);                   (* (raw_mass, ep) of rows with a safe margin *)
  c_mm1 : Q; c_ms1 : option Q; c_topn : option nat;  (* the restricted run *)
  c_mask : list bool;                                (* which unrestricted rows it returned *)
  c_pre : option (Q * list row * list bool) }.       (* scale factor, refine_com rows, mask of rows0 in them *)

Definition tag (base : N) (code : N) : N := if N.eqb code 0 then 0%N else (base + code)%N.

(* 10+: monitor on the unrestricted table; 20+: ep against the model;
   30+: restricted table against the property (check_mask);
   40+: restricted table against the model; 50+: whole tail against the model *)
Definition check_locate (c : lcase) : N :=
  first_nonzero [
    tag 10 (monitor (c_shape c) (c_sep c) (c_mm0 c) (c_ms0 c) (c_noise_pos c) (c_rows0 c));
    tag 20 (corr_ep (c_noise c) (c_black c) (c_npx c) (c_cs c) (c_tol c) (c_eprows c));
    tag 30 (check_mask (c_mm1 c) (c_ms1 c) (c_topn c) (map fst (c_rows0 c)) (c_mask c));
    tag 40 (corr_select (c_mm1 c) (c_ms1 c) (c_topn c) (map fst (c_rows0 c)) (c_mask c));
    tag 50 (match c_pre c with
            | None => 0%N
            | Some (sf, pre, mask) => corr_tail (c_sep c) sf (c_mm0 c) (c_ms0 c) pre mask
            end) ].
