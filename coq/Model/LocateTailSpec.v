(* Declarative statement of property C08 (what the documentation of
   trackpy.locate promises about minmass / maxsize / separation / topn / ep).
   Nothing of locate's algorithm appears here: no sorting, no index labels, no
   pair enumeration.  No proofs in this file. *)
From Coq Require Import QArith List Permutation.
From TP Require Import Model.LocateTail.
Import ListNotations.
Open Scope Q_scope.

(* ---- filters ------------------------------------------------------------ *)
(* a feature survives the filters: mass above minmass, size below maxsize
   (when a maxsize is given) *)
Definition keeps (minmass : Q) (maxsize : option Q) (r : row) : Prop :=
  minmass < r_mass r /\ match maxsize with None => True | Some s => r_size r < s end.

(* [out] is what remains of the table [cands] after filtering with
   (minmass, maxsize) and keeping the [topn] most massive:
   - nothing is invented or altered: out together with the removed rows is
     exactly cands (as multisets of unchanged rows);
   - every returned row passes the filters;
   - without topn, no passing row is removed;
   - with topn = n: at most n rows; a passing row is only removed when n rows
     are returned and each of them is at least as massive. *)
Definition selection_of (minmass : Q) (maxsize : option Q) (topn : option nat)
           (cands out : list row) : Prop :=
  exists removed,
    Permutation (out ++ removed) cands /\
    Forall (keeps minmass maxsize) out /\
    match topn with
    | None => Forall (fun r => ~ keeps minmass maxsize r) removed
    | Some n =>
        (length out <= n)%nat /\
        forall r, In r removed -> keeps minmass maxsize r ->
                  length out = n /\ Forall (fun o => r_mass r <= r_mass o) out
    end.

(* ---- separation --------------------------------------------------------- *)
(* squared distance in units of the separation: sum_i ((a_i - b_i) / sep_i)^2;
   "closer than separation" is  dist2_sep < 1  (for a scalar separation s this
   is |a - b| < s) *)
Fixpoint dist2_sep (sep a b : list Q) : Q :=
  match sep, a, b with
  | s :: sep', x :: a', y :: b' => ((x - y) / s) * ((x - y) / s) + dist2_sep sep' a' b'
  | _, _, _ => 0
  end.

(* no two DIFFERENT entries of the table are closer than separation *)
Definition separated (sep : list Q) (out : list row) : Prop :=
  forall i j a b, i <> j -> nth_error out i = Some a -> nth_error out j = Some b ->
                  ~ dist2_sep sep (r_pos a) (r_pos b) < 1.

(* ---- inside the image --------------------------------------------------- *)
(* pixel centres run from 0 to shape-1 along every axis *)
Fixpoint inside_image (shape p : list Q) : Prop :=
  match shape, p with
  | [], [] => True
  | n :: shape', x :: p' => 0 <= x /\ x <= n - 1 /\ inside_image shape' p'
  | _, _ => False
  end.

(* ---- static error ------------------------------------------------------- *)
(* never negative: NaN, +inf or a value >= 0 *)
Definition ep_not_negative (v : fval) : Prop :=
  match v with FNaN => True | FPInf => True | FNInf => False | FVal e => 0 <= e end.
(* a positive number or NaN *)
Definition ep_positive_or_nan (v : fval) : Prop :=
  match v with FNaN => True | FPInf => True | FNInf => False | FVal e => 0 < e end.

(* ---- the whole property on one returned table --------------------------- *)
(* rows paired with their ep column(s) *)
Definition output_ok (shape sep : list Q) (minmass : Q) (maxsize : option Q)
           (out : list (row * list fval)) : Prop :=
  Forall (fun x => keeps minmass maxsize (fst x)) out /\
  Forall (fun x => inside_image shape (r_pos (fst x))) out /\
  (Forall (fun s => 0 < s) sep -> separated sep (map fst out)) /\
  Forall (fun x => Forall ep_not_negative (snd x)) out.
