(* Run-time vocabulary of coq/Gen/refinedriver.v, the file tools/py2coq_refinedriver.py
   generates (route T) from the CURRENT source text of the driver of

       trackpy.refine.least_squares.refine_leastsq

   from `for _, f_iter in iterable:` to `return f`: the per-unit statements, the
   try / except RefineException / else structure, the recentring loop
   `for _n_iter in range(max_iter)` with its break, the rms test after the loop, the
   compute_error block, the write-back on success and the NaN cost on failure.
   Hand-written and small; it says what each Python construct of the translated subset
   means.  It shares with the hand model only DATA TYPES and the meaning of the numpy /
   pandas primitives (Model/RefineBounds.v: ext, grouping, pack, unpack, select, box_empty;
   Model/RefineDriver.v: ores, tbl, unit_t, scatter, write_cols, all_fin2, all_small,
   coords_of, Qlt_b); NONE of the control flow of Model/RefineDriver.v /
   Model/RefineDriver2.v (loop, body, for_loop, after_loop, fit, fit2, step, stepg, run,
   rung) is used here: the control flow of the generated file comes from the source text.

   CONTROL.  Shallow, state passing.  Every statement is a term of type [oc]:
       ONormal st        fell through, locals / table as in st
       OBreak st         `break`
       ORaise e st       an exception left the statement; st = the state AT the raise
                         (an except handler runs in it)
   `s1; s2` is a `let st := ..` when s1 is a plain assignment, a `match` when s1 may raise
   (the guard is evaluated first), [obind] otherwise.  [ofor_range body 0 n st] is
   `for i in range(n): body`: OBreak ends the loop normally, exhaustion of the range ends
   it normally, ORaise leaves it.  [otry body handler orelse] is
   `try: body  except RefineException: handler  else: orelse`: ONLY [XRefine] reaches the
   handler, every other exception [XOther] propagates -- the scope of the try block is
   the scope of the generated [otry].  [ofor_units] is `for _, f_iter in iterable:`; the
   locals are NOT reset between units (Python keeps them).

   EXCEPTIONS.  XRefine = RefineException.  XOther = anything else: scipy's ValueError
   for an infeasible box, the NameError of a local read before it is bound (rms_dev /
   result after zero iterations), LinAlgError of the Hessian inversion, the TypeError of
   `f[f_iter.index, cols_std] = np.nan` (see below).

   STATE [dstate].  One field per Python local of the translated region that is read
   after the statement that assigns it:
       f              d_f     : tbl  -- the ff.params columns and the 'cost' column of the
                                DataFrame (column major, rows by position), as in
                                Model/RefineDriver.v;  d_std: what was written to the
                                `<param>_std` columns (compute_error), as a write log
       params         d_raw   : the array read from the table (may hold NaN / inf);
                      d_params: its value once `np.isfinite(params).all()` passed, and
                                every later value.  The translator tracks which one a
                                statement may read (tags RAW / FIN) and refuses a read of
                                `params` at a place where it cannot tell.
       groups coords vect f_bounds    plain fields
       result rms_dev params_std      OPTION fields (None = not bound yet): they are
                                assigned only inside the recentring loop / under
                                `if compute_error` and read after it; EVERY read is
                                guarded (None -> ORaise XOther = NameError)
   new_coords, hessian, result_std are immutable `let`s of the block that assigns them.

   NAMED PRIMITIVES (= the oracles of Model/RefineDriver2.v; fields of [world]).
       prepare_subimages(coords, groups, frame_nos, frames, radius)
              w_prepare_subimages W k n coords : bool    k = number of the unit, n = _n_iter
              true = returns; false = raises RefineException (out of the image)
       ff.get_residual(...)    builds the closures; no effect here.  The translator checks
              that the statements of FitFunctions.get_residual OUTSIDE the two closures
              are the known exception-free ones (attribute reads, len, `cl_groups`), so
              nothing of the closures' arithmetic can raise at this call.
       minimize(residual, vect, bounds=f_bounds, constraints=.., jac=.., **_kwargs)
              scipy rejects an infeasible box (some lower bound above its upper bound)
              with ValueError: [box_empty] -> XOther.  Otherwise
              w_minimize W k n lo hi vect params coords : ores ;  OFail = result['success']
              false OR a RefineException raised by the residual inside minimize (both end
              in the handler; Model/RefineDriver2.v makes the same identification);
              OSucc x rms: result['x'] = x, sqrt(result['fun'] / residual_factor) = rms.
       Hessian(residual)(result['x']), np.sqrt(2 * np.diag(np.linalg.inv(hessian))),
       vect_to_params(result_std, np.empty(..), modes_std, groups)
              w_hessian / w_result_std / w_params_std ; None = raises (never a RefineException)
       the iterable, f_iter.index, groups
              a unit is [unit_t] = (row positions, grouping): f_iter.index = fst,
              the `groups` computed from id_names = snd (None at level 'cluster').
       vect_from_params(.., operation=np.mean) = pack 0 qmean ;  vect_to_params = unpack
              (C15's subject, Gen/fitpack.v);  ff.compute_bounds = the GENERATED
              Gen.bounds.compute_bounds applied to the validated bounds the loop is given.
       reader / frames access (norm, frame_nos), _wrap_constraints, logging: no effect on
              the table (constraints are not modelled: no generator passes any).

   PANDAS WRITES.  f.loc[f_iter.index, c] = v assigns v at the row positions of the unit
   ([scatter] / [write_cols]);  f[c] = v assigns v at EVERY row position of the table
   ([tbl_index]: the table has as many rows as its cost column).  Shape errors of pandas
   are not modelled.  `f[f_iter.index, cols_std] = np.nan` (level 'cluster', failed fit,
   compute_error=True) is NOT a .loc write: the key is a tuple holding an Index, pandas
   raises TypeError (unhashable) -- translated as what it does, ORaise XOther.
   No proofs in this file. *)
From Coq Require Import ZArith QArith List Bool Arith.
From TP Require Import Model.RefineBounds Model.RefineDriver Model.PyBounds.
Import ListNotations.
Open Scope Q_scope.

(* ---------- the world: arguments of refine_leastsq and the named primitives ---------- *)
Record world := {
  w_prepare_subimages : nat -> nat -> list (list Q) -> bool;
  w_minimize : nat -> nat -> list ext -> list ext -> list Q -> list (list Q) -> list (list Q) -> ores;
  w_hessian : nat -> list Q -> option (list (list Q));
  w_result_std : list (list Q) -> option (list Q);
  w_params_std : list Q -> list (list Q) -> grouping -> option (list (list Q));
  w_ff_params : list pkind;
  w_ff_modes : list nat;
  w_ndim : nat;
  w_max_iter : nat;
  w_max_shift : Q;
  w_max_rms_dev : Q;
  w_level_global : bool;       (* level == 'global' *)
  w_compute_error : bool
}.

(* ---------- state ---------- *)
Inductive stdw :=
| StdNaNAll                                             (* f[cols_std] = np.nan *)
| StdSetAll (v : list (list Q))                         (* f[cols_std] = params_std *)
| StdSetRows (idx : list nat) (v : list (list Q)).      (* f.loc[f_iter.index, cols_std] = params_std *)

Record dstate := {
  d_f : tbl;
  d_std : list stdw;
  d_raw : list (list ext);
  d_params : list (list Q);
  d_groups : grouping;
  d_coords : list (list Q);
  d_vect : list Q;
  d_f_bounds : list ext * list ext;
  d_result : option ores;
  d_rms_dev : option Q;
  d_params_std : option (list (list Q))
}.

Definition set_f (s : dstate) (v : tbl) : dstate :=
  {| d_f := v; d_std := d_std s; d_raw := d_raw s; d_params := d_params s; d_groups := d_groups s; d_coords := d_coords s;
     d_vect := d_vect s; d_f_bounds := d_f_bounds s; d_result := d_result s; d_rms_dev := d_rms_dev s; d_params_std := d_params_std s |}.
Definition set_std (s : dstate) (v : list stdw) : dstate :=
  {| d_f := d_f s; d_std := v; d_raw := d_raw s; d_params := d_params s; d_groups := d_groups s; d_coords := d_coords s;
     d_vect := d_vect s; d_f_bounds := d_f_bounds s; d_result := d_result s; d_rms_dev := d_rms_dev s; d_params_std := d_params_std s |}.
Definition set_raw (s : dstate) (v : list (list ext)) : dstate :=
  {| d_f := d_f s; d_std := d_std s; d_raw := v; d_params := d_params s; d_groups := d_groups s; d_coords := d_coords s;
     d_vect := d_vect s; d_f_bounds := d_f_bounds s; d_result := d_result s; d_rms_dev := d_rms_dev s; d_params_std := d_params_std s |}.
Definition set_params (s : dstate) (v : list (list Q)) : dstate :=
  {| d_f := d_f s; d_std := d_std s; d_raw := d_raw s; d_params := v; d_groups := d_groups s; d_coords := d_coords s;
     d_vect := d_vect s; d_f_bounds := d_f_bounds s; d_result := d_result s; d_rms_dev := d_rms_dev s; d_params_std := d_params_std s |}.
Definition set_groups (s : dstate) (v : grouping) : dstate :=
  {| d_f := d_f s; d_std := d_std s; d_raw := d_raw s; d_params := d_params s; d_groups := v; d_coords := d_coords s;
     d_vect := d_vect s; d_f_bounds := d_f_bounds s; d_result := d_result s; d_rms_dev := d_rms_dev s; d_params_std := d_params_std s |}.
Definition set_coords (s : dstate) (v : list (list Q)) : dstate :=
  {| d_f := d_f s; d_std := d_std s; d_raw := d_raw s; d_params := d_params s; d_groups := d_groups s; d_coords := v;
     d_vect := d_vect s; d_f_bounds := d_f_bounds s; d_result := d_result s; d_rms_dev := d_rms_dev s; d_params_std := d_params_std s |}.
Definition set_vect (s : dstate) (v : list Q) : dstate :=
  {| d_f := d_f s; d_std := d_std s; d_raw := d_raw s; d_params := d_params s; d_groups := d_groups s; d_coords := d_coords s;
     d_vect := v; d_f_bounds := d_f_bounds s; d_result := d_result s; d_rms_dev := d_rms_dev s; d_params_std := d_params_std s |}.
Definition set_f_bounds (s : dstate) (v : list ext * list ext) : dstate :=
  {| d_f := d_f s; d_std := d_std s; d_raw := d_raw s; d_params := d_params s; d_groups := d_groups s; d_coords := d_coords s;
     d_vect := d_vect s; d_f_bounds := v; d_result := d_result s; d_rms_dev := d_rms_dev s; d_params_std := d_params_std s |}.
Definition set_result (s : dstate) (v : option ores) : dstate :=
  {| d_f := d_f s; d_std := d_std s; d_raw := d_raw s; d_params := d_params s; d_groups := d_groups s; d_coords := d_coords s;
     d_vect := d_vect s; d_f_bounds := d_f_bounds s; d_result := v; d_rms_dev := d_rms_dev s; d_params_std := d_params_std s |}.
Definition set_rms_dev (s : dstate) (v : option Q) : dstate :=
  {| d_f := d_f s; d_std := d_std s; d_raw := d_raw s; d_params := d_params s; d_groups := d_groups s; d_coords := d_coords s;
     d_vect := d_vect s; d_f_bounds := d_f_bounds s; d_result := d_result s; d_rms_dev := v; d_params_std := d_params_std s |}.
Definition set_params_std (s : dstate) (v : option (list (list Q))) : dstate :=
  {| d_f := d_f s; d_std := d_std s; d_raw := d_raw s; d_params := d_params s; d_groups := d_groups s; d_coords := d_coords s;
     d_vect := d_vect s; d_f_bounds := d_f_bounds s; d_result := d_result s; d_rms_dev := d_rms_dev s; d_params_std := v |}.

(* the locals when the loop over units is entered: f is the table, nothing else is bound *)
Definition init_state (f : tbl) : dstate :=
  {| d_f := f; d_std := []; d_raw := []; d_params := []; d_groups := None; d_coords := []; d_vect := [];
     d_f_bounds := ([], []); d_result := None; d_rms_dev := None; d_params_std := None |}.

(* ---------- control ---------- *)
Inductive xexn := XRefine | XOther.
Inductive oc := ONormal (s : dstate) | OBreak (s : dstate) | ORaise (e : xexn) (s : dstate).

Definition obind (o : oc) (k : dstate -> oc) : oc :=
  match o with
  | ONormal s => k s
  | OBreak s => OBreak s
  | ORaise e s => ORaise e s
  end.

(* for i in range(..): body   -- i counts from n, fuel iterations left *)
Fixpoint ofor_range (body : nat -> dstate -> oc) (n fuel : nat) (s : dstate) : oc :=
  match fuel with
  | O => ONormal s
  | S fuel' =>
    match body n s with
    | ONormal s' => ofor_range body (S n) fuel' s'
    | OBreak s' => ONormal s'
    | ORaise e s' => ORaise e s'
    end
  end.

(* try: body / except RefineException: handler / else: orelse *)
Definition otry (body : oc) (handler orelse : dstate -> oc) : oc :=
  match body with
  | ONormal s => orelse s
  | OBreak s => OBreak s
  | ORaise XRefine s => handler s
  | ORaise XOther s => ORaise XOther s
  end.

(* for _, f_iter in iterable: body   -- k = number of the first unit of us *)
Fixpoint ofor_units (body : nat -> unit_t -> dstate -> oc) (k : nat) (us : list unit_t) (s : dstate) : oc :=
  match us with
  | [] => ONormal s
  | u :: us' =>
    match body k u s with
    | ONormal s' => ofor_units body (S k) us' s'
    | OBreak s' => ONormal s'
    | ORaise e s' => ORaise e s'
    end
  end.

(* `return f` after the loop: None = an exception left refine_leastsq *)
Definition fn_return_f (o : oc) : option tbl :=
  match o with
  | ONormal s | OBreak s => Some (d_f s)
  | ORaise _ _ => None
  end.

(* ---------- numpy ---------- *)
(* np.isfinite(params).all(), and the array known to be finite when it holds *)
Definition np_isfinite_all (a : list (list ext)) : option (list (list Q)) := all_fin2 a.
(* params[:, 2:2+ndim] *)
Definition params_coords (ndim : nat) (params : list (list Q)) : list (list Q) := coords_of ndim params.
Definition vect_from_params_mean (params : list (list Q)) (modes : list nat) (groups : grouping) : list Q :=
  pack 0 qmean modes groups params.
Definition vect_to_params (x : list Q) (params : list (list Q)) (modes : list nat) (groups : grouping) : list (list Q) :=
  unpack modes groups x params.
(* np.all(np.sum((new_coords - coords)**2, 1) < max_shift**2) *)
Definition np_all_shift_small (new_coords coords : list (list Q)) (max_shift : Q) : bool :=
  all_small new_coords coords max_shift.
(* a > b on finite floats *)
Definition float_gt (a b : Q) : bool := Qlt_b b a.

(* the OptimizeResult *)
Definition result_success (r : ores) : bool := match r with OFail => false | OSucc _ _ => true end.
Definition result_x (r : ores) : option (list Q) := match r with OFail => None | OSucc x _ => Some x end.
(* np.sqrt(result['fun'] / residual_factor) *)
Definition result_rms (r : ores) : option Q := match r with OFail => None | OSucc _ rms => Some rms end.
(* scipy: "An upper bound is less than the corresponding lower bound" -> ValueError *)
Definition scipy_rejects_bounds (b : list ext * list ext) : bool := box_empty (fst b) (snd b).

(* ---------- pandas ---------- *)
Definition f_iter_index (u : unit_t) : list nat := fst u.
Definition unit_groups (u : unit_t) : grouping := snd u.
(* f_iter[ff.params].values *)
Definition f_iter_values (f : tbl) (u : unit_t) : list (list ext) := map (select NaN (f_iter_index u)) (pcols f).
(* every row position of the table *)
Definition tbl_index (f : tbl) : list nat := seq 0 (length (cost f)).
(* f.loc[idx, 'cost'] = v  (scalar) *)
Definition loc_set_cost (f : tbl) (idx : list nat) (v : ext) : tbl :=
  {| pcols := pcols f; cost := scatter idx (repeat v (length idx)) (cost f) |}.
(* f.loc[idx, ff.params] = params *)
Definition loc_set_params (f : tbl) (idx : list nat) (params : list (list Q)) : tbl :=
  {| pcols := write_cols idx params (pcols f); cost := cost f |}.
(* f['cost'] = v ;  f[ff.params] = params *)
Definition setitem_cost (f : tbl) (v : ext) : tbl := loc_set_cost f (tbl_index f) v.
Definition setitem_params (f : tbl) (params : list (list Q)) : tbl := loc_set_params f (tbl_index f) params.
