(* Run-time vocabulary of Gen/linker_core.v, the file tools/py2coq_linker.py generates
   (route T) from the CURRENT source text of

     SubnetLinker.__init__ / SubnetLinker.do_recur   trackpy/linking/subnetlinker.py
     assign_subnet                                   trackpy/linking/subnet.py

   Hand-written and small.  The translation is statement by statement into a state and
   outcome passing style; this file says what each Python construct of the translated
   subset means.

   control     a statement (block) runs in a state S and ends in an [outcome]:
                 Normal s     fell through to the next statement
                 Continue s   `continue`           (consumed by the enclosing for)
                 Return s     `return`             (consumed by the end of the def)
                 Raise e      an exception         (never caught in the translated code)
               s1 ; s2            bind (s1) (fun state => s2)
               for x in l: body   for_each (fun x state => body) l state
               def ...            fn_end (body)  : result  (Done s | Fail e)
               f(...) statement   call (f ...)   : a Fail of the callee is raised
               recursion          explicit fuel; running out is Fail OutOfFuel
                                  (Proofs/LinkerGen.v: never happens with [recur_fuel])

   SubnetLinker object = record [linker] of the fields the methods use.
               np.inf             None of  zinf = option Z ; a finite sum v is Some v
               x > best_sum       gt_inf  ;  x < best_sum   lt_inf  (>= ge_inf, <= le_inf)
               set()              a list; membership is what is observed:
                                    .add(x) conses, `in` is existsb, .remove(x) deletes every
                                    copy and raises KeyError when there is none
               deque([])          a list, right end = end of the list: .append(x) / .pop()
                                    (IndexError on empty) ; list(d) copies
               s_lst[j]           nth_error, IndexError outside (j is a nat: no negative wrap)
               l.sort(key=k)      stable insertion sort on a nat key (list.sort is stable)
               a source point     Model.Link.item = (index, forward_cands); a candidate is
                                  Model.Assign.cand = (destination index or None, dist**2):
                                  `for cur_d, dist in cur_s.forward_cands` binds cur_d to the
                                  first component and the translator renders dist**2 (the only
                                  way dist may be used) as the second component.  So sums of
                                  squared distances are exact integers here; float rounding of
                                  cur_sum += / -= dist**2 is not modelled.

   assign_subnet: the heap it touches is Model.SubnetMerge.mst
               subnets            the dictionary  [subs]  id -> (source set, dest set)
               p.subnet           the attribute maps [ssub] (sources) / [dsub] (dests); value
                                  None = no binding
               subnets[i]         sfind, KeyError when absent; a None key is always absent
               subnets[i][k].add(p) / .update(t)
                                  the entry is written back with component k changed
                                  (sets of different entries are never aliased in subnet.py)
               del subnets[i]     sdel, KeyError when absent
               itertools.chain( *subnets[i])
                                  the sources of the entry, then its dests, as [vert]
   No proofs in this file. *)
From Coq Require Import ZArith List Bool Arith.
From TP Require Import Model.Assign Model.Link Model.SubnetMerge.
Import ListNotations.

Inductive exn := IndexError | KeyError | ValueError | SubnetOversizeException | OutOfFuel.

Inductive outcome (S : Type) :=
| Normal (s : S)
| Continue (s : S)
| Return (s : S)
| Raise (e : exn).
Arguments Normal {S} s.
Arguments Continue {S} s.
Arguments Return {S} s.
Arguments Raise {S} e.

Inductive fresult (S : Type) := Done (s : S) | Fail (e : exn).
Arguments Done {S} s.
Arguments Fail {S} e.

Definition bind {S : Type} (o : outcome S) (k : S -> outcome S) : outcome S :=
  match o with
  | Normal s => k s
  | Continue s => Continue s
  | Return s => Return s
  | Raise e => Raise e
  end.

Fixpoint for_each {A S : Type} (body : A -> S -> outcome S) (l : list A) (s : S) : outcome S :=
  match l with
  | [] => Normal s
  | x :: l' =>
    match body x s with
    | Normal s' => for_each body l' s'
    | Continue s' => for_each body l' s'
    | Return s' => Return s'
    | Raise e => Raise e
    end
  end.

(* end of a def without a return value; `continue` outside a loop is a SyntaxError, the
   translator refuses it, so the Continue line is never used *)
Definition fn_end {S : Type} (o : outcome S) : fresult S :=
  match o with
  | Normal s => Done s
  | Return s => Done s
  | Continue s => Done s
  | Raise e => Fail e
  end.

Definition call {S : Type} (r : fresult S) : outcome S :=
  match r with Done s => Normal s | Fail e => Raise e end.

Definition to_option {S : Type} (r : fresult S) : option S :=
  match r with Done s => Some s | Fail _ => None end.

(* ---------- numbers ---------- *)
Definition zinf := option Z.                                  (* None = np.inf *)
Definition gt_inf (x : Z) (b : zinf) : bool := match b with None => false | Some v => (v <? x)%Z end.
Definition lt_inf (x : Z) (b : zinf) : bool := match b with None => true | Some v => (x <? v)%Z end.
Definition ge_inf (x : Z) (b : zinf) : bool := match b with None => false | Some v => (v <=? x)%Z end.
Definition le_inf (x : Z) (b : zinf) : bool := match b with None => true | Some v => (x <=? v)%Z end.

(* ---------- set of destination indices ---------- *)
Definition pset := list nat.
Definition set_in (x : nat) (s : pset) : bool := existsb (Nat.eqb x) s.
Definition set_add (x : nat) (s : pset) : pset := x :: s.
Definition set_remove (x : nat) (s : pset) : option pset :=
  if set_in x s then Some (filter (fun y => negb (Nat.eqb x y)) s) else None.

(* ---------- deque ---------- *)
Definition deque_append {A : Type} (d : list A) (x : A) : list A := d ++ [x].
Definition deque_pop {A : Type} (d : list A) : option (list A) :=
  match d with [] => None | _ => Some (removelast d) end.
Definition deque_to_list {A : Type} (d : list A) : list A := d.

(* ---------- list.sort(key=...) : stable ---------- *)
Fixpoint insert_key {A : Type} (key : A -> nat) (x : A) (l : list A) : list A :=
  match l with
  | [] => [x]
  | y :: l' => if (key x <=? key y)%nat then x :: l else y :: insert_key key x l'
  end.
Definition sort_key {A : Type} (key : A -> nat) (l : list A) : list A :=
  fold_right (insert_key key) [] l.

(* ---------- the SubnetLinker object ---------- *)
Definition spoint := item.                                       (* (index, forward_cands) *)
Definition forward_cands (s : spoint) : list cand := snd s.
Definition spair := (spoint * option nat)%type.                   (* (cur_s, cur_d) *)

Record linker := mk_linker {
  max_size : nat;
  s_lst : list spoint;
  MAX : nat;
  best_pairs : option (list spair);
  cur_pairs : list spair;
  best_sum : zinf;
  d_taken : pset;
  cur_sum : Z
}.

(* the object before __init__ has assigned anything (the translator checks that __init__
   assigns every field before it is read, so these values are never observed) *)
Definition blank_linker : linker := mk_linker 0 [] 0 None [] None [] 0%Z.

Definition set_max_size (o : linker) (v : nat) : linker :=
  mk_linker v (s_lst o) (MAX o) (best_pairs o) (cur_pairs o) (best_sum o) (d_taken o) (cur_sum o).
Definition set_s_lst (o : linker) (v : list spoint) : linker :=
  mk_linker (max_size o) v (MAX o) (best_pairs o) (cur_pairs o) (best_sum o) (d_taken o) (cur_sum o).
Definition set_MAX (o : linker) (v : nat) : linker :=
  mk_linker (max_size o) (s_lst o) v (best_pairs o) (cur_pairs o) (best_sum o) (d_taken o) (cur_sum o).
Definition set_best_pairs (o : linker) (v : option (list spair)) : linker :=
  mk_linker (max_size o) (s_lst o) (MAX o) v (cur_pairs o) (best_sum o) (d_taken o) (cur_sum o).
Definition set_cur_pairs (o : linker) (v : list spair) : linker :=
  mk_linker (max_size o) (s_lst o) (MAX o) (best_pairs o) v (best_sum o) (d_taken o) (cur_sum o).
Definition set_best_sum (o : linker) (v : zinf) : linker :=
  mk_linker (max_size o) (s_lst o) (MAX o) (best_pairs o) (cur_pairs o) v (d_taken o) (cur_sum o).
Definition set_d_taken (o : linker) (v : pset) : linker :=
  mk_linker (max_size o) (s_lst o) (MAX o) (best_pairs o) (cur_pairs o) (best_sum o) v (cur_sum o).
Definition set_cur_sum (o : linker) (v : Z) : linker :=
  mk_linker (max_size o) (s_lst o) (MAX o) (best_pairs o) (cur_pairs o) (best_sum o) (d_taken o) v.

(* do_recur(j) nests one call per source: j = 0 .. MAX-1 *)
Definition recur_fuel (o : linker) : nat := S (length (s_lst o)).

(* ---------- assign_subnet: dictionary and point attributes ---------- *)
Definition vert := (nat + nat)%type.                          (* inl source | inr dest *)
Definition opt_eqb (a b : option nat) : bool :=
  match a, b with
  | None, None => true
  | Some x, Some y => Nat.eqb x y
  | _, _ => false
  end.
Definition is_none {A : Type} (a : option A) : bool := match a with None => true | Some _ => false end.

Definition get_subnet_src (st : mst) (s : nat) : option nat := alook s (ssub st).
Definition get_subnet_dst (st : mst) (d : nat) : option nat := alook d (dsub st).
Definition set_subs (st : mst) (v : list sn) : mst := {| subs := v; ssub := ssub st; dsub := dsub st |}.
Definition set_subnet_src (st : mst) (s i : nat) : mst :=
  {| subs := subs st; ssub := aset s i (ssub st); dsub := dsub st |}.
Definition set_subnet_dst (st : mst) (d i : nat) : mst :=
  {| subs := subs st; ssub := ssub st; dsub := aset d i (dsub st) |}.
Definition set_subnet_vert (st : mst) (p : vert) (i : nat) : mst :=
  match p with inl s => set_subnet_src st s i | inr d => set_subnet_dst st d i end.

Definition dict_get (st : mst) (i : nat) : option sets := sfind i (subs st).
Definition dict_put (st : mst) (i : nat) (v : sets) : mst := set_subs st (sput i v (subs st)).
Definition dict_del (st : mst) (i : nat) : option mst :=
  match sfind i (subs st) with Some _ => Some (set_subs st (sdel i (subs st))) | None => None end.
(* component k of an entry: 0 = the source set, 1 = the dest set *)
Definition ent_add0 (e : sets) (x : nat) : sets := (x :: fst e, snd e).
Definition ent_add1 (e : sets) (x : nat) : sets := (fst e, x :: snd e).
Definition ent_update0 (e : sets) (t : list nat) : sets := (fst e ++ t, snd e).
Definition ent_update1 (e : sets) (t : list nat) : sets := (fst e, snd e ++ t).
Definition chain_star (e : sets) : list vert := map inl (fst e) ++ map inr (snd e).
