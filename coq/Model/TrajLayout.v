(* Model of the *index layout* of the tables that trackpy's trajectory stages
   exchange, and of every stage as a function  schema -> outcome.

   A schema is what pandas' label lookup depends on: the names of the index
   levels (None = unnamed) and the column labels.  The pandas rule modelled
   (DataFrame._check_label_or_level_ambiguity, used by sort_values(by=name) and
   groupby(name)):   a name that is both an index level and a column label
   raises ValueError ("... which is ambiguous"); a name that is neither raises
   KeyError; df[name] looks at columns only and is never ambiguous.

   Stages follow the order of pandas calls in
     trackpy/utils.py (pandas_sort), trackpy/linking/linking.py (link),
     trackpy/linking/partial.py (link_partial), trackpy/filtering.py,
     trackpy/motion.py (compute_drift, subtract_drift, msd, imsd, emsd,
     relate_frames), trackpy/static.py (cluster, proximity)
   with default arguments (t_column='frame', pos_columns guessed: y, x).

   [version] selects, per repaired line, the code as it is now ([fixed]) or as it
   was before the `fix:` commits ([pinned]); nothing else differs.
   No proofs in this file. *)
From Coq Require Import String Ascii List Bool NArith.
Import ListNotations.
Local Open Scope string_scope.

Definition name := string.
Record schema := { idx : list (option name); cols : list name }.

Inductive outcome :=
| Ok (s : schema)
| Ambiguous          (* ValueError: 'x' is both an index level and a column label *)
| Missing.           (* KeyError / trackpy's ValueError for an absent column *)

Definition bind (o : outcome) (f : schema -> outcome) : outcome :=
  match o with Ok s => f s | e => e end.
Notation "o >>= f" := (bind o f) (at level 50, left associativity).

Record version := {
  sort_renames_multi : bool;   (* pandas_sort: elif df.index.nlevels > 1: rename clashing levels *)
  drift_sorts_copy : bool;     (* compute_drift: sort traj[cols].reset_index(drop=True), not traj *)
  imsd_resets : bool;          (* imsd: traj.reset_index(drop=True).groupby('particle') *)
  cluster_by_values : bool     (* cluster_iter: f.groupby(f[t_column].values) *)
}.
Definition fixed := {| sort_renames_multi := true; drift_sorts_copy := true;
                       imsd_resets := true; cluster_by_values := true |}.
Definition pinned := {| sort_renames_multi := false; drift_sorts_copy := false;
                        imsd_resets := false; cluster_by_values := false |}.

(* ---- python's  a in b  for strings ------------------------------------------ *)
Fixpoint is_prefix (a b : string) : bool :=
  match a, b with
  | EmptyString, _ => true
  | String x a', String y b' => Ascii.eqb x y && is_prefix a' b'
  | String _ _, EmptyString => false
  end.
Fixpoint is_substr (a b : string) : bool :=
  is_prefix a b || match b with EmptyString => false | String _ b' => is_substr a b' end.

(* ---- pandas primitives -------------------------------------------------------- *)
Definition has_col (c : name) (s : schema) : bool := existsb (String.eqb c) (cols s).
Definition is_level (c : name) (l : option name) : bool :=
  match l with Some n => String.eqb n c | None => false end.
Definition has_level (c : name) (s : schema) : bool := existsb (is_level c) (idx s).

(* df[c] *)
Definition getitem (c : name) (s : schema) : outcome := if has_col c s then Ok s else Missing.
Fixpoint getitems (cs : list name) (s : schema) : outcome :=
  match cs with [] => Ok s | c :: cs' => getitem c s >>= getitems cs' end.

(* label-or-level lookup of sort_values(by=c) / groupby(c) *)
Definition label (c : name) (s : schema) : outcome :=
  if has_col c s then (if has_level c s then Ambiguous else Ok s)
  else (if has_level c s then Ok s else Missing).
Fixpoint labels (cs : list name) (s : schema) : outcome :=
  match cs with [] => Ok s | c :: cs' => label c s >>= labels cs' end.

Definition reset_index_drop (s : schema) : outcome := Ok {| idx := [None]; cols := cols s |}.
(* df.set_index(keys, drop=False) *)
Definition set_index (keys : list name) (s : schema) : outcome :=
  getitems keys s >>= fun _ => Ok {| idx := map Some keys; cols := cols s |}.
(* df[cs] : selection of columns keeps the index *)
Definition select (cs : list name) (s : schema) : outcome :=
  getitems cs s >>= fun _ => Ok {| idx := idx s; cols := cs |}.
(* df[c] = values *)
Definition add_col (c : name) (s : schema) : outcome :=
  Ok (if has_col c s then s else {| idx := idx s; cols := (cols s ++ [c])%list |}).

(* ---- trackpy/utils.py : pandas_sort --------------------------------------------- *)
Inductive by_t := ByStr (s : string) | ByList (l : list string).
(* python: name in by   (substring test when by is a str, membership when a list) *)
Definition in_by (n : name) (b : by_t) : bool :=
  match b with ByStr s => is_substr n s | ByList l => existsb (String.eqb n) l end.
Definition by_keys (b : by_t) : list name := match b with ByStr s => [s] | ByList l => l end.
Definition rename (b : by_t) (n : name) : name := if in_by n b then n ++ "_index" else n.

Definition pandas_sort (v : version) (b : by_t) (s : schema) : outcome :=
  let idx' :=
    match idx s with
    | [Some n] => [Some (rename b n)]      (* if df.index.name is not None and df.index.name in by *)
    | [None] => [None]
    | l => if sort_renames_multi v         (* elif df.index.nlevels > 1 *)
           then map (option_map (rename b)) l else l
    end in
  labels (by_keys b) {| idx := idx'; cols := cols s |}.   (* df.sort_values(by=by) *)

(* ---- stages ------------------------------------------------------------------------ *)
Definition pos_columns : list name := ["y"; "x"].

(* link: f.copy(); f[t_column]; pandas_sort(f, t_column, inplace=True); coords_from_df; f['particle'] = ids *)
Definition st_link (v : version) (s : schema) : outcome :=
  getitems pos_columns s >>= getitem "frame" >>= pandas_sort v (ByStr "frame") >>= add_col "particle".

(* link_partial: f[t_column].min(); f.copy(); pandas_sort(f, t_column, inplace=True);
   'particle' in f / f['particle'] = -1; f.loc[f[t_column] == i, 'particle'] = ids; reconnect_traj_patch *)
Definition st_link_partial (v : version) (s : schema) : outcome :=
  getitems pos_columns s >>= getitem "frame" >>= pandas_sort v (ByStr "frame") >>= add_col "particle".

(* filter_stubs: tracks['frame']; tracks['particle']; reset_index(drop=True).groupby('particle')
   .filter(...); set_index('frame', drop=False) *)
Definition st_filter_stubs (v : version) (s : schema) : outcome :=
  getitem "frame" s >>= getitem "particle" >>= fun s0 =>
  reset_index_drop s0 >>= label "particle" >>= set_index ["frame"].

Definition st_filter_clusters (v : version) (s : schema) : outcome :=
  getitem "frame" s >>= getitem "particle" >>= getitem "size" >>= fun s0 =>
  reset_index_drop s0 >>= label "particle" >>= set_index ["frame"].

(* compute_drift: result is the drift table (index 'frame', position columns) *)
Definition drift_cols : list name := (pos_columns ++ ["particle"; "frame"])%list.
Definition st_compute_drift (v : version) (s : schema) : outcome :=
  (if drift_sorts_copy v
   then select drift_cols s >>= reset_index_drop >>= pandas_sort v (ByList ["particle"; "frame"])
   else pandas_sort v (ByList ["particle"; "frame"]) s >>= select drift_cols)
  (* f_diff = f_sort[...].diff(); rename frame->frame_diff; f_diff['frame'] = f_sort['frame'] *)
  >>= fun fs => Ok {| idx := idx fs; cols := (pos_columns ++ ["particle"; "frame_diff"; "frame"])%list |}
  (* f_diff.loc[mask, pos + ['frame']].groupby('frame').mean() *)
  >>= select (pos_columns ++ ["frame"])%list >>= label "frame"
  >>= fun _ => Ok {| idx := [Some "frame"]; cols := pos_columns |}.

(* subtract_drift: compute_drift(traj); traj.copy(); set_index(['frame','particle'], drop=False);
   sort_index(level='frame'); traj[col].sub(drift[col], level='frame') *)
Definition st_subtract_drift (v : version) (s : schema) : outcome :=
  st_compute_drift v s >>= fun _ =>
  (if has_col "particle" s then set_index ["frame"; "particle"] s else set_index ["frame"] s)
  >>= fun t => if has_level "frame" t then getitems pos_columns t else Missing.

(* msd: traj['frame']; traj[pos_columns]; (gap path) traj.set_index('frame')[pos_columns].
   Ok carries the caller's table, unchanged. *)
Definition st_msd (v : version) (s : schema) : outcome :=
  getitem "frame" s >>= getitems ["x"; "y"].

Definition st_imsd (v : version) (s : schema) : outcome :=
  (if imsd_resets v then reset_index_drop s else Ok s) >>= label "particle" >>= st_msd v
  >>= fun _ => Ok s.
Definition st_emsd (v : version) (s : schema) : outcome :=
  reset_index_drop s >>= label "particle" >>= st_msd v >>= fun _ => Ok s.

(* cluster: t_column in f; cluster_iter: groupby; f_frame[pos_columns]; result['cluster'] = ... *)
Definition st_cluster (v : version) (s : schema) : outcome :=
  (if cluster_by_values v then getitem "frame" s else label "frame" s)
  >>= getitems pos_columns >>= add_col "cluster" >>= add_col "cluster_size".

(* proximity: features[['x','y']]; 'particle' in features; features['particle'] *)
Definition st_proximity (v : version) (s : schema) : outcome := getitems ["x"; "y"] s.

(* relate_frames: t[t.frame == frame1]; a.set_index('particle')[pos_columns].join(...) *)
Definition st_relate_frames (v : version) (s : schema) : outcome :=
  getitem "frame" s >>= getitem "particle" >>= getitems ["x"; "y"].

Inductive producer := PLink | PLinkPartial | PFilterStubs | PFilterClusters | PSubtractDrift.
Inductive consumer :=
| CProd (p : producer) | CComputeDrift | CMsd | CImsd | CEmsd | CCluster | CProximity | CRelateFrames.

Definition run_producer (v : version) (p : producer) : schema -> outcome :=
  match p with
  | PLink => st_link v | PLinkPartial => st_link_partial v
  | PFilterStubs => st_filter_stubs v | PFilterClusters => st_filter_clusters v
  | PSubtractDrift => st_subtract_drift v
  end.
Definition run_consumer (v : version) (c : consumer) : schema -> outcome :=
  match c with
  | CProd p => run_producer v p
  | CComputeDrift => st_compute_drift v | CMsd => st_msd v | CImsd => st_imsd v
  | CEmsd => st_emsd v | CCluster => st_cluster v | CProximity => st_proximity v
  | CRelateFrames => st_relate_frames v
  end.

(* a pipeline is a list of producer calls, first call first *)
Fixpoint run_pipeline (v : version) (ps : list producer) (s : schema) : outcome :=
  match ps with
  | [] => Ok s
  | p :: ps' => run_producer v p s >>= run_pipeline v ps'
  end.

Definition all_producers := [PLink; PLinkPartial; PFilterStubs; PFilterClusters; PSubtractDrift].
Definition all_consumers :=
  (map CProd all_producers ++ [CComputeDrift; CMsd; CImsd; CEmsd; CCluster; CProximity; CRelateFrames])%list.

(* ---- correspondence entry point ------------------------------------------------------ *)
Definition producer_of (n : nat) : producer := nth n all_producers PLink.

Definition opt_name_eqb (a b : option name) : bool :=
  match a, b with Some x, Some y => String.eqb x y | None, None => true | _, _ => false end.
Fixpoint list_eqb {A} (e : A -> A -> bool) (l1 l2 : list A) : bool :=
  match l1, l2 with
  | [], [] => true
  | x :: l1', y :: l2' => e x y && list_eqb e l1' l2'
  | _, _ => false
  end.
Definition outcome_code (o : outcome) : N :=
  match o with Ok _ => 0%N | Ambiguous => 1%N | Missing => 2%N end.

(* case: start schema, pipeline (producer numbers), what pandas did with the pipeline
   (Some (index names, columns) / None = raised), and per consumer in all_consumers order the
   implementation's outcome code on the pipeline's result (0 accepted, 1 ambiguity
   ValueError, 2 KeyError-like).
   result: 0 agree; 1 pipeline raise/accept differs; 2 index names differ; 3 columns
   differ; 10+k consumer k differs *)
Fixpoint first_diff (k : N) (l1 l2 : list N) : N :=
  match l1, l2 with
  | x :: l1', y :: l2' => if N.eqb x y then first_diff (N.succ k) l1' l2' else k
  | [], [] => 0%N
  | _, _ => k
  end.
Definition check_layout (c : schema * list nat * option (list (option name) * list name) * list N) : N :=
  let '(s0, pipe, obs, cobs) := c in
  match run_pipeline fixed (map producer_of pipe) s0, obs with
  | Ok s, Some (names, columns) =>
    if negb (list_eqb opt_name_eqb (idx s) names) then 2%N
    else if negb (list_eqb String.eqb (cols s) columns) then 3%N
    else first_diff 10%N (map (fun c => outcome_code (run_consumer fixed c s)) all_consumers) cobs
  | Ok _, None => 1%N
  | _, Some _ => 1%N
  | _, None => 0%N
  end.
