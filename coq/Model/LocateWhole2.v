(* C09 -- the WHOLE locate with preprocess=True on a 2-D integer image, tail included, as a composition of the
   models that exist: executable model, no proofs in this file.

     image, scale_factor = convert_to_int(bandpass(raw_image, ...))        Model/PreprocessMoved.preprocess_stage
                                                                            (the GENERATED bandpass ; the GENERATED convert_to_int)
     coords  = grey_dilation(image, separation, percentile, margin)        Model/Equivariance.find_maxima on the PROCESSED image
     refined = refine_com(raw_image, image, radius, coords, ...)           Model/COM.refine_python: position, mass, size(s),
                                                                            signal on the processed image, raw_mass on the RAW image
     to_drop = where_close(refined[pos], separation, refined['mass'])      Model/LocateWhole.dedupe_out (mass BEFORE rescaling)
     refined['mass'] /= scale_factor                                       LocateTail.scale
     mass > minmass [& size < maxsize] ; topn                              LocateTail.passes ; LocateWhole.g_topn on mass / scale_factor
     black_level, noise = measure_noise(image, raw_image, radius)          Model/LocatePipe.measure_noise: the background pixels
                                                                            are those of the PROCESSED image, the values those of the RAW image
     ep = noise / (raw_mass - Npx * black_level) * noise_size * moments    Model/LocateTail.ep_row (= StaticError.locate_ep, C08)

   [gtail] is LocateWhole.tail_out with the filter and the mass column of the topn step as parameters;
   [tail_sf] instantiates it with the columns locate really compares: mass / scale_factor against minmass,
   size = sqrt(Rg^2) against maxsize (Model/LocatePipe.row_of; tail_out has scale factor 1 and compares size^2). *)
From Coq Require Import ZArith NArith QArith Qabs List Bool Arith String.
From TP Require Import Model.Dilation Model.COM Model.Equivariance Model.LocateTail Model.LocateWhole.
From TP Require Model.LocatePipe.
From TP Require Import Model.PyTail Model.PyLocatehead Model.PreprocessMoved.
Import ListNotations.
Open Scope Q_scope.

(* ------------------------------------------------- the tail, filter and topn column as parameters *)
Definition gtail (pass : output -> bool) (mass : output -> Q) (sep : list Q) (topn : option nat)
           (outs : list output) : list output :=
  g_topn output mass topn (filter pass (dedupe_out sep outs)).

(* the tie condition of Model/LocateWhole.no_tie for it: no two rows closer than separation have the same
   mass, and, when topn is given, no two rows that reach the topn step have the same value in the topn column *)
Definition no_tie_g (pass : output -> bool) (mass : output -> Q) (sep : list Q) (topn : option nat)
           (outs : list output) : bool :=
  no_close_tie sep outs &&
  match topn with
  | None => true
  | Some _ => forallb (fun xy => negb (Qeq_bool (mass (fst xy)) (mass (snd xy))))
                      (ordpairs (filter pass (dedupe_out sep outs)))
  end.

Section Whole2.
  Variable sqrtf : Q -> Q.                 (* np.sqrt *)

  (* the columns of locate's table the tail reads, for one row of refine_com's table:
     position, mass / scale_factor, size = sqrt(Rg^2) (isotropic), raw_mass *)
  Definition fin_row (sf : Q) (o : output) : row := scale sf (LocatePipe.row_of sqrtf o).

  (* T = (minmass, maxsize, topn): here t_maxsize is maxsize itself *)
  Definition pass_sf (T : tparams) (sf : Q) (o : output) : bool :=
    passes (t_minmass T) (t_maxsize T) (fin_row sf o).
  Definition mass_sf (sf : Q) (o : output) : Q := r_mass (fin_row sf o).

  Definition tail_sf (sep : list Q) (T : tparams) (sf : Q) (outs : list output) : list output :=
    gtail (pass_sf T sf) (mass_sf sf) sep (t_topn T) outs.
  Definition no_tie_sf (sep : list Q) (T : tparams) (sf : Q) (outs : list output) : bool :=
    no_tie_g (pass_sf T sf) (mass_sf sf) sep (t_topn T) outs.

  (* the static error columns of one kept row: black_level / noise measured on (processed image, raw image) *)
  Definition ep_of (radius : list Z) (noise_size : list Q) (ch : bool) (im raw : image) (r : row) : list fval :=
    let nb := if ch then LocatePipe.measure_noise sqrtf im raw radius else (None, None) in
    ep_row (snd nb) (fst nb) (inject_Z (LocatePipe.n_mask radius))
           (if ch then LocatePipe.ep_consts sqrtf radius noise_size else []) r.

  (* one line of the final table: refine_com's row (ALL its columns: position, mass before rescaling, size(s)^2,
     signal, raw_mass), the columns the tail reads after rescaling, the ep column(s) *)
  Definition wline := (output * row * list fval)%type.

  Definition whole_table (sep : list Q) (T : tparams) (sf : Q) (radius : list Z) (noise_size : list Q) (ch : bool)
             (im raw : image) (outs : list output) : list wline :=
    map (fun o => (o, fin_row sf o, ep_of radius noise_size ch im raw (fin_row sf o))) (tail_sf sep T sf outs).

  (* refine_com(raw_image, image, ...) at the maxima of the processed image *)
  Definition refine_rows2 (percentile : list Z -> Q) (P : Equivariance.lparams) (raw im : image) : list output :=
    map (refine_python (pix im) (pix raw) (lp_radius P) (shape im) (lp_thresh P) (lp_maxit P) (lp_char P))
        (find_maxima percentile P im).

  (* locate(raw, ..., preprocess=True) after the validation of its arguments: P = (separation, margin, radius, 0.6,
     max_iterations, characterize), T = (minmass, maxsize, topn), the validated noise_size / smoothing_size, the
     threshold.  (The refusals KeyError 'size' -- maxsize with characterize=False -- and ValueError for an anisotropic
     diameter with maxsize are those of Model/LocatePipe.locate_on and are not repeated here.) *)
  Definition locate_pre_whole (percentile : list Z -> Q) (np_exp : Q -> Q) (dt : int_dtype)
             (P : Equivariance.lparams) (T : tparams) (noise_size : list Q) (smoothing_size : list Z) (threshold : Q)
             (raw : image) : res (Q * list wline) :=
    rbind (preprocess_stage np_exp dt raw noise_size smoothing_size threshold) (fun x =>
    rbind (img_as_int (snd x)) (fun im =>
    ROk (fst x, whole_table (lp_sep P) T (fst x) (lp_radius P) noise_size (lp_char P) im raw
                            (refine_rows2 percentile P raw im)))).
End Whole2.

(* ------------------------------------------------------------ the row relations of the theorems *)
(* line b is line a, d further: refine_com's row moved (every other column of it IDENTICAL), the rescaled mass the
   same number, size and raw_mass identical *)
Definition wline_moved (d : list Z) (a b : wline) : Prop :=
  match a, b with
  | (oa, ra, _), (ob, rb, _) =>
      row_moved d oa ob /\ pos_moved d (r_pos ra) (r_pos rb) /\
      r_mass rb == r_mass ra /\ r_size rb = r_size ra /\ r_raw rb = r_raw ra
  end.

(* equal as float64 values (rationals compared by ==); StaticError.feq restated on LocateTail.fval *)
Definition fval_eq (a b : fval) : Prop :=
  match a, b with
  | FNaN, FNaN => True | FPInf, FPInf => True | FNInf, FNInf => True
  | FVal x, FVal y => x == y
  | _, _ => False
  end.

(* ... and the same static error *)
Definition wline_moved_ep (d : list Z) (a b : wline) : Prop :=
  wline_moved d a b /\ Forall2 fval_eq (snd a) (snd b).
