(* C20, route T: a LAYOUT interpretation of the pandas interface of Gen/drift.v.

   tools/py2coq_drift.py translates compute_drift / subtract_drift (trackpy/motion.py) and its own
   copy of guess_pos_columns into Gen/drift.v, polymorphic in the record [PyDrift.pandas]
   (Model/PyDrift.v).  C18 reads that record as DriftI (the numbers).  Here it is read as
   [SchemaDI]: a table is what Model/TrajLayout.v says a table is for C20 -- the names of its index
   levels and its column labels -- so that the GENERATED compute_drift / subtract_drift can stand
   in C20's composition theorems next to the generated filters (Gen/filtering.v, SchemaI).

   Gen/drift.v is not monadic (C18's interpretation leaves KeyError out), so here every table-like
   carrier is [res schema]: a primitive applied to a raised exception is that exception, and a
   primitive that pandas would refuse (a label that is no column: KeyError; a `by` / groupby key
   that is both a level and a column: the ambiguity ValueError) raises.  One consequence, stated
   where it matters (Proofs/TrajGenDrift.v): `for col in drift.columns` over a drift table that
   was NOT computed is an empty loop, so subtract_drift's layout is only claimed when
   compute_drift accepts the table.

     p_pandas_sort      IS the generated pandas_sort of Gen/filtering.v read in SchemaI
                        (by = a list of labels, no inplace: the returned table)
     p_select / p_reset_index_drop / p_set_index_keep / p_loc / p_groupby
                        Model/TrajLayout.v's select / reset_index_drop / set_index / select / label
     p_getitem* / p_curve_getitem / p_diff_getitem      the label must be a column
     p_diff, p_copy, p_rolling_mean, p_cumsum, p_eq_int   layout unchanged
     p_rename_column    the label is replaced in place
     p_setitem*         the column is appended when new (TrajLayout.add_col)
     p_gb_mean          index = the key, columns = the others
     p_sort_index_level the level must exist
   No proofs in this file. *)
From Coq Require Import ZArith QArith String List Bool.
From TP Require Import Model.TrajLayout Model.PyFiltering Gen.filtering.
From TP Require Model.PyDrift.
Import ListNotations.
Local Open Scope string_scope.

Definition rschema := res schema.
Definition col_check (T : rschema) (c : name) : res unit :=
  rbind T (fun s => if has_col c s then ROk tt else RRaise EKeyError).
Definition rename_col (old new : name) (s : schema) : schema :=
  {| idx := idx s; cols := map (fun n => if String.eqb n old then new else n) (cols s) |}.
Definition drop_col (k : name) (s : schema) : list name := filter (fun n => negb (String.eqb n k)) (cols s).

Definition SchemaDI : PyDrift.pandas := {|
  PyDrift.DataFrame := rschema;
  PyDrift.DiffFrame := rschema;
  PyDrift.DGroupBy := res (schema * name);
  PyDrift.Curve := rschema;
  PyDrift.ISeries := res unit;
  PyDrift.Mask := res unit;
  PyDrift.PSeries := res unit;
  PyDrift.CSeries := res unit;
  PyDrift.p_has_column := fun T c => match T with ROk s => has_col c s | RRaise _ => false end;
  PyDrift.p_select := fun T names => rbind T (fun s => of_outcome (select names s));
  PyDrift.p_reset_index_drop := fun T => rbind T (fun s => of_outcome (TrajLayout.reset_index_drop s));
  PyDrift.p_pandas_sort := fun T by_ =>
    rbind T (fun s => rbind (py_pandas_sort SchemaI s (ByList by_) false)
                            (fun r => match snd r with Some t => ROk t | None => RRaise EUnmodelled end));
  PyDrift.p_getitem_int := col_check;
  PyDrift.p_diff := fun T => T;
  PyDrift.p_rename_column := fun d old new => rbind d (fun s => ROk (rename_col old new s));
  PyDrift.p_setitem_int := fun d c ser => rbind ser (fun _ => rbind d (fun s => of_outcome (add_col c s)));
  PyDrift.p_diff_getitem := col_check;
  PyDrift.p_eq_int := fun s _ => s;
  PyDrift.p_mask_and := fun m1 m2 => rbind m1 (fun _ => m2);
  PyDrift.p_loc := fun d m names => rbind m (fun _ => rbind d (fun s => of_outcome (select names s)));
  PyDrift.p_groupby := fun d k => rbind d (fun s => rbind (of_outcome (label k s)) (fun s' => ROk (s', k)));
  PyDrift.p_gb_mean := fun g => rbind g (fun sk => ROk {| idx := [Some (snd sk)]; cols := drop_col (snd sk) (fst sk) |});
  PyDrift.p_rolling_mean := fun c _ => c;
  PyDrift.p_cumsum := fun c => c;
  PyDrift.p_copy := fun T => T;
  PyDrift.p_set_index_keep := fun T names => rbind T (fun s => of_outcome (TrajLayout.set_index names s));
  PyDrift.p_sort_index_level := fun T c => rbind T (fun s => if has_level c s then ROk s else RRaise EKeyError);
  PyDrift.p_columns := fun c => match c with ROk s => cols s | RRaise _ => [] end;
  PyDrift.p_getitem := col_check;
  PyDrift.p_curve_getitem := col_check;
  PyDrift.p_sub_fill0_level := fun s o _ => rbind s (fun _ => o);
  PyDrift.p_setitem := fun T c ser => rbind ser (fun _ => rbind T (fun s => of_outcome (add_col c s)))
|}.
