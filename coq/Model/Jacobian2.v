(* C15 (gradient, final composition) -- model of the two closures returned by
   trackpy/refine/least_squares.py : FitFunctions.get_residual (lines 273-341)
   as functions of the packed optimisation vector `vect`:

     residual(vect) : params = vect_to_params(vect, params_const, modes, groups)
                      result = sum over clusters of nansum(diff**2)/len(image);  result / norm
     jacobian(vect) : params = vect_to_params(...);  result = params.copy()
                      per cluster: result[indices, 1:] = nansum(-2*diff*derivs, axis=2)/len(image)
                                   result[indices, 0]  = nansum(-2*diff)/(n_cluster*len(image))
                      vect_from_params(result, modes, groups, operation=np.sum) / norm

   over the real numbers.  The per-cluster pieces (diff_at, cluster_residual,
   grad_entry, grad_bg) are those of Model/Jacobian.v, the packing functions
   those of Model/Pack.v at A := R.  No proofs in this file. *)
From Coq Require Import Reals List Arith.
From TP Require Import Gen.fitfun Model.Pack Model.Jacobian.
Import ListNotations.
Open Scope R_scope.

(* element-wise combination of two 1-d arrays *)
Fixpoint zipw {A B C : Type} (h : A -> B -> C) (a : list A) (b : list B) : list C :=
  match a, b with
  | x :: a', y :: b' => h x y :: zipw h a' b'
  | _, _ => []
  end.

(* the point  p + t * dp  of the straight line through p with direction dp *)
Definition line (p dp : list R) (t : R) : list R := zipw (fun a b => a + t * b) p dp.

(* v with component k replaced by s *)
Fixpoint upd (v : list R) (k : nat) (s : R) : list R :=
  match v, k with
  | [], _ => []
  | _ :: r, O => s :: r
  | a :: r, S k' => a :: upd r k' s
  end.

(* params[i]  (params held as the list of its columns) *)
Definition row_of (cols : list (list R)) (i : nat) : list R := map (fun c => nth i c 0) cols.

(* One cluster = one element of zip(cl_groups, images, meshes, masks).
   X is the pixel type.
     cl_idx        indices            (rows of `params` of the features of the cluster)
     cl_pix        the pixels of the sub-image that survive np.nansum
     cl_len        len(image)
     cl_img x      image[x]
     cl_val i x p  signal * model_fun(r2_fun(mesh[:, x], p), p[-n_fun_params:], ndim) for p = params[i]
                   where mask_i[x], 0 elsewhere           (what is subtracted from diff[x])
     cl_row i x p  derivs[j, :, x] for the feature with row i and p = params[i]
                   (zeros where not mask_i[x])
   mesh, mask, the model function and ndim are folded into cl_val / cl_row;
   Proofs/Jacobian2.v instantiates them with the generated functions of Gen/fitfun.v. *)
Record cluster (X : Type) := mkCluster {
  cl_idx : list nat;
  cl_pix : list X;
  cl_len : R;
  cl_img : X -> R;
  cl_val : nat -> X -> list R -> R;
  cl_row : nat -> X -> list R -> list R
}.
Arguments mkCluster {X}.
Arguments cl_idx {X}. Arguments cl_pix {X}. Arguments cl_len {X}.
Arguments cl_img {X}. Arguments cl_val {X}. Arguments cl_row {X}.

(* if groups is None: cl_groups = [np.arange(n)]  else: cl_groups = groups[0] *)
Definition cl_groups_of (groups : groups_t) (n : nat) : list (list nat) :=
  match groups with
  | None => [seq 0 n]
  | Some gs => nth 0 gs []
  end.

Section Assembly.
Context {X : Type}.
Variable cls : list (cluster X).        (* zip(cl_groups, images, meshes, masks) *)
Variable groups : groups_t.
Variable n : nat.                       (* params_const.shape[0] *)
Variable modes : list nat.              (* self.modes, one per column of params *)
Variable cols0 : list (list R).         (* params_const, as columns *)
Variable norm : R.

(* background = params[indices[0], 0] *)
Definition bg_of (c : cluster X) (P : list (list R)) : R :=
  nth (hd 0%nat (cl_idx c)) (nth 0 P []) 0.

(* what one feature subtracts from diff, as a function of (row i, pixel x) *)
Definition vals_of (c : cluster X) (P : list (list R)) : nat -> X -> R :=
  fun i x => cl_val c i x (row_of P i).
Definition rows_of (c : cluster X) (P : list (list R)) : nat -> X -> list R :=
  fun i x => cl_row c i x (row_of P i).

(* for ... in zip(cl_groups, ...): result += np.nansum(diff**2) / len(image);  return result / norm *)
Definition residual_at (P : list (list R)) : R :=
  sumR (map (fun c => cluster_residual (cl_pix c) (cl_idx c) (cl_len c) (cl_img c)
                                        (bg_of c P) (vals_of c P)) cls) / norm.

(* residual(vect); a Python exception inside vect_to_params is rendered as 0
   (excluded by the hypotheses of the theorems) *)
Definition residual (v : list R) : R :=
  match unpack groups n modes v cols0 with
  | Some (P, _) => residual_at P
  | None => 0
  end.

(* the array `result` of jacobian(), as a function (column k, row i).
   One loop iteration writes the rows `indices` of every column:
     column 0     <- nansum(-2*diff) / (n_cluster*len(image))
     column 1+k'  <- nansum(-2*diff*derivs[j, k', :]) / len(image)   for the feature j with row i *)
Definition jac_write (P : list (list R)) (A : nat -> nat -> R) (c : cluster X) : nat -> nat -> R :=
  fun k i =>
    if in_dec Nat.eq_dec i (cl_idx c) then
      match k with
      | O => grad_bg (cl_pix c) (cl_idx c) (cl_len c) (cl_img c) (bg_of c P) (vals_of c P)
      | S k' => grad_entry (cl_pix c) (cl_idx c) (cl_len c) (cl_img c) (bg_of c P) (vals_of c P)
                           (rows_of c P) i k'
      end
    else A k i.

(* result = params.copy(); then the loop over the clusters in order *)
Definition jac_arr (P : list (list R)) : nat -> nat -> R :=
  fold_left (jac_write P) cls (fun k i => nth i (nth k P []) 0).

(* back to the list-of-columns representation of Model/Pack.v *)
Definition to_cols (nv : nat) (A : nat -> nat -> R) : list (list R) :=
  map (fun k => map (fun i => A k i) (seq 0 n)) (seq 0 nv).

(* jacobian(vect) = vect_from_params(result, modes, groups, operation=np.sum) / norm *)
Definition jacobian (v : list R) : option (list R) :=
  match unpack groups n modes v cols0 with
  | Some (P, _) =>
      match pack np_sum groups modes (to_cols (length modes) (jac_arr P)) with
      | Some g => Some (map (fun a => a / norm) g)
      | None => None
      end
  | None => None
  end.

End Assembly.

(* ---- the built-in per-pixel functions, in the shape of cl_val / cl_row ----
   A geometry is one (r2_fun, dr2_fun) pair: `g_np` = number of position+size
   parameters (the slice p[2 : 2+g_np] of a row), r2 / dr2 as functions of the
   pixel's mesh coordinates `m` and that slice. *)
Record geometry := mkGeom {
  g_np : nat;
  g_r2 : list R -> list R -> R;
  g_dr2 : list R -> list R -> list R
}.

Definition geom_iso2d : geometry := mkGeom 3
  (fun m q => r2_isotropic_2d (nth 0 m 0) (nth 1 m 0) (nth 0 q 0) (nth 1 q 0) (nth 2 q 0))
  (fun m q => dr2_isotropic_2d (nth 0 m 0) (nth 1 m 0) (nth 0 q 0) (nth 1 q 0) (nth 2 q 0)).
Definition geom_iso3d : geometry := mkGeom 4
  (fun m q => r2_isotropic_3d (nth 0 m 0) (nth 1 m 0) (nth 2 m 0)
                                          (nth 0 q 0) (nth 1 q 0) (nth 2 q 0) (nth 3 q 0))
  (fun m q => dr2_isotropic_3d (nth 0 m 0) (nth 1 m 0) (nth 2 m 0)
                                           (nth 0 q 0) (nth 1 q 0) (nth 2 q 0) (nth 3 q 0)).
Definition geom_aniso2d : geometry := mkGeom 4
  (fun m q => r2_anisotropic_2d (nth 0 m 0) (nth 1 m 0) (nth 0 q 0) (nth 1 q 0) (nth 2 q 0) (nth 3 q 0))
  (fun m q => dr2_anisotropic_2d (nth 0 m 0) (nth 1 m 0) (nth 0 q 0) (nth 1 q 0) (nth 2 q 0) (nth 3 q 0)).
Definition geom_aniso3d : geometry := mkGeom 6
  (fun m q => r2_anisotropic_3d (nth 0 m 0) (nth 1 m 0) (nth 2 m 0)
                (nth 0 q 0) (nth 1 q 0) (nth 2 q 0) (nth 3 q 0) (nth 4 q 0) (nth 5 q 0))
  (fun m q => dr2_anisotropic_3d (nth 0 m 0) (nth 1 m 0) (nth 2 m 0)
                (nth 0 q 0) (nth 1 q 0) (nth 2 q 0) (nth 3 q 0) (nth 4 q 0) (nth 5 q 0)).

(* p[2 : 2+g_np] *)
Definition geo_slice (G : geometry) (p : list R) : list R := firstn (g_np G) (skipn 2 p).

(* gauss: params = (background, signal, <pos>, <size>), no extra model parameter.
   `mesh x` = mesh[:, x], `mask i x` = masks_cl[j][x] for the feature with row i *)
Definition gauss_val {X : Type} (G : geometry) (ndim : R) (mesh : X -> list R) (mask : nat -> X -> bool)
           (i : nat) (x : X) (p : list R) : R :=
  if mask i x then nth 1 p 0 * gauss_fun (g_r2 G (mesh x) (geo_slice G p)) ndim else 0.
Definition gauss_row {X : Type} (G : geometry) (ndim : R) (mesh : X -> list R) (mask : nat -> X -> bool)
           (i : nat) (x : X) (p : list R) : list R :=
  if mask i x then derivs_row (nth 1 p 0) (gauss_dfun (g_r2 G (mesh x) (geo_slice G p)) ndim)
                              (g_dr2 G (mesh x) (geo_slice G p))
  else [].

(* ring: params = (background, signal, <pos>, <size>, thickness) *)
Definition ring_val {X : Type} (G : geometry) (ndim : R) (mesh : X -> list R) (mask : nat -> X -> bool)
           (i : nat) (x : X) (p : list R) : R :=
  if mask i x then nth 1 p 0 * ring_fun (g_r2 G (mesh x) (geo_slice G p)) (nth (2 + g_np G) p 0) ndim
  else 0.
Definition ring_row {X : Type} (G : geometry) (ndim : R) (mesh : X -> list R) (mask : nat -> X -> bool)
           (i : nat) (x : X) (p : list R) : list R :=
  if mask i x then derivs_row (nth 1 p 0)
                     (ring_dfun (g_r2 G (mesh x) (geo_slice G p)) (nth (2 + g_np G) p 0) ndim)
                     (g_dr2 G (mesh x) (geo_slice G p))
  else [].
