(* C13: executable checkers used by the harness (vp/props/c13.py) on the
   implementation's observed behaviour.  Soundness is proved in Proofs/Partial.v.
   No proofs in this file. *)
From Coq Require Import ZArith NArith List Bool.
From TP Require Import Model.Partial.
Import ListNotations.
Open Scope Z_scope.

Definition nodup_nat (l : list nat) : bool :=
  (fix go (l : list nat) : bool :=
     match l with [] => true | x :: t => negb (existsb (Nat.eqb x) t) && go t end) l.

Definition all_pairs (p : row -> row -> bool) (T : list row) : bool :=
  forallb (fun r1 => forallb (fun r2 => p r1 r2) T) T.

(* hypotheses the property grants: row ids distinct, s < e, valid old labelling,
   valid in-range labelling, rows outside the range untouched *)
Definition old_nonnegb (T : list row) : bool := forallb (fun r => 0 <=? oldp r) T.
Definition old_uniqueb (T : list row) : bool :=
  all_pairs (fun r1 r2 => implb ((frame r1 =? frame r2) && (oldp r1 =? oldp r2)) (Nat.eqb (rid r1) (rid r2))) T.
Definition old_contigb (T : list row) : bool :=
  all_pairs (fun r1 r2 =>
    implb (oldp r1 =? oldp r2)
          (forallb (fun t => existsb (fun r => (frame r =? t) && (oldp r =? oldp r1)) T)
                   (Zrange (frame r1) (frame r2 + 1)))) T.
Definition new_uniqueb (T : list row) (s e : Z) : bool :=
  all_pairs (fun r1 r2 =>
    implb (in_patch s e r1 && in_patch s e r2 && (frame r1 =? frame r2) && (part r1 =? part r2))
          (Nat.eqb (rid r1) (rid r2))) T.
Definition untouchedb (T : list row) (s e : Z) : bool :=
  forallb (fun r => in_patch s e r || (part r =? oldp r)) T.

Definition hyps_ok (T : list row) (s e : Z) : bool :=
  nodup_nat (map rid T) && (s <? e) && old_nonnegb T && old_uniqueb T && old_contigb T
  && new_uniqueb T s e && untouchedb T s e.

(* two labellings of the same rows induce the same partition *)
Definition same_partition (l1 l2 : list Z) : bool :=
  Nat.eqb (length l1) (length l2) &&
  let l := combine l1 l2 in
  forallb (fun p => forallb (fun q => Bool.eqb (fst p =? fst q) (snd p =? snd q)) l) l.

(* the monitor: observed labels [lab] (one per row of T, in T's order) satisfy
   the specification *)
Definition monitor (T : list row) (s e : Z) (lab : list Z) : bool :=
  hyps_ok T s e && Nat.eqb (length lab) (length T) &&
  match reconnect T s e with
  | POk out => same_partition (map part out) lab
  | PRaises _ => false
  end.

(* labels unique per frame, checked directly *)
Definition uniqueb (T : list row) (lab : list Z) : bool :=
  let l := combine T lab in
  forallb (fun p => forallb (fun q =>
     implb ((frame (fst p) =? frame (fst q)) && (snd p =? snd q)) (Nat.eqb (rid (fst p)) (rid (fst q)))) l) l.

(* ---- one correspondence case ------------------------------------------------
   tin   : the caller's table, row k = (frame, label) 
   lr    : the requested link_range
   order : the row order of the implementation's output (positions in tin)
   ids   : what link_iter yielded inside link_partial: (frame number, ids)
   lab   : the implementation's final labels, in output order
   result code: 0 ok; 20 ok but the old labelling is not valid (nothing claimed);
   otherwise the first failed clause *)
Definition mk_rows (tin : list (Z * Z)) : list row :=
  map (fun kp => mkrow (fst kp) (fst (snd kp)) (snd (snd kp)) (snd (snd kp)))
      (combine (seq 0 (length tin)) tin).

Fixpoint sorted_frames (l : list row) : bool :=
  match l with
  | [] => true
  | r :: t => match t with [] => true | r' :: _ => (frame r <=? frame r') && sorted_frames t end
  end.

Fixpoint insert_nat (x : nat) (l : list nat) : list nat :=
  match l with [] => [x] | y :: t => if Nat.leb x y then x :: l else y :: insert_nat x t end.
Definition is_perm_of_seq (order : list nat) (n : nat) : bool :=
  if list_eq_dec Nat.eq_dec (fold_right insert_nat [] order) (seq 0 n) then true else false.

Definition linker_of (ids : list (Z * list Z)) (i : Z) : list Z :=
  match find (fun p => fst p =? i) ids with Some p => snd p | None => [] end.

Definition dummy_row := mkrow 0 0 0 0.
Definition eq_listZ (l1 l2 : list Z) : bool := if list_eq_dec Z.eq_dec l1 l2 then true else false.

Definition check_case (tin : list (Z * Z)) (lr : Z * Z) (order : list nat)
           (ids : list (Z * list Z)) (lab : list Z) (raised : bool) : N :=
  let f := mk_rows tin in
  match frame_span f with
  | None => if raised then 0%N else 1%N
  | Some (lo, hi) =>
    if negb (is_perm_of_seq order (length tin)) then (if raised then 0%N else 2%N) else
    let t := map (fun k => nth k f dummy_row) order in
    if negb (sorted_frames t) then 3%N else
    let (s, e) := clamp lo hi lr in
    let linker := linker_of ids in
    match patch lo hi t lr linker with
    | PRaises _ => if raised then 0%N else 4%N      (* model raises, implementation returned *)
    | POk out =>
      if raised then 5%N else                        (* implementation raised, model returns *)
      if negb (eq_listZ (map fst ids) (Zrange s e)) then 6%N else   (* frames handed to link_iter *)
      if negb (Nat.eqb (length lab) (length out)) then 7%N else
      match relinked lo hi t lr linker with
      | None => 8%N
      | Some T =>
        if negb (hyps_ok T s e) then 20%N else
        if negb (uniqueb T lab) then 9%N else                       (* duplicate label in a frame *)
        if negb (same_partition (map part out) lab) then 10%N else  (* grouping differs from the model *)
        if (if ((lo <? s) || (e <? hi))%bool then negb (monitor T s e lab) else false) then 11%N else 0%N
      end
    end
  end.
