(* C10, route T: how the arguments / results of the GENERATED functions
   (Gen/preproc.v: py_gaussian_kernel, py_lowpass, py_boxcar, py_bandpass) are read
   as parameters / results of the hand model Model/Bandpass.v, for the statements of
   Proofs/BandpassGen.v.  Definitions only, no proofs.

   The generated py_gaussian_kernel calls np.exp (its parameter np_exp : Q -> Q) on
   x**2 / (-2*sigma**2) for the integer offsets x; the hand model reads a table
   expo = [exp(-n^2/(2 sigma^2)) | n = 0, 1, ..].  [exp_table] is that table built from
   np_exp, long enough for the half-width int(truncate*sigma + 0.5). *)
From Coq Require Import ZArith QArith List Bool String.
From TP Require Import Model.Bandpass Model.PyPreproc.
Import ListNotations.
Open Scope Q_scope.

(* the argument handed to np.exp for the integer offset n:  n**2 / (-2 * sigma**2) *)
Definition exp_arg (sigma : Q) (n : Z) : Q := py_div (inject_Z (Z.pow n 2)) ((- (2)) * (sigma ^ 2)).

Definition exp_table (np_exp : Q -> Q) (sigma truncate : Q) : list Q :=
  map (fun k => np_exp (exp_arg sigma (Z.of_nat k))) (seq 0 (Z.to_nat (half_width sigma truncate + 1))).

(* per-axis parameters of the hand model from one entry of lshort and of llong *)
Definition axis_of (np_exp : Q -> Q) (truncate lshort : Q) (llong : Z) : axis_par :=
  mkpar lshort (exp_table np_exp lshort truncate) llong.

(* the two messages of preprocessing.py *)
Definition MSG_SCALE : string := "The smoothing length scale must be larger than the noise length scale.".
Definition MSG_ODD : string := "Smoothing size must be an odd integer. Round up.".

Definition res_of_outcome {A} (r : outcome A) : pyres A :=
  match r with
  | Ok a => Ret a
  | ErrScale => RaiseValueError MSG_SCALE
  | ErrEven => RaiseValueError MSG_ODD
  end.
Definition res_of_option {A} (r : option A) : pyres A :=
  match r with Some a => Ret a | None => RaiseValueError MSG_ODD end.

(* "By default, 1 for integer images and 1/255 for float images" *)
Definition default_threshold (d : np_dtype) : Q :=
  match d with np_integer_dtype => 1 | np_float_dtype => 1 # 255 end.
Definition effective_threshold (d : np_dtype) (threshold : option Q) : Q :=
  match threshold with Some t => t | None => default_threshold d end.

(* the hand model's bandpass over the array interface (bandpass2 / bandpass3 are its
   instances at nd2 / nd3, Proofs/BandpassGen.v bandpass2_is_g / bandpass3_is_g) *)
Definition bandpass_g {A} (nd : ndarray A) (truncate : Q) (pars : list axis_par) (threshold : Q) (image : A) : outcome A :=
  if guard pars then ErrScale
  else match boxcar_g (nd_along nd) pars image with
       | None => ErrEven
       | Some background =>
           Ok (nd_map nd (clip threshold) (nd_map2 nd Qminus (lowpass_g (nd_along nd) truncate pars image) background))
       end.
