(* C11, route T: what ties Gen/predict.v (generated from trackpy/predict.py, linking/subnet.py,
   linking/linking.py, linking/utils.py) to the hand-written model (Model/Link.v, Model/Predict.v).
   Definitions only; the proofs are in Proofs/PredictGen.v.

   - [same_obs]/[represents]: when a Linker object (record [linker], with its heap of Points)
     stands for a model state [lstate]: the points of self.hash followed by the memory set (in
     iteration order) are the live sources, attribute by attribute (pos, t, track id).
   - [gen_level]: the reads Subnets.compute makes after Linker.update_hash
     (source_hash.query(dest_hash.coords_mapped, ..) -> self.tree): the ONLY hand-written glue;
     everything it calls is generated.
   - [items_of_coords]: the candidate lists of the model's link step as a function of the
     source COORDINATES only.
   - [pred_of_ufunc], [pred_of_vpred]: the model predictor (nat -> src -> pt) a Python predictor is.
   - [lf_run], [wrap_spec]: what NullPredict.wrap does, written out.
   - [lf_model]: the model's link step as a linking function (one frame in, one labelled frame out). *)
From Coq Require Import String ZArith List Bool.
From TP Require Import Model.Assign Model.Link Model.Predict Model.PyPredict Gen.predict.
Import ListNotations.
Open Scope Z_scope.

(* ---- representation ---------------------------------------------------------------- *)
Definition same_obs (tags : list Z) (p : point) (s : src) : Prop :=
  p_pos p = s_pos s /\ p_t p = tag tags (s_seen s) /\ p_track p = Some (s_lab s).

Definition point_of (tags : list Z) (s : src) : point :=
  {| p_t := tag tags (s_seen s); p_pos := s_pos s; p_track := Some (s_lab s); p_fc := [] |}.

Definition eucl_of (e : option (list pt -> list pt)) : list pt -> list pt :=
  match e with None => fun x => x | Some f => f end.

(* the source points of the next step: self.hash.points, then the memory set as iterated *)
Definition source_pids (ord : list pid -> list pid) (L : linker) (h : hash) : list pid :=
  h_points h ++ set_iter ord (l_mem_set L).

Record represents (ord : list pid -> list pid) (tags : list Z) (L : linker) (h : hash) (st : lstate) : Prop := {
  rep_ndim : l_ndim L <> None;
  rep_hash : l_hash L = Some h;
  rep_dist : l_dist_func L = None;
  rep_fresh : h_predictor h = None;                       (* as HashKDTree.__init__ leaves it *)
  rep_eucl : h_to_eucl h = eucl_of (l_to_eucl L);
  (* a tree cached from the previous step (built when this hash was the destination) is the tree of
     the stored positions *)
  rep_cache : h_clean h = true ->
              h_kdtree h = Some (match h_points h with
                                 | [] => None
                                 | _ :: _ => Some (cKDTree (h_to_eucl h (map (fun p => p_pos (deref (l_heap L) p)) (h_points h))) 15)
                                 end);
  rep_valid : Forall (fun i => (i < length (l_heap L))%nat) (source_pids ord L h);
  rep_obs : Forall2 (same_obs tags) (derefs (l_heap L) (source_pids ord L h)) (live st) }.

(* a vectorised predictor that works particle by particle *)
Definition elementwise (P : vpred) (f : tval -> point -> pt) : Prop :=
  forall t l, P t l = POk (map (f t) l).

(* ---- the reads of Subnets.compute after update_hash ---------------------------------- *)
Record level := {
  lv_linker : linker;          (* the Linker afterwards *)
  lv_src_hash : hash;          (* prev_hash, tree built *)
  lv_dst_hash : hash;          (* the new self.hash, tree built *)
  lv_src_coords : list pt;     (* the data of the source tree: what candidates are searched FROM *)
  lv_dst_coords : list pt }.   (* dest_hash.coords_mapped: what they are searched FOR *)

Definition gen_level (ord : list pid -> list pid) (L : linker) (coords : list pt) (t : Z) : pres level :=
  bind (py_Linker_update_hash ord L coords t None) (fun '(L1, prev) =>
  match prev, l_hash L1 with
  | Some ph, Some dh =>
    bind (py_HashKDTree_coords_mapped (l_heap L1) dh) (fun '(dh1, dc) =>
    bind (py_HashKDTree_tree (l_heap L1) ph) (fun '(ph1, tr) =>
    POk {| lv_linker := L1; lv_src_hash := ph1; lv_dst_hash := dh1;
           lv_src_coords := match tr with Some k => tree_data k | None => [] end; lv_dst_coords := dc |}))
  | _, _ => PRaises AttributeError
  end).

(* ---- the model's candidate lists from coordinates ------------------------------------- *)
Definition items_of_coords (m : metric) (sc : list pt) (ds : list pt) : list item :=
  mapi_from (fun i sp => (i, cands_of m (mR2 m) sp ds)) 0 sc.

(* ---- Python predictors as model predictors -------------------------------------------- *)
Definition pred_of_ufunc (f : tval -> point -> pt) (tags : list Z) (t1 : nat) (s : src) : pt :=
  f (Some (tag tags t1)) (point_of tags s).

Definition pred_of_vpred (P : vpred) (tags : list Z) (t1 : nat) (s : src) : pt :=
  match P (Some (tag tags t1)) [point_of tags s] with POk [p] => p | _ => s_pos s end.

Definition pred_of_opt (P : option vpred) (tags : list Z) : nat -> src -> pt :=
  match P with None => no_pred | Some P => pred_of_vpred P tags end.

(* exact extrapolation by v per frame, as a property of a single-particle predictor function *)
Definition exact_drift (v : pt) (f : tval -> point -> pt) : Prop :=
  forall t1 p, f (Some t1) p = shift (scale (t1 - p_t p) v) (p_pos p).

(* ---- NullPredict.wrap written out ------------------------------------------------------ *)
Fixpoint lf_run (lf : linkfn) (s : lf_state lf) (P : option vpred) (frames : list frame) : pres (list frame) :=
  match frames with
  | [] => POk []
  | f :: fs =>
    bind (lf_step lf s P f) (fun r =>
    bind (lf_run lf (snd r) P fs) (fun out => POk (fst r :: out)))
  end.

(* the predictor NullPredict hands to the linker: every particle stays where it was seen *)
Definition null_vpred : vpred := fun _ particles => POk (map p_pos particles).

(* pos_columns: the predictor's own if it has them (they must then agree with an explicit kw
   value), else kw's, else guessed from the first frame *)
Definition wrap_pos_columns (self : predobj) (kw : kwargs) (f0 : frame) : pres (option (list string)) :=
  match o_pos_columns self with
  | Some pc =>
    match kw_pos_columns kw with
    | Some (Some kpc) => if any_ne_zip pc kpc then PRaises ValueError else POk (Some pc)
    | _ => POk (Some pc)
    end
  | None => POk (kw_get_default (kw_pos_columns kw) (Some (guess_pos_columns f0)))
  end.

Definition wrap_kw (cls : predclass) (kw : kwargs) (pc : option (list string)) : kwargs :=
  {| kw_predictor := Some (c_predict cls); kw_pos_columns := Some pc; kw_t_column := kw_t_column kw; kw_rest := kw_rest kw |}.

Definition wrap_self (self : predobj) (kw : kwargs) (pc : option (list string)) : predobj :=
  {| o_already_linked := true; o_pos_columns := pc;
     o_t_column := kw_get_default (kw_t_column kw) (Some "frame"%string);
     o_recent_frames := o_recent_frames self; o_vel := o_vel self |}.

(* (gen_end: a StopIteration escaping the generator body -- from next() on an empty iterator or from
   the linking function -- surfaces as RuntimeError) *)
Definition wrap_spec (self : predobj) (lf : linkfn) (args : list argv) (kw : kwargs) : pres (predobj * list frame) :=
  gen_end
  match args with
  | [] => PRaises IndexError
  | AFrames [] :: _ => PRaises StopIteration
  | AFrames (f0 :: fs) :: rest =>
    bind (wrap_pos_columns self kw f0) (fun pc =>
    bind (lf_init lf rest (wrap_kw NullPredict_cls kw pc)) (fun s =>
    bind (lf_run lf s (Some null_vpred) (f0 :: fs)) (fun out =>
    POk (wrap_self self kw pc, out))))
  | _ :: _ => PRaises TypeError
  end.

(* ---- the model's link step as a linking function ---------------------------------------- *)
Definition frame_pts (f : frame) : list pt := map w_pos (fr_rows f).
Fixpoint set_labels (rows : list frow) (labs : list nat) : list frow :=
  match rows, labs with
  | r :: rows', l :: labs' => {| w_t := w_t r; w_pos := w_pos r; w_particle := Some l |} :: set_labels rows' labs'
  | _, _ => []
  end.
Definition labelled (f : frame) (labs : list nat) : frame :=
  {| fr_cols := fr_cols f; fr_rows := set_labels (fr_rows f) labs |}.
Definition frame_labels (f : frame) : list nat :=
  flat_map (fun r => match w_particle r with Some l => [l] | None => [] end) (fr_rows f).

(* SubnetOversizeException is outside PyPredict's exception list: the model's Oversize is reported as
   RuntimeError here; the theorems about lf_model only speak about runs that do not raise *)
Definition lf_model (m : metric) (mem max_size : nat) (tags : list Z) : linkfn :=
  {| lf_state := option lstate;
     lf_init := fun _ _ => POk None;
     lf_step := fun s P f =>
       match s with
       | None => let (st, labs) := init_state (frame_pts f) in POk (labelled f labs, Some st)
       | Some st =>
         match link_step m mem max_size (pred_of_opt P tags) st (frame_pts f) with
         | Ok (st', labs) => POk (labelled f labs, Some st')
         | Oversize => PRaises RuntimeError
         end
       end |}.
