(* C01, route T: the generated coords_from_df (Gen/coords.v) run on the correspondence cases of
   vp/props/c01.py, next to the implementation it was translated from.  No proofs. *)
From Coq Require Import String ZArith NArith List Bool.
From TP Require Import Model.Assign Model.Link Model.LinkTable Model.CoordsFromDf Model.PyCoords Gen.coords.
Import ListNotations.
Open Scope Z_scope.

(* the harness' table: column x carries the row number, column frame the frame number *)
Definition cfd_table (rows : list row) : DataFrame :=
  {| df_columns := ["x"; "frame"]%string; df_float := [];
     df_rows := map (fun r => {| d_id := r_id r; d_cells := [("x"%string, Z.of_nat (r_id r)); ("frame"%string, r_frame r)] |}) rows |}.
Definition pos_id (p : pt) : nat := match p with [v] => Z.to_nat v | _ => 0%nat end.
(* 0 = the generated code yields the row groups the implementation yields, for the same frame numbers;
   1 = different groups; 2 = different frame numbers; 3 = the generated code raises *)
Definition check_cfd_gen (rows : list row) (out : list (Z * list nat)) : N :=
  match py_coords_from_df (cfd_table rows) ["x"%string] "frame"%string with
  | ROk l =>
    if negb (ids_eqb (map (fun p => map pos_id (snd p)) l) (map snd out)) then 1%N
    else if list_eq_dec Z.eq_dec (map fst l) (map fst out) then 0%N else 2%N
  | RRaise _ => 3%N
  end.
