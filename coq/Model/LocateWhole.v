(* C09 -- the WHOLE integer, preprocess=False locate pipeline, tail included, and batch
   with a chunked worker pool.  Executable model; no proofs in this file.

   (1) locate (feature.py:381-428), integer image, preprocess=False:
         coords  = grey_dilation(image, separation, percentile, margin, precise=False)   Model/Equivariance.find_maxima
         refined = refine_com(raw_image, image, radius, coords, ...)                     Model/Equivariance.refine_at
         to_drop = where_close(refined[pos_columns], separation, refined['mass'])        Model/LocateTail.where_close
         refined.drop(to_drop); reset_index                                              Model/LocateTail.drop_rows
         mass /= scale_factor          (scale_factor = 1 for an integer image: nothing changes)
         condition = mass > minmass [& size < maxsize] ; .loc[condition]                 Model/LocateTail.passes
         topn: iloc[[argmax(mass)]] / iloc[argsort(mass)[-topn:]]                        g_topn below
       [where_close], [drop_rows], [passes] are the definitions of the C08 model, applied to the
       rows of the refinement model; [g_topn] is LocateTail.topn_sel with the row type
       and its mass column as parameters (Proofs/LocateWhole.tail_out_is_C08_tail: on
       LocateTail's rows the two coincide).

       which member of a pair closer than separation is dropped (find.py:42-51, LocateTail.loser):
         the one with the smaller mass; on EQUAL mass the one with the smaller sum of rescaled
         coordinates; on equal sums the one that comes first in the table.
       The static error ep (measure_noise: float mean/std of the background) is not part of
       this model.

   (2) batch (feature.py:563-590) over Pool.imap with a chunk size: tasks 0..n-1 are cut
       into chunks of c consecutive tasks, every chunk is computed by some worker, chunks
       complete in an arbitrary order, the consumer takes the results by task number.
       Whether locate saw the frame_no attribute may differ from task to task (it depends
       on the frame class surviving pickling); the parent process reads frames[i].frame_no
       itself (Model/Equivariance.batch_loop, reused). *)
From Coq Require Import ZArith NArith QArith Qabs List Bool Arith.
From TP Require Import Model.Dilation Model.COM Model.Equivariance Model.LocateTail.
Import ListNotations.
Open Scope Q_scope.

(* ------------------------------------------------ refine_com's table as tail rows *)
Definition out_mass (o : output) : Q := inject_Z (o_mass o).
(* the 'size' column exists for an isotropic diameter only (else size_y, size_x, ...; locate
   raises ValueError when maxsize is given with an anisotropic diameter).  The model's entry is size^2 (Model/COM.v), so t_maxsize below is
   maxsize^2: size < maxsize  <->  size^2 < maxsize^2  for the non-negative sizes. *)
Definition out_size (o : output) : Q :=
  match o_char o with Some ([s], _, _) => s | _ => 0 end.
Definition out_raw (o : output) : Q :=
  match o_char o with Some (_, _, raw) => inject_Z raw | None => 0 end.
Definition to_row (o : output) : row := mkrow (o_pos o) (out_mass o) (out_size o) (out_raw o).

Record tparams := mkTP {
  t_minmass : Q;              (* minmass *)
  t_maxsize : option Q;       (* None | Some (maxsize^2) *)
  t_topn : option nat }.      (* topn *)

(* ------------------------------------------------------------ duplicate removal *)
Definition dedupe_out (sep : list Q) (outs : list output) : list output :=
  if forallb (Qltb 0) sep
  then drop_rows (where_close sep (map (fun o => (o_pos o, out_mass o)) outs)) outs
  else outs.

(* ------------------------------------------------------------------- filters *)
Definition pass_out (T : tparams) (o : output) : bool := passes (t_minmass T) (t_maxsize T) (to_row o).

(* LocateTail.ins / sort_mass / argmax_from / topn_sel, row type and mass column as parameters *)
Section Topn.
  Variable A : Type.
  Variable mass : A -> Q.

  Fixpoint g_ins (x : A) (l : list A) : list A :=
    match l with
    | [] => [x]
    | y :: t => if Qle_bool (mass x) (mass y) then x :: l else y :: g_ins x t
    end.
  Definition g_sort (l : list A) : list A := fold_right g_ins [] l.

  Fixpoint g_argmax_from (best : A) (l : list A) : A :=
    match l with
    | [] => best
    | y :: t => if Qltb (mass best) (mass y) then g_argmax_from y t else g_argmax_from best t
    end.

  Definition g_topn (topn : option nat) (l : list A) : list A :=
    match topn with
    | None => l
    | Some n =>
        if (length l <=? n)%nat then l
        else if (n =? 1)%nat then match l with [] => [] | b :: t => [g_argmax_from b t] end
        else lastn n (g_sort l)
    end.
End Topn.

(* -------------------------------------------------------------- the whole tail *)
Definition tail_out (sep : list Q) (T : tparams) (outs : list output) : list output :=
  g_topn output out_mass (t_topn T) (filter (pass_out T) (dedupe_out sep outs)).

Definition locate_whole (percentile : list Z -> Q) (P : lparams) (T : tparams) (im : image) : list output :=
  tail_out (lp_sep P) T (locate_discrete percentile P im).

(* ------------------------------------------------------------ the tie conditions *)
(* no two rows of refine's table that are closer than separation have the same mass
   (then where_close never consults the coordinate sums or the row order) *)
Definition no_close_tie (sep : list Q) (outs : list output) : bool :=
  forallb (fun xy => negb (close sep (o_pos (fst xy)) (o_pos (snd xy)) &&
                           Qeq_bool (out_mass (fst xy)) (out_mass (snd xy))))
          (ordpairs outs).
(* no two rows have the same mass *)
Definition no_mass_tie (outs : list output) : bool :=
  forallb (fun xy => negb (Qeq_bool (out_mass (fst xy)) (out_mass (snd xy)))) (ordpairs outs).
(* the hypothesis of the equivariance theorems: no tie among close rows, and, when topn is
   given, no two of the rows that reach the topn step have the same mass (argsort / argmax
   would break that tie by row order) *)
Definition no_tie (sep : list Q) (T : tparams) (outs : list output) : bool :=
  no_close_tie sep outs &&
  match t_topn T with
  | None => true
  | Some _ => no_mass_tie (filter (pass_out T) (dedupe_out sep outs))
  end.

(* ------------------------------------------------------------------------ batch *)
Section BatchPool.
  Variables frame row : Type.
  Variable locate : frame -> list row.
  Variable frame_no : frame -> option nat.

  (* Pool.imap(func, iterable, chunksize = c): chunk k holds the tasks k*c .. k*c + c - 1;
     [csched] is the order in which chunks are completed; [g i] is what the worker that
     received task i computes for it *)
  Definition run_pool {A B} (c : nat) (csched : list nat) (g : nat -> A -> B) (xs : list A) : list (option B) :=
    let completed :=
      flat_map (fun k => flat_map (fun i => match nth_error xs i with Some x => [(i, g i x)] | None => [] end)
                                  (seq (k * c) c)) csched in
    map (fun i => option_map snd (find (fun r => Nat.eqb (fst r) i) completed)) (seq 0 (length xs)).

  (* [seen i]: did locate, where task i ran, see the frame_no attribute *)
  Definition batch_pool (c : nat) (csched : list nat) (seen : nat -> bool) (frames : list frame) : list (row * nat) :=
    concat (batch_loop frame row frame_no frames 0
                       (run_pool c csched (fun i => located frame row locate frame_no (seen i)) frames) []).

  (* the property's words when every frame carries its number: locate on each frame,
     every row tagged with THE FRAME'S OWN frame_no, concatenated in the order given *)
  Definition tagged_own (no : frame -> nat) (frames : list frame) : list (row * nat) :=
    flat_map (fun f => map (fun x => (x, no f)) (locate f)) frames.
End BatchPool.
