(* trackpy/static.py edge-correction formulas over the reals (scalar instances
   of the numpy expressions).  Not executable; no proofs in this file. *)
From Coq Require Import Reals.
Open Scope R_scope.

(* def circle_cap_arclen(h, r): return 2*r*np.arccos(h / r) *)
Definition circle_cap_arclen (h r : R) : R := 2 * r * acos (h / r).

(* def circle_corner_arclen(h1, h2, r): return r*(np.arccos(h2 / r) - np.arcsin(h1 / r)) *)
Definition circle_corner_arclen (h1 h2 r : R) : R := r * (acos (h2 / r) - asin (h1 / r)).

(* def sphere_cap_area(h, r): return 2*np.pi*r*(r-h) *)
Definition sphere_cap_area (h r : R) : R := 2 * PI * r * (r - h).

(* def sphere_edge_area(x, y, r) *)
Definition sphere_edge_area (x y r : R) : R :=
  let p := sqrt (r * r - x * x - y * y) in
  ((r - x - y) * PI - 2 * r * atan (x * y / (p * r)) + 2 * x * atan (y / p) + 2 * y * atan (x / p)) * r.

(* def sphere_corner_area(x, y, z, r) *)
Definition sphere_corner_area (x y z r : R) : R :=
  let pxy := sqrt (r * r - x * x - y * y) in
  let pyz := sqrt (r * r - y * y - z * z) in
  let pxz := sqrt (r * r - x * x - z * z) in
  (PI * (r - x - y - z) / 2 +
   x * (atan (y / pxy) + atan (z / pxz)) - r * atan (y * z / (r * pyz)) +
   y * (atan (x / pxy) + atan (z / pyz)) - r * atan (x * z / (r * pxz)) +
   z * (atan (x / pxz) + atan (y / pyz)) - r * atan (x * y / (r * pxy))) * r.

(* arclen_2d_bounded for one (dist, pos) row, h = the four wall distances
   [left, right, bottom, top]; masks as conditionals *)
Definition cap_term (h r : R) : R := if Rlt_dec h r then circle_cap_arclen h r else 0.
Definition corner_term (h1 h2 r : R) : R :=
  if Rlt_dec (h1 * h1 + h2 * h2) (r * r) then circle_corner_arclen h1 h2 r else 0.
Definition arclen_2d (r hl hr hb ht : R) : R :=
  2 * PI * r - cap_term hl r - cap_term hr r - cap_term hb r - cap_term ht r
  + corner_term hl hb r + corner_term hl ht r + corner_term hr hb r + corner_term hr ht r.
