(* C15 (packing) -- executable model of
     trackpy/refine/least_squares.py : vect_from_params  (pack)
     trackpy/refine/least_squares.py : vect_to_params    (unpack)
   polymorphic in the element type A (instantiated at Z for the correspondence
   run and at R for the gradient theorems).

   Representation.  `params` is an (n x n_vars) array; both Python functions
   only ever touch it column-wise (`params[:, i]`, `params[group, i]`), so the
   model holds it as the list of its columns: `cols = [params[:,0]; params[:,1]; ...]`,
   every column a list of length n (n = params.shape[0] is passed explicitly,
   it cannot be recovered when n_vars = 0).
   `modes`   : list nat   (0 const, 1 var, 2 global, 3+k -> groups[k]; 3 = cluster)
   `groups`  : option (list (list (list nat)))   (None = Python `groups=None`)
   `op`      : option (list A -> option A)       (None = Python `operation=None`:
               "take the first one"; Some f = np.sum / np.min / np.max ...,
               f l = None when the numpy reduction raises, e.g. np.min([]))
   A Python exception (ValueError for missing groups, IndexError, the shape
   asserts, numpy broadcasting errors) is the result None.

   The loops run over the columns in order, exactly as `for i, mode in
   enumerate(modes)`; `unpack` threads `rest = vect[current:]` instead of the
   integer `current`.  No proofs in this file. *)
From Coq Require Import List Arith Bool.
Import ListNotations.

Definition groups_t := option (list (list (list nat))).

Fixpoint opt_map {B C : Type} (f : B -> option C) (l : list B) : option (list C) :=
  match l with
  | [] => Some []
  | b :: r => match f b, opt_map f r with
              | Some c, Some cs => Some (c :: cs)
              | _, _ => None
              end
  end.

Section Pack.
Context {A : Type}.

(* `mode == 2 or groups is None` (reached only when mode is neither 0 nor 1):
   Some groups_this / the "take only one" branch / ValueError *)
Inductive sel := TakeOne | Groups (gt : list (list nat)) | NoGroups.

Definition select (groups : groups_t) (mode : nat) : sel :=
  match mode, groups with
  | 2, _ => TakeOne
  | _, None => TakeOne
  | _, Some gs => match nth_error gs (mode - 3) with
                  | Some gt => Groups gt
                  | None => NoGroups
                  end
  end.

(* params[group, i] : numpy fancy indexing, IndexError when out of range *)
Definition gather (col : list A) (g : list nat) : option (list A) :=
  opt_map (fun j => nth_error col j) g.

(* params[g[0], i] *)
Definition first_of (col : list A) (g : list nat) : option A :=
  match g with [] => None | j :: _ => nth_error col j end.

(* ---------------- vect_from_params ---------------- *)
Definition pack_col (op : option (list A -> option A)) (groups : groups_t)
           (mode : nat) (col : list A) : option (list A) :=
  match mode with
  | 0 => Some []                                   (* skip: it is constant *)
  | 1 => Some col                                  (* take all *)
  | _ =>
    match select groups mode with
    | TakeOne =>                                   (* take only one *)
        match op with
        | None => option_map (fun a => [a]) (nth_error col 0)      (* params[0, i] *)
        | Some f => option_map (fun a => [a]) (f col)              (* operation(params[:, i]) *)
        end
    | NoGroups => None
    | Groups gt =>
        match op with
        | None => opt_map (first_of col) gt         (* params[[g[0] for g in groups_this], i] *)
        | Some f => opt_map (fun g => match gather col g with
                                      | Some vals => f vals
                                      | None => None
                                      end) gt
        end
    end
  end.

(* np.concatenate over the columns in order; len(modes) == n_vars asserted *)
Fixpoint pack (op : option (list A -> option A)) (groups : groups_t)
         (modes : list nat) (cols : list (list A)) : option (list A) :=
  match modes, cols with
  | [], [] => Some []
  | m :: ms, c :: cs =>
      match pack_col op groups m c, pack op groups ms cs with
      | Some a, Some b => Some (a ++ b)
      | _, _ => None
      end
  | _, _ => None
  end.

(* ---------------- vect_to_params ---------------- *)
(* result[:, i] = s   (numpy broadcasts a length-1 right-hand side) *)
Definition set_col (n : nat) (s : list A) : option (list A) :=
  if length s =? n then Some s
  else match s with
       | [a] => Some (repeat a n)
       | _ => None
       end.

Fixpoint set_idx (col : list A) (j : nat) (v : A) : option (list A) :=
  match col, j with
  | [], _ => None
  | _ :: r, 0 => Some (v :: r)
  | a :: r, S j' => option_map (cons a) (set_idx r j' v)
  end.

(* result[group, i] = value *)
Fixpoint set_group (col : list A) (g : list nat) (v : A) : option (list A) :=
  match g with
  | [] => Some col
  | j :: g' => match set_idx col j v with
               | Some c => set_group c g' v
               | None => None
               end
  end.

(* for group, value in zip(groups_this, vect[current:current+len(groups_this)]) *)
Fixpoint assign_groups (col : list A) (gt : list (list nat)) (vals : list A) : option (list A) :=
  match gt, vals with
  | g :: gt', v :: vals' => match set_group col g v with
                            | Some c => assign_groups c gt' vals'
                            | None => None
                            end
  | _, _ => Some col                               (* zip stops at the shorter one *)
  end.

(* one loop iteration: (new column, vect[current':]) *)
Definition unpack_col (groups : groups_t) (n : nat) (mode : nat)
           (rest : list A) (col : list A) : option (list A * list A) :=
  match mode with
  | 0 => Some (col, rest)
  | 1 => match set_col n (firstn n rest) with
         | Some c => Some (c, skipn n rest)
         | None => None
         end
  | _ =>
    match select groups mode with
    | TakeOne => match rest with
                 | [] => None                      (* vect[current]: IndexError *)
                 | a :: rest' => Some (repeat a n, rest')
                 end
    | NoGroups => None
    | Groups gt =>
        match assign_groups col gt (firstn (length gt) rest) with
        | Some c => Some (c, skipn (length gt) rest)
        | None => None
        end
    end
  end.

(* returns the new columns and the unread tail of the vector *)
Fixpoint unpack (groups : groups_t) (n : nat) (modes : list nat)
         (rest : list A) (cols : list (list A)) : option (list (list A) * list A) :=
  match modes, cols with
  | [], [] => Some ([], rest)
  | m :: ms, c :: cs =>
      match unpack_col groups n m rest c with
      | Some (c', rest') =>
          match unpack groups n ms rest' cs with
          | Some (cs', rest'') => Some (c' :: cs', rest'')
          | None => None
          end
      | None => None
      end
  | _, _ => None
  end.

(* length of the optimisation vector *)
Definition packed_len_col (groups : groups_t) (n : nat) (mode : nat) : nat :=
  match mode with
  | 0 => 0
  | 1 => n
  | _ => match select groups mode with
         | TakeOne => 1
         | Groups gt => length gt
         | NoGroups => 0
         end
  end.

Definition packed_len (groups : groups_t) (n : nat) (modes : list nat) : nat :=
  fold_right (fun m acc => packed_len_col groups n m + acc) 0 modes.

End Pack.
