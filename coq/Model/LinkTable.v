(* Model of trackpy.link's table adapter (linking.py: link; utils.py: coords_from_df):
   rows are split into one coordinate list per frame number in [min, max] (missing
   numbers give empty frames), stable within a frame; labels are zipped back in
   that order.  No proofs in this file. *)
From Coq Require Import ZArith List Bool.
From TP Require Import Model.Assign Model.Link.
Import ListNotations.
Open Scope Z_scope.

Record row := { r_id : nat; r_frame : Z; r_pos : pt }.

Definition rows_at (t : Z) (rows : list row) : list row := filter (fun r => r_frame r =? t) rows.

Fixpoint frames_from (t : Z) (n : nat) (rows : list row) : list (list row) :=
  match n with
  | O => []
  | S n' => rows_at t rows :: frames_from (t + 1) n' rows
  end.

Definition zmin_list (l : list Z) (d : Z) : Z := fold_right Z.min d l.
Definition zmax_list (l : list Z) (d : Z) : Z := fold_right Z.max d l.

Definition table_frames (rows : list row) : list (list row) :=
  match rows with
  | [] => []
  | r0 :: _ =>
    let ts := map r_frame rows in
    let lo := zmin_list ts (r_frame r0) in
    let hi := zmax_list ts (r_frame r0) in
    frames_from lo (Z.to_nat (hi - lo + 1)) rows
  end.

(* link: returns rows in sorted order paired with their labels *)
Definition link_table (m : metric) (mem max_size : nat) (rows : list row) : result (list (row * nat)) :=
  let fr := table_frames rows in
  match link_iter m mem max_size no_pred (map (map r_pos) fr) with
  | Oversize => Oversize
  | Ok labs => Ok (combine (concat fr) (concat labs))
  end.
