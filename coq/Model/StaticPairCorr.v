(* Model of trackpy/static.py : pair_correlation_2d / pair_correlation_3d over Q.
   The edge-correction measure (arclen_2d_bounded / area_3d_bounded, or
   2 pi r / 4 pi r^2 without edge handling) is a parameter [arc]: it receives
   exactly what the Python function uses -- the (squared) distance and the
   distances h from the particle to the box walls -- and returns None for NaN.
   Distances are compared squared.  No proofs in this file. *)
From Coq Require Import QArith Qabs Qround List Bool Arith NArith ZArith.
Import ListNotations.
Open Scope Q_scope.

Definition qpt := list Q.
Definition box := list (Q * Q).            (* per axis (min, max) *)

Definition Qltb (a b : Q) : bool := negb (Qle_bool b a).

Fixpoint qd2 (p q : qpt) : Q :=
  match p, q with
  | x :: p', y :: q' => (x - y) * (x - y) + qd2 p' q'
  | _, _ => 0
  end.

(* h = [pos[0]-box[0,0], box[0,1]-pos[0], pos[1]-box[1,0], box[1,1]-pos[1], ...] *)
Fixpoint walls (p : qpt) (b : box) : list Q :=
  match p, b with
  | x :: p', (lo, hi) :: b' => Qred (x - lo) :: Qred (hi - x) :: walls p' b'
  | _, _ => []
  end.

(* feat[(feat.x >= xmin) & (feat.x <= xmax) & ...] *)
Fixpoint inside (b : box) (p : qpt) : bool :=
  match p, b with
  | x :: p', (lo, hi) :: b' => Qle_bool lo x && Qle_bool x hi && inside b' p'
  | _, _ => true
  end.

Fixpoint extent (b : box) : Q :=
  match b with
  | [] => 1
  | (lo, hi) :: b' => (hi - lo) * extent b'
  end.

Definition qmin (a b : Q) : Q := if Qle_bool a b then a else b.
Definition qmax (a b : Q) : Q := if Qle_bool a b then b else a.
Definition qminl (l : list Q) : Q := match l with [] => 0 | x :: l' => fold_left qmin l' x end.
Definition qmaxl (l : list Q) : Q := match l with [] => 0 | x :: l' => fold_left qmax l' x end.
Definition column (k : nat) (pts : list qpt) : list Q := map (fun p => nth k p 0) pts.

(* boundary=None: (feat.x.min(), feat.x.max(), feat.y.min(), ...) *)
Definition bbox (dim : nat) (pts : list qpt) : box :=
  map (fun k => (Qred (qminl (column k pts)), Qred (qmaxl (column k pts)))) (seq 0 dim).

(* ndensity = (count - 1) / ((xmax - xmin) * (ymax - ymin) ...) *)
Definition ndens_default (n : nat) (b : box) : Q :=
  Qred ((inject_Z (Z.of_nat n) - 1) / extent b).

(* r_edges = arange(0, cutoff + dr, dr): nb + 1 edges k*dr; squared *)
Definition edges2 (dr : Q) (nb : nat) : list Q :=
  map (fun k => (inject_Z (Z.of_nat k) * dr) * (inject_Z (Z.of_nat k) * dr)) (seq 0 (S nb)).

Definition nbins (cutoff dr : Q) : nat := Z.to_nat (Qceiling (cutoff / dr)).

(* np.histogram(values, bins=edges, weights): bin = searchsorted(edges, v, 'right') - 1,
   values equal to the last edge go to the last bin, values outside are dropped *)
Definition count_le (es : list Q) (v : Q) : nat := length (filter (fun e => Qle_bool e v) es).

Definition bin_of (es : list Q) (v : Q) : option nat :=
  let c := count_le es v in
  let nb := (length es - 1)%nat in
  if (c =? 0)%nat then None
  else if (c <=? nb)%nat then Some (c - 1)%nat
  else if Qeq_bool v (last es 0) then Some (nb - 1)%nat else None.

(* a bin accumulates (number of NaN weights, sum of the finite weights) *)
Definition acc := (nat * Q)%type.
Definition addw (a : acc) (w : option Q) : acc :=
  match w with None => (S (fst a), snd a) | Some x => (fst a, Qred (snd a + x)) end.

Fixpoint upd {A : Type} (k : nat) (f : A -> A) (l : list A) : list A :=
  match l, k with
  | [], _ => []
  | x :: l', O => f x :: l'
  | x :: l', S k' => x :: upd k' f l'
  end.

Definition hist_step (es : list Q) (h : list acc) (vw : Q * option Q) : list acc :=
  match bin_of es (fst vw) with
  | Some k => upd k (fun a => addw a (snd vw)) h
  | None => h
  end.

Definition hist (es : list Q) (vals : list (Q * option Q)) : list acc :=
  fold_left (hist_step es) vals (repeat (0%nat, 0) (length es - 1)).

(* g_r / (ndensity * len(pos) * dr); NaN if any weight in the bin was NaN *)
Definition finish (norm : Q) (a : acc) : option Q :=
  if (fst a =? 0)%nat then Some (Qred (snd a / norm)) else None.

Section G.
Variable arc : Q -> list Q -> option Q.

Definition in_range (c2 : Q) (p q : qpt) : bool := Qltb 0 (qd2 p q) && Qltb (qd2 p q) c2.

(* for every particle: its neighbours closer than cutoff (ckdtree.query with
   distance_upper_bound), zero distances dropped, weight 1/arc *)
Definition weight (b : box) (p q : qpt) : option Q :=
  option_map Qinv (arc (Qred (qd2 p q)) (walls p b)).

Definition values (b : box) (c2 : Q) (feat : list qpt) : list (Q * option Q) :=
  flat_map (fun p => map (fun q => (Qred (qd2 p q), weight b p q))
                         (filter (in_range c2 p) feat)) feat.

Definition gr_box (b : box) (feat : list qpt) (ndens : option Q) (cutoff dr : Q) : list (option Q) :=
  let n := length feat in
  let rho := match ndens with Some r => r | None => ndens_default n b end in
  let nb := nbins cutoff dr in
  map (finish (rho * inject_Z (Z.of_nat n) * dr))
      (hist (edges2 dr nb) (values b (cutoff * cutoff) feat)).

Definition pair_correlation (dim : nat) (boundary : option box) (pts : list qpt)
           (ndens : option Q) (cutoff dr : Q) : list (option Q) :=
  match boundary with
  | None => gr_box (bbox dim pts) pts ndens cutoff dr
  | Some b => gr_box b (filter (inside b) pts) ndens cutoff dr
  end.
End G.

(* translation of particles and box by a vector *)
Fixpoint shift (t : list Q) (p : qpt) : qpt :=
  match t, p with
  | a :: t', x :: p' => (x + a) :: shift t' p'
  | _, _ => p
  end.
Fixpoint shift_box (t : list Q) (b : box) : box :=
  match t, b with
  | a :: t', (lo, hi) :: b' => (lo + a, hi + a) :: shift_box t' b'
  | _, _ => b
  end.

(* ------------------------------------------------------------------ *)
(* running the model against the implementation                        *)
(* ------------------------------------------------------------------ *)
Definition arc_table := list ((Q * list Q) * option Q).

Fixpoint qlist_eqb (a b : list Q) : bool :=
  match a, b with
  | [], [] => true
  | x :: a', y :: b' => Qeq_bool x y && qlist_eqb a' b'
  | _, _ => false
  end.

(* a missing entry is NaN-like but flagged by the harness separately *)
Fixpoint arc_lookup (t : arc_table) (d2 : Q) (h : list Q) : option Q :=
  match t with
  | [] => Some (-1)
  | ((d, hh), v) :: t' => if Qeq_bool d d2 && qlist_eqb hh h then v else arc_lookup t' d2 h
  end.

(* out: implementation's g_r as exact rationals (None = NaN/inf); tol: absolute
   tolerance.  0 ok; 1 length differs; 2 a finite bin differs by more than tol;
   3 NaN-ness differs in a bin before the first model NaN bin (bins from the
   first NaN on are not compared: np.histogram propagates NaN through its
   cumulative sum, which is numpy's business) *)
Fixpoint cmp_bins (m out : list (option Q)) (tol : Q) : N :=
  match m, out with
  | [], [] => 0%N
  | None :: _, None :: _ => 0%N
  | None :: _, Some _ :: _ => 3%N
  | Some _ :: _, None :: _ => 3%N
  | Some x :: m', Some y :: out' =>
      if Qle_bool (Qabs (x - y)) tol then cmp_bins m' out' tol else 2%N
  | _, _ => 1%N
  end.

Definition check_gr (dim : nat) (boundary : option box) (pts : list qpt) (ndens : option Q)
           (cutoff dr : Q) (tbl : arc_table) (out : list (option Q)) (tol : Q) : N :=
  let m := pair_correlation (arc_lookup tbl) dim boundary pts ndens cutoff dr in
  if negb (length m =? length out)%nat then 1%N else cmp_bins m out tol.
