(* C09 -- feature finding does not depend on where / in which axis order / in which
   batch the image is processed.  Executable model; no proofs in this file.

   What is modelled here
     * the two image transformations of the property, as RELATIONS between images
       (Model/Dilation.v images: shape + nested array, [pix] total, 0 outside):
         moved d im1 im2       -- im2 shows im1's content d pixels further (blank = 0 elsewhere)
         transposed im1 im2    -- im2 = im1.T (numpy: all axes reversed)
       and as constructors ([embed], [transpose]) used for the examples and the
       correspondence run;
     * the integer, preprocess=False part of trackpy.feature.locate up to the table
       handed to the tail (feature.py:381-397):
           coords  = grey_dilation(image, separation, percentile, margin, precise=False)
           refined = refine_com(raw_image, image, radius, coords, max_iterations, ...)
       by composing the C06 model (Model/Dilation.grey_dilation) with the C07 model
       (Model/COM.refine_python), one refinement per maximum in np.where order;
     * trackpy.feature.batch (feature.py:546-590) with utils.get_pool's two map
       functions: the builtin map and Pool.imap, the latter as "tasks complete in an
       arbitrary order [sched], results are handed out by task index";
     * the eccentricity numerator of _refine (center_of_mass.py:258-261) with the
       cos/sin masks as explicit weights, for the F13 witness;
     * the monitor run by vp/props/c09.py on locate's own tables.  *)
From Coq Require Import ZArith NArith QArith Qabs List Bool Arith.
From TP Require Import Model.Dilation Model.COM.
Import ListNotations.
Open Scope Z_scope.

(* ------------------------------------------------------------ vectors *)
Fixpoint vadd (p d : list Z) : list Z :=
  match p, d with
  | x :: p', y :: d' => x + y :: vadd p' d'
  | _, _ => []
  end.

Fixpoint vsub (p d : list Z) : list Z :=
  match p, d with
  | x :: p', y :: d' => x - y :: vsub p' d'
  | _, _ => []
  end.

(* ------------------------------------------------- image transformations *)
(* im2 is im1 moved by d: every pixel of im1 is found d further in im2, and im2 has
   nothing else (pix is 0 outside an array, so this covers "blank canvas") *)
Definition moved (d : list Z) (im1 im2 : image) : Prop :=
  length (shape im2) = length (shape im1) /\
  forall p, length p = length (shape im1) -> pix im2 (vadd p d) = pix im1 p.

(* numpy's .T : axes reversed *)
Definition transposed (im1 im2 : image) : Prop :=
  shape im2 = rev (shape im1) /\ forall p, pix im2 (rev p) = pix im1 p.

(* array of the given shape tabulating f *)
Fixpoint arr_of (sh : list Z) (f : list Z -> Z) : arr :=
  match sh with
  | [] => Leaf (f [])
  | n :: sh' => Node (map (fun i => arr_of sh' (fun c => f (i :: c))) (zrange n))
  end.

(* a blank canvas of shape sh with im's content at offset off *)
Definition embed (sh off : list Z) (im : image) : image :=
  {| shape := sh; data := arr_of sh (fun p => pix im (vsub p off)) |}.

Definition transpose (im : image) : image :=
  {| shape := rev (shape im); data := arr_of (rev (shape im)) (fun p => pix im (rev p)) |}.

(* ------------------------------------- locate, integer image, no preprocessing *)
Record lparams := mkLP {
  lp_sep : list Q;            (* separation, per axis *)
  lp_margin : list Z;         (* margin = max(radius, sep//2 - 1, smoothing//2), per axis *)
  lp_radius : list Z;         (* diameter // 2 *)
  lp_thresh : Q;              (* shift_thresh = 0.6 *)
  lp_maxit : Z;               (* max_iterations *)
  lp_char : bool }.           (* characterize *)

Definition lp_rev (P : lparams) : lparams :=
  mkLP (rev (lp_sep P)) (rev (lp_margin P)) (rev (lp_radius P)) (lp_thresh P) (lp_maxit P) (lp_char P).

Section Locate.
  Variable percentile : list Z -> Q.      (* np.percentile(not_black, percentile) *)

  Definition find_maxima (P : lparams) (im : image) : list (list Z) :=
    grey_dilation percentile false im (lp_sep P) (Some (lp_margin P)) false.

  (* one row of refine_com's table per maximum; raw_image = image here *)
  Definition refine_at (P : lparams) (im : image) (start : list Z) : output :=
    refine_python (pix im) (pix im) (lp_radius P) (shape im) (lp_thresh P) (lp_maxit P) (lp_char P) start.

  Definition locate_discrete (P : lparams) (im : image) : list output :=
    map (refine_at P im) (find_maxima P im).
End Locate.

(* "row b is row a, d further": position moved, every other column identical *)
Definition pos_moved (d : list Z) (a b : list Q) : Prop :=
  length b = length a /\ forall k, (k < length a)%nat -> (qx b k == qx a k + inject_Z (ix d k))%Q.
Definition row_moved (d : list Z) (a b : output) : Prop :=
  pos_moved d (o_pos a) (o_pos b) /\ o_mass b = o_mass a /\ o_char b = o_char a.

(* ------------------------------------------------------------------ batch *)
Section Batch.
  Variables frame row : Type.
  Variable locate : frame -> list row.          (* curried_locate, minus the tag *)
  Variable frame_no : frame -> option nat.      (* the pims attribute, None if absent *)

  (* what locate returns: the rows, and the 'frame' value it put on them when the
     attribute was visible to it ([seen] = false: lost on the way to a worker) *)
  Definition located (seen : bool) (f : frame) : list row * option nat :=
    (locate f, if seen then frame_no f else None).

  (* builtin map *)
  Definition run_map {A B} (g : A -> B) (xs : list A) : list B := map g xs.

  (* Pool.imap: task i computes g xs[i]; tasks complete in the order [sched]; the
     consumer asks for 0, 1, 2, ... and takes the completed task with that number *)
  Definition run_imap {A B} (sched : list nat) (g : A -> B) (xs : list A) : list (option B) :=
    let completed := flat_map (fun i => match nth_error xs i with Some x => [(i, g x)] | None => [] end) sched in
    map (fun i => option_map snd (find (fun c => Nat.eqb (fst c) i) completed)) (seq 0 (length xs)).

  (* for i, features in enumerate(results): ... all_features.append(features) *)
  Fixpoint batch_loop (frames : list frame) (i : nat) (results : list (option (list row * option nat)))
           (all_features : list (list (row * nat))) : list (list (row * nat)) :=
    match results with
    | [] => all_features
    | r :: rest =>
        match r, nth_error frames i with           (* image = frames[i] *)
        | Some (features, tag), Some image =>
            let fno := match frame_no image with Some k => k | None => i end in
            let tag' := match tag with Some k => k | None => fno end in   (* if 'frame' not in features.columns *)
            let features' := map (fun x => (x, tag')) features in
            batch_loop frames (S i) rest
                       (match features' with [] => all_features | _ => all_features ++ [features'] end)
        | _, _ => all_features                     (* IndexError / worker failure: not reached *)
        end
    end.

  (* pandas_concat(all_features) *)
  Definition batch_map (seen : bool) (frames : list frame) : list (row * nat) :=
    concat (batch_loop frames 0 (map Some (run_map (located seen) frames)) []).
  Definition batch_imap (sched : list nat) (seen : bool) (frames : list frame) : list (row * nat) :=
    concat (batch_loop frames 0 (run_imap sched (located seen) frames) []).

  (* the property's words: locate on each frame, tagged with its frame number, concatenated *)
  Definition number_of (i : nat) (f : frame) : nat := match frame_no f with Some k => k | None => i end.
  Fixpoint tagged_from (i : nat) (frames : list frame) : list (row * nat) :=
    match frames with
    | [] => []
    | f :: fs => map (fun x => (x, number_of i f)) (locate f) ++ tagged_from (S i) fs
    end.
End Batch.

(* -------------------------------------------- eccentricity numerator (F13) *)
(* np.sum(neighborhood*cosmask)**2 + np.sum(neighborhood*sinmask)**2 over the mask
   points; weights are handed in (cos 2 theta, sin 2 theta) *)
Definition wsum (w nb : list Z) : Z := zsum (map (fun x => fst x * snd x) (combine w nb)).
Definition ecc_num (cosw sinw nb : list Z) : Z := wsum cosw nb * wsum cosw nb + wsum sinw nb * wsum sinw nb.
(* radius (1,1): mask points in C order  up, left, centre, right, down;
   theta_mask = arctan2(y - r, x - r): up -pi/2, left pi, centre 0 (!), right 0, down pi/2 *)
Definition cos3 : list Z := [-1; 1; 1; 1; -1].
Definition sin3 : list Z := [0; 0; 0; 0; 0].
(* the same neighbourhood seen in the transposed image: up <-> left, down <-> right *)
Definition nb_transpose (nb : list Z) : list Z :=
  match nb with [u; l; c; r; d] => [l; u; c; d; r] | _ => nb end.

(* ----------------------------------------------------------------- monitor *)
(* a row of locate's table as the harness hands it over: position columns, columns
   that must agree exactly, columns that must agree to rounding (None = NaN) *)
Definition trow := (list Q * list Q * list (option Q))%type.

Fixpoint all2 {A B} (f : A -> B -> bool) (l : list A) (m : list B) : bool :=
  match l, m with
  | [], [] => true
  | a :: l', b :: m' => f a b && all2 f l' m'
  | _, _ => false
  end.

Definition near (tol a b : Q) : bool := Qle_bool (Qabs (a - b)) (tol * (1 + Qabs a)).
Definition near_opt (tol : Q) (a b : option Q) : bool :=
  match a, b with
  | None, None => true
  | Some x, Some y => near tol x y
  | _, _ => false
  end.

(* 0 ok | 1 number of rows | 2 a position is not the old one plus the offset |
   3 an exact column differs | 4 a float statistic differs beyond rounding / NaN pattern *)
Definition row_code (tolp tol : Q) (d : list Q) (a b : trow) : N :=
  match a, b with (pa, ea, fa), (pb, eb, fb) =>
    if negb (all2 (fun x y => near tolp (fst x + snd x) y) (combine pa d) pb) then 2%N
    else if negb (all2 Qeq_bool ea eb) then 3%N
    else if negb (all2 (near_opt tol) fa fb) then 4%N else 0%N
  end.

Fixpoint table_code (tolp tol : Q) (d : list Q) (A B : list trow) : N :=
  match A, B with
  | [], [] => 0%N
  | a :: A', b :: B' => let c := row_code tolp tol d a b in if N.eqb c 0 then table_code tolp tol d A' B' else c
  | _, _ => 1%N
  end.

(* translation: same rows in the same order, positions + d *)
Definition check_moved (tolp tol : Q) (d : list Q) (A B : list trow) : N :=
  if negb (forallb (fun a => (length (fst (fst a)) =? length d)%nat) A) then 1%N
  else table_code tolp tol d A B.

(* transposition: harness sorts both tables by position (A's axis order); B's
   position columns arrive reversed *)
Definition rev_pos (b : trow) : trow := match b with (p, e, f) => (rev p, e, f) end.
Definition check_transposed (tolp tol : Q) (A B : list trow) : N :=
  table_code tolp tol (repeat 0%Q (match A with a :: _ => length (fst (fst a)) | [] => 0 end)) A (map rev_pos B).
