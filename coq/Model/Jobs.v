(* C04: several linking jobs in one process.  Global state of the real code:
   Point.counter (uuids; reset by every init_level) and - before the fix -
   TrackUnstored.counter (trajectory ids; reset by every init_level).  After the
   fix every Linker owns its id counter ([next_id] inside [lstate]).
   A schedule is a list of operations of different jobs in any order.  No proofs. *)
From Coq Require Import ZArith List Bool.
From TP Require Import Model.Assign Model.Link.
Import ListNotations.
Open Scope Z_scope.

Inductive op := Start (j : nat) (f : list pt) | Step (j : nat) (f : list pt).
Definition job_of (o : op) : nat := match o with Start j _ | Step j _ => j end.

Record config := { c_metric : metric; c_mem : nat; c_max : nat }.

Definition store := nat -> option lstate.
Definition upd (s : store) (j : nat) (v : option lstate) : store :=
  fun k => if Nat.eqb k j then v else s k.

(* global state: number of Point uuids handed out since the last reset *)
Record glob := { point_ctr : nat; track_ctr : nat }.

(* ---- the code as it is now: ids are per job ---- *)
Definition exec1 (cfg : nat -> config) (gs : glob * store) (o : op)
  : (glob * store) * (nat * option (list nat)) :=
  let (g, s) := gs in
  match o with
  | Start j f =>
    let (st, labs) := init_state f in
    (({| point_ctr := length f; track_ctr := track_ctr g |}, upd s j (Some st)), (j, Some labs))
  | Step j f =>
    match s j with
    | None => ((g, s), (j, None))
    | Some st =>
      match link_step (c_metric (cfg j)) (c_mem (cfg j)) (c_max (cfg j)) no_pred st f with
      | Ok (st', labs) =>
        (({| point_ctr := point_ctr g + length f; track_ctr := track_ctr g |}, upd s j (Some st')), (j, Some labs))
      | Oversize => ((g, upd s j None), (j, None))
      end
    end
  end.

Fixpoint exec (cfg : nat -> config) (gs : glob * store) (ops : list op) : list (nat * option (list nat)) :=
  match ops with
  | [] => []
  | o :: ops' => let (gs', out) := exec1 cfg gs o in out :: exec cfg gs' ops'
  end.

Definition proj (j : nat) (tr : list (nat * option (list nat))) := filter (fun x => Nat.eqb (fst x) j) tr.
Definition own (j : nat) (ops : list op) := filter (fun o => Nat.eqb (job_of o) j) ops.

(* ---- the code before the fix: one shared trajectory-id counter, reset by every Start ---- *)
Definition with_next (st : lstate) (n : nat) : lstate := {| live := live st; now := now st; next_id := n |}.

Definition exec1_shared (cfg : nat -> config) (gs : glob * store) (o : op)
  : (glob * store) * (nat * option (list nat)) :=
  let (g, s) := gs in
  match o with
  | Start j f =>
    let (st, labs) := init_state f in
    (({| point_ctr := length f; track_ctr := next_id st |}, upd s j (Some st)), (j, Some labs))
  | Step j f =>
    match s j with
    | None => ((g, s), (j, None))
    | Some st =>
      match link_step (c_metric (cfg j)) (c_mem (cfg j)) (c_max (cfg j)) no_pred (with_next st (track_ctr g)) f with
      | Ok (st', labs) =>
        (({| point_ctr := point_ctr g + length f; track_ctr := next_id st' |}, upd s j (Some st')), (j, Some labs))
      | Oversize => ((g, upd s j None), (j, None))
      end
    end
  end.

Fixpoint exec_shared (cfg : nat -> config) (gs : glob * store) (ops : list op) : list (nat * option (list nat)) :=
  match ops with
  | [] => []
  | o :: ops' => let (gs', out) := exec1_shared cfg gs o in out :: exec_shared cfg gs' ops'
  end.
