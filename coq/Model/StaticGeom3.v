(* (1) Hand-written reading of trackpy.static.area_3d_bounded for one point (the
   3-D inclusion-exclusion over 6 caps, 12 edges, 8 corners, masks as
   conditionals) and of the NaN mask for vanishing arcs / areas: the reference
   the GENERATED functions of Gen/static_geom.v are proved equal to.
   (2) Specification side of the 3-D edge correction: area of a part of a
   sphere in the axial (Archimedes / Lambert) parametrisation.
   Definitions only; proofs in Proofs/StaticGen.v and Proofs/StaticGeom3.v. *)
From Coq Require Import Reals List.
From Coquelicot Require Import Coquelicot.
From TP Require Import Model.StaticGeom Model.StaticGeom2.
Import ListNotations.
Open Scope R_scope.

(* arr[arr < thr] = np.nan  for one element; None stands for NaN *)
Definition nan_below (thr v : R) : option R := if Rlt_dec v thr then None else Some v.

(* ---- area_3d_bounded for one (dist, pos) row ---- *)
Definition scap_term (h r : R) : R := if Rlt_dec h r then sphere_cap_area h r else 0.
Definition sedge_term (h1 h2 r : R) : R :=
  if Rlt_dec (h1 * h1 + h2 * h2) (r * r) then sphere_edge_area h1 h2 r else 0.
Definition scorner_term (h1 h2 h3 r : R) : R :=
  if Rlt_dec (h1 * h1 + h2 * h2 + h3 * h3) (r * r) then sphere_corner_area h1 h2 h3 r else 0.

(* h = the six wall distances [x-, x+, y-, y+, z-, z+] *)
Definition area_3d (r xm xp ym yp zm zp : R) : R :=
  4 * PI * (r * r)
  - scap_term xm r - scap_term xp r - scap_term ym r - scap_term yp r - scap_term zm r - scap_term zp r
  + sedge_term xm ym r + sedge_term xm yp r + sedge_term xm zm r + sedge_term xm zp r
  + sedge_term xp ym r + sedge_term xp yp r + sedge_term xp zm r + sedge_term xp zp r
  + sedge_term ym zm r + sedge_term ym zp r + sedge_term yp zm r + sedge_term yp zp r
  - scorner_term xm ym zm r - scorner_term xm ym zp r - scorner_term xm yp zm r - scorner_term xm yp zp r
  - scorner_term xp ym zm r - scorner_term xp ym zp r - scorner_term xp yp zm r - scorner_term xp yp zp r.

(* box = [[x0, x1], [y0, y1], [z0, z1]], centre (cx, cy, cz) *)
Definition area_3d_bounded (r cx cy cz x0 x1 y0 y1 z0 z1 : R) : R :=
  area_3d r (cx - x0) (x1 - cx) (cy - y0) (y1 - cy) (cz - z0) (z1 - cz).

(* ---- area on a sphere, axial parametrisation ---- *)
(* The sphere of radius r about the origin, cut by the planes perpendicular to
   a coordinate axis: the point at height t (-r <= t <= r) along the axis and
   azimuth phi around it.  Archimedes' hat-box theorem: in the coordinates
   (phi, t) the area element of the sphere is  r dphi dt. *)
Inductive axis := AX | AY | AZ.

Definition sphere_pt (ax : axis) (r phi t : R) : R * R * R :=
  let rho := sqrt (r * r - t * t) in
  match ax with
  | AX => (t, rho * cos phi, rho * sin phi)
  | AY => (rho * sin phi, t, rho * cos phi)
  | AZ => (rho * cos phi, rho * sin phi, t)
  end.

(* The part S of the sphere has area a, measured along axis ax: every slice
   t = const of S is a finite union of arcs of angular measure m t
   (has_arc_measure, Model/StaticGeom2.v: unique, = the integral of the
   indicator), and a is the Riemann integral of r * m t over -r <= t <= r. *)
Definition has_axial_area (ax : axis) (r : R) (S : R * R * R -> Prop) (a : R) : Prop :=
  exists m : R -> R,
    (forall t, - r < t < r -> has_arc_measure (fun phi => S (sphere_pt ax r phi t)) (m t)) /\
    is_RInt (fun t => r * m t) (- r) r a.

Definition in_box3 (x0 x1 y0 y1 z0 z1 : R) (p : R * R * R) : Prop :=
  x0 <= fst (fst p) <= x1 /\ y0 <= snd (fst p) <= y1 /\ z0 <= snd p <= z1.

Definition shift3 (cx cy cz : R) (p : R * R * R) : R * R * R :=
  (cx + fst (fst p), cy + snd (fst p), cz + snd p).

(* the wall distances of the two faces perpendicular to ax / of the four others *)
Definition along (ax : axis) (xm xp ym yp zm zp : R) : R * R :=
  match ax with AX => (xm, xp) | AY => (ym, yp) | AZ => (zm, zp) end.
Definition across (ax : axis) (xm xp ym yp zm zp : R) : list R :=
  match ax with AX => [ym; yp; zm; zp] | AY => [xm; xp; zm; zp] | AZ => [xm; xp; ym; yp] end.

(* coordinates, cross product and squared norm in R^3 (for the area element) *)
Definition X3 (p : R * R * R) := fst (fst p).
Definition Y3 (p : R * R * R) := snd (fst p).
Definition Z3 (p : R * R * R) := snd p.
Definition cross3 (u v : R * R * R) : R * R * R :=
  (Y3 u * Z3 v - Z3 u * Y3 v, Z3 u * X3 v - X3 u * Z3 v, X3 u * Y3 v - Y3 u * X3 v).
Definition norm2 (p : R * R * R) : R := X3 p * X3 p + Y3 p * Y3 p + Z3 p * Z3 p.
