(* C12 / route T: the GENERATED subnet_linker_recursive (Gen/linkstep.v, from trackpy/linking/subnetlinker.py)
   as the subnet_linker argument of the GENERATED adaptive_link_wrap (Gen/adaptive.v).

   The two generated files speak two run-time vocabularies (Model/PyLinkstep.v: the world record [lk];
   Model/PyAdaptive.v: the record [heap]); both keep p.forward_cands in an association list
   source index -> candidate list and the .subnet attributes / the dictionary in Model.SubnetMerge.mst.
   This file is the adapter between them -- hand-written, no Python statement is modelled here:

     rec_world h R ms     the heap as a world: forward_cands and subnet heap of h; search_range**2 = R,
                          MAX_SUB_NET_SIZE = ms; no hashes, tracks or memory (subnet_linker_recursive reads
                          none of them)
     rec_heap w           back: forward_cands and subnet heap of the world
     rec_exn              the exception classes of Model/PyLinkstep.v in those of Model/PyAdaptive.v
     gen_rec_linker       subnet_linker_recursive(source_set, dest_set, search_range, max_size=kwargs):
                            returns       the answer, and the heap of the final world;
                            raises        Model/PyLinkstep.v's exceptions carry no world (nothing there catches
                                          one), adaptive_link_wrap's `except` resumes from the heap at the raise:
                                          it is the heap after the generated loop of statements 387-388
                                          (`for _s in source_set: _s.forward_cands.append((None, search_range))`),
                                          the only statements of the function that write to the heap, all of them
                                          before the SubnetLinker constructor that raises SubnetOversizeException
                                          ([null_loop_world]: that loop, in the generated code's own vocabulary;
                                          Proofs/AdaptiveRec.rec_done_heap: it IS the heap the function
                                          returns with whenever it returns past the three shortcuts).
                          The search range reaches the generated function as its square in the units of the
                          candidate costs ([sq]; Model/PyLinkstep.v: "a distance is carried as its SQUARE (an exact
                          integer)"), the iteration order of a Python set is the parameter [ord].
   No proofs in this file. *)
From Coq Require Import ZArith QArith List Bool Arith.
From TP Require Import Model.Assign Model.Link Model.MemQueue Model.SubnetMerge Model.PyLinker Gen.linker_core
     Model.PyLinkstep Gen.linkstep.
From TP Require Import Model.SplitSubnet Model.PyAdaptive.
Import ListNotations.

Definition rec_world (h : heap) (R : Z) (ms : nat) : lk :=
  mk_lk [] [] 0 (h_fc h) (h_sn h) false [] [] [] 0 0 ms R.
Definition rec_heap (w : lk) : heap := mk_heap (k_fc w) (k_mst w).

(* IndexError / Exception have no counterpart in Model/PyAdaptive.v (nothing there raises them); what matters to
   adaptive_link_wrap is only whether the class is SubnetOversizeException *)
Definition rec_exn (e : xexn) : PyAdaptive.exn :=
  match e with
  | XSubnetOversizeException => PyAdaptive.SubnetOversizeException
  | XKeyError | XIndexError => PyAdaptive.KeyError
  | XValueError | XException => PyAdaptive.ValueError
  | XTypeError => PyAdaptive.TypeError
  | XAttributeError => PyAdaptive.AttributeError
  | XOutOfFuel => PyAdaptive.NoFuel
  end.

(* statements 387-388 of subnet_linker_recursive, alone *)
Definition null_loop_world (ord : list nat -> list nat) (w : lk) (source_set : list nat) (c : Z) : lk :=
  fold_left (fun w s_ => fc_append w s_ (None, c)) (PyLinkstep.set_iter ord source_set) w.

Definition gen_rec_linker (num : Type) (sq : num -> Z) (ord : list nat -> list nat)
    (h : heap) (source_set dest_set : list nat) (search_range : num) (max_size : nat) : PyAdaptive.fresult pairs :=
  let w := rec_world h (sq search_range) max_size in
  match py_subnet_linker_recursive ord w source_set dest_set (sq search_range) max_size with
  | FDone w' r => PyAdaptive.Done (rec_heap w') r
  | FFail e => PyAdaptive.Fail (rec_heap (null_loop_world ord w source_set (sq search_range))) (rec_exn e)
  end.

(* a group in the iteration order of its source set *)
Definition ogrp (ord : list nat -> list nat) (g : group) : group :=
  map (fun s => (s, fc_get s g)) (ord (map fst g)).

(* exact rationals: the square of a range, when it is an integer (what the theorems ask of the ranges in force) *)
Definition sqQ (x : Q) : Z := Qnum (Qred (x * x)).
