(* C13: the declarative side.  Only lists, numbers and relations; nothing here
   refers to how reconnect_traj_patch works.  No proofs in this file.

   T is the table after the frames of the range have been re-linked and before
   the labels are reconnected:  [oldp r] is the label r had when link_partial
   was called, [part r] is, for a row inside the range, the id the in-range
   linking gave it (for a row outside: its untouched old label).  [s, e) is the
   range of frames that was re-linked. *)
From Coq Require Import ZArith List Relations.
From TP Require Import Model.Partial.
Import ListNotations.
Open Scope Z_scope.

Section Spec.
  Variable T : list row.
  Variables s e : Z.

  Definition before (r : row) : Prop := frame r < s.
  Definition inside (r : row) : Prop := s <= frame r < e.
  Definition after (r : row) : Prop := e <= frame r.

  (* the three join rules (same-side reading of "outside the range", DESIGN 3 C13) *)
  Inductive link1 : row -> row -> Prop :=
  | J_before r1 r2 :      (* old label, both before the range *)
      In r1 T -> In r2 T -> before r1 -> before r2 -> oldp r1 = oldp r2 -> link1 r1 r2
  | J_after r1 r2 :       (* old label, both after the range *)
      In r1 T -> In r2 T -> after r1 -> after r2 -> oldp r1 = oldp r2 -> link1 r1 r2
  | J_inside r1 r2 :      (* new link inside the range *)
      In r1 T -> In r2 T -> inside r1 -> inside r2 -> part r1 = part r2 -> link1 r1 r2
  | J_first r1 r2 :       (* old label crossing the first frame of the range *)
      In r1 T -> In r2 T -> frame r1 = s -> before r2 -> oldp r1 = oldp r2 -> link1 r1 r2
  | J_last r1 r2 :        (* old label crossing the last frame of the range *)
      In r1 T -> In r2 T -> frame r1 = e - 1 -> after r2 -> oldp r1 = oldp r2 -> link1 r1 r2.

  (* joined = equivalence closure *)
  Definition joined : row -> row -> Prop := clos_refl_sym_trans row link1.

  (* old labels come from linking without memory: non-negative, unique per
     frame, and every old track occupies consecutive frames *)
  Definition valid_old : Prop :=
    (forall r, In r T -> 0 <= oldp r) /\
    (forall r1 r2, In r1 T -> In r2 T -> frame r1 = frame r2 -> oldp r1 = oldp r2 -> r1 = r2) /\
    (forall r1 r2 t, In r1 T -> In r2 T -> oldp r1 = oldp r2 -> frame r1 <= t <= frame r2 ->
                     exists r, In r T /\ frame r = t /\ oldp r = oldp r1).

  (* the in-range relinking is a valid labelling of the range (C01): unique per frame *)
  Definition valid_new : Prop :=
    forall r1 r2, In r1 T -> In r2 T -> inside r1 -> inside r2 ->
                  frame r1 = frame r2 -> part r1 = part r2 -> r1 = r2.

  (* rows outside the range were not touched by the relinking *)
  Definition untouched_outside : Prop :=
    forall r, In r T -> ~ inside r -> part r = oldp r.

  (* --- what is demanded of the final labels [lab], given per row of T --- *)
  Definition labelled (lab : list Z) : list (row * Z) := combine T lab.

  Definition labels_unique_per_frame (lab : list Z) : Prop :=
    forall r1 r2 l, In (r1, l) (labelled lab) -> In (r2, l) (labelled lab) ->
                    frame r1 = frame r2 -> r1 = r2.

  Definition share_label_iff_joined (lab : list Z) : Prop :=
    forall r1 l1 r2 l2, In (r1, l1) (labelled lab) -> In (r2, l2) (labelled lab) ->
                        (l1 = l2 <-> joined r1 r2).

  Definition outside_grouping_kept (lab : list Z) : Prop :=
    forall r1 l1 r2 l2, In (r1, l1) (labelled lab) -> In (r2, l2) (labelled lab) ->
      (before r1 /\ before r2) \/ (after r1 /\ after r2) ->
      (l1 = l2 <-> oldp r1 = oldp r2).
End Spec.

(* the linker returns, for every frame of the range, one id per feature of that
   frame and no id twice (C01) *)
Definition valid_linker (f : list row) (s e : Z) (linker : Z -> list Z) : Prop :=
  forall i, s <= i < e ->
    NoDup (linker i) /\ length (linker i) = length (filter (fun r => frame r =? i) f).

(* identity and payload of a row as the caller knows it: (position, frame, label at call time) *)
Definition key_in (r : row) : nat * Z * Z := (rid r, frame r, part r).
Definition key_out (r : row) : nat * Z * Z := (rid r, frame r, oldp r).
