(* Executable model of trackpy.feature.locate as a whole, for an integer image and
   preprocess=False (feature.py:318-455), obtained by COMPOSING the existing models

     coords  = grey_dilation(image, separation, percentile, margin, precise=False)   Model/Dilation.v (C06)
     refined = refine_com(raw_image, image, radius, coords, max_iterations, engine, characterize)
                                                                                     Model/COM.v      (C07)
     where_close / drop, mass /= scale_factor, minmass / maxsize filter, topn, ep    Model/LocateTail.v (C08)

   and adding the glue that locate itself contains:
     * margin = max(radius, separation // 2 - 1, smoothing_size // 2) per axis (feature.py:386);
     * image = raw_image.clip(min=0) (feature.py:371-376, the repair of F18: negative pixels of
       a signed-integer image carry no brightness; the identity on unsigned images -- the model
       has no dtype and always clips); maxima, refinement, mass, size, signal and the background
       mask of measure_noise work on [image], raw_mass and the background statistics on
       [raw_image], as in the code; scale_factor = 1. (convert_to_int does nothing on integer
       images);
     * the engine switch (python: _refine; numba: the kernels, which divide by the mass);
     * the DataFrame row built from one refined feature (position, mass, size = sqrt(Rg^2), raw_mass);
     * measure_noise(image, raw_image, radius) (uncertainty.py:9-35), N_binary_mask,
       _root_sum_x_squared, and the constants  noise_size * coord_moments  of _static_error;
     * the exceptions: ValueError (anisotropic diameter with maxsize), KeyError 'size'
       (characterize=False with maxsize and a non-empty table), ZeroDivisionError (numba
       kernels on a dark neighbourhood): [None].

   np.percentile and np.sqrt are parameters (no assumption is made on them).
   shift_thresh is refine_com's default 0.6 (the float, as an exact rational): locate
   does not pass it on.  No proofs in this file. *)
From Coq Require Import ZArith QArith Qround List Bool.
From TP Require Import Model.Dilation Model.COM Model.LocateTail.
Import ListNotations.
Open Scope Z_scope.

(* float64(0.6) *)
Definition shift_thresh : Q := 5404319552844595 # 9007199254740992.

Record lparams := mkL {
  l_radius : list Z;          (* tuple(d // 2 for d in diameter) *)
  l_sep : list Q;             (* separation (default diameter + 1), validate_tuple *)
  l_smooth : list Q;          (* smoothing_size (default diameter), validate_tuple *)
  l_noise_size : list Q;      (* noise_size, validate_tuple *)
  l_maxit : Z;                (* max_iterations *)
  l_char : bool;              (* characterize *)
  l_numba : bool;             (* engine == 'numba' *)
  l_minmass : Q;              (* minmass (None -> 0) *)
  l_maxsize : option Q;
  l_topn : option nat }.

(* margin = tuple([max(rad, sep // 2 - 1, sm // 2) for (rad, sep, sm) in zip(...)]);
   x // 2 on a float is floor(x / 2): the margin is integer valued *)
Fixpoint margins (radius : list Z) (sep smooth : list Q) : list Z :=
  match radius, sep, smooth with
  | r :: radius', s :: sep', m :: smooth' =>
      Z.max (Z.max r (Qfloor (s / 2) - 1)) (Qfloor (m / 2)) :: margins radius' sep' smooth'
  | _, _, _ => []
  end.

Definition is_some {A} (o : option A) : bool := match o with Some _ => true | None => false end.

Fixpoint all_some {A} (l : list (option A)) : option (list A) :=
  match l with
  | [] => Some []
  | None :: _ => None
  | Some x :: t => match all_some t with Some t' => Some (x :: t') | None => None end
  end.

(* np.all(t[1:] == t[:-1]) on a tuple of numbers *)
Definition all_equal_Q (l : list Q) : bool :=
  match l with [] => true | x :: t => forallb (Qeq_bool x) t end.

Fixpoint zipmul (a b : list Q) : list Q :=
  match a, b with
  | x :: a', y :: b' => (x * y)%Q :: zipmul a' b'
  | _, _ => []
  end.

(* image.clip(min=0) *)
Definition clip0 (im : image) : image :=
  {| shape := shape im; data := arr_map (Z.max 0) (data im) |}.

Section Pipe.
  Variable percentile : list Z -> Q.      (* np.percentile(not_black, percentile) *)
  Variable sqrtf : Q -> Q.                (* np.sqrt on a float64 *)

  (* ---- local maxima, refinement ---- *)
  Definition maxima (L : lparams) (im : image) : list (list Z) :=
    grey_dilation percentile false im (l_sep L)
                  (Some (margins (l_radius L) (l_sep L) (l_smooth L))) false.

  (* one feature: refine_com(raw_image, image, radius, coords, ...); None = the numba
     kernel divided by a zero mass *)
  Definition refine_one (L : lparams) (im raw : image) (start : list Z) : option output :=
    if l_numba L
    then match refine_numba (pix im) (pix raw) (l_radius L) (shape im) shift_thresh (l_maxit L) (l_char L) start with
         | KOk o => Some o
         | KDivZero => None
         end
    else Some (refine_python (pix im) (pix raw) (l_radius L) (shape im) shift_thresh (l_maxit L) (l_char L) start).

  (* the DataFrame row of the tail: positions, mass, size (isotropic: sqrt of the
     single Rg^2 column), raw_mass *)
  Definition row_of (o : output) : row :=
    mkrow (o_pos o) (inject_Z (o_mass o))
          (match o_char o with Some (s2 :: _, _, _) => sqrtf s2 | _ => 0%Q end)
          (match o_char o with Some (_, _, raw) => inject_Z raw | None => 0%Q end).

  (* ---- measure_noise ---- *)
  (* background = ~binary_dilation(image_bp, structure=binary_mask(radius)): a pixel is
     background iff the image is zero on the whole mask neighbourhood around it
     (border_value = 0: pixels outside the array count as zero, as [pix] does) *)
  Definition is_background (im : image) (radius : list Z) (p : list Z) : bool :=
    forallb (fun q => pix im q =? 0) (nbhd radius p).
  Definition background (im : image) (radius : list Z) : list (list Z) :=
    filter (is_background im radius) (coords (shape im)).

  Definition qsumsq (mean : Q) (vs : list Z) : Q :=
    fold_right Qplus 0%Q (map (fun v => ((inject_Z v - mean) * (inject_Z v - mean))%Q) vs).

  (* (black_level, noise); None = NaN *)
  Definition measure_noise (im raw : image) (radius : list Z) : option Q * option Q :=
    let vs := map (pix raw) (background im radius) in
    match vs with
    | [] => (None, None)                                      (* n_background == 0 *)
    | [v] => (Some (inject_Z v), None)                        (* n_background == 1 *)
    | _ => let n := Z.of_nat (length vs) in
           let mean := qdiv (zsum vs) n in
           (Some mean, Some (sqrtf (qsumsq mean vs / inject_Z n)))   (* .mean(), .std() *)
    end.

  (* ---- constants of the static error ---- *)
  (* N_binary_mask(radius, ndim) *)
  Definition n_mask (radius : list Z) : Z := Z.of_nat (length (mask_points radius)).
  (* _root_sum_x_squared(radius, ndim)[d] = sqrt(sum over the mask of x_d^2) *)
  Definition coord_moment (radius : list Z) (d : nat) : Q :=
    sqrtf (inject_Z (zsum (map (x_squared_mask radius d) (COM.box radius)))).
  Definition coord_moments (radius : list Z) : list Q :=
    map (coord_moment radius) (seq 0 (length radius)).
  (* isotropic branch: noise_size[0] * coord_moments[0]; otherwise per axis *)
  Definition ep_iso (radius : list Z) (noise_size : list Q) : bool :=
    isotropic radius && all_equal_Q noise_size.
  Definition ep_consts (radius : list Z) (noise_size : list Q) : list Q :=
    if ep_iso radius noise_size
    then [(hd 0%Q noise_size * hd 0%Q (coord_moments radius))%Q]
    else zipmul noise_size (coord_moments radius).

  (* parameters of the tail as locate computes them:
     black_level, noise = measure_noise(image, raw_image, radius) *)
  Definition tail_params (L : lparams) (im raw : image) : params :=
    let nb := if l_char L then measure_noise im raw (l_radius L) else (None, None) in
    mkparams (l_sep L) 1 (l_minmass L) (l_maxsize L) (l_topn L)
             (snd nb) (fst nb) (inject_Z (n_mask (l_radius L)))
             (if l_char L then ep_consts (l_radius L) (l_noise_size L) else []).

  (* ---- locate ---- *)
  (* everything after "image = ..." : [im] is the image the maxima are found and refined
     on, [raw] the raw image *)
  Definition locate_on (L : lparams) (im raw : image) : option (list (lrow * list fval)) :=
    if negb (isotropic (l_radius L)) && is_some (l_maxsize L) then None      (* ValueError *)
    else
      match all_some (map (refine_one L im raw) (maxima L im)) with
      | None => None                                                          (* division by zero mass *)
      | Some [] => Some []                                                    (* len(refined_coords) == 0 *)
      | Some outs =>
          if negb (l_char L) && is_some (l_maxsize L) then None               (* KeyError: 'size' *)
          else Some (tail (tail_params L im raw) (map row_of outs))
      end.

  (* locate(raw_image, ..., preprocess=False) as it is now *)
  Definition locate (L : lparams) (raw : image) : option (list (lrow * list fval)) :=
    locate_on L (clip0 raw) raw.

  (* the code before 7e846f3 (F18): image = raw_image, negative pixels included *)
  Definition locate_without_clip (L : lparams) (raw : image) : option (list (lrow * list fval)) :=
    locate_on L raw raw.
End Pipe.

(* ---- the property's words ---- *)
(* the reported position lies in the mask window of some admissible window centre c:
   r_d <= c_d <= shape_d - 1 - r_d  and  c_d - r_d <= pos_d <= c_d + r_d  on every axis *)
Definition in_a_window (radius shape : list Z) (pos : list Q) : Prop :=
  exists c, length c = length radius /\ window_inside radius shape c /\
    length pos = length radius /\
    forall d, (d < length radius)%nat ->
      (inject_Z (ix c d - ix radius d) <= qx pos d <= inject_Z (ix c d + ix radius d))%Q.
