(* Executable comparison, used by vp/props/c08.py, of the ep columns observed on the
   implementation (locate's ep / ep_<axis> columns; static_error's frame) with the model
   of Model/StaticError.v: same column names in the same order, same number of entries,
   same NaN / +inf pattern, values equal to a relative tolerance.
   np.sqrt enters as the table of the square roots the implementation itself used
   (argument -> float result); an argument missing from the table gives 0 and thereby a
   mismatch.  No proofs in this file. *)
From Coq Require Import ZArith QArith List Bool String NArith.
From TP Require Import Model.LocateTail Model.LocateTailCheck Model.LocatePipe Model.StaticError.
Import ListNotations.
Open Scope Q_scope.

Definition sqrt_table (t : list (Q * Q)) (q : Q) : Q :=
  match find (fun e => Qeq_bool (fst e) q) t with Some e => snd e | None => 0 end.

(* codes: 0 ok; 1 number of columns; 2 a column name; 3 number of entries of a column;
   11 NaN/inf pattern of an entry; 12 value of an entry *)
Fixpoint cols_code (tol : Q) (model impl : list (string * list fval)) : N :=
  match model, impl with
  | [], [] => 0%N
  | (n, c) :: model', (n', c') :: impl' =>
      if negb (String.eqb n n') then 2%N
      else match corr_ep_cols tol c c' with
           | 0%N => cols_code tol model' impl'
           | 3%N => 3%N
           | k => (10 + k)%N
           end
  | _, _ => 1%N
  end.

Inductive secase :=
| SELocate (table : list (Q * Q)) (radius : list Z) (noise_size : list Q) (black noise : fval)
           (raw_mass : list Q) (observed : list (string * list fval))
| SEStatic (table : list (Q * Q)) (mass : list fval) (noise : noise_arg) (diameter : list Z)
           (noise_size : list Q) (observed : list (string * list fval)).

Definition check_se (tol : Q) (c : secase) : N :=
  match c with
  | SELocate t radius ns black noise raws obs =>
      cols_code tol (locate_ep (sqrt_table t) radius ns black noise raws) obs
  | SEStatic t mass noise diameter ns obs =>
      cols_code tol (static_error (sqrt_table t) mass noise diameter ns) obs
  end.
