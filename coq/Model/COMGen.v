(* Vocabulary for stating that the GENERATED numba kernels (Gen/com_kernels.v, translated
   from the trackpy source by tools/py2coq_com.py) compute what the hand-written generic
   kernel model of Model/COM.v computes.  No proofs in this file.

   The generated kernels take arrays as nested lists and the mask as separate coordinate
   columns maskY / maskX (/ maskZ); the model takes the image as a function from index
   vectors and the mask as a list of points.  The bridge:
     img2 / img3   the model's view of a nested-list image (same total read, 0 outside)
     col d mpts    column d of the list of mask points  (np.asarray(mask.nonzero())[d])
     r2m / x2m     the size weights of the mask points, as refine_com_arr prepares them
     write_cells   results[feat, k] = v  for a list of (k, v), in order
     feats         the kernel's outer loop `for feat in range(N)`: one model run per
                   feature, each writing its row; a division by zero aborts everything *)
From Coq Require Import ZArith QArith List Bool.
From TP Require Import Model.COM Model.PyKernel.
Import ListNotations.
Open Scope Z_scope.

Definition img2 (image : list (list Z)) (idx : list Z) : Z := get2 image (ix idx 0) (ix idx 1).
Definition img3 (image : list (list (list Z))) (idx : list Z) : Z := get3 image (ix idx 0) (ix idx 1) (ix idx 2).
Definition col (d : nat) (mpts : list (list Z)) : list Z := map (fun p => ix p d) mpts.

(* the weight vectors refine_com_arr prepares: r_squared_mask(radius, ndim)[mask] and
   image.ndim * x_squared_masks(radius, ndim)[d][mask] *)
Definition r2m (radius : list Z) : list Z := map (r_squared_mask radius) (mask_points radius).
Definition x2m (radius : list Z) (d : nat) : list Z :=
  map (fun p => Z.of_nat (length radius) * x_squared_mask radius d p) (mask_points radius).

Definition write_cells (results : list (list cell)) (feat : Z) (cells : list (Z * cell)) : list (list cell) :=
  fold_left (fun r kc => set2 r feat (fst kc) (snd kc)) cells results.

Fixpoint feats (step : Z -> list (list cell) -> res (list (list cell))) (n : nat) (i : Z)
         (r : list (list cell)) : res (list (list cell)) :=
  match n with
  | O => Ok r
  | S n' => match step i r with
            | Ok r' => feats step n' (i + 1) r'
            | DivZero => DivZero
            end
  end.

(* one feature: run the model kernel from `start`, write the cells `cells out` of its output *)
Definition feat_step (run : list Z -> kres output) (start : Z -> list Z) (cells : output -> list (Z * cell))
           (feat : Z) (results : list (list cell)) : res (list (list cell)) :=
  match run (start feat) with
  | KOk out => Ok (write_cells results feat (cells out))
  | KDivZero => DivZero
  end.

(* the cells each kernel writes, in the order the Python writes them (ecc is never written) *)
Definition size2 (out : output) (k : nat) : Q :=
  match o_char out with Some (rg2, _, _) => qx rg2 k | None => 0%Q end.
Definition signal_of (out : output) : Z := match o_char out with Some (_, sg, _) => sg | None => 0 end.
Definition raw_of (out : output) : Z := match o_char out with Some (_, _, rw) => rw | None => 0 end.

(* _numba_refine_2D: y, x, mass *)
Definition cells_2D (out : output) : list (Z * cell) :=
  [(0, CQ (qx (o_pos out) 0)); (1, CQ (qx (o_pos out) 1)); (2, CQ (inject_Z (o_mass out)))].
(* _numba_refine_2D_c: y, x, sqrt size^2 (col 3), mass (2), signal (5), raw_mass (6) *)
Definition cells_2D_c (out : output) : list (Z * cell) :=
  [(0, CQ (qx (o_pos out) 0)); (1, CQ (qx (o_pos out) 1)); (3, CSqrt (size2 out 0));
   (2, CQ (inject_Z (o_mass out))); (5, CQ (inject_Z (signal_of out))); (6, CQ (inject_Z (raw_of out)))].
(* _numba_refine_2D_c_a: y, x, sqrt size_y^2 (3), sqrt size_x^2 (4), mass (2), signal (6), raw_mass (7) *)
Definition cells_2D_c_a (out : output) : list (Z * cell) :=
  [(0, CQ (qx (o_pos out) 0)); (1, CQ (qx (o_pos out) 1)); (3, CSqrt (size2 out 0)); (4, CSqrt (size2 out 1));
   (2, CQ (inject_Z (o_mass out))); (6, CQ (inject_Z (signal_of out))); (7, CQ (inject_Z (raw_of out)))].
(* _numba_refine_3D: z, y, x; then by characterize / isotropic *)
Definition cells_3D (characterize iso : bool) (out : output) : list (Z * cell) :=
  [(0, CQ (qx (o_pos out) 0)); (1, CQ (qx (o_pos out) 1)); (2, CQ (qx (o_pos out) 2))] ++
  (if negb characterize then []
   else if iso then [(4, CSqrt (size2 out 0))]
   else [(4, CSqrt (size2 out 0)); (5, CSqrt (size2 out 1)); (6, CSqrt (size2 out 2))]) ++
  [(3, CQ (inject_Z (o_mass out)))] ++
  (if characterize
   then if iso then [(6, CQ (inject_Z (signal_of out))); (7, CQ (inject_Z (raw_of out)))]
        else [(8, CQ (inject_Z (signal_of out))); (9, CQ (inject_Z (raw_of out)))]
   else []).
