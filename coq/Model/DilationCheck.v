(* Executable monitor / case evaluators for C06, run by vp/props/c06.py on the
   outputs of the real trackpy.find.grey_dilation / where_close.
   Result codes (N): 0 ok, see [check_gd] / [check_wc].  No proofs in this file. *)
From Coq Require Import ZArith NArith QArith List Bool Arith.
From TP Require Import Model.Dilation.
Import ListNotations.
Open Scope Z_scope.

Fixpoint eqb_pt (a b : list Z) : bool :=
  match a, b with
  | [], [] => true
  | x :: a', y :: b' => (x =? y) && eqb_pt a' b'
  | _, _ => false
  end.

Definition mem_pt (p : list Z) (l : list (list Z)) : bool := existsb (eqb_pt p) l.

Fixpoint eqb_pts (a b : list (list Z)) : bool :=
  match a, b with
  | [], [] => true
  | x :: a', y :: b' => eqb_pt x y && eqb_pts a' b'
  | _, _ => false
  end.

Fixpoint nodup_pts (l : list (list Z)) : bool :=
  match l with
  | [] => true
  | x :: l' => negb (mem_pt x l') && nodup_pts l'
  end.

Definition close_pts (sep : list Q) (p q : list Z) : bool :=
  close_b (rescale_pos (map inject_Z p) sep) (rescale_pos (map inject_Z q) sep).

(* property-level monitor for precise=True, given the candidate set:
   3 a returned point is not a candidate (or is returned twice)
   4 two returned points are closer than separation
   5 a candidate was discarded without an at-least-as-bright candidate within separation *)
Definition check_precise (im : image) (sep : list Q) (cands out : list (list Z)) : N :=
  if negb (forallb (fun p => mem_pt p cands) out && nodup_pts out) then 3%N
  else if existsb (fun p => existsb (fun q => negb (eqb_pt p q) && close_pts sep p q) out) out then 4%N
  else if existsb (fun p => negb (mem_pt p out) &&
                            negb (existsb (fun q => negb (eqb_pt q p) && close_pts sep q p && (pix im p <=? pix im q)) cands))
                  cands then 5%N
  else 0%N.

(* one grey_dilation case: the implementation's output [out] (sorted
   lexicographically by the harness) against the model, with the threshold [thr]
   = np.percentile of the non-zero pixels handed over.
   1 returned a pixel that is not an admissible local maximum
   2 missed an admissible local maximum
   7 returned a pixel twice
   3/4/5 see check_precise
   6 precise=True result satisfies subset/separation/justification but differs
     from the model (which member of a tied close pair is dropped) *)
Definition check_gd (is_float : bool) (im0 : image) (sep : list Q) (margin : option (list Z))
           (thr : Q) (precise : bool) (out : list (list Z)) : N :=
  let cands := grey_dilation (fun _ => thr) is_float im0 sep margin false in
  if precise then
    let im := convert_to_int is_float im0 in
    match check_precise im sep cands out with
    | 0%N => if eqb_pts out (grey_dilation (fun _ => thr) is_float im0 sep margin true) then 0%N else 6%N
    | c => c
    end
  else
    if existsb (fun p => negb (mem_pt p cands)) out then 1%N
    else if existsb (fun p => negb (mem_pt p out)) cands then 2%N
    else if negb (nodup_pts out) then 7%N
    else 0%N.

(* the rescaled uint8 image of a float image against the implementation's
   convert_to_int output (flattened row-major): 0 equal, 8 differs *)
Definition check_convert (im0 : image) (out : list Z) : N :=
  let im := convert_to_int true im0 in
  if eqb_pt (map (pix im) (coords (shape im))) out then 0%N else 8%N.

(* one direct where_close case.  positions are rationals.
   0 ok; 11 an index out of range / repeated / unsorted; 12 two kept features closer
   than separation; 13 a dropped feature has no at-least-as-bright (when intensity
   is given) close neighbour; 14 differs from the model only in the tie rule *)
Fixpoint sorted_strict (l : list nat) : bool :=
  match l with
  | x :: ((y :: _) as l') => (x <? y)%nat && sorted_strict l'
  | _ => true
  end.

Definition check_wc (pos : list (list Q)) (sep : list Q) (intensity : option (list Z)) (out : list nat) : N :=
  let n := length pos in
  let rs := map (fun p => rescale_pos p sep) pos in
  let kept := filter (fun i => negb (existsb (Nat.eqb i) out)) (seq 0 n) in
  let inten i := match intensity with Some ints => nth i ints 0 | None => 0 end in
  if negb (forallb (fun i => (i <? n)%nat) out && sorted_strict out) then 11%N
  else if existsb (fun i => existsb (fun j => negb (Nat.eqb i j) && close_b (nth i rs []) (nth j rs [])) kept) kept then 12%N
  else if existsb (fun i => negb (existsb (fun j => negb (Nat.eqb i j) && close_b (nth i rs []) (nth j rs [])
                                                 && (inten i <=? inten j)) (seq 0 n))) out then 13%N
  else if negb (forallb (fun ij => Nat.eqb (fst ij) (snd ij)) (combine out (where_close pos sep intensity))
                && Nat.eqb (length out) (length (where_close pos sep intensity))) then 14%N
  else 0%N.

(* drop_close on explicit positions: returned rows must be the input rows at the kept indices *)
Fixpoint eqb_q (a b : list Q) : bool :=
  match a, b with
  | [], [] => true
  | x :: a', y :: b' => Qeq_bool x y && eqb_q a' b'
  | _, _ => false
  end.
Fixpoint eqb_qs (a b : list (list Q)) : bool :=
  match a, b with
  | [], [] => true
  | x :: a', y :: b' => eqb_q x y && eqb_qs a' b'
  | _, _ => false
  end.
Definition check_dc (pos : list (list Q)) (sep : list Q) (intensity : option (list Z)) (out : list (list Q)) : N :=
  if eqb_qs out (drop_close (fun p => p) pos sep intensity) then 0%N else 15%N.
