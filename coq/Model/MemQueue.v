(* The memory bookkeeping of Linker.apply_links exactly as the code does it: a set
   mem_set of remembered Point objects and a queue mem_history of [memory] sets.
   A Point object is identified by (trajectory label, step of its observation).
   Proofs/MemQueue.v shows this queue keeps exactly the sources that Model/Link.v's
   age rule ([remembered]: unmatched and last seen at most [memory] steps before the
   current one) keeps.  No proofs here. *)
From Coq Require Import ZArith List Bool.
From TP Require Import Model.Assign Model.Link.
Import ListNotations.

Definition key := (nat * nat)%type.
Definition key_of (s : src) : key := (s_lab s, s_seen s).
Definition key_eqb (a b : key) : bool := Nat.eqb (fst a) (fst b) && Nat.eqb (snd a) (snd b).
Definition mem_in (k : key) (l : list key) : bool := existsb (key_eqb k) l.
Definition minus (a b : list key) : list key := filter (fun k => negb (mem_in k b)) a.

Record qstate := { q_mem : list key; q_hist : list (list key) }.

Definition linked_b (links : list link_t) (i : nat) : bool :=
  existsb (fun l : link_t => Nat.eqb (fst l) i && match fst (snd l) with Some _ => true | None => false end) links.

(* keys of the sources selected by [f] on their index *)
Fixpoint keys_where (f : nat -> bool) (i : nat) (l : list src) : list key :=
  match l with
  | [] => []
  | s :: l' => if f i then key_of s :: keys_where f (S i) l' else keys_where f (S i) l'
  end.

(* for sp, dp in zip(spl, dpl):
       if sp and dp: ...; if sp in self.mem_set: self.mem_set.remove(sp)
       elif dp is None: new_mem_set.add(sp)
   if self.memory > 0:
       new_mem_set -= self.mem_set
       self.mem_history.append(new_mem_set)
       self.mem_set -= self.mem_history.pop(0)
       self.mem_set |= new_mem_set *)
Definition q_step (mem : nat) (srcs : list src) (links : list link_t) (q : qstate) : qstate :=
  let linked := keys_where (linked_b links) 0 srcs in
  let unmatched := keys_where (unlinked_b links) 0 srcs in
  let mem1 := minus (q_mem q) linked in
  match mem with
  | O => {| q_mem := mem1; q_hist := q_hist q |}
  | S _ =>
    let new_mem := minus unmatched mem1 in
    let hist1 := q_hist q ++ [new_mem] in
    let popped := hd [] hist1 in
    {| q_mem := minus mem1 popped ++ new_mem; q_hist := tl hist1 |}
  end.

(* init_level: self.mem_set = set(); self.mem_history = [set() for j in range(memory)] *)
Definition q_init (mem : nat) : qstate := {| q_mem := []; q_hist := repeat [] mem |}.
