(* Model of trackpy/static.py : pair_correlation_2d / pair_correlation_3d called with
   p_indices (a subset of REFERENCE particles; fraction < 1 draws such a subset at random).
   Only pairs (p, q) whose first member p is a reference particle are counted, the edge
   correction is evaluated at p, and the histogram is normalised by the number of
   reference particles:  pos = ckdtree.data[p_indices];  g_r / (ndensity * len(pos) * dr).
   p_indices index the particles left after the boundary filter.  No proofs in this file. *)
From Coq Require Import QArith Qabs Qround List Bool Arith NArith ZArith.
From TP Require Import Model.StaticPairCorr.
Import ListNotations.
Open Scope Q_scope.

Section G.
Variable arc : Q -> list Q -> option Q.

(* for every REFERENCE particle: its neighbours (among all particles) closer than cutoff *)
Definition values_ref (b : box) (c2 : Q) (refs feat : list qpt) : list (Q * option Q) :=
  flat_map (fun p => map (fun q => (Qred (qd2 p q), weight arc b p q))
                         (filter (in_range c2 p) feat)) refs.

Definition gr_box_ref (b : box) (refs feat : list qpt) (ndens : option Q) (cutoff dr : Q) : list (option Q) :=
  let n := length feat in
  let rho := match ndens with Some r => r | None => ndens_default n b end in
  let nb := nbins cutoff dr in
  map (finish (rho * inject_Z (Z.of_nat (length refs)) * dr))
      (hist (edges2 dr nb) (values_ref b (cutoff * cutoff) refs feat)).

(* ckdtree.data[p_indices]: rows of the (filtered) particle table; the harness hands over
   indices in range only (numpy raises IndexError otherwise) *)
Definition select (idx : list nat) (feat : list qpt) : list qpt := map (fun i => nth i feat []) idx.

Definition pair_correlation_sel (dim : nat) (boundary : option box) (pts : list qpt) (idx : list nat)
           (ndens : option Q) (cutoff dr : Q) : list (option Q) :=
  match boundary with
  | None => gr_box_ref (bbox dim pts) (select idx pts) pts ndens cutoff dr
  | Some b => let feat := filter (inside b) pts in gr_box_ref b (select idx feat) feat ndens cutoff dr
  end.
End G.

Definition check_gr_sel (dim : nat) (boundary : option box) (pts : list qpt) (idx : list nat) (ndens : option Q)
           (cutoff dr : Q) (tbl : arc_table) (out : list (option Q)) (tol : Q) : N :=
  let m := pair_correlation_sel (arc_lookup tbl) dim boundary pts idx ndens cutoff dr in
  if negb (length m =? length out)%nat then 1%N else cmp_bins m out tol.
