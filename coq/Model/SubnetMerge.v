(* Line-by-line model of the subnet bookkeeping of trackpy/linking/subnet.py:
   Subnets.reset / Subnets.compute / assign_subnet.

   Python keeps  subnets : dict id -> (set of source points, set of dest points)
   and an attribute  p.subnet  on every point.  Here points are their indices in
   their frame, the dictionary is an association list, the two attribute families
   are two association lists (latest binding first), a set is a list.

     reset():    every destination j gets its own subnet j = (set(), {j}),
                 every source has subnet None
     compute():  for every destination i (in order) and every source among its
                 neighbours within range (nearest first):  assign_subnet(source, dest)

   The model takes the sequence of (source, dest) pairs in the order the code
   visits them.  [None] models the two exceptions the Python can raise
   (ValueError when neither point has a subnet, KeyError on a dangling id);
   Proofs/SubnetMerge.v shows neither happens from [init].
   No proofs in this file. *)
From Coq Require Import List Arith Bool NArith.
Import ListNotations.

Definition amap := list (nat * nat).
Fixpoint alook (k : nat) (m : amap) : option nat :=
  match m with
  | [] => None
  | (k', v) :: m' => if Nat.eqb k k' then Some v else alook k m'
  end.
Definition aset (k v : nat) (m : amap) : amap := (k, v) :: m.
(* "for p in itertools.chain of both sets of subnets[i1]: p.subnet = i2" *)
Definition aset_all (ks : list nat) (v : nat) (m : amap) : amap :=
  fold_left (fun m' k => aset k v m') ks m.

Definition sets := (list nat * list nat)%type.          (* sources, destinations *)
Definition sn := (nat * sets)%type.
Fixpoint sfind (i : nat) (l : list sn) : option sets :=
  match l with
  | [] => None
  | (i', v) :: l' => if Nat.eqb i i' then Some v else sfind i l'
  end.
Fixpoint sput (i : nat) (v : sets) (l : list sn) : list sn :=
  match l with
  | [] => []
  | (i', v') :: l' => if Nat.eqb i i' then (i', v) :: l' else (i', v') :: sput i v l'
  end.
Definition sdel (i : nat) (l : list sn) : list sn :=
  filter (fun e : sn => negb (Nat.eqb (fst e) i)) l.

Record mst := { subs : list sn; ssub : amap; dsub : amap }.

Definition assign_subnet (st : mst) (e : nat * nat) : option mst :=
  let (s, d) := e in
  match alook s (ssub st), alook d (dsub st) with
  | None, None => None                                  (* raise ValueError *)
  | None, Some i2 =>                                    (* source joins the dest's subnet *)
      match sfind i2 (subs st) with
      | Some (s2, d2) =>
          Some {| subs := sput i2 (s :: s2, d2) (subs st);
                  ssub := aset s i2 (ssub st); dsub := dsub st |}
      | None => None
      end
  | Some i1, None =>                                    (* dest joins the source's subnet *)
      match sfind i1 (subs st) with
      | Some (s1, d1) =>
          Some {| subs := sput i1 (s1, d :: d1) (subs st);
                  ssub := ssub st; dsub := aset d i1 (dsub st) |}
      | None => None
      end
  | Some i1, Some i2 =>
      if Nat.eqb i1 i2 then Some st                     (* already together *)
      else match sfind i1 (subs st), sfind i2 (subs st) with
           | Some (s1, d1), Some (s2, d2) =>            (* merge i1 into i2, delete i1 *)
               Some {| subs := sdel i1 (sput i2 (s2 ++ s1, d2 ++ d1) (subs st));
                       ssub := aset_all s1 i2 (ssub st);
                       dsub := aset_all d1 i2 (dsub st) |}
           | _, _ => None
           end
  end.

(* Subnets.reset() with nd destinations *)
Fixpoint init_subs (j n : nat) : list sn :=
  match n with 0 => [] | S n' => (j, ([], [j])) :: init_subs (S j) n' end.
Fixpoint init_dsub (j n : nat) : amap :=
  match n with 0 => [] | S n' => (j, j) :: init_dsub (S j) n' end.
Definition init (nd : nat) : mst :=
  {| subs := init_subs 0 nd; ssub := []; dsub := init_dsub 0 nd |}.

Definition step_o (o : option mst) (e : nat * nat) : option mst :=
  match o with Some st => assign_subnet st e | None => None end.
(* Subnets.compute(): the visited (source, dest) pairs in order *)
Definition run_edges (nd : nat) (es : list (nat * nat)) : option mst :=
  fold_left step_o es (Some (init nd)).

(* ---- canonical form for the correspondence: every subnet as
   (sorted sources, sorted dests), subnets ordered by their smallest dest ---- *)
Fixpoint ins_n (x : nat) (l : list nat) : list nat :=
  match l with [] => [x] | y :: l' => if Nat.leb x y then x :: l else y :: ins_n x l' end.
Definition sort_n (l : list nat) : list nat := fold_right ins_n [] l.
Definition key (v : sets) : nat := hd 0 (snd v).
Fixpoint ins_s (x : sets) (l : list sets) : list sets :=
  match l with [] => [x] | y :: l' => if Nat.leb (key x) (key y) then x :: l else y :: ins_s x l' end.
Definition canon (st : mst) : list sets :=
  fold_right ins_s [] (map (fun e : sn => (sort_n (fst (snd e)), sort_n (snd (snd e)))) (subs st)).

(* monitor: the partition the implementation built (already canonical) equals
   the model's.  0 = equal, 1 = differs, 2 = model raised *)
Fixpoint eq_ln (a b : list nat) : bool :=
  match a, b with
  | [], [] => true
  | x :: a', y :: b' => Nat.eqb x y && eq_ln a' b'
  | _, _ => false
  end.
Fixpoint eq_sets (a b : list sets) : bool :=
  match a, b with
  | [], [] => true
  | (s1, d1) :: a', (s2, d2) :: b' => eq_ln s1 s2 && eq_ln d1 d2 && eq_sets a' b'
  | _, _ => false
  end.
Definition check_subnets (c : nat * list (nat * nat) * list sets) : N :=
  let '(nd, es, impl) := c in
  match run_edges nd es with
  | None => 2%N
  | Some st => if eq_sets (canon st) impl then 0%N else 1%N
  end.
