(* C10, 3-D: the documented result at pixel (i, j, k) of a D x H x W image
   (declarative; see Model/BandpassSpec.v for the vocabulary).  No proofs. *)
From Coq Require Import ZArith QArith List.
From TP Require Import Model.BandpassSpec.
Import ListNotations.
Open Scope Q_scope.

Definition difference3 (D H W : nat) (truncate lshort_z lshort_y lshort_x : Q) (Ez Ey Ex : list Q)
           (llong_z llong_y llong_x : Z) im (i j k : Z) : Q :=
  smooth3 D H W (gauss_hw truncate lshort_z) (gauss_hw truncate lshort_y) (gauss_hw truncate lshort_x)
          (gauss_w truncate lshort_z Ez) (gauss_w truncate lshort_y Ey) (gauss_w truncate lshort_x Ex) im i j k
  - average3 D H W (box_hw llong_z) (box_hw llong_y) (box_hw llong_x) im i j k.

Definition documented3 (D H W : nat) (truncate lshort_z lshort_y lshort_x : Q) (Ez Ey Ex : list Q)
           (llong_z llong_y llong_x : Z) (threshold : Q) im (i j k : Z) : Q :=
  clip_below threshold
    (difference3 D H W truncate lshort_z lshort_y lshort_x Ez Ey Ex llong_z llong_y llong_x im i j k).

(* B is A with the axis order reversed (numpy's .T) *)
Definition transposed3 (D H W : nat) (A B : list (list (list Q))) : Prop :=
  rect3 D H W A /\ rect3 W H D B /\
  forall i j k, (0 <= i < Z.of_nat D)%Z -> (0 <= j < Z.of_nat H)%Z -> (0 <= k < Z.of_nat W)%Z ->
    px3 B k j i = px3 A i j k.

Definition scale3 (c : Q) (im : list (list (list Q))) : list (list (list Q)) := map (scale2 c) im.
