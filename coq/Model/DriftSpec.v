(* C18 -- declarative vocabulary of the property (no sorting, no scanning: all
   ordered pairs of rows), and the executable comparison functions used by the
   correspondence run and the monitor.  No proofs in this file. *)
From Coq Require Import ZArith NArith QArith Qabs List Bool.
From TP Require Import Model.Drift.
Import ListNotations.
Open Scope Z_scope.

(* ---- the property's vocabulary ---------------------------------------------- *)
(* a trajectory table observes a particle at most once per frame *)
Definition key (r : row) : Z * Z := (particle r, frame r).
Definition trajectory_table (t : table) : Prop := NoDup (map key t).

(* (a, b) is a displacement into frame f: same particle, a in frame f-1, b in frame f *)
Definition is_step (f : Z) (a b : row) : bool :=
  (particle a =? particle b) && (frame a + 1 =? f) && (frame b =? f).

(* all displacements into frame f, over ALL ordered pairs of rows of the table *)
Definition disps (t : table) (f : Z) : list Q :=
  flat_map (fun b => flat_map (fun a => if is_step f a b then [(pos b - pos a)%Q] else []) t) t.

(* frame f is measured: some particle is observed in f-1 and in f *)
Definition measured (t : table) (f : Z) : Prop :=
  exists a b, In a t /\ In b t /\ particle a = particle b /\ frame a + 1 = f /\ frame b = f.

(* mean displacement of the particles observed in both f-1 and f *)
Definition mean_disp (t : table) (f : Z) : Q := qmean (disps t f).

(* d is the running sum of m over its own frames, starting from prev *)
Fixpoint is_cumsum (m : Z -> Q) (prev : Q) (d : drift) : Prop :=
  match d with
  | [] => True
  | (f, v) :: d' => (v == prev + m f)%Q /\ is_cumsum m v d'
  end.

(* the drift value at frame f, if there is one *)
Definition drift_at (d : drift) (f : Z) : option Q := lookup f d.

(* what subtracting d does to one row *)
Definition row_subtracted (d : drift) (r r' : row) : Prop :=
  particle r' = particle r /\ frame r' = frame r /\ other r' = other r /\
  match drift_at d (frame r) with
  | Some v => (pos r' == pos r - v)%Q
  | None => pos r' = pos r
  end.

(* every measured frame is the first measured one or follows a measured one *)
Definition gapless (t : table) : Prop :=
  forall f, measured t f -> measured t (f - 1) \/ (forall g, measured t g -> f <= g).

(* the literal premise of the property text: every frame of the table after the
   first measured one contributes at least one displacement *)
Definition every_later_frame_measured (t : table) : Prop :=
  forall f0 r, measured t f0 -> In r t -> f0 < frame r -> measured t (frame r).

(* rigid common motion: position = own offset of the particle + common curve c(frame) *)
Definition rigid (base : Z -> Q) (c : Z -> Q) (t : table) : Prop :=
  forall r, In r t -> (pos r == base (particle r) + c (frame r))%Q.

(* ---- executable comparisons (result codes, 0 = ok) --------------------------- *)
Definition close (tol a b : Q) : bool := Qle_bool (Qabs (a - b)) tol.

Fixpoint same_frames (a b : list Z) : bool :=
  match a, b with
  | [], [] => true
  | x :: a', y :: b' => (x =? y) && same_frames a' b'
  | _, _ => false
  end.

Fixpoint all_close (tol : Q) (a b : list Q) : bool :=
  match a, b with
  | [], [] => true
  | x :: a', y :: b' => close tol x y && all_close tol a' b'
  | _, _ => false
  end.

(* correspondence: the implementation's drift table against the model's *)
Definition check_drift_model (tol : Q) (t : table) (obs : drift) : N :=
  let d := compute_drift t in
  if negb (same_frames (map fst d) (map fst obs)) then 11%N
  else if negb (all_close tol (map snd d) (map snd obs)) then 12%N
  else 0%N.

(* monitor: the implementation's drift table against the declarative statement
   (frames ascending, exactly the measured frames, running sum of mean_disp) *)
Fixpoint ascending (l : list Z) : bool :=
  match l with
  | a :: (b :: _) as l' => (a <? b) && ascending l'
  | _ => true
  end.

Definition measured_b (t : table) (f : Z) : bool :=
  match disps t f with [] => false | _ => true end.

Fixpoint cumsum_close (tol : Q) (t : table) (prev : Q) (d : drift) : bool :=
  match d with
  | [] => true
  | (f, v) :: d' => close tol v (prev + mean_disp t f)%Q && cumsum_close tol t v d'
  end.

Definition check_drift_spec (tol : Q) (t : table) (obs : drift) : N :=
  let fs := map fst obs in
  if negb (ascending fs) then 13%N
  else if negb (forallb (fun f => Bool.eqb (existsb (Z.eqb f) fs) (measured_b t f))
                        (group_keys (map frame t ++ fs))) then 14%N
  else if negb (cumsum_close tol t 0%Q obs) then 15%N
  else 0%N.

(* subtract_drift: observed (row id, position) against the model, rows matched by id *)
Fixpoint find_id (i : Z) (obs : list (Z * Q)) : option Q :=
  match obs with
  | [] => None
  | (j, v) :: obs' => if j =? i then Some v else find_id i obs'
  end.

Definition check_subtract (tol : Q) (t : table) (d : drift) (obs : list (Z * Q)) : N :=
  let out := subtract_drift t d in
  if negb (Nat.eqb (length out) (length obs)) then 21%N
  else if negb (forallb (fun r => match find_id (other r) obs with
                                  | Some v => close tol v (pos r) | None => false end) out)
  then 22%N
  else 0%N.

(* re-measured drift: when the model's drift frames are consecutive
   (gapless table) every re-measured value must vanish *)
Fixpoint consecutive (l : list Z) : bool :=
  match l with
  | a :: (b :: _) as l' => (b =? a + 1) && consecutive l'
  | _ => true
  end.

Definition gapless_b (t : table) : bool := consecutive (map fst (compute_drift t)).

Definition check_remeasured (tol : Q) (t : table) (obs : drift) : N :=
  if negb (same_frames (map fst (compute_drift t)) (map fst obs)) then 31%N
  else if gapless_b t && negb (forallb (fun fv => close tol (snd fv) 0%Q) obs) then 32%N
  else 0%N.

(* one case of the run: one position column of one table.
   obs_d  = compute_drift(traj)[col]
   dsub   = the drift table handed to subtract_drift (exact values), obs_s its output[col] by row id
   obs_r  = compute_drift(subtract_drift(traj))[col]  (None when not run)
   spec_on = the table has no duplicated (particle, frame) *)
Definition case_t : Type := (bool * Q * table * drift * drift * list (Z * Q) * option drift)%type.
Definition check_case (c : case_t) : N :=
  match c with
  | (spec_on, tol, t, obs_d, dsub, obs_s, obs_r) =>
    let c1 := check_drift_model tol t obs_d in
    if negb (N.eqb c1 0) then c1 else
    (* the declarative statement speaks about trajectory tables only *)
    let c2 := if spec_on then check_drift_spec tol t obs_d else 0%N in
    if negb (N.eqb c2 0) then c2 else
    let c3 := check_subtract tol t dsub obs_s in
    if negb (N.eqb c3 0) then c3 else
    match obs_r with
    | Some o => check_remeasured tol t o
    | None => 0%N
    end
  end.
