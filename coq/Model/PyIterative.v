(* Run-time vocabulary of Gen/iterative.v, the file tools/py2coq_iterative.py generates
   (route T) from the CURRENT source text of

     nonrecursive_link        trackpy/linking/subnetlinker.py

   Hand-written and small.  Same style as Model/PyLinker.v (shallow, state and outcome
   passing), extended by what an explicit-stack `while` loop needs:

   control     a statement (block) runs in a state S and ends in an [outcome]:
                 Normal s     fell through to the next statement
                 Continue s   `continue`        (consumed by the enclosing while)
                 Break s      `break`           (consumed by the enclosing while)
                 Return v     `return v`        (consumed by the end of the def)
                 Raise e      an exception      (never caught in the translated code)
               s1 ; s2            bind (s1) (fun st => s2)
               while c: body      while_loop fuel (fun st => c) (fun st => body) st
                                  recursion on explicit fuel: one unit per iteration whose
                                  condition holds; none left = Raise OutOfFuel
                                  (Proofs/IterativeGen.v: never happens with 2 * cost_full)
               def ...            fn_end_v (body) : fresult (option R): Done (Some v) for
                                  `return v`, Done None for falling off the end

   locals      the locals that are assigned outside the loop or re-assigned are the fields
               of the record [nrl] (prefix nr_); a local assigned once per block is a let.
   integers    every Python int is a Z (j really becomes -1).
               len(x)             py_len
               l[i]               py_index : Python indexing, NEGATIVE INDICES WRAP
                                  (l[-1] is the last element), IndexError outside
               l[i] += v          py_index then py_set_index
   deques      lists, right end = end of the list (Model/PyLinker.v): .append / .pop
               (IndexError on empty); `x in d` is [deque_in] (== on destinations is
               identity of the Point, i.e. equality of the index; None == None)
   np.inf, >, < against best_sum, sort(key=), source points, candidates, dist**2:
               exactly as in Model/PyLinker.v (dist**2 is the integer cost component of
               the candidate; float rounding of the partial sums is not modelled).
   No proofs in this file. *)
From Coq Require Import ZArith List Bool Arith.
From TP Require Import Model.Assign Model.Link Model.PyLinker.
Import ListNotations.

Inductive outcome (S R : Type) :=
| Normal (s : S)
| Continue (s : S)
| Break (s : S)
| Return (v : R)
| Raise (e : exn).
Arguments Normal {S R} s.
Arguments Continue {S R} s.
Arguments Break {S R} s.
Arguments Return {S R} v.
Arguments Raise {S R} e.

Definition bind {S R : Type} (o : outcome S R) (k : S -> outcome S R) : outcome S R :=
  match o with
  | Normal s => k s
  | Continue s => Continue s
  | Break s => Break s
  | Return v => Return v
  | Raise e => Raise e
  end.

Fixpoint while_loop {S R : Type} (fuel : nat) (cond : S -> bool) (body : S -> outcome S R) (s : S)
  {struct fuel} : outcome S R :=
  if cond s then
    match fuel with
    | O => Raise OutOfFuel
    | Datatypes.S fuel' =>
      match body s with
      | Normal s' => while_loop fuel' cond body s'
      | Continue s' => while_loop fuel' cond body s'
      | Break s' => Normal s'
      | Return v => Return v
      | Raise e => Raise e
      end
    end
  else Normal s.

(* end of a def: `return v` gives v, falling off the end gives Python's None;
   continue / break outside a loop are SyntaxErrors the translator refuses *)
Definition fn_end_v {S R : Type} (o : outcome S R) : fresult (option R) :=
  match o with
  | Return v => Done (Some v)
  | Normal _ => Done None
  | Continue _ => Done None
  | Break _ => Done None
  | Raise e => Fail e
  end.

(* ---------- integers, indexing ---------- *)
Definition py_len {A : Type} (l : list A) : Z := Z.of_nat (length l).
Definition py_list {A : Type} (l : list A) : list A := l.

(* position denoted by the Python index i in a sequence of length n *)
Definition py_pos (n : nat) (i : Z) : option nat :=
  if (0 <=? i)%Z then (if (i <? Z.of_nat n)%Z then Some (Z.to_nat i) else None)
  else if (- Z.of_nat n <=? i)%Z then Some (Z.to_nat (Z.of_nat n + i)) else None.

Definition py_index {A : Type} (l : list A) (i : Z) : option A :=
  match py_pos (length l) i with Some p => nth_error l p | None => None end.

Fixpoint set_nth {A : Type} (l : list A) (p : nat) (v : A) : list A :=
  match l, p with
  | [], _ => []
  | _ :: l', O => v :: l'
  | x :: l', Datatypes.S p' => x :: set_nth l' p' v
  end.
Definition py_set_index {A : Type} (l : list A) (i : Z) (v : A) : option (list A) :=
  match py_pos (length l) i with Some p => Some (set_nth l p v) | None => None end.

(* `x in d` for a deque of destinations-or-None *)
Definition deque_in (x : option nat) (d : list (option nat)) : bool := existsb (opt_eqb x) d.

(* ---------- the locals of nonrecursive_link ---------- *)
Record nrl := mk_nrl {
  nr_source_list : list spoint;
  nr_MAX : Z;
  nr_k_stack : list Z;
  nr_j : Z;
  nr_cur_back : list (option nat);
  nr_cur_sum_stack : list Z;
  nr_best_sum : zinf;
  nr_best_back : option (list (option nat));
  nr_cand_list_list : list (list cand);
  nr_cand_lens : list Z
}.

(* before any assignment (the translator checks that a local is assigned, at the top level
   of the def, before it is read, so these values are never observed) *)
Definition blank_nrl : nrl := mk_nrl [] 0%Z [] 0%Z [] [] None None [] [].

Definition set_nr_source_list (o : nrl) (v : list spoint) : nrl :=
  mk_nrl v (nr_MAX o) (nr_k_stack o) (nr_j o) (nr_cur_back o) (nr_cur_sum_stack o) (nr_best_sum o) (nr_best_back o)
         (nr_cand_list_list o) (nr_cand_lens o).
Definition set_nr_MAX (o : nrl) (v : Z) : nrl :=
  mk_nrl (nr_source_list o) v (nr_k_stack o) (nr_j o) (nr_cur_back o) (nr_cur_sum_stack o) (nr_best_sum o) (nr_best_back o)
         (nr_cand_list_list o) (nr_cand_lens o).
Definition set_nr_k_stack (o : nrl) (v : list Z) : nrl :=
  mk_nrl (nr_source_list o) (nr_MAX o) v (nr_j o) (nr_cur_back o) (nr_cur_sum_stack o) (nr_best_sum o) (nr_best_back o)
         (nr_cand_list_list o) (nr_cand_lens o).
Definition set_nr_j (o : nrl) (v : Z) : nrl :=
  mk_nrl (nr_source_list o) (nr_MAX o) (nr_k_stack o) v (nr_cur_back o) (nr_cur_sum_stack o) (nr_best_sum o) (nr_best_back o)
         (nr_cand_list_list o) (nr_cand_lens o).
Definition set_nr_cur_back (o : nrl) (v : list (option nat)) : nrl :=
  mk_nrl (nr_source_list o) (nr_MAX o) (nr_k_stack o) (nr_j o) v (nr_cur_sum_stack o) (nr_best_sum o) (nr_best_back o)
         (nr_cand_list_list o) (nr_cand_lens o).
Definition set_nr_cur_sum_stack (o : nrl) (v : list Z) : nrl :=
  mk_nrl (nr_source_list o) (nr_MAX o) (nr_k_stack o) (nr_j o) (nr_cur_back o) v (nr_best_sum o) (nr_best_back o)
         (nr_cand_list_list o) (nr_cand_lens o).
Definition set_nr_best_sum (o : nrl) (v : zinf) : nrl :=
  mk_nrl (nr_source_list o) (nr_MAX o) (nr_k_stack o) (nr_j o) (nr_cur_back o) (nr_cur_sum_stack o) v (nr_best_back o)
         (nr_cand_list_list o) (nr_cand_lens o).
Definition set_nr_best_back (o : nrl) (v : option (list (option nat))) : nrl :=
  mk_nrl (nr_source_list o) (nr_MAX o) (nr_k_stack o) (nr_j o) (nr_cur_back o) (nr_cur_sum_stack o) (nr_best_sum o) v
         (nr_cand_list_list o) (nr_cand_lens o).
Definition set_nr_cand_list_list (o : nrl) (v : list (list cand)) : nrl :=
  mk_nrl (nr_source_list o) (nr_MAX o) (nr_k_stack o) (nr_j o) (nr_cur_back o) (nr_cur_sum_stack o) (nr_best_sum o) (nr_best_back o)
         v (nr_cand_lens o).
Definition set_nr_cand_lens (o : nrl) (v : list Z) : nrl :=
  mk_nrl (nr_source_list o) (nr_MAX o) (nr_k_stack o) (nr_j o) (nr_cur_back o) (nr_cur_sum_stack o) (nr_best_sum o) (nr_best_back o)
         (nr_cand_list_list o) v.

(* what nonrecursive_link returns: (source_list, best_back) *)
Definition nr_result := (list spoint * option (list (option nat)))%type.
