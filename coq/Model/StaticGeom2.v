(* Specification side of the 2-D edge correction (trackpy.static.arclen_2d_bounded):
   the set of directions of a circle that stay inside the bounding box, finite
   unions of intervals of directions and their length.  Definitions only; the
   proofs are in Proofs/StaticGeom2.v. *)
From Coq Require Import Reals List.
From TP Require Import Model.StaticGeom.
Import ListNotations.
Open Scope R_scope.

(* ---- the box, and one row of arclen_2d_bounded(dist, pos, box) ---- *)
(* box = [[x0, x1], [y0, y1]] (closed), point (px, py) *)
Definition in_box (x0 x1 y0 y1 px py : R) : Prop := x0 <= px <= x1 /\ y0 <= py <= y1.

(* h = [pos_x - box[0,0], box[0,1] - pos_x, pos_y - box[1,0], box[1,1] - pos_y] *)
Definition arclen_2d_bounded (r cx cy x0 x1 y0 y1 : R) : R :=
  arclen_2d r (cx - x0) (x1 - cx) (cy - y0) (y1 - cy).

(* 0/1 indicator of the box *)
Definition ind_le (a b : R) : R := if Rle_dec a b then 1 else 0.
Definition box_indicator (x0 x1 y0 y1 px py : R) : R :=
  ind_le x0 px * ind_le px x1 * (ind_le y0 py * ind_le py y1).

(* direction theta of the circle of radius r about a centre whose distances to
   the left/right/bottom/top walls are hl/hr/hb/ht stays inside the box *)
Definition dir_inside (r hl hr hb ht theta : R) : Prop :=
  - hl <= r * cos theta <= hr /\ - hb <= r * sin theta <= ht.

(* ---- finite unions of closed intervals of directions ---- *)
(* (a, b) stands for [a, b]; it is empty when b < a *)
Fixpoint in_arcs (l : list (R * R)) (theta : R) : Prop :=
  match l with
  | [] => False
  | (a, b) :: t => a <= theta <= b \/ in_arcs t theta
  end.

Fixpoint arcs_length (l : list (R * R)) : R :=
  match l with
  | [] => 0
  | (a, b) :: t => Rmax 0 (b - a) + arcs_length t
  end.

(* the intervals lie in [lo, hi], in increasing order, overlapping at most in
   end points *)
Fixpoint arcs_sorted (lo : R) (l : list (R * R)) (hi : R) : Prop :=
  match l with
  | [] => lo <= hi
  | (a, b) :: t => lo <= a /\ arcs_sorted (Rmax a b) t hi
  end.

(* The set P of directions (theta taken in (-PI, PI]) is a finite union of
   intervals of total length m.  m is determined by P (arc_measure_unique) and
   is the Riemann integral of the indicator of P (arc_measure_is_integral). *)
Definition has_arc_measure (P : R -> Prop) (m : R) : Prop :=
  exists l, arcs_sorted (- PI) l PI /\
            (forall theta, - PI < theta <= PI -> (P theta <-> in_arcs l theta)) /\
            m = arcs_length l.

(* ---- the directions left inside by the four walls ---- *)
(* half of the angular width cut off by a wall at distance h (nothing if h >= r) *)
Definition cut_halfwidth (h r : R) : R := if Rlt_dec h r then acos (h / r) else 0.

(* the (at most four) intervals between the arcs cut off by adjacent walls, one
   per quadrant: left-bottom, bottom-right, right-top, top-left.  The wall
   directions are PI (left), 0 (right), -PI/2 (bottom), PI/2 (top). *)
Definition gaps (r hl hr hb ht : R) : list (R * R) :=
  let aL := cut_halfwidth hl r in
  let aR := cut_halfwidth hr r in
  let aB := cut_halfwidth hb r in
  let aT := cut_halfwidth ht r in
  [ (- PI + aL, - (PI / 2) - aB);
    (- (PI / 2) + aB, - aR);
    (aR, PI / 2 - aT);
    (PI / 2 + aT, PI - aL) ].
