(* C09, route T for the head of locate: the executable comparison run by vp/props/c09.py (harness H).
   One case = a small 2-D integer image, Python-level arguments of locate (preprocess=False, invert=False,
   characterize=False, engine='python'), the value np.percentile returned for that image, and what
   trackpy.locate did: its rows (position, mass) or the message of its ValueError.
   check_head compares (a) the hand-written model Model/LocatePipe2.locate_py with the implementation and
   (b) the GENERATED whole locate (Gen/locatehead.py_locate, executed) with the model.  No proofs. *)
From Coq Require Import ZArith NArith QArith Qabs List Bool String.
From TP Require Import Model.Dilation Model.COM Model.LocateTail Model.LocatePipe Model.StaticError Model.PyTail
                       Model.PyLocatehead Model.LocatePipe2 Gen.locatehead.
From TP Require Model.PyPreproc Model.Bandpass.
Import ListNotations.
Open Scope Z_scope.

Record hcase := mkHC {
  h_thr : Q;                                    (* np.percentile(not_black, percentile) as observed *)
  h_signed : bool; h_bits : Z;                  (* the dtype *)
  h_rows : list (list Z);                       (* the image, row by row *)
  h_diameter : PyPreproc.pyarg Z;
  h_minmass : option Q;
  h_separation : option (PyPreproc.pyarg Q);
  h_noise : PyPreproc.pyarg Q;
  h_smoothing : option (PyPreproc.pyarg Z);
  h_percentile : Q;
  h_topn : option nat;
  h_maxit : Z;
  h_observed : list (list Q * Q) + string }.    (* locate's rows (position, mass) | its ValueError *)

Definition image_of_rows (rows : list (list Z)) : image :=
  {| shape := [Z.of_nat (List.length rows); Z.of_nat (List.length (hd [] rows))];
     data := Node (map (fun r => Node (map Leaf r)) rows) |}.

Definition tol : Q := 1 # 1073741824.
Definition qnear (a b : Q) : bool := Qle_bool (Qabs (a - b)) tol.
Fixpoint all2b {X Y} (f : X -> Y -> bool) (l : list X) (m : list Y) : bool :=
  match l, m with
  | [], [] => true
  | a :: l', b :: m' => f a b && all2b f l' m'
  | _, _ => false
  end.
(* 0 ok | 1 number of rows | 2 a position | 3 a mass *)
Fixpoint rows_code (near : Q -> Q -> bool) (a b : list (list Q * Q)) : N :=
  match a, b with
  | [], [] => 0%N
  | (pa, ma) :: a', (pb, mb) :: b' =>
      if negb (all2b near pa pb) then 2%N else if negb (near ma mb) then 3%N else rows_code near a' b'
  | _, _ => 1%N
  end.
Definition table_rows (t : list (lrow * list fval)) : list (list Q * Q) :=
  map (fun x => (r_pos (snd (fst x)), r_mass (snd (fst x)))) t.

(* 0 ok
   1-3  model and implementation: number of rows / a position / a mass differ
   4    the implementation refused, the model did not     5  the model refused or raised, the implementation did not
   6    both refuse with different messages
   11-13 generated and model: rows differ (exactly)       14 generated raised, model did not   15 the converse
   16   generated and model refuse differently *)
(* use_gen = false (the translation failed: Gen/locatehead.v is not the current source's): comparison (a) only *)
Definition check_head_with (use_gen : bool) (c : hcase) : N :=
  let im := image_of_rows (h_rows c) in
  let model := locate_py (fun _ => h_thr c) (fun q => q) false im (h_diameter c) (h_minmass c) None (h_separation c)
                         (h_noise c) (h_smoothing c) (h_topn c) (h_maxit c) false in
  let gen := py_locate fops2 (fun _ _ => h_thr c) (fun _ => 0%Q) false (fun q => q) None
                       (ImZ (mkDT (h_signed c) (h_bits c)) im) (h_diameter c) (h_minmass c) None (h_separation c) (h_noise c)
                       (h_smoothing c) None false (h_percentile c) (h_topn c) false (h_maxit c) None None false "python"%string in
  let gen_code : N :=
    if negb use_gen then 0%N else
    match gen, model with
    | ROk d, ROk (Some t) => match rows_code Qeq_bool (table_rows (df_lines d)) (table_rows t) with 0%N => 0%N | k => (10 + k)%N end
    | RRaise (EValueError m), RRaise (EValueError m') => if String.eqb m m' then 0%N else 16%N
    | RRaise _, ROk None => 0%N
    | RRaise _, _ => 14%N
    | ROk _, _ => 15%N
    end in
  match h_observed c, model with
  | inr msg, RRaise (EValueError m) => if String.eqb msg m then gen_code else 6%N
  | inr _, _ => 4%N
  | inl rows, ROk (Some t) => match rows_code qnear (table_rows t) rows with 0%N => gen_code | k => k end
  | inl _, _ => 5%N
  end.
Definition check_head : hcase -> N := check_head_with true.
