(* Executable comparison, used by vp/props/c08.py, of trackpy.uncertainty.measure_noise
   with its model in Model/LocatePipe.v (the glue the composed model of locate adds to
   the C06 / C07 / tail models): black level and noise of the pixels that are background
   (no non-zero pixel of the processed image under the mask around them).
   np.sqrt enters as a table (exact variance -> float root).  No proofs in this file. *)
From Coq Require Import ZArith QArith Qabs List Bool NArith.
From TP Require Import Model.Dilation Model.LocatePipe.
Import ListNotations.
Open Scope Q_scope.

Definition sqrt_tab (t : list (Q * Q)) (q : Q) : Q :=
  match find (fun e => Qeq_bool (fst e) q) t with Some e => snd e | None => 0 end.

(* 0 equal (relative tolerance); 1 one is NaN, the other a number; 2 values differ *)
Definition opt_code (tol : Q) (m i : option Q) : N :=
  match m, i with
  | None, None => 0%N
  | Some x, Some y => if Qle_bool (Qabs (x - y)) (tol * Qabs x) then 0%N else 2%N
  | _, _ => 1%N
  end.

Record ncase := mk_ncase {
  n_table : list (Q * Q); n_image : image; n_raw : image; n_radius : list Z;
  n_black : option Q; n_noise : option Q }.      (* what measure_noise returned *)

(* 0 ok; 10+ black level; 20+ noise *)
Definition check_noise (tol : Q) (c : ncase) : N :=
  let m := measure_noise (sqrt_tab (n_table c)) (n_image c) (n_raw c) (n_radius c) in
  match opt_code tol (fst m) (n_black c) with
  | 0%N => match opt_code tol (snd m) (n_noise c) with 0%N => 0%N | k => (20 + k)%N end
  | k => (10 + k)%N
  end.
