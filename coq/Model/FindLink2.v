(* Executable vocabulary for the COMPLETENESS half of C14 (find_link returns the
   complete trajectories of well-separated blobs whatever is withheld).

   A blob movie is a first frame [B0] and, per later frame, the list [B] of the
   true blob positions -- blob i is the i-th entry of EVERY frame -- together
   with the detections [ds] that are handed to the linker (the rest is
   withheld) and, on the model side, the frame's relocation oracle.

   The hypotheses of the completeness theorem (Proofs/FindLink2.v) that can be
   evaluated are booleans here; vp/props/c14.py evaluates them in Coq on the
   generated movies ([complete_code]).  No proofs in this file. *)
From Coq Require Import ZArith NArith List Bool Arith.
From TP Require Import Model.Assign Model.Link Model.LinkCheck Model.Dilation Model.DilationCheck
     Model.FindLink Model.FindLinkCheck.
Import ListNotations.
Open Scope Z_scope.

(* q is within search_range of p (the linker's candidate test: <=) *)
Definition near_b (m : metric) (p q : pt) : bool := d2w (mw m) p q <=? mR2 m.

(* (H-move) same number of blobs; blob i moves at most search_range *)
Fixpoint moves_b (m : metric) (Bp B : list pt) : bool :=
  match Bp, B with
  | [], [] => true
  | p :: Bp', q :: B' => near_b m p q && moves_b m Bp' B'
  | _, _ => false
  end.

Definition idx {A} (l : list A) : list (nat * A) := combine (seq 0 (length l)) l.

(* (H-cross) no blob comes within search_range of the place where ANOTHER blob
   was in the previous frame *)
Definition cross_b (m : metric) (Bp B : list pt) : bool :=
  forallb (fun ip : nat * pt =>
     forallb (fun jq : nat * pt => Nat.eqb (fst ip) (fst jq) || negb (near_b m (snd ip) (snd jq))) (idx B))
    (idx Bp).

(* (H-given) what the linker is given is a duplicate-free selection of the true
   blobs: an ARBITRARY subset is withheld, nothing spurious is detected *)
Definition given_b (B ds : list pt) : bool := nodup_pts ds && forallb (fun d => mem_pt d B) ds.

Definition frame_hyp_b (m : metric) (Bp B ds : list pt) : bool :=
  moves_b m Bp B && cross_b m Bp B && given_b B ds.

Fixpoint movie_hyp_b (m : metric) (Bp : list pt) (frames : list (list pt * list pt)) : bool :=
  match frames with
  | [] => true
  | (B, ds) :: rest => frame_hyp_b m Bp B ds && movie_hyp_b m B rest
  end.

(* ---------------------------------------------------- relocation oracles *)
(* the true blobs of the frame that lie within search_range of one of the
   searched positions and are not yet known to the frame *)
Definition unknown_in_range (m : metric) (B pos known : list pt) : list pt :=
  filter (fun b => in_range_any m pos b && negb (mem_pt b known)) B.

(* the ideal oracle: returns those blobs (in the order of B) *)
Definition blob_oracle (m : metric) (B : list pt) : reloc_fn :=
  fun pos known n => firstn n (unknown_in_range m B pos known).

(* executable check of the oracle hypothesis [finds] (Proofs/FindLink2.v) for a
   concrete oracle: every duplicate-free list of previous blob positions, every
   duplicate-free list of known blobs *)
Definition remove_pt (x : pt) (l : list pt) : list pt := filter (fun y => negb (eqb_pt x y)) l.

Fixpoint arrs (k : nat) (L : list pt) : list (list pt) :=
  match k with
  | O => [[]]
  | S k' => [] :: flat_map (fun x => map (cons x) (arrs k' (remove_pt x L))) L
  end.

Definition same_set_b (a b : list pt) : bool :=
  (length b <=? length a)%nat && nodup_pts a && forallb (fun x => mem_pt x b) a.

Definition finds_b (m : metric) (Bp B : list pt) (rel : reloc_fn) : bool :=
  forallb (fun pos =>
     forallb (fun known =>
        let C := unknown_in_range m B pos known in
        match C with
        | [] => true
        | _ => same_set_b (filter (in_range_any m pos) (rel pos known (length C))) C
        end)
       (arrs (length B) B))
    (arrs (length Bp) Bp).

(* ------------------------------------- completeness of an observed output *)
(* output of find_link: per frame the (label, position) pairs *)
Definition oframe := list (nat * pt).

Fixpoint lab_at (fr : oframe) (q : pt) : option nat :=
  match fr with
  | [] => None
  | (l, p) :: fr' => if eqb_pt p q then Some l else lab_at fr' q
  end.

(* blob i is in the frame under the label it had in the first frame, and the
   frame holds nothing else:  0 ok | 2 a blob is missing | 3 a blob changed its
   label | 4 the frame holds a different number of features *)
Fixpoint tracks_in (lab0 : list nat) (B : list pt) (fr : oframe) : N :=
  match lab0, B with
  | l :: lab0', q :: B' =>
    match lab_at fr q with
    | None => 2%N
    | Some l' => if Nat.eqb l l' then tracks_in lab0' B' fr else 3%N
    end
  | _, _ => 0%N
  end.

Definition frame_complete (lab0 : list nat) (B : list pt) (fr : oframe) : N :=
  if negb (length fr =? length B)%nat then 4%N else tracks_in lab0 B fr.

Fixpoint frames_complete (lab0 : list nat) (Bs : list (list pt)) (out : list oframe) : N :=
  match Bs, out with
  | [], [] => 0%N
  | B :: Bs', fr :: out' =>
    match frame_complete lab0 B fr with
    | 0%N => frames_complete lab0 Bs' out'
    | c => c
    end
  | _, _ => 5%N
  end.

(* geometry that the IMAGE-SEARCH oracle needs on top (what `well-separated'
   has to grant for FindLinker's own relocation to be able to find a blob):
   every blob outside the margin, blobs of one frame at least separation apart *)
Record cparams := {
  c_met : metric;
  c_k : Z; c_sepk : Z;   (* separation * k *)
  c_rad : Z;             (* margin *)
  c_shape : list Z;
}.

Definition image_side_b (cp : cparams) (B : list pt) : bool :=
  forallb (outside_b (c_shape cp) (c_rad cp)) B &&
  all_pairs_b (far_b (c_k cp) (c_sepk cp)) B.

(* one generated movie: true blobs [B0], later frames (blobs, given), the first
   frame as it was given to the linker [g0], and the implementation's output.
   Hypotheses first (a failing one means nothing is demanded):
     11 the first frame is not complete (g0 is not the set B0)
     12 a blob moves farther than search_range (or the number of blobs changes)
     13 a blob comes within search_range of another blob's previous position
     14 the linker was given something that is not a blob / a blob twice
     15 a blob lies inside the margin / two blobs closer than separation
   then completeness of the output:
     0 complete    2, 3, 4, 5 as in [frame_complete] / [frames_complete] *)
Fixpoint first_failing (m : metric) (Bp : list pt) (frames : list (list pt * list pt)) : N :=
  match frames with
  | [] => 0%N
  | (B, ds) :: rest =>
    if negb (moves_b m Bp B) then 12%N
    else if negb (cross_b m Bp B) then 13%N
    else if negb (given_b B ds) then 14%N
    else first_failing m B rest
  end.

Definition complete_code (cp : cparams) (B0 g0 : list pt) (frames : list (list pt * list pt))
           (out : list oframe) : N :=
  if negb (same_set_b g0 B0 && same_set_b B0 g0) then 11%N else
  match first_failing (c_met cp) B0 frames with
  | 0%N =>
    if negb (forallb (image_side_b cp) (B0 :: map fst frames)) then 15%N else
    match out with
    | [] => 5%N
    | fr0 :: _ =>
      frames_complete (map (fun q => match lab_at fr0 q with Some l => l | None => 0%nat end) B0)
                      (B0 :: map fst frames) out
    end
  | c => c
  end.
