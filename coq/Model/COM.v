(* Executable model of trackpy/refine/center_of_mass.py (refine_com_arr) and of the
   masks it uses (trackpy/masks.py), for any number of image axes.

   Two separately written algorithms are modelled, as in the Python:
     * the reference loop [_refine] (engine='python'): array style -- the
       neighbourhood is  mask * image[rect]  over the whole (2r+1)^d box, centre
       of mass through _safe_center_of_mass, np.clip, characterisation by whole-
       array sums and  neighborhood.max();
     * the numba kernels (_numba_refine_2D, _2D_c, _2D_c_a, _3D; engine='numba'):
       loops over the list of mask points  mask.nonzero(), scalar accumulators,
       division by the mass without a zero test, if/elif shifting, sequential
       if-clipping, a second loop over the mask points at the retained
       squareY/squareX for size, signal (running maximum started at 0) and
       raw_mass.  The four kernels are the same text up to the number of axes and
       the characterisation columns; they are modelled by ONE kernel generic in the
       axis list (per-axis scalars Y,X / Z,Y,X become index-based access [nth d]),
       each accumulator being its own fold over the mask points (loop fission of
       the single Python loop).  That the four kernels are this kernel is tied by the
       correspondence run (vp/props/c07.py), not by a translator.

   Numbers: pixels, coordinates, masks' integer weights in Z; centroids and sizes
   in Q, always built as  inject_Z a / inject_Z b  (so equal integers give equal
   terms).  ecc (cos/sin masks, floats) is not modelled.  No proofs in this file. *)
From Coq Require Import ZArith QArith Qabs List Bool.
Import ListNotations.
Open Scope Z_scope.

(* ---------- small vocabulary ---------- *)
Definition zsum (l : list Z) : Z := fold_right Z.add 0 l.
Definition zrange (n : Z) : list Z := map Z.of_nat (seq 0 (Z.to_nat n)).
Definition qdiv (a b : Z) : Q := (inject_Z a / inject_Z b)%Q.
Definition Qltb (a b : Q) : bool := negb (Qle_bool b a).
Definition ix (v : list Z) (d : nat) : Z := nth d v 0.
Definition qx (v : list Q) (d : nat) : Q := nth d v 0%Q.

(* all index vectors of an array of the given shape, C order (np.ogrid / nonzero order) *)
Fixpoint grid (dims : list Z) : list (list Z) :=
  match dims with
  | [] => [[]]
  | n :: ds => flat_map (fun i => map (cons i) (grid ds)) (zrange n)
  end.

(* the (2r+1)^d array that carries every mask *)
Definition box (radius : list Z) : list (list Z) := grid (map (fun r => 2 * r + 1) radius).

(* ---------- trackpy/masks.py ---------- *)
(* r = [(coord/rad)**2 ...]; sum(r) *)
Definition ell (radius : list Z) (o : list Z) : Q :=
  fold_right Qplus 0%Q
    (map (fun d => let q := (inject_Z (ix o d) / inject_Z (ix radius d))%Q in (q * q)%Q)
         (seq 0 (length radius))).
Definition offs (radius p : list Z) : list Z := map (fun d => ix p d - ix radius d) (seq 0 (length radius)).
(* binary_mask: sum(r) <= 1, as an array over [box radius]; p is the array index (0..2r) *)
Definition binary_mask (radius : list Z) (p : list Z) : bool := Qle_bool (ell radius (offs radius p)) 1.
(* r_squared_mask: r2 = sum(coords**2); r2[sum(r) > 1] = 0 *)
Definition r_squared_mask (radius : list Z) (p : list Z) : Z :=
  if binary_mask radius p then zsum (map (fun c => c * c) (offs radius p)) else 0.
(* x_squared_masks[d]: coords[d]**2; masks[:, sum(r) > 1] = 0 *)
Definition x_squared_mask (radius : list Z) (d : nat) (p : list Z) : Z :=
  if binary_mask radius p then (ix p d - ix radius d) * (ix p d - ix radius d) else 0.

Record output := mkOut {
  o_pos : list Q;                       (* final_coords[feat] / results[feat, 0..d-1] *)
  o_mass : Z;
  o_char : option (list Q * Z * Z)      (* characterize: (size^2 per Rg column, signal, raw_mass) *)
}.

Inductive kres (A : Type) := KOk (a : A) | KDivZero.
Arguments KOk {A} a.
Arguments KDivZero {A}.

Section COM.
  Variable pix rawpix : list Z -> Z.     (* image[idx], raw_image[idx] *)
  Variable radius shape : list Z.
  Variable thresh : Q.                   (* shift_thresh *)

  Definition ndim : nat := length radius.
  Definition dims : list nat := seq 0 ndim.
  (* upper_bound = np.array(image.shape) - 1 - radius ; upper_boundY = shapeY - radiusY - 1 *)
  Definition upper (d : nat) : Z := ix shape d - 1 - ix radius d.
  (* np.all(radius[1:] == radius[:-1]) / radiusX == radiusY and radiusX == radiusZ *)
  Definition isotropic : bool := forallb (fun r => r =? hd 0 radius) radius.
  (* index of the pixel under array position p of the window whose corner is coord - radius *)
  Definition at_win (coord p : list Z) : list Z := map (fun d => ix coord d - ix radius d + ix p d) dims.
  Definition all_lt (off : list Q) : bool := forallb (fun o => Qltb (Qabs o) thresh) off.

  (* ================= reference: _refine ================= *)
  Section Ref.
    Variable mask : list Z -> bool.      (* binary_mask(radius, ndim).astype(np.uint8) *)

    (* neighborhood = mask * image[rect], rect = slice(c - r, c + r + 1) per axis *)
    Definition nbh (coord : list Z) (p : list Z) : Z := if mask p then pix (at_win coord p) else 0.
    Definition nb_sum (coord : list Z) : Z := zsum (map (nbh coord) (box radius)).
    (* (x * grids[dim]).sum() *)
    Definition nb_moment (coord : list Z) (d : nat) : Z :=
      zsum (map (fun p => nbh coord p * ix p d) (box radius)).
    (* _safe_center_of_mass *)
    Definition safe_com (coord : list Z) : list Q :=
      let normalizer := nb_sum coord in
      if normalizer =? 0 then map inject_Z radius
      else map (fun d => qdiv (nb_moment coord d) normalizer) dims.

    (* coord[off_center > shift_thresh] += 1 ; coord[off_center < -shift_thresh] -= 1 *)
    Definition r_shift1 (c : Z) (o : Q) : Z :=
      let c1 := if Qltb thresh o then c + 1 else c in
      if Qltb o (- thresh)%Q then c1 - 1 else c1.
    (* np.clip(coord, radius, upper_bound) = minimum(maximum(coord, lo), hi) *)
    Definition r_clip1 (c lo hi : Z) : Z := Z.min (Z.max c lo) hi.

    (* what survives the iteration loop: rect / neighborhood (same window) and cm_i *)
    Record rstate := mkR { r_rect : list Z; r_cmi : list Q }.

    (* [n] = iterations remaining after this one (the loop body runs at least once:
       refine_com_arr raises max_iterations to 1) *)
    Fixpoint ref_loop (n : nat) (coord : list Z) : rstate :=
      let cm_n := safe_com coord in
      let off_center := map (fun d => (qx cm_n d - inject_Z (ix radius d))%Q) dims in
      let cm_i := map (fun d => (qx off_center d + inject_Z (ix coord d))%Q) dims in
      let st := mkR coord cm_i in
      if all_lt off_center then st                      (* break *)
      else
        let coord' := map (fun d => r_clip1 (r_shift1 (ix coord d) (qx off_center d)) (ix radius d) (upper d)) dims in
        match n with
        | O => st
        | S n' => ref_loop n' coord'
        end.

    (* "mask neighbourhood has non-zero brightness", at every window the run evaluates *)
    Fixpoint ref_nonzero (n : nat) (coord : list Z) : bool :=
      let cm_n := safe_com coord in
      let off_center := map (fun d => (qx cm_n d - inject_Z (ix radius d))%Q) dims in
      if nb_sum coord =? 0 then false
      else if all_lt off_center then true
      else
        let coord' := map (fun d => r_clip1 (r_shift1 (ix coord d) (qx off_center d)) (ix radius d) (upper d)) dims in
        match n with
        | O => true
        | S n' => ref_nonzero n' coord'
        end.

    (* windows evaluated, in order (for margin accounting in the check) *)
    Fixpoint ref_trace (n : nat) (coord : list Z) : list (list Z) :=
      let cm_n := safe_com coord in
      let off_center := map (fun d => (qx cm_n d - inject_Z (ix radius d))%Q) dims in
      if all_lt off_center then [coord]
      else
        let coord' := map (fun d => r_clip1 (r_shift1 (ix coord d) (qx off_center d)) (ix radius d) (upper d)) dims in
        match n with
        | O => [coord]
        | S n' => coord :: ref_trace n' coord'
        end.

    (* neighborhood.max() : maximum over the whole box array *)
    Definition list_max (l : list Z) : Z := match l with [] => 0 | x :: t => fold_left Z.max t x end.

    Definition ref_output (characterize : bool) (st : rstate) : output :=
      let rect := r_rect st in
      let mass := nb_sum rect in                                      (* neighborhood.sum() *)
      if negb characterize then mkOut (r_cmi st) mass None
      else
        let rg2 :=
          if isotropic
          then [qdiv (zsum (map (fun p => (if mask p then zsum (map (fun c => c * c) (offs radius p)) else 0) * nbh rect p)
                                (box radius))) mass]
               (* np.sum(r_squared_mask(radius, ndim) * neighborhood) / mass *)
          else map (fun d => qdiv (Z.of_nat ndim *
                                   zsum (map (fun p => (if mask p then (ix p d - ix radius d) * (ix p d - ix radius d) else 0) * nbh rect p)
                                             (box radius))) mass) dims
               (* ndim * np.sum(x_squared_masks * neighborhood, axis=...) / mass *) in
        let signal := list_max (map (nbh rect) (box radius)) in
        let raw_mass := zsum (map (fun p => if mask p then rawpix (at_win rect p) else 0) (box radius)) in
        mkOut (r_cmi st) mass (Some (rg2, signal, raw_mass)).

    Definition ref_run (iters : nat) (characterize : bool) (start : list Z) : output :=
      ref_output characterize (ref_loop (pred iters) start).
  End Ref.

  (* ================= numba kernels ================= *)
  Section Kernel.
    Variable mpts : list (list Z).       (* rows of np.asarray(mask.nonzero()).T : maskY[i], maskX[i] *)
    Variable r2_mask : list Z.           (* r_squared_mask(radius, ndim)[mask] *)
    Variable x2_masks : list (list Z).   (* per axis: image.ndim * x_squared_masks(radius, ndim)[d][mask] *)

    (* image[squareY + maskY[i], squareX + maskX[i]] *)
    Definition k_px (img : list Z -> Z) (square p : list Z) : Z :=
      img (map (fun d => ix square d + ix p d) dims).
    (* mass_ += px *)
    Definition k_mass (square : list Z) : Z := fold_left (fun acc p => acc + k_px pix square p) mpts 0.
    (* cm_nY += px*maskY[i] *)
    Definition k_mom (square : list Z) (d : nat) : Z :=
      fold_left (fun acc p => acc + k_px pix square p * ix p d) mpts 0.

    Definition k_shift1 (c : Z) (o : Q) : Z :=
      if Qltb thresh o then c + 1 else if Qltb o (- thresh)%Q then c - 1 else c.
    (* if coord < radius: coord = radius ... if coord > upper_bound: coord = upper_bound *)
    Definition k_clip1 (c lo hi : Z) : Z :=
      let c1 := if c <? lo then lo else c in
      if c1 >? hi then hi else c1.

    (* variables alive after the iteration loop: squareY/X, cm_iY/X, mass_ *)
    Record kstate := mkK { k_square : list Z; k_cmi : list Q; k_m : Z }.

    Fixpoint k_loop (n : nat) (coord : list Z) : kres kstate :=
      let square := map (fun d => ix coord d - ix radius d) dims in
      let mass_ := k_mass square in
      if mass_ =? 0 then KDivZero                               (* cm_nY /= mass_ *)
      else
        let cm_n := map (fun d => qdiv (k_mom square d) mass_) dims in
        let off_center := map (fun d => (qx cm_n d - inject_Z (ix radius d))%Q) dims in
        let cm_i := map (fun d => (qx off_center d + inject_Z (ix coord d))%Q) dims in
        let st := mkK square cm_i mass_ in
        if all_lt off_center then KOk st                        (* break *)
        else
          let coord' := map (fun d => k_clip1 (k_shift1 (ix coord d) (qx off_center d)) (ix radius d) (upper d)) dims in
          match n with
          | O => KOk st
          | S n' => k_loop n' coord'
          end.

    Definition k_output (characterize : bool) (st : kstate) : output :=
      let square := k_square st in
      if negb characterize then mkOut (k_cmi st) (k_m st) None
      else
        let rg2 :=
          if isotropic
          then [qdiv (fold_left (fun acc wp => acc + fst wp * k_px pix square (snd wp)) (combine r2_mask mpts) 0) (k_m st)]
               (* Rg_ += r2_mask[i]*px ; sqrt(Rg_/mass_) *)
          else map (fun x2 => qdiv (fold_left (fun acc wp => acc + fst wp * k_px pix square (snd wp)) (combine x2 mpts) 0) (k_m st))
                   x2_masks in
        (* if px > signal_: signal_ = px, from signal_ = 0. *)
        let signal := fold_left (fun s p => let px := k_px pix square p in if px >? s then px else s) mpts 0 in
        let raw_mass := fold_left (fun acc p => acc + k_px rawpix square p) mpts 0 in
        mkOut (k_cmi st) (k_m st) (Some (rg2, signal, raw_mass)).

    Definition k_run (iters : nat) (characterize : bool) (start : list Z) : kres output :=
      match k_loop (pred iters) start with
      | KOk st => KOk (k_output characterize st)
      | KDivZero => KDivZero
      end.
  End Kernel.
End COM.

(* ================= refine_com_arr: engine dispatch and preparation ================= *)
(* if max_iterations <= 0: max_iterations = 1 *)
Definition iters_of (max_iterations : Z) : nat := Z.to_nat (Z.max 1 max_iterations).

Definition refine_python (pix rawpix : list Z -> Z) (radius shape : list Z) (thresh : Q)
           (max_iterations : Z) (characterize : bool) (start : list Z) : output :=
  ref_run pix rawpix radius shape thresh (binary_mask radius) (iters_of max_iterations) characterize start.

Definition mask_points (radius : list Z) : list (list Z) := filter (binary_mask radius) (box radius).

Definition refine_numba (pix rawpix : list Z -> Z) (radius shape : list Z) (thresh : Q)
           (max_iterations : Z) (characterize : bool) (start : list Z) : kres output :=
  let mpts := mask_points radius in
  let r2_mask := map (r_squared_mask radius) mpts in
  let x2_masks := map (fun d => map (fun p => Z.of_nat (length radius) * x_squared_mask radius d p) mpts)
                      (seq 0 (length radius)) in
  k_run pix rawpix radius shape thresh mpts r2_mask x2_masks (iters_of max_iterations) characterize start.

(* ================= declarative vocabulary (the property's words) ================= *)
(* the image pixels of the mask neighbourhood centred at c: c + o for the offsets o
   inside the ellipse  sum (o_d / r_d)^2 <= 1 *)
Definition in_ellipse (radius o : list Z) : Prop := (ell radius o <= 1)%Q.
Definition in_image (shape x : list Z) : Prop :=
  forall d, (d < length shape)%nat -> 0 <= ix x d < ix shape d.
Definition window_inside (radius shape c : list Z) : Prop :=
  forall d, (d < length radius)%nat -> ix radius d <= ix c d <= ix shape d - 1 - ix radius d.
(* neighbourhood pixels, as a list: c - r + p over the mask points p *)
Definition nbhd (radius c : list Z) : list (list Z) :=
  map (fun p => map (fun d => ix c d - ix radius d + ix p d) (seq 0 (length radius))) (mask_points radius).
Definition total (f : list Z -> Z) (pts : list (list Z)) : Z := zsum (map f pts).
(* brightness centroid along axis d:  sum I(x) x_d / sum I(x) *)
Definition centroid (pix : list Z -> Z) (pts : list (list Z)) (d : nat) : Q :=
  qdiv (total (fun x => pix x * ix x d) pts) (total pix pts).
(* squared radius of gyration about c: sum I(x) |x - c|^2 / sum I(x) *)
Definition gyration2 (pix : list Z -> Z) (c : list Z) (pts : list (list Z)) : Q :=
  qdiv (total (fun x => pix x * zsum (map (fun d => (ix x d - ix c d) * (ix x d - ix c d)) (seq 0 (length c)))) pts)
       (total pix pts).
(* per axis (anisotropic): ndim * sum I(x) (x_d - c_d)^2 / sum I(x) *)
Definition gyration2_axis (pix : list Z -> Z) (c : list Z) (pts : list (list Z)) (d : nat) : Q :=
  qdiv (Z.of_nat (length c) * total (fun x => pix x * ((ix x d - ix c d) * (ix x d - ix c d))) pts) (total pix pts).
(* brightest neighbourhood pixel, not below 0 *)
Definition brightest (pix : list Z -> Z) (pts : list (list Z)) : Z := fold_right Z.max 0 (map pix pts).
