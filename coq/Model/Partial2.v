(* C13, route T: two small variants of the hand-written model (Model/Partial.v)
   that the generated functions (Gen/partial.v) are compared with.

   [reconnect_ord ord] is [reconnect] with the iteration order of the Python set
   `remaining` made explicit: zip(remaining, gen_ids) hands the fresh ids to the
   leftover in-range tracks in the order [ord remaining].  [reconnect] is the
   instance ord = identity (by computation).

   [link_partial2 rc] is [link_partial] with the reconnection step [rc] as a
   parameter and with the copy of the labels into '_old_particle' made only when
   the range is partial, as the source does ([link_partial] copies always; the
   two agree on tables whose rows have oldp = part, which is how the caller's
   table is represented).  No proofs in this file. *)
From Coq Require Import ZArith List Bool.
From TP Require Import Model.Partial.
Import ListNotations.
Open Scope Z_scope.

Definition final_maps_ord (ord : list Z -> list Z) (t : list row) (s e : Z) : option (amap * amap) :=
  let st := boundary t s e in
  let remaining := ord (remaining_of t s e st) in
  let used := used_of t s e st in
  match gen_take used 0 (length (l_rb st) + length remaining) with
  | None => None
  | Some ids =>
    let mp := put_all (l_mp st) (combine (map fst (l_rb st) ++ remaining) ids) in
    let ma := put_all (l_ma st) (combine (map snd (l_rb st)) ids) in
    Some (mp, ma)
  end.

Definition reconnect_ord (ord : list Z -> list Z) (t : list row) (s e : Z) : presult (list row) :=
  if negb (s <? e) then PRaises EAssert else
  match final_maps_ord ord t s e with
  | None => PRaises EFuel
  | Some (mp, ma) => POk (map (relabel s e mp ma) t)
  end.

Definition patch2 (rc : list row -> Z -> Z -> presult (list row))
           (lo hi : Z) (t : list row) (lr : Z * Z) (linker : Z -> list Z) : presult (list row) :=
  if negb (fst lr <? snd lr) then PRaises EAssert else
  let (s, e) := clamp lo hi lr in
  let partial := (lo <? s) || (e <? hi) in
  let t1 := if partial then map (fun r => set_old r (part r)) t else t in
  if negb (s <? e) then PRaises ERuntime else
  match relink (Zrange s e) linker t1 with
  | None => PRaises EValue
  | Some t2 => if partial then rc t2 s e else POk t2
  end.

Definition link_partial2 (rc : list row -> Z -> Z -> presult (list row))
           (f : list row) (lr : Z * Z) (linker : Z -> list Z) : presult (list row) :=
  match frame_span f with
  | None => PRaises EValue
  | Some (lo, hi) => patch2 rc lo hi (sort_rows f) lr linker
  end.

(* the hypothesis under which Python's dict and the model's association list
   agree on `claimed`: the in-range ids of the rows of the first frame of the
   range that carry a non-negative old label are pairwise distinct (C01) *)
Definition first_ids_unique (t : list row) (s : Z) : Prop :=
  NoDup (map fst (filter (fun po => negb (snd po <? 0)) (pairs_at s t))).
