(* C09, route T for the head of locate: the hand-written model of trackpy.feature.locate AT THE LEVEL
   OF ITS PYTHON ARGUMENTS (feature.py:204-404), for an integer image, preprocess=False, invert=False:
   the validation of diameter / separation / smoothing_size / noise_size with its refusals, in the order
   of the source, followed by Model/LocatePipe.locate (margins, maxima, refinement, tail) on the squeezed
   image.  Proofs/LocateheadGen.v proves the GENERATED locate (Gen/locatehead.v: generated head, generated
   grey_dilation, generated refine_com, generated tail) equal to this model.  No proofs in this file. *)
From Coq Require Import ZArith QArith List Bool String.
From TP Require Import Model.Dilation Model.COM Model.LocateTail Model.LocatePipe Model.StaticError Model.PyTail Model.PyLocatehead.
From TP Require Model.PyPreproc.
Import ListNotations.
Open Scope Z_scope.

(* the validated tuples *)
Record largs := mkLA {
  a_diameter : list Z;         (* validate_tuple(diameter, ndim), ints *)
  a_sep : list Q;              (* separation: diameter + 1, or validate_tuple(separation, ndim) *)
  a_smooth : list Z;           (* smoothing_size: diameter, or validate_tuple(smoothing_size, ndim) *)
  a_noise : list Q }.          (* validate_tuple(noise_size, ndim) *)

Definition MSG_ODD : string := "Feature diameter must be an odd integer. Round up.".
Definition MSG_ANISO : string := "Filtering by size is not available for anisotropic features.".
Definition MSG_FILTER_BEFORE : string :=
  "The filter_before argument is no longer supported as it does not improve performance. Features are filtered after refine.".

Definition radius_of (diameter : list Z) : list Z := map (fun d => d / 2) diameter.

(* feature.py:318-347, in source order; utils_validate_tuple raises ValueError on a sequence of the wrong length *)
Definition locate_args (ndim : nat) (diameter : PyPreproc.pyarg Z) (maxsize : option Q)
           (separation : option (PyPreproc.pyarg Q)) (smoothing_size : option (PyPreproc.pyarg Z))
           (noise_size : PyPreproc.pyarg Q) : res largs :=
  rbind (utils_validate_tuple diameter ndim) (fun d =>
  if negb (forallb Z.odd d) then RRaise (EValueError MSG_ODD)
  else if negb (isotropic (radius_of d)) && is_some maxsize then RRaise (EValueError MSG_ANISO)
  else
    rbind (match separation with
           | None => ROk (map (fun x => inject_Z (x + 1)) d)
           | Some s => utils_validate_tuple s ndim
           end) (fun sep =>
    rbind (match smoothing_size with
           | None => ROk d
           | Some s => utils_validate_tuple s ndim
           end) (fun sm =>
    rbind (utils_validate_tuple noise_size ndim) (fun ns =>
    ROk (mkLA d sep sm ns))))).

(* the parameters of Model/LocatePipe.v from the validated tuples *)
Definition lparams_of (V : largs) (max_iterations : Z) (characterize numba : bool)
           (minmass maxsize : option Q) (topn : option nat) : lparams :=
  mkL (radius_of (a_diameter V)) (a_sep V) (map inject_Z (a_smooth V)) (a_noise V)
      max_iterations characterize numba (match minmass with Some m => m | None => 0%Q end) maxsize topn.

(* margin = tuple([max(rad, sep // 2 - 1, sm // 2) ...]) *)
Definition margin_of (V : largs) : list Z :=
  margins (radius_of (a_diameter V)) (a_sep V) (map inject_Z (a_smooth V)).

(* locate(raw_image, diameter, ..., preprocess=False, invert=False, filter_before=None) on an integer image:
   RRaise e: a refusal of the validation (the message is part of the model); ROk None: the pipeline raises
   (KeyError 'size', ZeroDivisionError of the numba kernels: Model/LocatePipe.locate_on); ROk (Some table) *)
Definition locate_py (percentile : list Z -> Q) (sqrtf : Q -> Q) (numba : bool) (raw : image)
           (diameter : PyPreproc.pyarg Z) (minmass maxsize : option Q) (separation : option (PyPreproc.pyarg Q))
           (noise_size : PyPreproc.pyarg Q) (smoothing_size : option (PyPreproc.pyarg Z)) (topn : option nat)
           (max_iterations : Z) (characterize : bool) : res (option (list (lrow * list fval))) :=
  let im := squeeze_image raw in
  rbind (locate_args (List.length (shape im)) diameter maxsize separation smoothing_size noise_size) (fun V =>
  ROk (locate percentile sqrtf (lparams_of V max_iterations characterize numba minmass maxsize topn) im)).

(* no negative entry: what an unsigned dtype guarantees *)
Fixpoint arr_nonneg (a : arr) : bool :=
  match a with
  | Leaf v => 0 <=? v
  | Node l => forallb arr_nonneg l
  end.

(* the integer dtype and the array agree: an unsigned array has no negative entry *)
Definition dtype_ok (dt : int_dtype) (im : image) : Prop :=
  dt_signed dt = false -> arr_nonneg (data im) = true.

(* the generated locate and the model agree: same refusal; the pipeline raises in both; or the same table
   (index labels and rows identical, ep entries equal as float64 values) *)
Definition locate_agrees (g : res dframe) (m : res (option (list (lrow * list fval)))) : Prop :=
  match g, m with
  | RRaise e, RRaise e' => e = e'
  | RRaise _, ROk None => True
  | ROk d, ROk (Some t) =>
      Forall2 (fun x y => fst x = fst y /\ Forall2 feq (snd x) (snd y)) (df_lines d) t
  | _, _ => False
  end.
