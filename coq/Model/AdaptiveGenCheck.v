(* Drivers and executable comparisons for the GENERATED adaptive glue (Gen/adaptive.v):
     check_gen_adaptive   the real trackpy.linking.linking.adaptive_link_wrap with subnet_linker_drop as the
                          subnet linker (and the real split_subnet / assign_subnet underneath), next to the
                          generated py_adaptive_link_wrap over the generated py_subnet_linker_drop and
                          py_split_subnet (callee assign_subnet = the model Model/SubnetMerge.assign_subnet),
                          in exact rational arithmetic, on the same candidate graph: same raise / same links /
                          same forward_cands left in the source points; and next to the model asplit_g over
                          py_splitter (what Proofs/AdaptiveGen.py_adaptive_asplit predicts)
   No proofs in this file. *)
From Coq Require Import ZArith QArith NArith List Bool Arith.
From TP Require Import Model.Assign Model.Link Model.LinkCheck Model.Adaptive Model.SubnetMerge Model.SplitSubnet
     Model.Strategies Model.PyAdaptive Model.Adaptive2 Gen.adaptive.
Import ListNotations.

Definition model_assign (m : mst) (s d : nat) : mresult :=
  match assign_subnet m (s, d) with Some m' => MDone m' | None => MFail KeyError end.

Definition gen_split := py_split_subnet Q Q_ops model_assign.
Definition gen_drop (h : heap) (ss ds : list nat) (rho : Q) (max_size : nat) : fresult pairs :=
  py_subnet_linker_drop Q h ss ds rho max_size.
Definition gen_adaptive := py_adaptive_link_wrap Q Q_ops nat gen_drop gen_split.

Fixpoint ins_link (x : nat * option nat) (l : list (nat * option nat)) : list (nat * option nat) :=
  match l with
  | [] => [x]
  | y :: l' => if (fst x <=? fst y)%nat then x :: l else y :: ins_link x l'
  end.
Definition sort_links (l : list (nat * option nat)) : list (nat * option nat) := fold_right ins_link [] l.

Definition eq_od (a b : option nat) : bool :=
  match a, b with None, None => true | Some x, Some y => Nat.eqb x y | _, _ => false end.
Fixpoint eq_links (a b : list (nat * option nat)) : bool :=
  match a, b with
  | [], [] => true
  | (s1, d1) :: a', (s2, d2) :: b' => Nat.eqb s1 s2 && eq_od d1 d2 && eq_links a' b'
  | _, _ => false
  end.
Fixpoint eq_cands (a b : list cand) : bool :=
  match a, b with
  | [], [] => true
  | (d1, c1) :: a', (d2, c2) :: b' => eq_od d1 d2 && Z.eqb c1 c2 && eq_cands a' b'
  | _, _ => false
  end.
Fixpoint eq_fcs (i : nat) (fc : fcmap) (impl : list (list cand)) : bool :=
  match impl with
  | [] => true
  | cs :: impl' => eq_cands (fc_get i fc) cs && eq_fcs (S i) fc impl'
  end.

(* what the drop linker answers on a group that fits, as links *)
Definition drop_slv (k : nat) (g : group) : list (nat * option nat) := map strip_cost (drop_group g).

(* c = (candidate lists of the sources 0..ns-1 (sorted by distance, no null candidate), the destinations,
        (search_range, adaptive_step, adaptive_stop) as exact rationals, the same as the model's integers
        (R2, p, q, sn, sd), max_size, what the real adaptive_link_wrap did: None = raised
        SubnetOversizeException, Some (links sorted by source, forward_cands left in every source)) *)
Definition check_gen_adaptive
  (c : list (list cand) * list nat * (Q * Q * Q) * (Z * Z * Z * Z * Z) * nat * option (list (nat * option nat) * list (list cand))) : N :=
  let '(srcs, dests, (r, step, stop), (R2, p, q, sn, sd), ms, impl) := c in
  let ss := seq 0 (length srcs) in
  let h0 := mk_heap (combine ss srcs) empty_mst in
  let a := {| a_max := ms; a_p := p; a_q := q; a_sn := sn; a_sd := sd |} in
  let model := asplit_g (py_splitter a R2) 200 a 0 (grp h0 ss) dests in
  match gen_adaptive 201 h0 ss dests r (Some stop) step ms, impl with
  | Fail _ SubnetOversizeException, None =>
      match model with Oversize => 0%N | Ok _ => 45%N end
  | Fail _ _, _ => 43%N
  | Done _ _, None => 44%N
  | Done h res, Some (links, fcs) =>
      if negb (eq_links (sort_links (links_of res)) links) then 41%N
      else if negb (eq_fcs 0 (h_fc h) fcs) then 42%N
      else match model with
           | Oversize => 45%N
           | Ok ls => if eq_links (links_of res) (flat_map (leaf_links drop_slv) ls) then 0%N else 45%N
           end
  end.
