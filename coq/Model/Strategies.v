(* C03: link_strategy 'drop', and the per-axis search range as a rescaling.  No proofs. *)
From Coq Require Import ZArith QArith NArith List Bool.
From TP Require Import Model.Assign Model.Link Model.LinkCheck.
Import ListNotations.
Open Scope Z_scope.

(* subnet_linker_drop: a subnet with exactly one source and one destination is linked,
   every other subnet is left unlinked (sources lost, destinations new) *)
Definition drop_group (g : group) : list link_t :=
  match g with
  | [(i, cs)] => match reals cs with
                 | [j] => match cs with
                          | c :: _ => [(i, c)]            (* its only real candidate (sorted first) *)
                          | [] => [(i, (None, 0))]
                          end
                 | _ => [(i, (None, 0))]
                 end
  | _ => map (fun it : item => (fst it, (None, 0))) g
  end.

Definition drop_links (max_size : nat) (gs : list group) : result (list link_t) :=
  if existsb (fun g => (max_size <? length g)%nat) gs then Oversize
  else Ok (flat_map drop_group gs).

(* expected destination of source i under 'drop' *)
Fixpoint dest_of (links : list link_t) (i : nat) : option nat :=
  match links with
  | [] => None
  | (i', (d, _)) :: l' => if Nat.eqb i' i then d else dest_of l' i
  end.

Definition same_dests (n : nat) (a b : list link_t) : bool :=
  forallb (fun i => match dest_of a i, dest_of b i with
                    | Some x, Some y => Nat.eqb x y
                    | None, None => true
                    | _, _ => false
                    end) (seq 0 n).

(* monitor for a 'drop' step: the labelling must make exactly the links of drop_links *)
Definition check_step_drop (m : metric) (mem max_size : nat) (st : lstate) (ds : list pt) (labs : list nat) : N * lstate :=
  let links := links_of_labels m no_pred st ds labs in
  let st' := resync mem st ds labs links in
  if negb (Nat.eqb (length labs) (length ds)) then (6%N, st')
  else if negb (nodup_b labs) then (1%N, st')
  else if negb (born_fresh st labs) then (4%N, st')
  else match drop_links max_size (components (items_of m no_pred st ds)) with
       | Oversize => (5%N, st')
       | Ok exp => if same_dests (length (live st)) exp links then (0%N, st') else (9%N, st')
       end.

Fixpoint check_run_drop_from (m : metric) (mem max_size : nat) (st : lstate) (frames : list (list pt)) (out : list obs) : N :=
  match frames, out with
  | [], [] => 0%N
  | ds :: rest, Labels labs :: out' =>
    let (c, st') := check_step_drop m mem max_size st ds labs in
    if N.eqb c 0 then check_run_drop_from m mem max_size st' rest out' else c
  | ds :: rest, Raised :: _ =>
    match drop_links max_size (components (items_of m no_pred st ds)) with
    | Oversize => 0%N | Ok _ => 8%N end
  | _, _ => 6%N
  end.

Definition check_run_drop (m : metric) (mem max_size : nat) (frames : list (list pt)) (out : list obs) : N :=
  match frames, out with
  | [], [] => 0%N
  | f0 :: rest, Labels l0 :: out' =>
    if negb (Nat.eqb (length l0) (length f0)) then 6%N
    else if negb (nodup_b l0) then 1%N
    else check_run_drop_from m mem max_size (init_of_labels f0 l0) rest out'
  | _, _ => 6%N
  end.

(* ---- per-axis range as rescaling: squared distance of coordinates divided by the range ---- *)
Fixpoint d2q (rs : list Z) (p q : pt) : Q :=
  match rs, p, q with
  | r :: rs', x :: p', y :: q' => (inject_Z (x - y) / inject_Z r) * (inject_Z (x - y) / inject_Z r) + d2q rs' p' q'
  | _, _, _ => 0
  end.
