(* The pinned (pre-fix) behaviour of trackpy/motion.py, kept as regression
   witnesses for DESIGN 4 F6, F7, F11 (repaired by 37ede69 and 2522a87):
     - msd did not sort the rows by frame,
     - _msd_gaps summed the per-axis columns with skipna=True (no pair -> 0.0),
     - emsd did not mask the weight N of a particle where its value is NaN.
   Same building blocks as Model/MSD.v.  No proofs in this file. *)
From Coq Require Import ZArith QArith Qcanon List Bool.
From TP Require Import Model.MSD.
Import ListNotations.
Open Scope Qc_scope.

(* DataFrame.sum(axis=1) with the default skipna=True *)
Definition osum_skip (l : list (option Qc)) : option Qc := Some (qsum (somes l)).

Definition msd_gaps_old (t : list row) (mpp fps : Qc) (maxlag ndim : nat) : option (list mrow) :=
  match msd_gaps t mpp fps maxlag ndim with
  | None => None
  | Some rows => Some (map (fun r => {| r_lag := r_lag r; r_lagt := r_lagt r; r_disp := r_disp r;
                                        r_sq := r_sq r; r_msd := osum_skip (r_sq r); r_N := r_N r |}) rows)
  end.

(* no sort on entry *)
Definition msd_old (t : list row) (mpp fps : Qc) (maxlag ndim : nat) : option (list mrow) :=
  match t with
  | [] => None
  | _ =>
    let fr := map fst t in
    if (zmax fr - zmin fr + 1 =? Z.of_nat (length t))%Z
    then Some (msd_fft t mpp fps maxlag ndim)
    else msd_gaps_old t mpp fps maxlag ndim
  end.

Definition per_particle_old (tr : list prow) (mpp fps : Qc) (maxlag ndim : nat) :=
  all_some (map (fun p => option_map (pair p) (msd_old (rows_of p tr) mpp fps maxlag ndim)) (pids tr)).

(* unmasked weights: numerator skips NaN products, denominator averages the
   weight of every particle that has the lag in its index *)
Definition emsd_old (tr : list prow) (mpp fps : Qc) (maxlag ndim : nat) : option (list erow) :=
  match per_particle_old tr mpp fps maxlag ndim with
  | None => None
  | Some tabs =>
    Some (map (fun m =>
                 let num := mean (map (fun e => snd e * fst e) (contrib_entries m tabs)) in
                 let ws := flat_map (fun pt => match find_lag m (snd pt) with Some r => [r_N r] | None => [] end) tabs in
                 {| e_lag := m; e_lagt := nq m / fps; e_msd := odiv num (mean ws); e_N := qsum ws |})
              (lags (max_lag tabs)))
  end.
