(* Declarative statement of what the MSD functions are supposed to compute
   (property C17).  No algorithms of trackpy appear here: only "all pairs of
   observations n frames apart" and means / weighted means over them.
   No proofs in this file. *)
From Coq Require Import ZArith QArith Qcanon List Bool.
From TP Require Import Model.MSD.
Import ListNotations.
Open Scope Qc_scope.

(* all ordered pairs (a, b) of observations of one trajectory with
   frame(b) - frame(a) = n *)
Definition pairs (n : Z) (t : list row) : list (row * row) :=
  filter (fun ab => (fst (snd ab) - fst (fst ab) =? n)%Z) (list_prod t t).

(* squared displacement from a to b in physical units:
   mpp^2 * sum over the axes of (b_d - a_d)^2 *)
Definition sqdisp (mpp : Qc) (ndim : nat) (a b : row) : Qc :=
  mpp * mpp *
  qsum (map (fun d => (nth d (snd b) 0 - nth d (snd a) 0) * (nth d (snd b) 0 - nth d (snd a) 0))
            (seq 0 ndim)).

(* THE statistic: mean over all pairs n frames apart of the squared
   displacement; NaN ([None]) when there is no such pair *)
Definition msd_def (mpp : Qc) (ndim : nat) (t : list row) (n : nat) : option Qc :=
  mean (map (fun ab => sqdisp mpp ndim (fst ab) (snd ab)) (pairs (Z.of_nat n) t)).

(* per-axis companions reported in the same table *)
Definition axis_sq_def (mpp : Qc) (d : nat) (t : list row) (n : nat) : option Qc :=
  mean (map (fun ab => sqr (coord d mpp (snd (snd ab)) - coord d mpp (snd (fst ab))))
            (pairs (Z.of_nat n) t)).
Definition axis_disp_def (mpp : Qc) (d : nat) (t : list row) (n : nat) : option Qc :=
  mean (map (fun ab => coord d mpp (snd (snd ab)) - coord d mpp (snd (fst ab)))
            (pairs (Z.of_nat n) t)).

(* number of frames spanned: largest minus smallest frame number *)
Definition span (t : list row) : nat :=
  Z.to_nat (zmax (map fst t) - zmin (map fst t)).

(* effective number of independent measurements of one trajectory at lag n:
   Qian et al. for the spanned length, scaled by the fraction of frames
   actually observed *)
Definition N_eff (t : list row) (n : nat) : Qc :=
  msd_N (S (span t)) n * nq (length t) / nq (S (span t)).

(* the (lag, lag/fps, value) table msd must return *)
Definition msd_table (mpp fps : Qc) (maxlag ndim : nat) (t : list row)
  : list (nat * Qc * option Qc) :=
  map (fun n => (n, nq n / fps, msd_def mpp ndim t n)) (seq 1 (Nat.min maxlag (span t))).

(* imsd has one column per particle that has at least one lag *)
Definition imsd_columns (maxlag : nat) (tr : list prow) : list Z :=
  filter (fun p => (1 <=? Nat.min maxlag (span (rows_of p tr)))%nat) (pids tr).

(* ensemble: particles that have a value at lag n, and the N-weighted mean of
   their values *)
Definition contributing (mpp : Qc) (ndim : nat) (tr : list prow) (n : nat) : list (Qc * Qc) :=
  flat_map (fun p => match msd_def mpp ndim (rows_of p tr) n with
                     | Some v => [(N_eff (rows_of p tr) n, v)]
                     | None => []
                     end) (pids tr).

Definition emsd_def (mpp : Qc) (ndim : nat) (tr : list prow) (n : nat) : option Qc :=
  match contributing mpp ndim tr n with
  | [] => None
  | c => Some (qsum (map (fun e => fst e * snd e) c) / qsum (map fst c))
  end.

(* number of lag rows of the ensemble tables: the longest per-particle table *)
Definition ens_lags (maxlag : nat) (tr : list prow) : nat :=
  fold_right Nat.max 0%nat (map (fun p => Nat.min maxlag (span (rows_of p tr))) (pids tr)).
