(* Executable comparison of the implementation's observed output with
   (a) the model Model/MSD.v (correspondence) and (b) the declarative
   statistic Model/MSDSpec.v (monitor).  Inputs arrive as exact rationals Q
   (every float64 is one); float results are compared with the exact value
   within a tolerance supplied by the harness, structure (row count, lag index,
   NaN pattern, exception or not) exactly.
   Result codes (N), 0 = ok:
     1 implementation raised, model returns      2 model raises, implementation returned
     3 number of rows / lag index differ (model) 4 lagt column differs
     5 NaN pattern of msd differs (model)        6 msd value differs (model)
     7 <x^2> column differs                      8 <x> column differs
     9 N column differs
     10 msd value is not the mean over all pairs n frames apart (definition)
     11 NaN pattern: NaN iff no pair violated (definition)
     12 lag index is not 1..min(max_lagtime, span) (definition)
     13 particle columns differ
     14 emsd value is not the N-weighted mean over contributing particles (definition)
     15 emsd N differs from sum of weights of contributing particles
   No proofs in this file. *)
From Coq Require Import ZArith NArith QArith Qabs Qcanon List Bool.
From TP Require Import Model.MSD Model.MSDSpec.
Import ListNotations.

Definition qrow := (Z * list Q)%type.
Definition to_row (r : qrow) : row := (fst r, map Q2Qc (snd r)).

Definition close (tol : Q) (x : Q) (y : Qc) : bool :=
  Qle_bool (Qabs (x - this y)) (tol * (1 + Qabs (this y))).

(* 0 ok, 1 NaN pattern, 2 value *)
Definition cmp_opt (tol : Q) (x : option Q) (y : option Qc) : N :=
  match x, y with
  | None, None => 0
  | Some a, Some b => if close tol a b then 0 else 2
  | _, _ => 1
  end%N.

Fixpoint cmp_opts (tol : Q) (xs : list (option Q)) (ys : list (option Qc)) : bool :=
  match xs, ys with
  | [], [] => true
  | x :: xs', y :: ys' => N.eqb (cmp_opt tol x y) 0 && cmp_opts tol xs' ys'
  | _, _ => false
  end.

Definition first_nonzero (l : list N) : N :=
  fold_right (fun c acc => if N.eqb c 0 then acc else c) 0%N l.

(* implementation row of msd(detail=True): lag, lagt, <x>.., <x^2>.., msd, N *)
Definition implrow := (Z * Q * list (option Q) * list (option Q) * option Q * Q)%type.

Definition cmp_row (tol : Q) (ir : implrow) (mr : mrow) : N :=
  let '(lag, lagt, disp, sq, m, n) := ir in
  if negb (Z.eqb lag (Z.of_nat (r_lag mr))) then 3%N
  else if negb (close (1 # 1000000000000) lagt (r_lagt mr)) then 4%N
  else match cmp_opt tol m (r_msd mr) with
       | 1 => 5 | 2 => 6
       | _ => if negb (cmp_opts tol sq (r_sq mr)) then 7
              else if negb (cmp_opts tol disp (r_disp mr)) then 8
              else if negb (close tol n (r_N mr)) then 9 else 0
       end%N.

Fixpoint cmp_rows {A B : Type} (f : A -> B -> N) (xs : list A) (ys : list B) : N :=
  match xs, ys with
  | [], [] => 0%N
  | x :: xs', y :: ys' => let c := f x y in if N.eqb c 0 then cmp_rows f xs' ys' else c
  | _, _ => 3%N
  end.

(* monitor: implementation rows against the definition *)
Definition mon_row (tol : Q) (ir : implrow) (sr : nat * Qc * option Qc) : N :=
  let '(lag, lagt, disp, sq, m, n) := ir in
  let '(sl, slagt, sv) := sr in
  if negb (Z.eqb lag (Z.of_nat sl)) then 12%N
  else if negb (close (1 # 1000000000000) lagt slagt) then 4%N
  else match cmp_opt tol m sv with 1 => 11 | 2 => 10 | _ => 0 end%N.

Fixpoint mon_rows (tol : Q) (xs : list implrow) (ys : list (nat * Qc * option Qc)) : N :=
  match xs, ys with
  | [], [] => 0%N
  | x :: xs', y :: ys' => let c := mon_row tol x y in if N.eqb c 0 then mon_rows tol xs' ys' else c
  | _, _ => 12%N
  end.

(* valid = non-empty, distinct frames, at least one axis: the hypotheses of the theorems *)
Definition check_msd (tol : Q) (valid : bool) (traj : list qrow) (mpp fps : Q)
           (maxlag ndim : nat) (out : option (list implrow)) : N :=
  let t := map to_row traj in
  let mo := msd t (Q2Qc mpp) (Q2Qc fps) maxlag ndim in
  match out, mo with
  | None, None => 0%N
  | None, Some _ => 1%N
  | Some _, None => 2%N
  | Some rows, Some mrows =>
    (* the property itself first (monitor), then the correspondence with the model *)
    let c := if valid then mon_rows tol rows (msd_table (Q2Qc mpp) (Q2Qc fps) maxlag ndim t) else 0%N in
    if negb (N.eqb c 0) then c else cmp_rows (cmp_row tol) rows mrows
  end.

(* ---- imsd ------------------------------------------------------------------ *)
Definition qprow := (Z * qrow)%type.
Definition to_prow (r : qprow) : prow := (fst r, to_row (snd r)).

Definition implirow := (Q * list (option Q))%type.     (* lagt, values per particle *)

Definition cmp_irow (tol : Q) (ir : implirow) (mr : irow) : N :=
  let '(lagt, vals) := ir in
  if negb (close (1 # 1000000000000) lagt (i_lagt mr)) then 4%N
  else if negb (cmp_opts tol vals (i_vals mr)) then 6%N else 0%N.

Definition eqb_list_Z (a b : list Z) : bool :=
  Nat.eqb (length a) (length b) && forallb (fun p => Z.eqb (fst p) (snd p)) (combine a b).

(* definition side: entry (lag, particle) = msd_def of that particle's rows *)
Definition imsd_def_row (mpp : Qc) (ndim maxlag : nat) (tr : list prow) (m : nat) : list (option Qc) :=
  map (fun p => msd_def mpp ndim (rows_of p tr) m) (imsd_columns maxlag tr).

Fixpoint mon_irows (tol : Q) (mpp : Qc) (ndim maxlag : nat) (tr : list prow) (m : nat)
         (xs : list implirow) : N :=
  match xs with
  | [] => 0%N
  | (_, vals) :: xs' =>
    if cmp_opts tol vals (imsd_def_row mpp ndim maxlag tr m) then mon_irows tol mpp ndim maxlag tr (S m) xs' else 10%N
  end.

Definition check_imsd (tol : Q) (valid : bool) (traj : list qprow) (mpp fps : Q)
           (maxlag ndim : nat) (out : option (list Z * list implirow)) : N :=
  let tr := map to_prow traj in
  let mo := imsd tr (Q2Qc mpp) (Q2Qc fps) maxlag ndim in
  match out, mo with
  | None, None => 0%N
  | None, Some _ => 1%N
  | Some _, None => 2%N
  | Some (ps, rows), Some (mps, mrows) =>
    if negb (eqb_list_Z ps mps) then 13%N
    else let c := if valid then mon_irows tol (Q2Qc mpp) ndim maxlag tr 1 rows else 0%N in
         if negb (N.eqb c 0) then c else cmp_rows (cmp_irow tol) rows mrows
  end.

(* ---- emsd ------------------------------------------------------------------ *)
Definition implerow := (Z * Q * option Q * Q)%type.    (* lag, lagt, msd, N *)

Definition cmp_erow (tol : Q) (ir : implerow) (mr : erow) : N :=
  let '(lag, lagt, m, n) := ir in
  if negb (Z.eqb lag (Z.of_nat (e_lag mr))) then 3%N
  else if negb (close (1 # 1000000000000) lagt (e_lagt mr)) then 4%N
  else match cmp_opt tol m (e_msd mr) with
       | 1 => 5 | 2 => 6
       | _ => if negb (close tol n (e_N mr)) then 9 else 0
       end%N.

Fixpoint mon_erows (tol : Q) (mpp : Qc) (ndim : nat) (tr : list prow) (xs : list implerow) : N :=
  match xs with
  | [] => 0%N
  | (lag, _, m, n) :: xs' =>
    let k := Z.to_nat lag in
    match cmp_opt tol m (emsd_def mpp ndim tr k) with
    | 0%N => if close tol n (qsum (map fst (contributing mpp ndim tr k)))
             then mon_erows tol mpp ndim tr xs' else 15%N
    | _ => 14%N
    end
  end.

Definition check_emsd (tol : Q) (valid : bool) (traj : list qprow) (mpp fps : Q)
           (maxlag ndim : nat) (out : option (list implerow)) : N :=
  let tr := map to_prow traj in
  let mo := emsd tr (Q2Qc mpp) (Q2Qc fps) maxlag ndim in
  match out, mo with
  | None, None => 0%N
  | None, Some _ => 1%N
  | Some _, None => 2%N
  | Some rows, Some mrows =>
    let c := if valid then mon_erows tol (Q2Qc mpp) ndim tr rows else 0%N in
    if negb (N.eqb c 0) then c else cmp_rows (cmp_erow tol) rows mrows
  end.
