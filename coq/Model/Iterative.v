(* Models of the two iterative subnet solvers of trackpy/linking/subnetlinker.py:
     nonrecursive_link      (explicit stacks k_stack / cur_sum_stack / cur_back)
     _numba_subnet_norecur  (arrays tmp_assignments / cur_sums / cur_assignments)
   Both are depth-first searches with the same pruning test as the recursive
   solver; they differ in how they treat an equal-cost leaf (nonrecursive: keep
   the incumbent, like the recursive one; numba: replace it).
   The per-level cursor k (index of the next candidate) is represented by the list
   of candidates not yet tried (skipn k of the level's list).  No proofs here. *)
From Coq Require Import ZArith List Bool.
From TP Require Import Model.Assign.
Import ListNotations.
Open Scope Z_scope.

(* the recursive search with two switches: [ties] - an equal-cost leaf replaces the
   incumbent; [up] - after a leaf the remaining (more expensive) candidates of the last
   source are abandoned.  (false,false) is SubnetLinker.do_recur / nonrecursive_link,
   (true,true) is _numba_subnet_norecur. *)
Definition improve_t (ties : bool) (v : Z) (p : list cand) (b : best_t) : best_t :=
  match b with
  | None => Some (v, rev p)
  | Some (bv, _) => if (if ties then v <=? bv else v <? bv) then Some (v, rev p) else b
  end.

Fixpoint sg (ties up : bool) (rest : list (list cand)) {struct rest}
  : list cand -> list nat -> Z -> list cand -> best_t -> best_t :=
  fix loop (cs : list cand) (taken : list nat) (cur : Z) (path : list cand) (best : best_t) {struct cs} : best_t :=
    match cs with
    | [] => best
    | (d, c) :: cs' =>
      let tmp := cur + c in
      if exceeds tmp best then best
      else if taken_b d taken then loop cs' taken cur path best
      else match rest with
           | [] => let b' := improve_t ties tmp ((d, c) :: path) best in
                   if up then b' else loop cs' taken cur path b'
           | cs2 :: rest2 =>
             loop cs' taken cur path (sg ties up rest2 cs2 (add_taken d taken) tmp ((d, c) :: path) best)
           end
    end.

Definition solve_g (ties up : bool) (srcs : list (list cand)) : best_t :=
  match srcs with
  | [] => Some (0, [])
  | cs :: rest => sg ties up rest cs [] 0 [] None
  end.

(* ---- the stack machine ----
   one level of the explicit stack: the candidates of source j not yet tried, the
   sources below (j+1..), the destinations taken by levels < j, cur_sum_stack[j],
   and cur_back[:j] (as chosen candidates, most recent first) *)
Record level := { l_cs : list cand; l_rest : list (list cand); l_taken : list nat; l_cur : Z; l_path : list cand }.

Definition mstate := (list level * best_t)%type.      (* stack (top first), best so far *)

(* one iteration of the `while j >= 0` / `while 1` loop *)
Definition mstep (ties up : bool) (s : mstate) : mstate :=
  let (stk, best) := s in
  match stk with
  | [] => s
  | lv :: below =>
    match l_cs lv with
    | [] => (below, best)                                  (* k >= cand_lens[j]: go up *)
    | (d, c) :: cs' =>
      let tmp := l_cur lv + c in
      if exceeds tmp best then (below, best)               (* tmp_sum > best_sum: abandon the level *)
      else
        let lv' := {| l_cs := cs'; l_rest := l_rest lv; l_taken := l_taken lv; l_cur := l_cur lv; l_path := l_path lv |} in
        if taken_b d (l_taken lv) then (lv' :: below, best)  (* destination already linked: next k *)
        else match l_rest lv with
             | [] => let b' := improve_t ties tmp ((d, c) :: l_path lv) best in   (* j+1 == MAX: a leaf *)
                     if up then (below, b') else (lv' :: below, b')
             | cs2 :: rest2 =>
               ({| l_cs := cs2; l_rest := rest2; l_taken := add_taken d (l_taken lv); l_cur := tmp; l_path := (d, c) :: l_path lv |}
                  :: lv' :: below, best)                   (* go down *)
             end
    end
  end.

Fixpoint mrun (ties up : bool) (fuel : nat) (s : mstate) : option best_t :=
  match fst s with
  | [] => Some (snd s)
  | _ => match fuel with O => None | S f => mrun ties up f (mstep ties up s) end
  end.

Definition minit (srcs : list (list cand)) : mstate :=
  match srcs with
  | [] => ([], Some (0, []))
  | cs :: rest => ([{| l_cs := cs; l_rest := rest; l_taken := []; l_cur := 0; l_path := [] |}], None)
  end.

(* nonrecursive_link: strict improvement at a leaf; numba kernel: ties replace the incumbent *)
Definition nonrecursive_link (fuel : nat) (srcs : list (list cand)) : option best_t := mrun false false fuel (minit srcs).
Definition numba_link (fuel : nat) (srcs : list (list cand)) : option best_t := mrun true true fuel (minit srcs).

(* enough iterations: every iteration consumes one unit of this measure *)
Fixpoint cost_full (srcs : list (list cand)) : nat :=
  match srcs with
  | [] => 0
  | cs :: rest => S (length cs * S (cost_full rest))
  end.
Definition cost_lv (lv : level) : nat := S (length (l_cs lv) * S (cost_full (l_rest lv))).
Definition cost_stk (stk : list level) : nat := fold_right (fun lv a => cost_lv lv + a)%nat 0%nat stk.
