(* Executable model of trackpy.find.grey_dilation / where_close / drop_close and
   trackpy.preprocessing.convert_to_int (as they are in /repo now).

   Images: an n-D array is a nested list (numpy's .tolist()) together with its
   shape; [get] is total and returns 0 outside the array, which is exactly
   scipy's mode='constant', cval=0.  Float images are handed over as integers
   after multiplying every pixel by one common power of two (the 8-bit rescale
   floor(255*max(v,0)/vmax) is invariant under that).

   Modelled, not verified (pinned empirically by the harness vp/props/c06.py):
     * scipy.ndimage.grey_dilation(image, size, mode='constant') = maximum over
       the reflected box [i-(s-1)//2, i+s//2] per axis, zeros outside;
     * np.percentile: a parameter [percentile : list Z -> Q] applied to the
       non-zero pixels (row-major);
     * cKDTree.query_pairs(1-1e-7) = all index pairs i<j at rescaled distance < 1;
     * np.where (row-major order), boolean-mask indexing, np.unique, np.delete.
   No proofs in this file. *)
From Coq Require Import ZArith QArith Qround List Bool Arith.
Import ListNotations.
Open Scope Z_scope.

(* ---------------------------------------------------------------- arrays *)
Inductive arr := Leaf (v : Z) | Node (l : list arr).

Fixpoint get (a : arr) (c : list Z) {struct c} : Z :=
  match c, a with
  | [], Leaf v => v
  | i :: c', Node l =>
      if i <? 0 then 0
      else match nth_error l (Z.to_nat i) with Some a' => get a' c' | None => 0 end
  | _, _ => 0
  end.

Fixpoint arr_map (f : Z -> Z) (a : arr) : arr :=
  match a with
  | Leaf v => Leaf (f v)
  | Node l => Node (map (arr_map f) l)
  end.

Record image := { shape : list Z; data : arr }.
Definition pix (im : image) (c : list Z) : Z := get (data im) c.

(* integers lo..hi inclusive, ascending *)
Definition zint (lo hi : Z) : list Z :=
  map (fun k => lo + Z.of_nat k) (seq 0 (Z.to_nat (hi - lo + 1))).

(* cartesian product of intervals, first axis outermost (row-major) *)
Fixpoint prod_ranges (rs : list (Z * Z)) : list (list Z) :=
  match rs with
  | [] => [[]]
  | r :: rs' => flat_map (fun i => map (cons i) (prod_ranges rs')) (zint (fst r) (snd r))
  end.

(* every index tuple of an array of this shape, in np.where / ravel order *)
Definition coords (sh : list Z) : list (list Z) :=
  prod_ranges (map (fun n => (0, n - 1)) sh).

(* non-empty maximum *)
Definition max_of (v : Z) (vs : list Z) : Z := fold_left Z.max vs v.

(* ------------------------------------------------------- convert_to_int *)
(* scale_factor = 255 / image.max() (1. if the maximum is 0);
   (scale_factor * image.clip(min=0.)).astype(uint8) *)
Definition rescale (vmax v : Z) : Z :=
  if 0 <? vmax then (255 * Z.max v 0) / vmax else 0.

Definition image_max (im : image) : option Z :=
  match map (pix im) (coords (shape im)) with
  | [] => None
  | v :: vs => Some (max_of v vs)
  end.

Definition convert_to_int (is_float : bool) (im : image) : image :=
  if is_float then
    match image_max im with
    | None => im
    | Some vmax => {| shape := shape im; data := arr_map (rescale vmax) (data im) |}
    end
  else im.

(* ------------------------------------------------------------ dilation *)
(* size = int(2 * s / sqrt(ndim)): the largest k with k*k*ndim <= 4*s*s *)
Definition box_size (ndim : Z) (s : Q) : Z :=
  Z.sqrt ((4 * (Qnum s * Qnum s)) / (ndim * (QDen s * QDen s))).

Fixpoint box_ranges (sizes p : list Z) : list (Z * Z) :=
  match sizes, p with
  | s :: sizes', i :: p' => (i - (s - 1) / 2, i + s / 2) :: box_ranges sizes' p'
  | _, _ => []
  end.

Definition box (sizes p : list Z) : list (list Z) := prod_ranges (box_ranges sizes p).

(* ndimage.grey_dilation(image, size, mode='constant') at pixel p *)
Definition dilation_at (a : arr) (sizes p : list Z) : Z :=
  match map (get a) (box sizes p) with
  | [] => 0
  | v :: vs => max_of v vs
  end.

(* image > threshold, threshold a float handed over as exact rational *)
Definition gt_thr (t : Q) (v : Z) : bool := Qnum t <? v * QDen t.

(* np.where((image == dilation) & (image > threshold)), row-major.
   (The threshold test is evaluated first only to save model run time.) *)
Definition is_maximum (a : arr) (sizes : list Z) (t : Q) (p : list Z) : bool :=
  let v := get a p in
  if gt_thr t v then v =? dilation_at a sizes p else false.

Definition local_maxima (im : image) (sizes : list Z) (t : Q) : list (list Z) :=
  filter (is_maximum (data im) sizes t) (coords (shape im)).

(* np.any((pos < margin) | (pos > shape - margin - 1), 1) for one row *)
Fixpoint near_edge (sh margin p : list Z) : bool :=
  match p, sh, margin with
  | i :: p', n :: sh', m :: margin' =>
      (i <? m) || (n - m - 1 <? i) || near_edge sh' margin' p'
  | _, _, _ => false
  end.

(* a[mask] *)
Definition mask_select {A} (mask : list bool) (l : list A) : list A :=
  map snd (filter fst (combine mask l)).

(* --------------------------------------------------------- where_close *)
Open Scope Q_scope.

(* pos / separation, one row *)
Fixpoint rescale_pos (p sep : list Q) : list Q :=
  match p, sep with
  | x :: p', s :: sep' => x / s :: rescale_pos p' sep'
  | _, _ => []
  end.

Fixpoint dist2 (a b : list Q) : Q :=
  match a, b with
  | x :: a', y :: b' => Qred ((x - y) * (x - y) + dist2 a' b')
  | _, _ => 0
  end.

Fixpoint qsum (a : list Q) : Q :=
  match a with
  | [] => 0
  | x :: a' => Qred (x + qsum a')
  end.

Definition Qlt_b (x y : Q) : bool := negb (Qle_bool y x).

(* rescaled distance below 1 (query_pairs(1 - 1e-7): strict) *)
Definition close_b (a b : list Q) : bool := Qlt_b (dist2 a b) 1.

Close Scope Q_scope.
Open Scope nat_scope.

(* all index pairs i < j < n, as query_pairs reports them *)
Definition all_pairs (n : nat) : list (nat * nat) :=
  flat_map (fun i => map (pair i) (seq (S i) (n - S i))) (seq 0 n).

Definition query_pairs (rs : list (list Q)) : list (nat * nat) :=
  filter (fun ij => close_b (nth (fst ij) rs []) (nth (snd ij) rs [])) (all_pairs (length rs)).

(* np.sum(pos_rescaled[i0], 1) > np.sum(pos_rescaled[i1], 1) *)
Definition sum_gt (rs : list (list Q)) (i0 i1 : nat) : bool :=
  Qlt_b (qsum (nth i1 rs [])) (qsum (nth i0 rs [])).

(* sorted, duplicate-free: np.unique *)
Fixpoint insert_uniq (x : nat) (l : list nat) : list nat :=
  match l with
  | [] => [x]
  | y :: l' => if x <? y then x :: l else if x =? y then l else y :: insert_uniq x l'
  end.
Definition np_unique (l : list nat) : list nat := fold_right insert_uniq [] l.

Definition where_close (pos : list (list Q)) (sep : list Q) (intensity : option (list Z)) : list nat :=
  match pos with [] => [] | _ =>
  if existsb (fun s => Qeq_bool s 0) sep then [] else
  let rs := map (fun p => rescale_pos p sep) pos in
  let duplicates := query_pairs rs in
  match duplicates with [] => [] | _ =>
  let by_position (ij : nat * nat) := if sum_gt rs (fst ij) (snd ij) then snd ij else fst ij in
  let to_drop :=
    match intensity with
    | None => map by_position duplicates
    | Some ints =>
        map (fun ij =>
               let i0 := nth (fst ij) ints 0%Z in
               let i1 := nth (snd ij) ints 0%Z in
               let d := if (i1 <? i0)%Z then snd ij else fst ij in   (* np.where(I0 > I1, index_1, index_0) *)
               if (i0 =? i1)%Z then by_position ij else d)            (* edge cases overwritten *)
            duplicates
    end in
  np_unique to_drop
  end end.

(* np.delete(pos, to_drop, axis=0) *)
Definition np_delete {A} (l : list A) (idx : list nat) : list A :=
  map snd (filter (fun ix => negb (existsb (Nat.eqb (fst ix)) idx)) (combine (seq 0 (length l)) l)).

Definition drop_close {A} (inj : A -> list Q) (pos : list A) (sep : list Q) (intensity : option (list Z)) : list A :=
  np_delete pos (where_close (map inj pos) sep intensity).

Close Scope nat_scope.
Open Scope Z_scope.

(* -------------------------------------------------------- grey_dilation *)
Section GreyDilation.
  (* np.percentile(not_black, percentile) *)
  Variable percentile : list Z -> Q.

  Definition default_margin (sep : list Q) : list Z := map (fun s => Qfloor (s / 2)) sep.

  Definition not_black (im : image) : list Z :=
    filter (fun v => negb (v =? 0)) (map (pix im) (coords (shape im))).

  Definition grey_dilation (is_float : bool) (im0 : image) (sep : list Q)
             (margin : option (list Z)) (precise : bool) : list (list Z) :=
    let im := convert_to_int is_float im0 in
    let ndim := Z.of_nat (length (shape im)) in
    let margin := match margin with Some m => m | None => default_margin sep end in
    match not_black im with
    | [] => []                                  (* "Image is completely black." *)
    | _ =>
      let threshold := percentile (not_black im) in
      let sizes := map (box_size ndim) sep in
      let pos0 := local_maxima im sizes threshold in
      match pos0 with
      | [] => []                                (* "Image contains no local maxima." *)
      | _ =>
        let keep := map (fun p => negb (near_edge (shape im) margin p)) pos0 in
        let pos := mask_select keep pos0 in
        match pos with
        | [] => []                              (* "All local maxima were in the margins." *)
        | _ =>
          if precise
          then drop_close (map inject_Z) pos sep (Some (mask_select keep (map (pix im) pos0)))
          else pos
        end
      end
    end.
End GreyDilation.
