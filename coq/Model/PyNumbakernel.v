(* Run-time vocabulary of Gen/numbakernel.v, the file tools/py2coq_numbakernel.py generates
   (route T) from the CURRENT source text of

     _numba_subnet_norecur    trackpy/linking/subnetlinker.py   (the array-indexed search)
     numba_link               trackpy/linking/subnetlinker.py   (array building + call + read-back)

   Hand-written and small.  Control (outcome / bind / while_loop on explicit fuel / fn_end_v),
   Python ints as Z, len, l[i] with NEGATIVE-INDEX WRAP and IndexError: Model/PyIterative.v.
   This file adds what the array code needs:

   for x in range(n): body   for_list (fun x st => body) (py_range n) st
                             (continue -> next element, break -> leaves the loop; the translator
                             admits neither inside a `for`; a Return / Raise of the body ends it)
   for k, x in enumerate(l)  for_list over py_enumerate l = [(0, l[0]); (1, l[1]); ...]
   1-D ndarray of ints / floats      list Z      a[i]  py_index   a[i] = v  py_set_index
   2-D ndarray                       list (list Z), a[j, i]  py_index2  (row j, then column i; each
                             index wraps when negative and raises IndexError outside, as numpy does
                             when the kernel runs interpreted - numba is absent; compiled nopython
                             code does NOT bounds-check, the theorems show no access is outside)
   a.shape[0]                py_len a
   float literals            a literal with an integral value is that exact integer as a Z:
                             1.0e23 is 99999999999999991611392 (the double nearest 10^23), 0. is 0.
                             Sums of squared distances are exact integers here (as in
                             Model/PyLinker.v: dist**2 is the integer cost component of a candidate);
                             float rounding of cur_sums[j] + dists2array[j, i] is not modelled.
   an int in a condition     `flag and ...` : flag <> 0
   `a and b` with an indexing in b   b is evaluated only when a holds: the condition is an
                             [option bool] (None = IndexError) built with a conditional
   return e                  Return (e, st): the arrays handed in are modified in place, so what
                             the caller can observe afterwards is the returned value AND the final
                             locals (the array arguments are locals); [nk_result] = Z * nkl
   No proofs in this file. *)
From Coq Require Import ZArith List Bool Arith.
From TP Require Import Model.Assign Model.Link Model.PyLinker Model.PyIterative.
Import ListNotations.

Fixpoint for_list {A S R : Type} (body : A -> S -> outcome S R) (l : list A) (s : S) : outcome S R :=
  match l with
  | [] => Normal s
  | x :: l' =>
    match body x s with
    | Normal s' => for_list body l' s'
    | Continue s' => for_list body l' s'
    | Break s' => Normal s'
    | Return v => Return v
    | Raise e => Raise e
    end
  end.

(* range(n): 0, 1, ..., n-1 (empty when n <= 0) *)
Definition py_range (n : Z) : list Z := map Z.of_nat (seq 0 (Z.to_nat n)).
Definition py_enumerate {A : Type} (l : list A) : list (Z * A) := combine (map Z.of_nat (seq 0 (length l))) l.

Definition py_index2 {A : Type} (a : list (list A)) (j i : Z) : option A :=
  match py_index a j with Some row => py_index row i | None => None end.

(* the double nearest to 10^23, exactly *)
Definition lit_1e23 : Z := 99999999999999991611392%Z.

(* ---------- the locals of _numba_subnet_norecur (its seven array arguments included:
   they are mutated in place) ---------- *)
Record nkl := mk_nkl {
  nk_ncands : list Z;
  nk_candsarray : list (list Z);
  nk_dists2array : list (list Z);
  nk_cur_assignments : list Z;
  nk_cur_sums : list Z;
  nk_tmp_assignments : list Z;
  nk_best_assignments : list Z;
  nk_nj : Z;
  nk_tmp_sum : Z;
  nk_best_sum : Z;
  nk_j : Z;
  nk_loopcount : Z;
  nk_delta : Z;
  nk_flag : Z
}.

Definition set_nk_ncands (o : nkl) (v : list Z) : nkl :=
  mk_nkl v (nk_candsarray o) (nk_dists2array o) (nk_cur_assignments o) (nk_cur_sums o) (nk_tmp_assignments o) (nk_best_assignments o) (nk_nj o) (nk_tmp_sum o) (nk_best_sum o) (nk_j o) (nk_loopcount o) (nk_delta o) (nk_flag o).
Definition set_nk_candsarray (o : nkl) (v : list (list Z)) : nkl :=
  mk_nkl (nk_ncands o) v (nk_dists2array o) (nk_cur_assignments o) (nk_cur_sums o) (nk_tmp_assignments o) (nk_best_assignments o) (nk_nj o) (nk_tmp_sum o) (nk_best_sum o) (nk_j o) (nk_loopcount o) (nk_delta o) (nk_flag o).
Definition set_nk_dists2array (o : nkl) (v : list (list Z)) : nkl :=
  mk_nkl (nk_ncands o) (nk_candsarray o) v (nk_cur_assignments o) (nk_cur_sums o) (nk_tmp_assignments o) (nk_best_assignments o) (nk_nj o) (nk_tmp_sum o) (nk_best_sum o) (nk_j o) (nk_loopcount o) (nk_delta o) (nk_flag o).
Definition set_nk_cur_assignments (o : nkl) (v : list Z) : nkl :=
  mk_nkl (nk_ncands o) (nk_candsarray o) (nk_dists2array o) v (nk_cur_sums o) (nk_tmp_assignments o) (nk_best_assignments o) (nk_nj o) (nk_tmp_sum o) (nk_best_sum o) (nk_j o) (nk_loopcount o) (nk_delta o) (nk_flag o).
Definition set_nk_cur_sums (o : nkl) (v : list Z) : nkl :=
  mk_nkl (nk_ncands o) (nk_candsarray o) (nk_dists2array o) (nk_cur_assignments o) v (nk_tmp_assignments o) (nk_best_assignments o) (nk_nj o) (nk_tmp_sum o) (nk_best_sum o) (nk_j o) (nk_loopcount o) (nk_delta o) (nk_flag o).
Definition set_nk_tmp_assignments (o : nkl) (v : list Z) : nkl :=
  mk_nkl (nk_ncands o) (nk_candsarray o) (nk_dists2array o) (nk_cur_assignments o) (nk_cur_sums o) v (nk_best_assignments o) (nk_nj o) (nk_tmp_sum o) (nk_best_sum o) (nk_j o) (nk_loopcount o) (nk_delta o) (nk_flag o).
Definition set_nk_best_assignments (o : nkl) (v : list Z) : nkl :=
  mk_nkl (nk_ncands o) (nk_candsarray o) (nk_dists2array o) (nk_cur_assignments o) (nk_cur_sums o) (nk_tmp_assignments o) v (nk_nj o) (nk_tmp_sum o) (nk_best_sum o) (nk_j o) (nk_loopcount o) (nk_delta o) (nk_flag o).
Definition set_nk_nj (o : nkl) (v : Z) : nkl :=
  mk_nkl (nk_ncands o) (nk_candsarray o) (nk_dists2array o) (nk_cur_assignments o) (nk_cur_sums o) (nk_tmp_assignments o) (nk_best_assignments o) v (nk_tmp_sum o) (nk_best_sum o) (nk_j o) (nk_loopcount o) (nk_delta o) (nk_flag o).
Definition set_nk_tmp_sum (o : nkl) (v : Z) : nkl :=
  mk_nkl (nk_ncands o) (nk_candsarray o) (nk_dists2array o) (nk_cur_assignments o) (nk_cur_sums o) (nk_tmp_assignments o) (nk_best_assignments o) (nk_nj o) v (nk_best_sum o) (nk_j o) (nk_loopcount o) (nk_delta o) (nk_flag o).
Definition set_nk_best_sum (o : nkl) (v : Z) : nkl :=
  mk_nkl (nk_ncands o) (nk_candsarray o) (nk_dists2array o) (nk_cur_assignments o) (nk_cur_sums o) (nk_tmp_assignments o) (nk_best_assignments o) (nk_nj o) (nk_tmp_sum o) v (nk_j o) (nk_loopcount o) (nk_delta o) (nk_flag o).
Definition set_nk_j (o : nkl) (v : Z) : nkl :=
  mk_nkl (nk_ncands o) (nk_candsarray o) (nk_dists2array o) (nk_cur_assignments o) (nk_cur_sums o) (nk_tmp_assignments o) (nk_best_assignments o) (nk_nj o) (nk_tmp_sum o) (nk_best_sum o) v (nk_loopcount o) (nk_delta o) (nk_flag o).
Definition set_nk_loopcount (o : nkl) (v : Z) : nkl :=
  mk_nkl (nk_ncands o) (nk_candsarray o) (nk_dists2array o) (nk_cur_assignments o) (nk_cur_sums o) (nk_tmp_assignments o) (nk_best_assignments o) (nk_nj o) (nk_tmp_sum o) (nk_best_sum o) (nk_j o) v (nk_delta o) (nk_flag o).
Definition set_nk_delta (o : nkl) (v : Z) : nkl :=
  mk_nkl (nk_ncands o) (nk_candsarray o) (nk_dists2array o) (nk_cur_assignments o) (nk_cur_sums o) (nk_tmp_assignments o) (nk_best_assignments o) (nk_nj o) (nk_tmp_sum o) (nk_best_sum o) (nk_j o) (nk_loopcount o) v (nk_flag o).
Definition set_nk_flag (o : nkl) (v : Z) : nkl :=
  mk_nkl (nk_ncands o) (nk_candsarray o) (nk_dists2array o) (nk_cur_assignments o) (nk_cur_sums o) (nk_tmp_assignments o) (nk_best_assignments o) (nk_nj o) (nk_tmp_sum o) (nk_best_sum o) (nk_j o) (nk_loopcount o) (nk_delta o) v.

(* before any assignment (the translator checks definite assignment before every read, so
   these values are never observed) *)
Definition blank_nkl : nkl := mk_nkl [] [] [] [] [] [] [] 0%Z 0%Z 0%Z 0%Z 0%Z 0%Z 0%Z.

(* what _numba_subnet_norecur leaves behind: (loopcount, final locals) *)
Definition nk_result := (Z * nkl)%type.
