(* Executable comparison of the implementation's observed output with the exact
   model (route C correspondence for C10).  The implementation's float pixels
   arrive as exact rationals; [tol] is the a-priori rounding bound of the case
   (tol = 0: the harness claims float arithmetic is exact on this case, then the
   comparison - including the clip decision - is exact).
   Result: code + 16 * (number of pixels within tol of the threshold), code
     0 ok
     1 outcome differs (one side raised / other error / other message)
     2 shape differs
     3 a pixel differs from the model by more than tol
     4 a pixel whose exact value is within tol of the threshold is neither
       (about) 0 nor (about) the unclipped value
     5 gaussian_kernel: length differs          6 gaussian_kernel: weight differs
   No proofs in this file. *)
From Coq Require Import ZArith NArith QArith Qabs List Bool.
From TP Require Import Model.Bandpass.
Import ListNotations.
Open Scope Q_scope.

Definition close (tol a b : Q) : bool := Qle_bool (Qabs (a - b)) tol.

Definition cmp_clip (thr tol d v : Q) : N * N :=
  if negb (Qle_bool tol 0) && close tol d thr
  then ((if close tol v 0 || close tol v d then 0 else 4)%N, 1%N)
  else ((if close tol v (clip thr d) then 0 else 3)%N, 0%N).

Definition cmp_plain (tol d v : Q) : N * N := ((if close tol v d then 0 else 3)%N, 0%N).

(* first non-zero code, total of near counts; a length mismatch is code 2 *)
Fixpoint cmp_all (f : Q -> Q -> N * N) (ds vs : list Q) : N * N :=
  match ds, vs with
  | [], [] => (0%N, 0%N)
  | d :: ds', v :: vs' =>
      let (c, n) := f d v in
      let (c', n') := cmp_all f ds' vs' in
      ((if N.eqb c 0 then c' else c), (n + n')%N)
  | _, _ => (2%N, 0%N)
  end.

Fixpoint eqb_ln (a b : list nat) : bool :=
  match a, b with
  | [], [] => true
  | x :: a', y :: b' => Nat.eqb x y && eqb_ln a' b'
  | _, _ => false
  end.
Fixpoint eqb_lln (a b : list (list nat)) : bool :=
  match a, b with
  | [], [] => true
  | x :: a', y :: b' => eqb_ln x y && eqb_lln a' b'
  | _, _ => false
  end.

Definition shape2 (im : img2) : list nat := map (@length Q) im.
Definition shape3 (im : img3) : list (list nat) := map shape2 im.
Definition flat2 (im : img2) : list Q := concat im.
Definition flat3 (im : img3) : list Q := concat (map flat2 im).

Definition pack (r : N * N) : N := (fst r + 16 * snd r)%N.

(* impl outcome: 0 returned an array, 1 ValueError(scale message),
   2 ValueError(odd message), 3 anything else *)
Definition outcome_code {A} (r : outcome A) : N :=
  match r with Ok _ => 0 | ErrScale => 1 | ErrEven => 2 end.

Definition bp2_case : Type := Q * (axis_par * axis_par) * (Q * Q) * img2 * (N * img2).
Definition check_bp2 (c : bp2_case) : N :=
  match c with
  | (t, (py, px), (thr, tol), im, (ik, iout)) =>
      match bandpass2_pre t py px im with
      | Ok pre => if negb (N.eqb ik 0) then 1
                  else if negb (eqb_ln (shape2 pre) (shape2 iout)) then 2
                  else pack (cmp_all (cmp_clip thr tol) (flat2 pre) (flat2 iout))
      | r => if N.eqb ik (outcome_code r) then 0 else 1
      end
  end%N.

Definition bp3_case : Type := Q * (axis_par * axis_par * axis_par) * (Q * Q) * img3 * (N * img3).
Definition check_bp3 (c : bp3_case) : N :=
  match c with
  | (t, (pz, py, px), (thr, tol), im, (ik, iout)) =>
      match bandpass3_pre t pz py px im with
      | Ok pre => if negb (N.eqb ik 0) then 1
                  else if negb (eqb_lln (shape3 pre) (shape3 iout)) then 2
                  else pack (cmp_all (cmp_clip thr tol) (flat3 pre) (flat3 iout))
      | r => if N.eqb ik (outcome_code r) then 0 else 1
      end
  end%N.

(* lowpass / boxcar alone; which = 0 lowpass, 1 boxcar *)
Definition lb2_case : Type := N * Q * (axis_par * axis_par) * Q * img2 * (N * img2).
Definition check_lb2 (c : lb2_case) : N :=
  match c with
  | (which, t, (py, px), tol, im, (ik, iout)) =>
      let m := if N.eqb which 0 then Some (lowpass2 t py px im) else boxcar2 py px im in
      match m with
      | Some out => if negb (N.eqb ik 0) then 1
                    else if negb (eqb_ln (shape2 out) (shape2 iout)) then 2
                    else pack (cmp_all (cmp_plain tol) (flat2 out) (flat2 iout))
      | None => if N.eqb ik 2 then 0 else 1
      end
  end%N.

Definition lb3_case : Type := N * Q * (axis_par * axis_par * axis_par) * Q * img3 * (N * img3).
Definition check_lb3 (c : lb3_case) : N :=
  match c with
  | (which, t, (pz, py, px), tol, im, (ik, iout)) =>
      let m := if N.eqb which 0 then Some (lowpass3 t pz py px im) else boxcar3 pz py px im in
      match m with
      | Some out => if negb (N.eqb ik 0) then 1
                    else if negb (eqb_lln (shape3 out) (shape3 iout)) then 2
                    else pack (cmp_all (cmp_plain tol) (flat3 out) (flat3 iout))
      | None => if N.eqb ik 2 then 0 else 1
      end
  end%N.

(* masks.gaussian_kernel(sigma, truncate) as returned by the implementation *)
Definition gk_case : Type := Q * Q * list Q * Q * list Q.
Definition check_gk (c : gk_case) : N :=
  match c with
  | (sg, t, ex, tol, iw) =>
      let w := gaussian_kernel sg t ex in
      if negb (Nat.eqb (length w) (length iw)) then 5
      else if N.eqb (fst (cmp_all (cmp_plain tol) w iw)) 0 then 0 else 6
  end%N.

(* one entry point for the harness *)
Inductive anycase : Type :=
| C_bp2 (c : bp2_case) | C_bp3 (c : bp3_case)
| C_lb2 (c : lb2_case) | C_lb3 (c : lb3_case)
| C_gk (c : gk_case).

Definition check_any (c : anycase) : N :=
  match c with
  | C_bp2 c => check_bp2 c | C_bp3 c => check_bp3 c
  | C_lb2 c => check_lb2 c | C_lb3 c => check_lb3 c
  | C_gk c => check_gk c
  end.
