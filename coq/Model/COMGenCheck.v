(* Executable comparison, used by vp/props/c07.py, of the GENERATED numba kernels
   (Gen/com_kernels.v, translated from the current trackpy source by tools/py2coq_com.py)
   with the hand-written generic kernel model of Model/COM.v on one concrete case:
   the kernel is chosen and its arguments are prepared as refine_com_arr does
   (ndim, characterize, radius[0] == radius[1] / isotropic; mask.nonzero() columns,
   r_squared_mask[mask], ndim * x_squared_masks[d][mask], results = one empty row),
   run by vm_compute, and its result row must be cell for cell the row of refine_numba
   (numerator and denominator of every rational identical, not merely ==).
   No proofs in this file. *)
From Coq Require Import ZArith NArith QArith Qabs List Bool.
From TP Require Import Model.COM Model.COMCheck Model.PyKernel Gen.com_kernels Model.COMGen.
Import ListNotations.
Open Scope Z_scope.

(* the row a kernel must leave for a model output; the ecc cell is never written *)
Definition expected_row (ecc : cell) (out : output) : list cell :=
  map CQ (o_pos out) ++ [CQ (inject_Z (o_mass out))] ++
  match o_char out with
  | None => []
  | Some (rg2, sg, rw) => map CSqrt rg2 ++ [ecc] ++ [CQ (inject_Z sg); CQ (inject_Z rw)]
  end.

Definition Qsame (a b : Q) : bool := (Qnum a =? Qnum b) && Pos.eqb (Qden a) (Qden b).
Definition cell_same (a b : cell) : bool :=
  match a, b with
  | CQ x, CQ y => Qsame x y
  | CSqrt x, CSqrt y => Qsame x y
  | CNone, CNone => true
  | _, _ => false
  end.

(* nested-list arrays from the flat row-major data of a case *)
Definition arr2_of (shape data : list Z) : list (list Z) :=
  map (fun y => map (fun x => pix_of shape data [y; x]) (zrange (ix shape 1))) (zrange (ix shape 0)).
Definition arr3_of (shape data : list Z) : list (list (list Z)) :=
  map (fun z => map (fun y => map (fun x => pix_of shape data [z; y; x]) (zrange (ix shape 2)))
                    (zrange (ix shape 1))) (zrange (ix shape 0)).

Definition mcol (radius : list Z) (d : nat) : list Z := col d (mask_points radius).

(* refine_com_arr, engine='numba': dispatch and argument preparation, one feature *)
Definition run_generated (c : case) : option (res (list (list cell))) :=
  let shape := c_shape c in
  let radius := c_radius c in
  let maxit := Z.max 1 (c_maxit c) in
  let coords := [c_start c] in
  let empty n := [repeat CNone n] in
  match radius with
  | [rY; rX] =>
    let image := arr2_of shape (c_data c) in
    let raw := arr2_of shape (c_raw c) in
    let mY := mcol radius 0 in
    let mX := mcol radius 1 in
    let nm := Z.of_nat (length mY) in
    if negb (c_char c)
    then Some (numba_refine_2D image rY rX coords 1 maxit (c_thresh c) (ix shape 0) (ix shape 1) mY mX nm (empty 3%nat))
    else if rY =? rX
    then Some (numba_refine_2D_c raw image rY rX coords 1 maxit (c_thresh c) (ix shape 0) (ix shape 1) mY mX nm
                                 (r2m radius) [] [] (empty 7%nat))
    else Some (numba_refine_2D_c_a raw image rY rX coords 1 maxit (c_thresh c) (ix shape 0) (ix shape 1) mY mX nm
                                   (x2m radius 0) (x2m radius 1) [] [] (empty 8%nat))
  | [rZ; rY; rX] =>
    let image := arr3_of shape (c_data c) in
    let raw := arr3_of shape (c_raw c) in
    let mZ := mcol radius 0 in
    let mY := mcol radius 1 in
    let mX := mcol radius 2 in
    let ncol := if negb (c_char c) then 4%nat else if (rY =? rZ) && (rX =? rY) then 8%nat else 10%nat in
    Some (numba_refine_3D raw image rZ rY rX coords 1 maxit (c_thresh c) (c_char c) (ix shape 0) (ix shape 1) (ix shape 2)
                          mZ mY mX (Z.of_nat (length mX)) (r2m radius) (x2m radius 0) (x2m radius 1) (x2m radius 2) (empty ncol))
  | _ => None
  end.

(* 0 ok | 97 malformed | 30 generated kernel divides by zero, model returns a row | 31 the converse |
   32 results array has the wrong shape | 40 + k : first differing cell is column k *)
Definition check_generated (c : case) : N :=
  let shape := c_shape c in
  let radius := c_radius c in
  let nd := length radius in
  if negb ((length shape =? nd)%nat && (length (c_start c) =? nd)%nat &&
           forallb (fun r => 1 <=? r) radius && inside_b radius shape (c_start c)) then 97%N
  else
  match run_generated c with
  | None => 97%N
  | Some g =>
    let pix := pix_of shape (c_data c) in
    let raw := pix_of shape (c_raw c) in
    match g, refine_numba pix raw radius shape (c_thresh c) (c_maxit c) (c_char c) (c_start c) with
    | DivZero, KDivZero => 0%N
    | DivZero, KOk _ => 30%N
    | Ok _, KDivZero => 31%N
    | Ok [row], KOk out =>
      let want := expected_row CNone out in
      if negb (length row =? length want)%nat then 32%N
      else
        let fix first (k : N) (a b : list cell) : N :=
          match a, b with
          | x :: a', y :: b' => if cell_same x y then first (k + 1)%N a' b' else (40 + k)%N
          | _, _ => 0%N
          end in
        first 0%N row want
    | Ok _, KOk _ => 32%N
    end
  end.

(* the check of vp/props/c07.py: first the generated kernels against the kernel model,
   then the implementation's rows against the models (Model/COMCheck.check_case) *)
Definition check_case_gen (c : case) : N :=
  match check_generated c with
  | 0%N => check_case c
  | r => (1000 + r)%N
  end.
