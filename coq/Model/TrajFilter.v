(* Model of trackpy/filtering.py : filter_stubs, filter_clusters
   (pandas: tracks.reset_index(drop=True).groupby('particle').filter(func)
            .set_index('frame', drop=False)).

   A row carries the three columns the filters read (particle, frame, size;
   None = NaN) and a row id [rid] that stands for "all the other values of the
   row": the model never builds a row, it only selects input rows, so equality
   of output rows with input rows is equality of every value.

   pandas GroupBy.filter (pandas/core/groupby/generic.py):
       indices = []
       for name, group in grouper.get_iterator(obj):   # sorted unique keys, NaN keys dropped
           if func(group): indices.append(self._get_index(name))   # positions of the group
       indices = np.sort(np.concatenate(indices))
       return obj.take(indices)
   No proofs in this file. *)
From Coq Require Import ZArith QArith Qround List Bool Arith.
Import ListNotations.

Record row := { rid : nat; pid : option Z; frame : option Z; size : option Q }.

(* ---- small executable helpers ------------------------------------------- *)
Section Sorting.
  Context {A : Type} (leb : A -> A -> bool).
  (* stable insertion sort: x goes in front of the first y with x <= y *)
  Fixpoint insert (x : A) (l : list A) : list A :=
    match l with
    | [] => [x]
    | y :: l' => if leb x y then x :: l else y :: insert x l'
    end.
  Definition isort (l : list A) : list A := fold_right insert [] l.
End Sorting.

Definition opt_list {A} (o : option A) : list A := match o with Some a => [a] | None => [] end.

Definition has_pid (k : Z) (r : row) : bool :=
  match pid r with Some p => Z.eqb p k | None => false end.
Definition has_frame (r : row) : bool := match frame r with Some _ => true | None => false end.

(* groupby('particle'): sorted unique non-NaN keys *)
Definition group_keys (rows : list row) : list Z :=
  isort Z.leb (nodup Z.eq_dec (flat_map (fun r => opt_list (pid r)) rows)).

(* the group handed to func: the rows with that key, in table order *)
Definition group_rows (k : Z) (rows : list row) : list row := filter (has_pid k) rows.

(* self._get_index(name): positions of the group's rows *)
Fixpoint positions_from (i : nat) (k : Z) (rows : list row) : list nat :=
  match rows with
  | [] => []
  | r :: rows' => (if has_pid k r then [i] else []) ++ positions_from (S i) k rows'
  end.
Definition positions (k : Z) (rows : list row) : list nat := positions_from 0 k rows.

(* obj.take(indices) *)
Definition take (idx : list nat) (rows : list row) : list row :=
  flat_map (fun i => opt_list (nth_error rows i)) idx.

Definition gb_filter (func : list row -> bool) (rows : list row) : list row :=
  let indices := flat_map (fun k => if func (group_rows k rows) then positions k rows else [])
                          (group_keys rows) in
  take (isort Nat.leb indices) rows.

(* ---- filter_stubs -------------------------------------------------------- *)
(* lambda x: x.frame.count() >= threshold      (count() skips NaN frames) *)
Definition stub_func (threshold : Z) (g : list row) : bool :=
  (threshold <=? Z.of_nat (length (filter has_frame g)))%Z.

Definition filter_stubs (rows : list row) (threshold : Z) : list row :=
  gb_filter (stub_func threshold) rows.

(* ---- filter_clusters ----------------------------------------------------- *)
Definition qsum (l : list Q) : Q := fold_right Qplus 0 l.
(* Series.mean(): NaN skipped; empty -> NaN *)
Definition qmean (l : list Q) : option Q :=
  match l with
  | [] => None
  | _ => Some (Qred (qsum l / inject_Z (Z.of_nat (length l))))
  end.
Definition sizes (g : list row) : list Q := flat_map (fun r => opt_list (size r)) g.
Definition Qltb (a b : Q) : bool := negb (Qle_bool b a).

(* lambda x: x['size'].mean() < threshold      (NaN < t is False) *)
Definition cluster_func (threshold : Q) (g : list row) : bool :=
  match qmean (sizes g) with Some m => Qltb m threshold | None => false end.

(* Series.quantile(q) (linear interpolation between order statistics, NaN skipped) *)
Definition quantile (xs : list Q) (q : Q) : option Q :=
  let s := isort Qle_bool xs in
  match s with
  | [] => None
  | x0 :: _ =>
    let pos := q * inject_Z (Z.of_nat (length s - 1)) in
    let lo := Z.to_nat (Qfloor pos) in
    let fr := pos - inject_Z (Qfloor pos) in
    let a := nth lo s x0 in
    let b := nth (S lo) s a in
    Some (Qred (a + (b - a) * fr))
  end.

(* threshold given *)
Definition filter_clusters (rows : list row) (threshold : Q) : list row :=
  gb_filter (cluster_func threshold) rows.

(* threshold=None: cut at tracks['size'].quantile(quantile) of ALL rows;
   a table without any size makes the cut NaN and everything is dropped *)
Definition filter_clusters_q (rows : list row) (quant : Q) : list row :=
  match quantile (sizes rows) quant with
  | Some t => filter_clusters rows t
  | None => []
  end.

(* the index the filters put on their result: .set_index('frame', drop=False) *)
Definition result_index (out : list row) : list (option Z) := map frame out.

(* ---- correspondence entry points (result codes, 0 = agree) ---------------- *)
Definition same_ids (out : list row) (impl : list nat) : N :=
  if list_eq_dec Nat.eq_dec (map rid out) impl then 0%N else 1%N.

Definition check_stubs (c : list row * Z * list nat) : N :=
  let '(rows, thr, impl) := c in same_ids (filter_stubs rows thr) impl.
Definition check_clusters (c : list row * Q * list nat) : N :=
  let '(rows, thr, impl) := c in same_ids (filter_clusters rows thr) impl.
(* quantile path: the implementation's cut is not observable, so the harness
   passes [lo, hi] = exact quantile -/+ float tolerance; the implementation must
   agree with the model at one of the two ends (they coincide unless a group
   mean lies within the tolerance of the cut, which the harness counts) *)
Definition check_clusters_q (c : list row * Q * Q * list nat) : N :=
  let '(rows, quant, tol, impl) := c in
  match quantile (sizes rows) quant with
  | None => same_ids [] impl
  | Some t =>
    if N.eqb (same_ids (filter_clusters rows (t - tol)) impl) 0 then 0%N
    else same_ids (filter_clusters rows (t + tol)) impl
  end.
