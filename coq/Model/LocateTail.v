(* Executable model of the TAIL of trackpy.feature.locate (feature.py:403-455),
   i.e. everything that happens to the table returned by refine_com:

     to_drop = where_close(refined[pos], separation, refined['mass'])   (find.py:16-52)
     drop / reset_index
     mass /= scale_factor
     condition = mass > minmass  [& size < maxsize]          ;  .loc[condition]
     topn: iloc[[argmax]] / iloc[argsort(mass)[-topn:]]
     ep = noise / (raw_mass - Npx*black_level) * noise_size * coord_moments ; ep[ep<0] = nan
     attach ep (column / frame indexed like the kept rows)

   Numbers are exact rationals (every float64 is one).  No proofs in this file. *)
From Coq Require Import QArith Qabs List Bool Arith.
Import ListNotations.
Open Scope Q_scope.

Definition Qltb (a b : Q) : bool := negb (Qle_bool b a).

(* one row of the feature table; ecc / signal and the per-axis sizes of the
   anisotropic case are payload the tail never reads (signal is only rescaled) *)
Record row := mkrow { r_pos : list Q; r_mass : Q; r_size : Q; r_raw : Q }.

(* ------------------------------------------------------------ where_close *)
(* pos_rescaled = pos / separation ; query_pairs(1 - 1e-7) on it: modelled as
   "squared distance of the rescaled positions < 1" (the 1e-7 slack is not
   modelled, see the evidence file).  Qred (normal form of the same rational)
   only keeps the numbers small for vm_compute. *)
Fixpoint d2r (sep p q : list Q) : Q :=
  match sep, p, q with
  | s :: sep', a :: p', b :: q' => let d := Qred (a / s - b / s) in d * d + d2r sep' p' q'
  | _, _, _ => 0
  end.

(* np.sum(pos_rescaled[i], 1) *)
Fixpoint psum (sep p : list Q) : Q :=
  match sep, p with
  | s :: sep', a :: p' => a / s + psum sep' p'
  | _, _ => 0
  end.

(* the pair test.  Like the k-d tree, a pair that already differs by >= 1 along
   the first rescaled axis is rejected without summing (Proofs: this is the
   same predicate as d2r < 1) *)
Definition close (sep p q : list Q) : bool :=
  match sep, p, q with
  | s :: _, a :: _, b :: _ =>
      if Qle_bool 1 (Qabs (a / s - b / s)) then false else Qltb (d2r sep p q) 1
  | _, _, _ => Qltb (d2r sep p q) 1
  end.

(* a point handed to where_close: (row label, (position, intensity)) *)
Definition item := (nat * (list Q * Q))%type.
Definition i_lab (x : item) : nat := fst x.
Definition i_pos (x : item) : list Q := fst (snd x).
Definition i_int (x : item) : Q := snd (snd x).

(* all pairs (x, y) with x before y in the list: cKDTree.query_pairs yields
   index pairs i < j *)
Fixpoint ordpairs {A} (l : list A) : list (A * A) :=
  match l with
  | [] => []
  | x :: t => map (pair x) t ++ ordpairs t
  end.

(* to_drop = np.where(intensity_0 > intensity_1, index_1, index_0), and on
   intensity_0 == intensity_1:  np.where(sum_0 > sum_1, index_1, index_0) *)
Definition loser (sep : list Q) (x y : item) : nat :=
  if Qltb (i_int y) (i_int x) then i_lab y
  else if Qeq_bool (i_int x) (i_int y)
       then (if Qltb (psum sep (i_pos y)) (psum sep (i_pos x)) then i_lab y else i_lab x)
       else i_lab x.

Definition index {A} (l : list A) : list (nat * A) := combine (seq 0 (length l)) l.

Definition where_close (sep : list Q) (pts : list (list Q * Q)) : list nat :=
  if existsb (fun s => Qeq_bool s 0) sep then [] else
  let duplicates := filter (fun xy => close sep (i_pos (fst xy)) (i_pos (snd xy)))
                           (ordpairs (index pts)) in
  nodup Nat.eq_dec (map (fun xy => loser sep (fst xy) (snd xy)) duplicates).   (* np.unique *)

Definition mem (k : nat) (l : list nat) : bool := existsb (Nat.eqb k) l.

(* DataFrame.drop(labels) ; reset_index(drop=True) *)
Definition drop_rows {A} (labels : list nat) (rows : list A) : list A :=
  map snd (filter (fun x => negb (mem (fst x) labels)) (index rows)).

(* if np.all(np.greater(separation, 0)): drop the where_close rows *)
Definition dedupe (sep : list Q) (rows : list row) : list row :=
  if forallb (Qltb 0) sep
  then drop_rows (where_close sep (map (fun r => (r_pos r, r_mass r)) rows)) rows
  else rows.

(* -------------------------------------------------------------- rescaling *)
Definition scale (sf : Q) (r : row) : row :=
  mkrow (r_pos r) (r_mass r / sf) (r_size r) (r_raw r).

(* ------------------------------------------------------ mass / size filter *)
Definition passes (minmass : Q) (maxsize : option Q) (r : row) : bool :=
  Qltb minmass (r_mass r) &&
  match maxsize with None => true | Some s => Qltb (r_size r) s end.

Definition lrow := (nat * row)%type.       (* row with its index label *)

Definition filt (minmass : Q) (maxsize : option Q) (l : list lrow) : list lrow :=
  filter (fun x => passes minmass maxsize (snd x)) l.

(* ------------------------------------------------------------------- topn *)
Definition lmass (x : lrow) : Q := r_mass (snd x).

(* np.argsort(mass): ascending; modelled as the stable insertion sort (numpy's
   default sort is not stable among equal masses: which of several equal
   masses sits at the cut is not fixed by the code, see the check) *)
Fixpoint ins (x : lrow) (l : list lrow) : list lrow :=
  match l with
  | [] => [x]
  | y :: t => if Qle_bool (lmass x) (lmass y) then x :: l else y :: ins x t
  end.
Definition sort_mass (l : list lrow) : list lrow := fold_right ins [] l.

(* np.argmax(mass): the first row of maximal mass *)
Fixpoint argmax_from (best : lrow) (l : list lrow) : lrow :=
  match l with
  | [] => best
  | y :: t => if Qltb (lmass best) (lmass y) then argmax_from y t else argmax_from best t
  end.

(* a[-n:] ; note a[-0:] is the whole array *)
Definition lastn {A} (n : nat) (l : list A) : list A :=
  match n with O => l | _ => skipn (length l - n) l end.

Definition topn_sel (topn : option nat) (l : list lrow) : list lrow :=
  match topn with
  | None => l
  | Some n =>
      if length l <=? n then l
      else if n =? 1 then match l with [] => [] | b :: t => [argmax_from b t] end
      else lastn n (sort_mass l)
  end.

(* filter then topn on an (already deduplicated and rescaled) table *)
Definition sel (minmass : Q) (maxsize : option Q) (topn : option nat) (l : list lrow) : list lrow :=
  topn_sel topn (filt minmass maxsize l).
Definition select (minmass : Q) (maxsize : option Q) (topn : option nat) (rows : list row) : list lrow :=
  sel minmass maxsize topn (index rows).

(* --------------------------------------------------------------------- ep *)
(* a float64 result that may be NaN or infinite *)
Inductive fval := FNaN | FPInf | FNInf | FVal (q : Q).

(* noise / black_level are NaN ([None]) when measure_noise finds < 2 / no
   background pixels.  x / 0.0 in numpy: +inf, -inf or nan by the sign of x *)
Definition ep_raw (noise black : option Q) (npx c raw : Q) : fval :=
  match noise, black with
  | Some nz, Some bl =>
      let m := raw - npx * bl in
      if Qeq_bool m 0
      then (if Qltb 0 (nz * c) then FPInf else if Qltb (nz * c) 0 then FNInf else FNaN)
      else FVal (nz / m * c)
  | _, _ => FNaN
  end.

(* ep[ep < 0] = np.nan  (feature.py:448, the repaired code) *)
Definition nan_if_negative (v : fval) : fval :=
  match v with
  | FVal e => if Qltb e 0 then FNaN else FVal e
  | FNInf => FNaN
  | v => v
  end.

Definition ep_one (noise black : option Q) (npx c raw : Q) : fval :=
  nan_if_negative (ep_raw noise black npx c raw).

(* one value per entry of cs = noise_size * coord_moments: a single column
   'ep' in the isotropic case, ep_z/ep_y/ep_x otherwise *)
Definition ep_row (noise black : option Q) (npx : Q) (cs : list Q) (r : row) : list fval :=
  map (fun c => ep_one noise black npx c (r_raw r)) cs.

(* ------------------------------------------------------------ whole tail *)
Record params := mkparams {
  p_sep : list Q; p_sf : Q; p_minmass : Q; p_maxsize : option Q; p_topn : option nat;
  p_noise : option Q; p_black : option Q; p_npx : Q; p_cs : list Q }.

(* candidates: deduplicated, rescaled *)
Definition candidates (sep : list Q) (sf : Q) (rows : list row) : list row :=
  map (scale sf) (dedupe sep rows).

(* output rows: (index label, row, ep columns); the ep frame is built from the
   kept rows and carries their index, so it is attached row by row *)
Definition tail (P : params) (rows : list row) : list (lrow * list fval) :=
  map (fun x => (x, ep_row (p_noise P) (p_black P) (p_npx P) (p_cs P) (snd x)))
      (select (p_minmass P) (p_maxsize P) (p_topn P) (candidates (p_sep P) (p_sf P) rows)).

(* ------------------------------------------------- the code before the fixes *)
(* feature.py before b5d1a4f: no ep[ep<0]=nan *)
Definition ep_one_old := ep_raw.

(* feature.py before 151b10e: the anisotropic ep frame was default-indexed
   (0..k-1) and pandas.concat(axis=1) aligned it with the filtered table by
   LABEL (outer join): result has one line per label in either frame *)
Definition concat_by_label {A B} (feat : list (nat * A)) (eps : list B) : list (nat * option A * option B) :=
  let labs := nodup Nat.eq_dec (map fst feat ++ seq 0 (length eps)) in
  map (fun k => (k,
                 match find (fun x => Nat.eqb (fst x) k) feat with Some x => Some (snd x) | None => None end,
                 nth_error eps k)) labs.

Definition tail_old_aniso (P : params) (rows : list row) : list (nat * option row * option (list fval)) :=
  let kept := select (p_minmass P) (p_maxsize P) (p_topn P) (candidates (p_sep P) (p_sf P) rows) in
  concat_by_label kept (map (fun x => map (fun c => ep_one_old (p_noise P) (p_black P) (p_npx P) c (r_raw (snd x))) (p_cs P)) kept).
