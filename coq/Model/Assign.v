(* Model of trackpy/linking/subnetlinker.py : SubnetLinker.do_recur
   (link_strategy='recursive').  A candidate is a destination index or the
   null link, with its squared cost.  No proofs in this file. *)
From Coq Require Import ZArith List Bool.
Import ListNotations.
Open Scope Z_scope.

Definition cand := (option nat * Z)%type.   (* destination | None = null link, cost = dist**2 *)
Definition best_t := option (Z * list cand).

Definition taken_b (d : option nat) (taken : list nat) : bool :=
  match d with None => false | Some k => existsb (Nat.eqb k) taken end.
Definition add_taken (d : option nat) (taken : list nat) : list nat :=
  match d with None => taken | Some k => k :: taken end.
(* python: tmp_sum > best_sum   (best_sum = +inf initially) *)
Definition exceeds (v : Z) (b : best_t) : bool :=
  match b with None => false | Some (bv, _) => bv <? v end.
(* python leaf: if cur_sum < best_sum: best_sum, best_pairs = cur_sum, list(cur_pairs) *)
Definition improve (v : Z) (p : list cand) (b : best_t) : best_t :=
  match b with
  | None => Some (v, rev p)
  | Some (bv, _) => if v <? bv then Some (v, rev p) else b
  end.

(* do_recur(j): srcs = s_lst[j:], taken = d_taken, cur = cur_sum, path = cur_pairs (reversed) *)
Fixpoint search (srcs : list (list cand)) (taken : list nat) (cur : Z)
         (path : list cand) (best : best_t) {struct srcs} : best_t :=
  match srcs with
  | [] => improve cur path best
  | cs :: rest =>
    (fix loop (cs : list cand) (best : best_t) {struct cs} : best_t :=
       match cs with
       | [] => best
       | (d, c) :: cs' =>
         let tmp := cur + c in
         if exceeds tmp best then best                     (* return *)
         else if taken_b d taken then loop cs' best         (* continue *)
         else loop cs' (search rest (add_taken d taken) tmp ((d, c) :: path) best)
       end) cs best
  end.

Definition loop (rest : list (list cand)) (taken : list nat) (cur : Z) (path : list cand) :=
  fix loop (cs : list cand) (best : best_t) {struct cs} : best_t :=
       match cs with
       | [] => best
       | (d, c) :: cs' =>
         let tmp := cur + c in
         if exceeds tmp best then best
         else if taken_b d taken then loop cs' best
         else loop cs' (search rest (add_taken d taken) tmp ((d, c) :: path) best)
       end.

Definition solve (srcs : list (list cand)) : best_t := search srcs [] 0 [] None.

(* ---- specification vocabulary (shared by proofs and monitors) ---- *)
Definition reals (sigma : list cand) : list nat :=
  flat_map (fun dc : cand => match fst dc with Some k => [k] | None => [] end) sigma.
Definition total (sigma : list cand) : Z := fold_right (fun dc acc => snd dc + acc) 0 sigma.

(* a brute-force reference: cost of the cheapest completion, by plain enumeration
   (no pruning).  Used by the monitors as an independent executable definition;
   bnb_optimal proves [solve] agrees with the declarative minimum. *)
Fixpoint brute (srcs : list (list cand)) (taken : list nat) : option Z :=
  match srcs with
  | [] => Some 0
  | cs :: rest =>
    fold_right (fun (dc : cand) (acc : option Z) =>
      if taken_b (fst dc) taken then acc else
      match brute rest (add_taken (fst dc) taken) with
      | None => acc
      | Some v => match acc with None => Some (snd dc + v)
                               | Some a => Some (Z.min a (snd dc + v)) end
      end) None cs
  end.
