(* Hand-written executable model of the ARRAY BUILDING and READ-BACK of

     numba_link        trackpy/linking/subnetlinker.py  (lines 173-235)

   i.e. everything numba_link does around its call of the kernel _numba_subnet_norecur.  The kernel
   itself is NOT modelled here: the model calls Gen.numbakernel.py__numba_subnet_norecur, the function
   regenerated from the kernel's current source text (route T).  The model follows the source line
   by line (the numbers in the comments are the source lines); the vocabulary is the one of
   Model/PyNumbakernel.v / Model/PyIterative.v / Model/PyLinker.v:

   a source Point          Model.PyLinker.spoint = (index, forward_cands); a candidate is
                           Model.Assign.cand = (destination index | None, dist**2).  As everywhere in
                           this development the float `dist` is represented by its square, an exact
                           integer (rounding of sums of squares is not modelled): distsarray holds
                           dist**2, its padding holds sr2 = search_range**2, and the elementwise
                           `distsarray**2` of line 225 is the identity on that representation.
   a destination / None    dkey = option nat (== on Points is identity, i.e. equality of the index)
   s_sn                    a SET of source Points: `src_net = list(s_sn)` lists it in the set's
                           iteration order; the argument of the model IS that listing (the theorems
                           hold for every list, hence for every iteration order).
   dcands = set(); .update(..); list(dcands)
                           the ARGUMENT set_list : list dkey -> list dkey gives the listing of the
                           set that results from inserting the given elements in the given order.
                           CPython's order depends on the Points' hashes (their ids); the theorems
                           hold for every set_list that loses no element ([set_list_covers]).  Note
                           that None (the null link, last candidate of every source) is inserted too
                           and occupies a position of dcands: the codes of the destinations have a gap.
   dict                    association list, d[k] = v conses, d[k] finds the FIRST binding (the most
                           recent), KeyError when absent; the dict is never iterated.
   np.ones((n,)) * v / np.zeros  np_full n v  (a list);  np.ones((r, c)) * v   np_full2 r c v
   a[j, :n] = vals         np_set_row_prefix: row j (IndexError outside), the slice :n is clipped to the
                           row, a one-element right-hand side is broadcast, any other length mismatch is
                           numpy's ValueError
   for j, sp in enumerate(src_net)   for_list over py_enumerate
   the kernel call         py__numba_subnet_norecur fuel ... : its arrays are mutated in place, the
                           model reads best_assignments from the final locals it returns
   diag                    modelled for diag=False (the default, the only value Linker passes unless
                           asked for diagnostics); the diag branch (lines 227-232) only stores loopcount
                           in dr.diag of every destination and does not touch the returned lists.
   No proofs in this file. *)
From Coq Require Import ZArith NArith List Bool Arith.
From TP Require Import Model.Assign Model.Link Model.Iterative Model.PyLinker Model.PyIterative
     Model.PyNumbakernel Gen.numbakernel Model.NumbaGenCheck.
Import ListNotations.
Open Scope Z_scope.

Definition dkey := option nat.

(* ---------- sets ---------- *)
Definition set_lister := list dkey -> list dkey.
(* the only thing the theorems need of list(set): no inserted element is lost *)
Definition set_list_covers (set_list : set_lister) : Prop := forall l x, In x l -> In x (set_list l).
(* what every listing of a Python set satisfies (stronger; implies set_list_covers) *)
Definition set_list_exact (set_list : set_lister) : Prop :=
  forall l, NoDup (set_list l) /\ forall x, In x (set_list l) <-> In x l.

(* a concrete lister (insertion order, first occurrence kept): used by examples and by the harness,
   which passes the listing it observed *)
Fixpoint dedup (l : list dkey) : list dkey :=
  match l with
  | [] => []
  | x :: l' => x :: filter (fun y => negb (opt_eqb x y)) (dedup l')
  end.

(* ---------- dicts ---------- *)
Definition pydict := list (dkey * Z).
Definition dict_set (m : pydict) (k : dkey) (v : Z) : pydict := (k, v) :: m.
Definition dict_get (m : pydict) (k : dkey) : option Z :=
  match find (fun kv : dkey * Z => opt_eqb k (fst kv)) m with Some kv => Some (snd kv) | None => None end.
(* {cand: i for i, cand in enumerate(l)} *)
Definition dict_of_enumerate (l : list dkey) : pydict :=
  fold_left (fun m (ic : Z * dkey) => dict_set m (snd ic) (fst ic)) (py_enumerate l) [].

(* ---------- numpy ---------- *)
Definition np_full (n : Z) (v : Z) : list Z := repeat v (Z.to_nat n).
Definition np_full2 (r c : Z) (v : Z) : list (list Z) := repeat (np_full c v) (Z.to_nat r).

(* number of elements of the slice [:n] of a sequence of length len *)
Definition slice_stop (len : nat) (n : Z) : nat :=
  if n <? 0 then Z.to_nat (Z.max (Z.of_nat len + n) 0) else Nat.min (Z.to_nat n) len.

Definition assign_prefix (row : list Z) (n : Z) (vals : list Z) : option (list Z) :=
  let k := slice_stop (length row) n in
  match vals with
  | [v] => Some (repeat v k ++ skipn k row)
  | _ => if Nat.eqb (length vals) k then Some (vals ++ skipn k row) else None
  end.

Definition np_set_row_prefix (a : list (list Z)) (j n : Z) (vals : list Z) : fresult (list (list Z)) :=
  match py_index a j with
  | None => Fail IndexError
  | Some row =>
    match assign_prefix row n vals with
    | None => Fail ValueError
    | Some row' => match py_set_index a j row' with Some a' => Done a' | None => Fail IndexError end
    end
  end.

Fixpoint map_opt {A B : Type} (f : A -> option B) (l : list A) : option (list B) :=
  match l with
  | [] => Some []
  | x :: l' => match f x with
               | None => None
               | Some y => match map_opt f l' with Some ys => Some (y :: ys) | None => None end
               end
  end.

(* ---------- the locals the row loop re-assigns ---------- *)
Record nll := mk_nll { nl_ncands : list Z; nl_candsarray : list (list Z); nl_distsarray : list (list Z) }.

(* body of `for j, sp in enumerate(src_net):` (lines 205-211); it never returns *)
Definition nl_row (max_candidates : Z) (dcands_map : pydict) (jsp : Z * spoint) (st : nll) : outcome nll Empty_set :=
  let j := fst jsp in
  let sp := snd jsp in
  (* 206: ncands[j] = len(sp.forward_cands) *)
  match py_set_index (nl_ncands st) j (py_len (forward_cands sp)) with None => Raise IndexError | Some x1 =>
  let st := mk_nll x1 (nl_candsarray st) (nl_distsarray st) in
  (* 207: if ncands[j] > max_candidates: *)
  match py_index (nl_ncands st) j with None => Raise IndexError | Some x2 =>
  if max_candidates <? x2
  then
    (* 208: raise SubnetOversizeException(... 'particle has %i forward candidates') *)
    Raise SubnetOversizeException
  else
    (* 210: candsarray[j,:ncands[j]] = [dcands_map[cand] for cand, dist in sp.forward_cands] *)
    match map_opt (fun c : cand => dict_get dcands_map (fst c)) (forward_cands sp) with None => Raise KeyError | Some x3 =>
    match py_index (nl_ncands st) j with None => Raise IndexError | Some x4 =>
    match np_set_row_prefix (nl_candsarray st) j x4 x3 with Fail e => Raise e | Done x5 =>
    let st := mk_nll (nl_ncands st) x5 (nl_distsarray st) in
    (* 211: distsarray[j,:ncands[j]] = [dist for cand, dist in sp.forward_cands] *)
    let x6 := map (fun c : cand => snd c) (forward_cands sp) in
    match py_index (nl_ncands st) j with None => Raise IndexError | Some x7 =>
    match np_set_row_prefix (nl_distsarray st) j x7 x6 with Fail e => Raise e | Done x8 =>
    Normal (mk_nll (nl_ncands st) (nl_candsarray st) x8)
    end end end end end
  end end.

(* lines 185-211: everything before the kernel call.  Result: (dcands, the three arrays) *)
Definition nl_build (set_list : set_lister) (s_sn : list spoint) (sr2 : Z) (max_size : Z) : fresult (list dkey * nll) :=
  (* 185: max_candidates = 9 *)
  let max_candidates := 9 in
  (* 186: src_net = list(s_sn) *)
  let src_net := py_list s_sn in
  (* 187: nj = len(src_net) *)
  let nj := py_len src_net in
  (* 188: if nj > max_size: raise SubnetOversizeException(... 'sub net contains %d points') *)
  if max_size <? nj then Fail SubnetOversizeException else
  (* 192-194: dcands = set(); for p in src_net: dcands.update([cand for cand, dist in p.forward_cands]) *)
  (* 195: dcands = list(dcands) *)
  let dcands := set_list (flat_map (fun p : spoint => map (fun c : cand => fst c) (forward_cands p)) src_net) in
  (* 196: dcands_map = {cand: i for i, cand in enumerate(dcands)} *)
  let dcands_map := dict_of_enumerate dcands in
  (* 198: dcands_map[None] = -1 *)
  let dcands_map := dict_set dcands_map None (-1) in
  (* 202: candsarray = np.ones((nj, max_candidates), dtype=np.int64) * -1 *)
  let candsarray := np_full2 nj max_candidates (-1) in
  (* 203: distsarray = np.ones((nj, max_candidates), dtype=np.float64) * search_range *)
  let distsarray := np_full2 nj max_candidates sr2 in
  (* 204: ncands = np.zeros((nj,), dtype=np.int64) *)
  let ncands := np_full nj 0 in
  (* 205: for j, sp in enumerate(src_net): *)
  match for_list (nl_row max_candidates dcands_map) (py_enumerate src_net) (mk_nll ncands candsarray distsarray) with
  | Raise e => Fail e
  | Return v => match v with end
  | Normal st | Continue st | Break st => Done (dcands, st)
  end.

Definition nl_result := (list spoint * list dkey)%type.    (* (source_results, dest_results) *)

(* line 234: dcands[i] if i >= 0 else None *)
Definition nl_decode (dcands : list dkey) (i : Z) : option dkey :=
  if 0 <=? i then py_index dcands i else Some None.

Definition py_numba_link (set_list : set_lister) (fuel : nat) (s_sn : list spoint) (sr2 : Z) (max_size : Z) : fresult nl_result :=
  match nl_build set_list s_sn sr2 max_size with
  | Fail e => Fail e
  | Done (dcands, st) =>
    let src_net := py_list s_sn in
    let nj := py_len src_net in
    (* 220: best_assignments = np.ones((nj,), dtype=np.int64) * -1 *)
    let best_assignments := np_full nj (-1) in
    (* 221: cur_assignments = np.ones((nj,), dtype=np.int64) * -1 *)
    let cur_assignments := np_full nj (-1) in
    (* 222: tmp_assignments = np.zeros((nj,), dtype=np.int64) *)
    let tmp_assignments := np_full nj 0 in
    (* 223: cur_sums = np.zeros((nj,), dtype=np.float64) *)
    let cur_sums := np_full nj 0 in
    (* 225: loopcount = _numba_subnet_norecur(ncands, candsarray, distsarray**2, cur_assignments, cur_sums,
                                              tmp_assignments, best_assignments) *)
    match py__numba_subnet_norecur fuel (nl_ncands st) (nl_candsarray st) (nl_distsarray st)
                                   cur_assignments cur_sums tmp_assignments best_assignments with
    | Fail e => Fail e
    | Done None => Fail OutOfFuel     (* the kernel fell off its end: its `while 1` has no break, and the theorems show Done (Some _) *)
    | Done (Some (loopcount, kst)) =>
      let best_assignments := nk_best_assignments kst in
      (* 227: if diag: ...   (diag = False) *)
      (* 233: source_results = list(src_net) *)
      let source_results := py_list src_net in
      (* 234: dest_results = [dcands[i] if i >= 0 else None for i in best_assignments] *)
      match map_opt (nl_decode dcands) best_assignments with
      | None => Fail IndexError
      | Some dest_results =>
        (* 235: return source_results, dest_results *)
        Done (source_results, dest_results)
      end
    end
  end.

(* ---------- statement vocabulary ---------- *)
(* the code numba_link gives destination d: its position in dcands (the binding the dict holds);
   extended injectively to the destinations that do not occur *)
Definition nl_enc (dcands : list dkey) (d : nat) : Z :=
  match dict_get (dict_of_enumerate dcands) (Some d) with
  | Some z => z
  | None => Z.of_nat (length dcands + d)
  end.

Definition nl_dcands (set_list : set_lister) (s_sn : list spoint) : list dkey :=
  set_list (flat_map (fun p : spoint => map (fun c : cand => fst c) (forward_cands p)) s_sn).

(* the rows numba_link builds for a source with at most 9 candidates *)
Definition nl_cands_row (dcands : list dkey) (sp : spoint) : list Z :=
  map (fun c : cand => encd (nl_enc dcands) (fst c)) (forward_cands sp) ++ repeat (-1) (9 - length (forward_cands sp)).
Definition nl_dists_row (sr2 : Z) (sp : spoint) : list Z :=
  map (fun c : cand => snd c) (forward_cands sp) ++ repeat sr2 (9 - length (forward_cands sp)).

(* ---------- executable comparison (vp/props/c03.py) ----------
   the arrays the real numba_link handed to the (intercepted) kernel and the destinations it returned
   are compared with the model's, run with the listing of dcands observed in that call *)
Fixpoint zlist2_eqb (a b : list (list Z)) : bool :=
  match a, b with
  | [], [] => true
  | x :: a', y :: b' => zlist_eqb x y && zlist2_eqb a' b'
  | _, _ => false
  end.
Fixpoint dkeys_eqb (a b : list dkey) : bool :=
  match a, b with
  | [], [] => true
  | x :: a', y :: b' => opt_eqb x y && dkeys_eqb a' b'
  | _, _ => false
  end.
Definition covers_b (l obs : list dkey) : bool := forallb (fun x => existsb (opt_eqb x) obs) l.

(* (sources, observed dcands listing, search_range**2, max_size,
    observed ((ncands, candsarray, distsarray**2) handed to the kernel, best_assignments the kernel left,
    destinations returned); None = the real function raised SubnetOversizeException).
   The kernel itself is compared by Model/NumbaGenCheck.v:check_gen_kernel on the same call, so here the
   read-back is applied to the best_assignments the real kernel left. *)
Definition link_case := (list spoint * list dkey * Z * Z * option ((list Z * list (list Z) * list (list Z)) * list Z * list dkey))%type.

Definition check_numba_link (c : link_case) : N :=
  let '(s_sn, dcands_obs, sr2, ms, obs) := c in
  let set_list := fun _ : list dkey => dcands_obs in
  let keys := flat_map (fun p : spoint => map (fun c : cand => fst c) (forward_cands p)) s_sn in
  if negb (covers_b keys dcands_obs && covers_b dcands_obs keys) then 61%N
  else match obs, nl_build set_list s_sn sr2 ms with
       | None, Fail SubnetOversizeException => 0%N
       | None, _ => 62%N
       | Some _, Fail _ => 63%N
       | Some ((nc, ca, da), ba, dests), Done (dcands, st) =>
         if negb (zlist_eqb (nl_ncands st) nc && zlist2_eqb (nl_candsarray st) ca && zlist2_eqb (nl_distsarray st) da) then 64%N
         else match map_opt (nl_decode dcands) ba with
              | Some ds => if dkeys_eqb ds dests then 0%N else 65%N
              | None => 65%N
              end
       end.
