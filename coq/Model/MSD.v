(* Executable model of trackpy/motion.py: msd, _msd_N, _msd_iter, _msd_gaps,
   _msd_fft, imsd, emsd  (code as of the fix: commits 37ede69, 2522a87).

   Numbers: canonical rationals Qc (QArith.Qcanon: every operation ends with
   Qred, equality is Leibniz).  NaN is [None].  An exception raised by the
   Python is the outer [None] of the [option (list mrow)] results.

   Modelled, not verified (numpy/pandas primitives by their meaning):
     np.argsort(kind='stable')        = stable insertion sort by frame
     np.fft.fft/ifft autocorrelation  = the exact sum  S2(m) = sum_i r_i r_(i+m)
     DataFrame.reindex                = first-match lookup per frame, raising on
                                        duplicate frame labels
     np.nanmean / groupby.mean        = mean of the non-NaN entries, NaN if none
     DataFrame.sum(skipna=False)      = NaN if any entry is NaN
     groupby('particle')              = particle ids ascending, rows in order
   No proofs in this file. *)
From Coq Require Import ZArith QArith Qcanon List Bool.
Import ListNotations.
Open Scope Qc_scope.

Definition zq (z : Z) : Qc := Q2Qc (inject_Z z).
Definition nq (n : nat) : Qc := zq (Z.of_nat n).
Definition q2 : Qc := 1 + 1.
Definition sqr (x : Qc) : Qc := x * x.

Definition vec := list Qc.
Definition row := (Z * vec)%type.          (* frame, position in pixels *)

Fixpoint qsum (l : list Qc) : Qc :=
  match l with [] => 0 | x :: t => x + qsum t end.

Fixpoint map2 {A B C : Type} (f : A -> B -> C) (l1 : list A) (l2 : list B) : list C :=
  match l1, l2 with
  | a :: t1, b :: t2 => f a b :: map2 f t1 t2
  | _, _ => []
  end.

(* mean of a list, NaN for the empty list *)
Definition mean (l : list Qc) : option Qc :=
  match l with [] => None | _ => Some (qsum l / nq (length l)) end.

(* the non-NaN entries *)
Fixpoint somes (l : list (option Qc)) : list Qc :=
  match l with
  | [] => []
  | Some x :: t => x :: somes t
  | None :: t => somes t
  end.

Definition nanmean (l : list (option Qc)) : option Qc := mean (somes l).

(* DataFrame.sum(axis=1, skipna=False) *)
Fixpoint osum (l : list (option Qc)) : option Qc :=
  match l with
  | [] => Some 0
  | Some x :: t => match osum t with Some s => Some (x + s) | None => None end
  | None :: _ => None
  end.

(* ---- traj.iloc[np.argsort(traj['frame'].values, kind='stable')] ---------- *)
Fixpoint insert (r : row) (l : list row) : list row :=
  match l with
  | [] => [r]
  | h :: t => if (fst r <=? fst h)%Z then r :: l else h :: insert r t
  end.
Definition isort (l : list row) : list row := fold_right insert [] l.

Definition zmax (l : list Z) : Z :=
  match l with [] => 0%Z | x :: t => fold_right Z.max x t end.
Definition zmin (l : list Z) : Z :=
  match l with [] => 0%Z | x :: t => fold_right Z.min x t end.

(* ---- _msd_N : Qian et al. effective number of measurements --------------- *)
Definition msd_N (N : nat) (t : nat) : Qc :=
  let n := nq N in let t' := nq t in
  let d := n - t' in
  if (N <? 2 * t)%nat        (* t > N/2 *)
  then 1 / (1 + (d * d * d + (q2 + q2 + 1) * t' - (q2 + q2) * (d * d) * t' - n)
                / ((q2 + q2 + q2) * d * (t' * t')))
  else (q2 + q2 + q2) * (d * d) * t'
       / (q2 * n - t' + (q2 + q2) * n * (t' * t') - (q2 + q2 + 1) * (t' * t' * t')).

(* ---- result rows ------------------------------------------------------------ *)
Record mrow := {
  r_lag  : nat;                  (* index 'lagt' (frames)            *)
  r_lagt : Qc;                   (* column 'lagt' = lag / fps        *)
  r_disp : list (option Qc);     (* <x>, <y>, ...                    *)
  r_sq   : list (option Qc);     (* <x^2>, <y^2>, ...                *)
  r_msd  : option Qc;            (* msd                              *)
  r_N    : Qc                    (* N (detail=True)                  *)
}.

(* column d of the positions, times mpp *)
Definition coord (d : nat) (mpp : Qc) (v : vec) : Qc := nth d v 0 * mpp.
Definition col (d : nat) (mpp : Qc) (t : list row) : list Qc :=
  map (fun r => coord d mpp (snd r)) t.

(* ---- _msd_fft ----------------------------------------------------------------- *)
Fixpoint cumsum_from (acc : Qc) (l : list Qc) : list Qc :=
  match l with [] => [] | x :: t => (acc + x) :: cumsum_from (acc + x) t end.
Definition cumsum (l : list Qc) : list Qc := cumsum_from 0 l.

Definition dot (l1 l2 : list Qc) : Qc := qsum (map2 Qcmult l1 l2).
(* what ifft(F * conj F)[m].real of the zero-padded signal is, exactly *)
Definition autocorr (r : list Qc) (m : nat) : Qc := dot r (skipn m r).

Definition lags (L : nat) : list nat := seq 1 L.

(* disp = cumsum(r[:-L-1:-1] - r[:L]) / (N - lagtimes) *)
Definition fft_disp (r : list Qc) (L : nat) : list Qc :=
  let N := length r in
  let r_diff := map2 Qcminus (firstn L (rev r)) (firstn L r) in
  map2 (fun c m => c / nq (N - m)) (cumsum r_diff) (lags L).

(* squared_disp = (S1 - 2*S2) / (N - lagtimes) *)
Definition fft_sq (r : list Qc) (L : nat) : list Qc :=
  let N := length r in
  let D := map sqr r in
  let D_sum := map2 Qcplus (firstn L D) (firstn L (rev D)) in
  let S1 := map (fun c => q2 * qsum D - c) (cumsum D_sum) in
  let S2 := map (autocorr r) (lags L) in
  map2 (fun x m => x / nq (N - m)) (map2 (fun a b => a - q2 * b) S1 S2) (lags L).

Definition msd_fft (t : list row) (mpp fps : Qc) (maxlag ndim : nat) : list mrow :=
  let N := length t in
  let L := Nat.min maxlag (N - 1) in
  let cols := map (fun d => col d mpp t) (seq 0 ndim) in
  let disp := map (fun r => fft_disp r L) cols in
  let sq := map (fun r => fft_sq r L) cols in
  map (fun k =>
         let m := S k in
         let sqk := map (fun c => nth k c 0) sq in
         {| r_lag := m; r_lagt := nq m / fps;
            r_disp := map (fun c => Some (nth k c 0)) disp;
            r_sq := map Some sqk;
            r_msd := Some (qsum sqk);
            r_N := msd_N N m |}) (seq 0 L).

(* ---- _msd_gaps ---------------------------------------------------------------- *)
Definition lookup (f : Z) (t : list row) : option vec :=
  match find (fun r => (fst r =? f)%Z) t with Some r => Some (snd r) | None => None end.

(* pos.reindex(np.arange(first, last + 1)) *)
Definition reindex (t : list row) (f0 : Z) (len : nat) : list (option vec) :=
  map (fun i => lookup (f0 + Z.of_nat i)%Z t) (seq 0 len).

Fixpoint nodupb (l : list Z) : bool :=
  match l with [] => true | x :: t => negb (existsb (Z.eqb x) t) && nodupb t end.

Definition osub (a b : option Qc) : option Qc :=
  match a, b with Some x, Some y => Some (x - y) | _, _ => None end.

(* diff = pos[lt:] - pos[:-lt]   (one column) *)
Definition shift_diff (lt : nat) (c : list (option Qc)) : list (option Qc) :=
  map2 osub (skipn lt c) (firstn (length c - lt) c).

Definition gaps_col (stat : Qc -> Qc) (lt : nat) (c : list (option Qc)) : option Qc :=
  nanmean (map (option_map stat) (shift_diff lt c)).

Definition msd_gaps (t : list row) (mpp fps : Qc) (maxlag ndim : nat) : option (list mrow) :=
  match t with
  | [] => None                                   (* pos.index[0]: IndexError *)
  | r0 :: _ =>
    if negb (nodupb (map fst t)) then None       (* cannot reindex: Exception *)
    else
      let f0 := fst r0 in
      let f1 := fst (last t r0) in
      let len := Z.to_nat (f1 - f0 + 1) in
      let pos := reindex t f0 len in
      let L := Nat.min maxlag (len - 1) in
      let cols := map (fun d => map (option_map (coord d mpp)) pos) (seq 0 ndim) in
      Some (map (fun m =>
                   let sk := map (gaps_col sqr m) cols in
                   {| r_lag := m; r_lagt := nq m / fps;
                      r_disp := map (gaps_col (fun x => x) m) cols;
                      r_sq := sk;
                      r_msd := osum sk;
                      r_N := msd_N len m * nq (length t) / nq len |}) (lags L))
  end.

(* ---- msd -------------------------------------------------------------------------- *)
Definition msd (traj : list row) (mpp fps : Qc) (maxlag ndim : nat) : option (list mrow) :=
  let t := isort traj in
  match t with
  | [] => None      (* max() of an empty column is NaN, the gap path then raises *)
  | _ =>
    let fr := map fst t in
    if (zmax fr - zmin fr + 1 =? Z.of_nat (length t))%Z
    then Some (msd_fft t mpp fps maxlag ndim)
    else msd_gaps t mpp fps maxlag ndim
  end.

(* ---- imsd / emsd -------------------------------------------------------------------- *)
Definition prow := (Z * row)%type.       (* particle id, (frame, position) *)

Fixpoint zinsert_u (x : Z) (l : list Z) : list Z :=
  match l with
  | [] => [x]
  | h :: t => if (x <? h)%Z then x :: l else if (x =? h)%Z then l else h :: zinsert_u x t
  end.
(* groupby('particle') keys: distinct ids, ascending *)
Definition pids (tr : list prow) : list Z := fold_right zinsert_u [] (map fst tr).
Definition rows_of (p : Z) (tr : list prow) : list row :=
  map snd (filter (fun pr => (fst pr =? p)%Z) tr).

Fixpoint all_some {A : Type} (l : list (option A)) : option (list A) :=
  match l with
  | [] => Some []
  | Some x :: t => match all_some t with Some r => Some (x :: r) | None => None end
  | None :: _ => None
  end.

Definition per_particle (tr : list prow) (mpp fps : Qc) (maxlag ndim : nat)
  : option (list (Z * list mrow)) :=
  all_some (map (fun p => option_map (pair p) (msd (rows_of p tr) mpp fps maxlag ndim)) (pids tr)).

Definition find_lag (m : nat) (rows : list mrow) : option mrow :=
  find (fun r => Nat.eqb (r_lag r) m) rows.

(* union of the per-particle lag indices: 1 .. max_i L_i *)
Definition max_lag (tabs : list (Z * list mrow)) : nat :=
  fold_right Nat.max 0%nat (map (fun pt => length (snd pt)) tabs).

(* value of particle table [rows] at lag m after concat/unstack: NaN when absent *)
Definition entry (m : nat) (rows : list mrow) : option Qc :=
  match find_lag m rows with Some r => r_msd r | None => None end.

Record irow := { i_lag : nat; i_lagt : Qc; i_vals : list (option Qc) }.

Definition imsd (tr : list prow) (mpp fps : Qc) (maxlag ndim : nat)
  : option (list Z * list irow) :=
  match tr with [] => None | _ =>
  match per_particle tr mpp fps maxlag ndim with
  | None => None
  | Some tabs0 =>
    (* concat + unstack: a particle without any lag (single observation or
       max_lagtime = 0) contributes no row, hence gets no column *)
    let tabs := filter (fun pt => match snd pt with [] => false | _ => true end) tabs0 in
    Some (map fst tabs,
          map (fun m => {| i_lag := m; i_lagt := nq m / fps;
                           i_vals := map (fun pt => entry m (snd pt)) tabs |})
              (lags (max_lag tabs)))
  end end.

(* rows (N, msd) of the concatenated table at lag m whose msd is not NaN
   (msds['N'].where(msds['msd'].notna()): the others carry weight NaN and are
   skipped by both groupby means) *)
Definition contrib_entries (m : nat) (tabs : list (Z * list mrow)) : list (Qc * Qc) :=
  flat_map (fun pt => match find_lag m (snd pt) with
                      | Some r => match r_msd r with Some v => [(r_N r, v)] | None => [] end
                      | None => []
                      end) tabs.

Definition odiv (a b : option Qc) : option Qc :=
  match a, b with Some x, Some y => Some (x / y) | _, _ => None end.

Record erow := { e_lag : nat; e_lagt : Qc; e_msd : option Qc; e_N : Qc }.

Definition emsd (tr : list prow) (mpp fps : Qc) (maxlag ndim : nat) : option (list erow) :=
  match tr with [] => None | _ =>
  match per_particle tr mpp fps maxlag ndim with
  | None => None
  | Some tabs =>
    Some (map (fun m =>
                 let ent := contrib_entries m tabs in
                 (* msds.mul(N).groupby(lag).mean()  /  N.groupby(lag).mean() *)
                 let num := mean (map (fun e => snd e * fst e) ent) in
                 let den := mean (map fst ent) in
                 {| e_lag := m; e_lagt := nq m / fps;
                    e_msd := odiv num den;
                    e_N := qsum (map fst ent) |})
              (lags (max_lag tabs)))
  end end.
