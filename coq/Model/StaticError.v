(* Executable model of trackpy.uncertainty._static_error (uncertainty.py:47-56), of the
   block of trackpy.feature.locate that calls it and attaches the result
   (feature.py:441-453), and of the public trackpy.uncertainty.static_error
   (uncertainty.py:59-122), on ALL their columns:

     coord_moments = _root_sum_x_squared(radius, ndim)
     N_S = noise / mass
     if all radii equal and all noise sizes equal:
         ep = N_S * noise_size[0] * coord_moments[0]                      -> 1-D, column 'ep'
     else:
         ep = N_S[:, newaxis] * (noise_size * coord_moments)[newaxis, :]  -> 2-D, columns ep_<axis>
     ep[ep < 0] = nan          (in locate: feature.py:447; in static_error: uncertainty.py:110)

   float64 values are [fval] (Model/LocateTail.v): NaN, +inf, -inf or an exact rational.
   The arithmetic below is IEEE arithmetic without rounding and without signed zeros
   (x / 0 takes the sign of x).  np.sqrt is a parameter.  No proofs in this file. *)
From Coq Require Import ZArith QArith List Bool String DecimalString.
From TP Require Import Model.COM Model.LocateTail Model.LocatePipe.
Import ListNotations.
Open Scope Q_scope.

(* ------------------------------------------------------------ float64 *)
Definition fsign (x : Q) (pos neg zero : fval) : fval :=
  if Qltb 0 x then pos else if Qltb x 0 then neg else zero.

Definition fmul (a b : fval) : fval :=
  match a, b with
  | FNaN, _ => FNaN
  | _, FNaN => FNaN
  | FVal x, FVal y => FVal (x * y)
  | FVal x, FPInf => fsign x FPInf FNInf FNaN              (* 0 * inf = nan *)
  | FPInf, FVal x => fsign x FPInf FNInf FNaN
  | FVal x, FNInf => fsign x FNInf FPInf FNaN
  | FNInf, FVal x => fsign x FNInf FPInf FNaN
  | FPInf, FPInf => FPInf
  | FNInf, FNInf => FPInf
  | FPInf, FNInf => FNInf
  | FNInf, FPInf => FNInf
  end.

Definition fdiv (a b : fval) : fval :=
  match a, b with
  | FNaN, _ => FNaN
  | _, FNaN => FNaN
  | FVal x, FVal y => if Qeq_bool y 0 then fsign x FPInf FNInf FNaN     (* x / 0 ; 0 / 0 = nan *)
                      else FVal (x / y)
  | FVal _, FPInf => FVal 0
  | FVal _, FNInf => FVal 0
  | FPInf, FVal y => if Qltb y 0 then FNInf else FPInf
  | FNInf, FVal y => if Qltb y 0 then FPInf else FNInf
  | _, _ => FNaN                                                        (* inf / inf *)
  end.

Definition fneg (a : fval) : fval :=
  match a with FNaN => FNaN | FPInf => FNInf | FNInf => FPInf | FVal x => FVal (- x) end.

Definition fadd (a b : fval) : fval :=
  match a, b with
  | FNaN, _ => FNaN
  | _, FNaN => FNaN
  | FVal x, FVal y => FVal (x + y)
  | FPInf, FNInf => FNaN
  | FNInf, FPInf => FNaN
  | FPInf, _ => FPInf
  | _, FPInf => FPInf
  | FNInf, _ => FNInf
  | _, FNInf => FNInf
  end.

Definition fsub (a b : fval) : fval := fadd a (fneg b).

(* a measured quantity that is NaN when it could not be measured *)
Definition of_opt (o : option Q) : fval := match o with Some q => FVal q | None => FNaN end.

(* ------------------------------------------------------ _static_error *)
(* ep.ndim == 1 (one value per feature) or 2 (one row per feature, one entry per axis) *)
Inductive ep_arr := Ep1 (col : list fval) | Ep2 (rows : list (list fval)).

(* noise: a number, or one value per feature (static_error joins a per-frame table) *)
Inductive noise_arg := NScalar (v : fval) | NSeries (vs : list fval).

Section SE.
  Variable sqrtf : Q -> Q.                  (* np.sqrt *)

  Definition static_error_arr (mass : list fval) (noise : noise_arg) (radius : list Z)
             (noise_size : list Q) : ep_arr :=
    let coord_moments := coord_moments sqrtf radius in
    let N_S := match noise with
               | NScalar v => map (fdiv v) mass
               | NSeries vs => map (fun nm => fdiv (fst nm) (snd nm)) (combine vs mass)
               end in
    if isotropic radius && all_equal_Q noise_size
    then Ep1 (map (fun x => fmul (fmul x (FVal (hd 0 noise_size))) (FVal (hd 0 coord_moments))) N_S)
    else let k := zipmul noise_size coord_moments in
         Ep2 (map (fun x => map (fun c => fmul x (FVal c)) k) N_S).

  (* ep[ep < 0] = np.nan, whatever the number of dimensions of ep *)
  Definition nan_negative (e : ep_arr) : ep_arr :=
    match e with
    | Ep1 col => Ep1 (map nan_if_negative col)
    | Ep2 rows => Ep2 (map (map nan_if_negative) rows)
    end.

  (* ------------------------------------------------ column names *)
  Definition digits (n : nat) : string := NilZero.string_of_uint (Nat.to_uint n).
  (* default_pos_columns(ndim) *)
  Definition pos_columns (ndim : nat) : list string :=
    if (ndim <? 4)%nat then skipn (3 - ndim) ["z"; "y"; "x"]%string
    else map (fun i => ("x" ++ digits i)%string) (seq 0 ndim).
  (* static_error: ['ep_x', 'ep_y', 'ep_z'][:ndim] or 'ep_x' + str(i) *)
  Definition se_columns (ndim : nat) : list string :=
    if (ndim <? 4)%nat then firstn ndim ["ep_x"; "ep_y"; "ep_z"]%string
    else map (fun i => ("ep_x" ++ digits i)%string) (seq 0 ndim).

  (* DataFrame(ep, columns=names): column k holds entry k of every row *)
  Definition columns_of (names : list string) (rows : list (list fval)) : list (string * list fval) :=
    map (fun kn => (snd kn, map (fun r => nth (fst kn) r FNaN) rows))
        (combine (seq 0 (List.length names)) names).

  (* ------------------------------------------------ locate, feature.py:441-453 *)
  (*   black_level, noise = measure_noise(image, raw_image, radius)
       Npx = N_binary_mask(radius, ndim)
       mass = refined_coords['raw_mass'].values - Npx * black_level
       ep = _static_error(mass, noise, radius, noise_size)
       ep[ep < 0] = np.nan
       ep.ndim == 1: column 'ep'; else columns 'ep_' + pos_columns *)
  Definition locate_mass (radius : list Z) (black : fval) (raw_mass : Q) : fval :=
    fsub (FVal raw_mass) (fmul (FVal (inject_Z (n_mask radius))) black).

  Definition locate_ep_arr (radius : list Z) (noise_size : list Q) (black noise : fval)
             (raw_mass : list Q) : ep_arr :=
    nan_negative (static_error_arr (map (locate_mass radius black) raw_mass) (NScalar noise) radius noise_size).

  Definition locate_ep (radius : list Z) (noise_size : list Q) (black noise : fval)
             (raw_mass : list Q) : list (string * list fval) :=
    match locate_ep_arr radius noise_size black noise raw_mass with
    | Ep1 col => [("ep"%string, col)]
    | Ep2 rows => columns_of (map (fun cc => ("ep_" ++ cc)%string) (pos_columns (List.length radius))) rows
    end.

  (* ------------------------------------------------ static_error, uncertainty.py:59-122 *)
  (*   noise_size = validate_tuple(noise_size, ndim)[::-1]; diameter = ...[::-1]
       radius = tuple(d // 2 for d in diameter)
       ep = _static_error(features['mass'], noise, radius, noise_size); ep[ep < 0] = np.nan
     (on ndarray input; with a pandas >= 2 Series the 2-D branch raises instead) *)
  Definition static_error (mass : list fval) (noise : noise_arg) (diameter : list Z)
             (noise_size : list Q) : list (string * list fval) :=
    let radius := map (fun d => (d / 2)%Z) (rev diameter) in
    match nan_negative (static_error_arr mass noise radius (rev noise_size)) with
    | Ep1 col => [("ep"%string, col)]
    | Ep2 rows => columns_of (se_columns (List.length diameter)) rows
    end.
End SE.

(* the entries of an ep array, feature by feature *)
Definition ep_table (e : ep_arr) : list (list fval) :=
  match e with Ep1 col => map (fun v => [v]) col | Ep2 rows => rows end.

(* equal as float64 values (rationals compared by ==) *)
Definition feq (a b : fval) : Prop :=
  match a, b with
  | FNaN, FNaN => True | FPInf, FPInf => True | FNInf, FNInf => True
  | FVal x, FVal y => x == y
  | _, _ => False
  end.
