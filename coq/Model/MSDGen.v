(* C17, route T: how the values returned by the generated functions of
   Gen/msd.v (pandas tables over the vocabulary Model/PyMsd.v) are read next to
   the rows of the hand-written model Model/MSD.v.  Used only in the STATEMENTS
   of Proofs/MSDGen.v and Properties/C17.v.  No proofs in this file. *)
From Coq Require Import String ZArith QArith Qcanon List Bool.
From TP Require Import Model.MSD Model.PyMsd.
Import ListNotations.
Open Scope Qc_scope.

(* the table of msd / _msd_fft / _msd_gaps whose rows are [rows]: index = lag,
   index name 'lagt', columns <p> .., <p^2> .., msd, [N,] lagt in this order *)
Definition frame_of_mrows (pc : list nat) (detail : bool) (rows : list mrow) : frame :=
  mkframe (map (fun r => Z.of_nat (r_lag r)) rows) (Some "lagt"%string)
    (combine (map LDisp pc) (map (fun j => map (fun r => nth j (r_disp r) None) rows) (seq 0 (List.length pc)))
     ++ combine (map LSq pc) (map (fun j => map (fun r => nth j (r_sq r) None) rows) (seq 0 (List.length pc)))
     ++ [(LMsd, map r_msd rows)]
     ++ (if detail then [(LN, map (fun r => Some (r_N r)) rows)] else [])
     ++ [(LLagt, map (fun r => Some (r_lagt r)) rows)]).

(* a generated function [g] and a model function [m] (None = raised) agree *)
Definition agrees {A B : Type} (view : B -> A) (g : pyres A) (m : option B) : Prop :=
  match m with
  | Some b => g = Ret (view b)
  | None => exists e, g = Raise e
  end.

(* the table of imsd: float index lag/fps named 'lag time [s]', one column per particle *)
Definition widef_of_irows (cr : list Z * list irow) : widef :=
  mkwidef (map i_lagt (snd cr)) (Some "lag time [s]"%string) (fst cr)
          (map (fun j => map (fun r => nth j (i_vals r) None) (snd cr)) (seq 0 (List.length (fst cr)))).

(* the table of emsd(detail=True), on the columns the model has *)
Definition emsd_frame_agrees (f : frame) (rows : list erow) : Prop :=
  f_index f = map (fun r => Z.of_nat (e_lag r)) rows /\
  getcol (f_cols f) LLagt = Some (map (fun r => Some (e_lagt r)) rows) /\
  getcol (f_cols f) LMsd = Some (map e_msd rows) /\
  getcol (f_cols f) LN = Some (map (fun r => Some (e_N r)) rows).

(* ---- what imsd / emsd do with the per-particle tables once the loop over the particles
   has collected them (ids, msds): the pandas pipeline, written with the vocabulary -- the text the
   translator generates after the loop (Proofs/MSDGen.v: gen_imsd_partial / gen_emsd_partial show the
   generated functions ARE the loop followed by these; imsd_tail_ok / emsd_tail_ok that they assemble the
   model's tables) *)
Definition imsd_tail (fps : Qc) (statistic : lbl) (ids : list Z) (msds : list frame) : pyres widef :=
  bind (pd_concat_keys msds ids) (fun results =>
  bind (mf_swaplevel_getcol_unstack results statistic) (fun results =>
  let lagt := fvec_div_float (ivec_astype_float (wide_index_values results)) (py_float fps) in
  let results := wide_set_index_values results lagt in
  let results := widef_set_index_name results "lag time [s]"%string in
  Ret results)).

Definition emsd_tail (fps : Qc) (detail : bool) (ids : list Z) (msds : list frame) : pyres emsd_result :=
  bind (pd_concat_keys msds ids) (fun msds =>
  bind (mf_getcol msds LN) (fun n0 =>
  bind (mf_getcol msds LMsd) (fun m0 =>
  let msds := mf_setcol msds LN (ms_where n0 (ms_notna m0)) in
  bind (mf_getcol msds LN) (fun n1 =>
  let results := mf_groupby_level1_mean (mf_mul_axis0 msds n1) in
  bind (mf_getcol msds LN) (fun n2 =>
  let results := df_div_axis0 results (ms_groupby_level1_mean n2) in
  let results := df_setcol results LLagt (fvec_cells (ivec_div_float (df_index_values results) (py_float fps))) in
  if negb detail then
    bind (df_set_index_col_getcol results LLagt LMsd) (fun s => Ret (EmsdSeries s))
  else
    bind (mf_getcol msds LN) (fun n3 =>
    let results := df_setcol_aligned results LN (ms_groupby_level1_sum n3) in
    Ret (EmsdFrame results))))))).

(* the model's per-particle tables as the lists the loop builds *)
Definition tabs_ids (tabs : list (Z * list mrow)) : list Z := map fst tabs.
Definition tabs_frames (pc : list nat) (detail : bool) (tabs : list (Z * list mrow)) : list frame :=
  map (fun pt => frame_of_mrows pc detail (snd pt)) tabs.

(* executable comparison of a generated ensemble result with the model's rows (exact: both are rationals) *)
Fixpoint eqb_cells (a b : list cell) : bool :=
  match a, b with
  | [], [] => true
  | Some x :: a', Some y :: b' => Qc_eq_bool x y && eqb_cells a' b'
  | None :: a', None :: b' => eqb_cells a' b'
  | _, _ => false
  end.
Fixpoint eqb_zs (a b : list Z) : bool :=
  match a, b with
  | [], [] => true
  | x :: a', y :: b' => Z.eqb x y && eqb_zs a' b'
  | _, _ => false
  end.
Definition eqb_ocol (a : option (list cell)) (b : list cell) : bool :=
  match a with Some c => eqb_cells c b | None => false end.
Fixpoint eqb_cols (a b : oarr2) : bool :=
  match a, b with
  | [], [] => true
  | x :: a', y :: b' => eqb_cells x y && eqb_cols a' b'
  | _, _ => false
  end.

(* 0 agree; 1 one raises, the other not; 2 emsd tables differ; 3 imsd tables differ; 4 msd tables differ *)
Definition cmp_gen_emsd (g : pyres emsd_result) (m : option (list erow)) : N :=
  match g, m with
  | Raise _, None => 0
  | Ret (EmsdFrame f), Some rows =>
      if eqb_zs (f_index f) (map (fun r => Z.of_nat (e_lag r)) rows)
         && eqb_ocol (getcol (f_cols f) LLagt) (map (fun r => Some (e_lagt r)) rows)
         && eqb_ocol (getcol (f_cols f) LMsd) (map e_msd rows)
         && eqb_ocol (getcol (f_cols f) LN) (map (fun r => Some (e_N r)) rows)
      then 0 else 2
  | _, _ => 1
  end%N.
Definition cmp_gen_imsd (g : pyres widef) (m : option (list Z * list irow)) : N :=
  match g, m with
  | Raise _, None => 0
  | Ret w, Some cr =>
      let w' := widef_of_irows cr in
      if eqb_zs (wf_columns w) (wf_columns w') && eqb_cells (map Some (wf_index w)) (map Some (wf_index w'))
         && eqb_cols (wf_vals w) (wf_vals w')
      then 0 else 3
  | _, _ => 1
  end%N.

Definition eqb_ostr (a b : option string) : bool :=
  match a, b with Some x, Some y => String.eqb x y | None, None => true | _, _ => false end.
Fixpoint eqb_lcols (a b : list (lbl * list cell)) : bool :=
  match a, b with
  | [], [] => true
  | (l, x) :: a', (l', y) :: b' => lbl_eqb l l' && eqb_cells x y && eqb_lcols a' b'
  | _, _ => false
  end.
Definition eqb_frame (f g : frame) : bool :=
  eqb_zs (f_index f) (f_index g) && eqb_ostr (f_iname f) (f_iname g) && eqb_lcols (f_cols f) (f_cols g).
Definition cmp_gen_msd (pc : list nat) (detail : bool) (g : pyres frame) (m : option (list mrow)) : N :=
  match g, m with
  | Raise _, None => 0
  | Ret f, Some rows => if eqb_frame f (frame_of_mrows pc detail rows) then 0 else 4
  | _, _ => 1
  end%N.
