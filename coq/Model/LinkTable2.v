(* C01, route T: what the generated table plumbing (Gen/coords.v) is compared with, in the
   terms of Model/LinkTable.v / Model/Link.v.  Declarative helpers only; no proofs. *)
From Coq Require Import String ZArith List Bool.
From TP Require Import Model.Assign Model.Link Model.LinkTable Model.PyCoords.
Import ListNotations.
Open Scope Z_scope.

(* the frame numbers coords_from_df hands to link_iter: every number from the smallest to the largest *)
Definition table_times (rows : list row) : list Z :=
  match rows with
  | [] => []
  | r0 :: _ =>
    let ts := map r_frame rows in
    py_range (zmin_list ts (r_frame r0)) (zmax_list ts (r_frame r0) + 1)
  end.

(* one DataFrame of link_df_iter's iterable: its positions and the frame number reported for it *)
Definition pos_of (pos_columns : list string) (d : DataFrame) : coords :=
  map (fun r => map (fun c => cell c r) pos_columns) (df_rows d).
Definition first_t (t_column : string) (d : DataFrame) : option Z :=
  match df_rows d with [] => None | r :: _ => Some (cell t_column r) end.

Definition has_cols (cs : list string) (d : DataFrame) : bool := forallb (fun c => has_col c d) cs.

(* link_df_iter: one labelled copy per DataFrame of the iterable *)
Definition link_df_iter_model (m : metric) (mem max_size : nat) (pos_columns : list string)
           (dfs : list DataFrame) : res (list DataFrame) :=
  match link_iter m mem max_size no_pred (map (pos_of pos_columns) dfs) with
  | Oversize => RRaise EOversize
  | Ok labs => mapM (fun p => p_setitem_list (fst p) "particle" (map Z.of_nat (snd p))) (combine dfs labs)
  end.

(* enumerate(.., start=1) after the first array: 0, 1, 2, .. *)
Definition enum_times (n : nat) : list (option Z) := map (fun k => Some (Z.of_nat k)) (seq 0 n).
