(* Executable checkers for C14, run by vp/props/c14.py on what the real
   trackpy produces.  Result codes are N, 0 = ok.  No proofs in this file.

   check_cands : FindLinker.get_relocate_candidates on one (image, positions,
                 known points) case against Model/FindLink.relocate_cands, plus
                 the property clauses evaluated on the implementation's list.
   check_movie : the admissibility monitor on a whole find_link output
                 (proved sound in Proofs/FindLink.v). *)
From Coq Require Import ZArith NArith QArith List Bool Arith.
From TP Require Import Model.Assign Model.Link Model.LinkCheck Model.Dilation Model.DilationCheck Model.FindLink.
Import ListNotations.
Open Scope Z_scope.

(* ------------------------------------------------ relocation candidates *)
Definition optZ_eqb (x y : option Z) : bool :=
  match x, y with
  | None, None => true
  | Some a, Some b => a =? b
  | _, _ => false
  end.
Definition cm_eqb (x y : cm) : bool := eqb_pt (fst x) (fst y) && optZ_eqb (snd x) (snd y).

Fixpoint desc_masses (l : list cm) : bool :=
  match l with
  | x :: ((y :: _) as l') => mass_ge (snd x) (snd y) && desc_masses l'
  | _ => true
  end.

Fixpoint all_pairs_b {A} (f : A -> A -> bool) (l : list A) : bool :=
  match l with
  | [] => true
  | x :: l' => forallb (f x) l' && all_pairs_b f l'
  end.

Definition far_b (k S : Z) (a b : pt) : bool := S * S <=? k * k * sqd a b.

Fixpoint outside_b (sh : list Z) (r : Z) (a : pt) : bool :=
  match sh, a with
  | n :: sh', x :: a' => (r <=? x) && (x <=? n - r - 1) && outside_b sh' r a'
  | [], [] => true
  | _, _ => false
  end.

(* property clauses on the implementation's candidate list:
   11 a candidate lies in the margin        12 mass NaN or below minmass
   13 not within search_range of any of the given positions
   14 closer than separation to a known point of the frame
   15 two candidates closer than separation (or a candidate twice)
   correspondence with the model (modulo the order of equal masses):
   1 implementation returned a candidate the model does not have (position)
   2 implementation misses a candidate of the model
   3 same position, different mass     4 not ordered by decreasing mass *)
Definition check_cands (P : fparams) (im : image) (t : option Q) (pos known : list pt)
           (out : list cm) : N :=
  let mo := relocate_cands P im t pos known in
  if existsb (fun x => negb (outside_b (shape im) (rad P) (fst x))) out then 11%N
  else if existsb (fun x => negb (mass_ok (minmass P) (snd x))) out then 12%N
  else if existsb (fun x => negb (in_range_any (fmet P) pos (fst x))) out then 13%N
  else if existsb (fun x => existsb (fun b => negb (far_b (fk P) (sepk P) (fst x) b)) known) out then 14%N
  else if negb (all_pairs_b (fun x y => far_b (fk P) (sepk P) (fst x) (fst y)) out) then 15%N
  else if existsb (fun x => negb (mem_pt (fst x) (map fst mo))) out then 1%N
  else if existsb (fun y => negb (mem_pt (fst y) (map fst out))) mo then 2%N
  else if existsb (fun x => negb (existsb (cm_eqb x) mo)) out then 3%N
  else if negb (desc_masses out) then 4%N
  else 0%N.

(* degenerate inputs: two maxima that survive the range filter are closer than
   separation and equally bright (saturated plateaus).  Which one drop_close keeps
   is then decided by comparing FLOAT sums of rescaled coordinates (C06: tie rule),
   so model and implementation may keep different members of the pair. *)
Definition has_tie (P : fparams) (im : image) (t : option Q) (pos known : list pt) : bool :=
  let sh := shape im in
  match slice_box sh (slr P) pos, t with
  | Some bx, Some t0 =>
    let f := mslice P im bx pos (background P pos known) in
    let ranged :=
      filter (fun a => existsb (fun p => d2w (mw (fmet P)) p a <=? mR2 (fmet P)) pos)
        (filter (fun a => negb (near_edge sh (map (fun _ => rad P) sh) (if fixed P then a else vsub a (map fst bx))))
           (filter (is_peak f (map (fun _ => dil P) sh) t0) (box_pixels bx))) in
    existsb (fun a => existsb (fun b => negb (eqb_pt a b) && (f a =? f b) && inside_b (fk P) (sepk P) a b) ranged) ranged
  | _, _ => false
  end.

(* check_cands, with model differences on degenerate inputs reported as 20 *)
Definition check_cands_t (P : fparams) (im : image) (t : option Q) (pos known : list pt) (out : list cm) : N :=
  match check_cands P im t pos known out with
  | 1%N | 2%N | 3%N => if has_tie P im t pos known then 20%N else check_cands P im t pos known out
  | c => c
  end.

(* number of candidates of the model (coverage statistics) *)
Definition n_cands (P : fparams) (im : image) (t : option Q) (pos known : list pt) : N :=
  N.of_nat (length (relocate_cands P im t pos known)).

(* ------------------------------------------- monitor on find_link output *)
Record feat := { f_pos : pt; f_lab : nat; f_mass : option Q; f_added : bool }.

Record mparams := {
  m_met : metric;      (* search_range *)
  m_k : Z; m_sepk : Z; (* separation * k *)
  m_rad : Z;           (* margin *)
  m_shape : list Z;
  m_minmass : Q;
  m_mem : nat;
}.

Definition feat_mass_ok (mm : Q) (a : feat) : bool :=
  match f_mass a with None => false | Some v => Qle_bool mm v end.

Definition has_source (mp : mparams) (recent : list (list feat)) (a : feat) : bool :=
  existsb (fun fr => existsb (fun b => d2w (mw (m_met mp)) (f_pos b) (f_pos a) <=? mR2 (m_met mp)) fr) recent.

(* one frame, given the preceding frames most recent first:
   1 a label twice   2 two features closer than separation
   3 an added feature has no feature of the last memory+1 frames within search_range
   4 a feature in the margin   5 mass not finite or below minmass *)
Definition check_frame (mp : mparams) (prev_rev : list (list feat)) (fr : list feat) : N :=
  if negb (nodup_b (map f_lab fr)) then 1%N
  else if negb (all_pairs_b (fun a b => far_b (m_k mp) (m_sepk mp) (f_pos a) (f_pos b)) fr) then 2%N
  else if existsb (fun a => f_added a && negb (has_source mp (firstn (S (m_mem mp)) prev_rev) a)) fr then 3%N
  else if existsb (fun a => negb (outside_b (m_shape mp) (m_rad mp) (f_pos a))) fr then 4%N
  else if existsb (fun a => negb (feat_mass_ok (m_minmass mp) a)) fr then 5%N
  else 0%N.

Fixpoint check_frames (mp : mparams) (prev_rev : list (list feat)) (frames : list (list feat)) : N :=
  match frames with
  | [] => 0%N
  | fr :: rest =>
    match check_frame mp prev_rev fr with
    | 0%N => check_frames mp (fr :: prev_rev) rest
    | c => c
    end
  end.

Definition check_movie (mp : mparams) (frames : list (list feat)) : N := check_frames mp [] frames.
