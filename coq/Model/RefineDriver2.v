(* Executable model of the try block of trackpy.refine.least_squares.
   refine_leastsq (lines 850-876 of /repo HEAD) that follows the control flow
   of the recentring loop statement by statement, with the external behaviour
   given PER UNIT AND PER ITERATION (an arbitrary oracle: the same arguments
   may give different answers in different iterations or units, as a reader,
   an image or an optimiser with internal state would):

     in_image u n coords      iteration n of unit u: prepare_subimages(coords, ...)
                              does not raise RefineException
     opt u n lo hi vect params coords
                              iteration n of unit u: minimize(residual, vect,
                              bounds=f_bounds, ...) ; OFail = result['success']
                              false or the residual raised RefineException,
                              OSucc x rms = success, result['x'] = x,
                              sqrt(result['fun'] / residual_factor) = rms

   The Python, with the model's reading on the right:

     for _n_iter in range(max_iter):                    for_loop u n fuel ... s   (n = _n_iter, fuel = iterations left)
         sub_images, ... = prepare_subimages(coords,..)   BExc when not in_image
         residual, jacobian = ff.get_residual(...)
         result = minimize(residual, vect,                BErr when the box is empty (scipy's ValueError: not a
                           bounds=f_bounds, ...)               RefineException, leaves refine_leastsq); vect and
                                                               f_bounds are those computed BEFORE the loop
         if not result['success']:
             raise RefineException(result['message'])     BExc
         rms_dev = np.sqrt(result['fun'] / residual_factor)   l_rms := Some r
         params = vect_to_params(result['x'], params, ..) l_params := unpack modes g x (l_params s)
         new_coords = params[:, 2:2+ndim]
         if np.all(np.sum((new_coords - coords)**2, 1)
                   < max_shift**2):
             break                                        BBreak: coords keeps its value
         coords = new_coords                              BNext: l_coords := new_coords
                                                          range exhausted without break: L2End s false n
     if rms_dev > max_rms_dev:                            after_loop: reached after a break AND after exhaustion;
         raise RefineException(...)                           rms_dev unbound (max_iter = 0) -> NameError -> Raised

   lstate = the three local variables the loop assigns.  The table-level loop
   (rung) is written over an arbitrary per-unit function fitk so that the
   isolation proofs do not depend on what a fit does.  No proofs in this file. *)
From Coq Require Import QArith List Bool Arith.
From TP Require Import Model.RefineBounds Model.RefineDriver.
Import ListNotations.
Open Scope Q_scope.

Record lstate := { l_params : list (list Q); l_coords : list (list Q); l_rms : option Q }.

(* one pass through the loop body *)
Inductive bres := BExc | BErr | BBreak (s : lstate) | BNext (s : lstate).
(* the whole for statement; n = number of loop bodies entered *)
Inductive lres2 := L2Exc (n : nat) | L2Err (n : nat) | L2End (s : lstate) (broke : bool) (n : nat).

Section Driver2.
  Variable in_image : nat -> nat -> list (list Q) -> bool.
  Variable opt : nat -> nat -> list ext -> list ext -> list Q -> list (list Q) -> list (list Q) -> ores.

  Variable ps : list pkind.
  Variable modes : list nat.
  Variable ndim : nat.
  Variable bd : bdict.
  Variable radius : list Q.
  Variable max_iter : nat.
  Variable max_shift max_rms_dev : Q.

  Definition body (u n : nat) (g : grouping) (lo hi : list ext) (vect : list Q) (s : lstate) : bres :=
    if negb (in_image u n (l_coords s)) then BExc
    else if box_empty lo hi then BErr
    else match opt u n lo hi vect (l_params s) (l_coords s) with
         | OFail => BExc
         | OSucc x r =>
           let params := unpack modes g x (l_params s) in
           let new_coords := coords_of ndim params in
           if all_small new_coords (l_coords s) max_shift
           then BBreak {| l_params := params; l_coords := l_coords s; l_rms := Some r |}
           else BNext {| l_params := params; l_coords := new_coords; l_rms := Some r |}
         end.

  Fixpoint for_loop (u n fuel : nat) (g : grouping) (lo hi : list ext) (vect : list Q) (s : lstate) : lres2 :=
    match fuel with
    | O => L2End s false n
    | S fuel' =>
      match body u n g lo hi vect s with
      | BExc => L2Exc (S n)
      | BErr => L2Err (S n)
      | BBreak s' => L2End s' true (S n)
      | BNext s' => for_loop u (S n) fuel' g lo hi vect s'
      end
    end.

  Definition after_loop (s : lstate) : outcome :=
    match l_rms s with
    | None => Raised
    | Some r => if Qlt_b max_rms_dev r then Failed else Fitted (l_params s) r
    end.

  (* the local variables when the loop is entered, and what the loop is given *)
  Definition start_state (params : list (list Q)) : lstate :=
    {| l_params := params; l_coords := coords_of ndim params; l_rms := None |}.

  Definition run_loop (u : nat) (g : grouping) (params : list (list Q)) : lres2 :=
    let bs := validate_bounds bd radius ps in
    for_loop u 0 max_iter g (box_low bs modes g params) (box_high bs modes g params)
             (pack 0 qmean modes g params) (start_state params).

  (* the body of the try block for unit number u *)
  Definition fit2 (u : nat) (g : grouping) (params_e : list (list ext)) : outcome :=
    match all_fin2 params_e with
    | None => Failed
    | Some params =>
      match run_loop u g params with
      | L2Exc _ => Failed
      | L2Err _ => Raised
      | L2End s _ _ => after_loop s
      end
    end.
End Driver2.

(* ---- the loop over units, for an arbitrary per-unit function ------------------ *)
Section Table.
  Variable fitk : nat -> grouping -> list (list ext) -> outcome.

  Definition rows_of (t : tbl) (u : unit_t) : list (list ext) := map (select NaN (fst u)) (pcols t).

  Definition stepg (k : nat) (t : tbl) (u : unit_t) : option tbl :=
    match fitk k (snd u) (rows_of t u) with
    | Raised => None
    | Failed => Some {| pcols := pcols t;
                        cost := scatter (fst u) (repeat NaN (length (fst u))) (cost t) |}
    | Fitted p r => Some {| pcols := write_cols (fst u) p (pcols t);
                            cost := scatter (fst u) (repeat (Fin r) (length (fst u))) (cost t) |}
    end.

  (* for _, f_iter in iterable: ...  ; k = number of the first unit of us *)
  Fixpoint rung (k : nat) (t : tbl) (us : list unit_t) : option tbl :=
    match us with
    | [] => Some t
    | u :: us' => match stepg k t u with None => None | Some t' => rung (S k) t' us' end
    end.
End Table.

Definition run2 in_image opt ps modes ndim bd radius max_iter max_shift max_rms_dev (t : tbl) (us : list unit_t) : option tbl :=
  rung (fit2 in_image opt ps modes ndim bd radius max_iter max_shift max_rms_dev) 0 t us.

(* ---- replaying recorded behaviour (used by vp/props/c16.py) ---------------------
   The harness records, for every unit of a real refine_leastsq run, what
   prepare_subimages and minimize did in each iteration; table_image /
   table_opt turn such a record into oracles.  Asking for an iteration that was
   not recorded yields OFail / not-in-image. *)
Definition table_image (tab : list bool) (_ n : nat) (_ : list (list Q)) : bool := nth n tab false.
Definition table_opt (tab : list ores) (_ n : nat) (_ _ : list ext) (_ : list Q) (_ _ : list (list Q)) : ores :=
  nth n tab OFail.
