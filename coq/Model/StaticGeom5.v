(* Vocabulary for the corner regime of the 3-D edge correction
   (Proofs/StaticCorner.v).  Definitions only. *)
From Coq Require Import Reals List.
From TP Require Import Model.StaticGeom Model.StaticGeom2 Model.StaticGeom3 Model.StaticGeom4.
Import ListNotations.
Open Scope R_scope.

(* the part of the sphere cut off by three mutually perpendicular half-spaces
   (closed), as a set of points relative to the centre: the spherical triangle
   beyond a corner of the box *)
Definition beyond_xyz (dx dy dz : R) (p : R * R * R) : Prop := dx <= X3 p /\ dy <= Y3 p /\ dz <= Z3 p.

(* The code's inclusion-exclusion, grouped by the slicing axis: lo, hi = the
   distances of the two faces perpendicular to the axis, hl, hr, hb, ht = the
   distances of the four faces parallel to it (Model/StaticGeom4.v: lateral).
     whole slab               4 PI r^2 - cap lo - cap hi
     each lateral face g      - (cap g - edge(g, lo) - edge(g, hi))
     each lateral edge g1,g2  + (edge(g1, g2) - corner(g1, g2, lo) - corner(g1, g2, hi))
   i.e. every lateral term is the full term minus its two tails beyond the
   faces perpendicular to the axis. *)
Definition lateral_cap_in_slab (r lo hi g : R) : R :=
  scap_term g r - sedge_term g lo r - sedge_term g hi r.
Definition lateral_edge_in_slab (r lo hi g1 g2 : R) : R :=
  sedge_term g1 g2 r - scorner_term g1 g2 lo r - scorner_term g1 g2 hi r.
Definition area_3d_sliced (r lo hi hl hr hb ht : R) : R :=
  4 * PI * (r * r) - scap_term lo r - scap_term hi r
  - lateral_cap_in_slab r lo hi hl - lateral_cap_in_slab r lo hi hr
  - lateral_cap_in_slab r lo hi hb - lateral_cap_in_slab r lo hi ht
  + lateral_edge_in_slab r lo hi hl hb + lateral_edge_in_slab r lo hi hl ht
  + lateral_edge_in_slab r lo hi hr hb + lateral_edge_in_slab r lo hi hr ht.
