(* C07: what the GENERATED pure-python engine and glue (Gen/refine.v, translated from
   trackpy/refine/center_of_mass.py by tools/py2coq_refine.py) are proved equal to.
   Hand-written, no proofs.

     ref_row out         the row np.column_stack([final_coords, mass, Rg, ecc, signal, raw_mass])
                         builds for a feature whose model output (Model/COM.v) is [out]:
                         position, mass, sqrt of the size^2 column(s), the ecc cell (never written:
                         ecc is sliced out), signal, raw_mass -- or position, mass without characterize
     refine_rows         one such row per start pixel, from the reference model refine_python
     com_columns         the column labels refine_com gives the DataFrame
     numba_rows          refine_com_arr, engine='numba': one run of the kernel model refine_numba per
                         feature, each writing its cells into the np.empty results array (Model/COMGen.v) *)
From Coq Require Import String.
From Coq Require Import ZArith QArith List Bool.
From TP Require Import Model.COM Model.PyKernel Model.PyRefine Model.COMGen.
Import ListNotations.
Open Scope Z_scope.

Definition ref_row (out : output) : list cell :=
  map CQ (o_pos out) ++ [CQ (inject_Z (o_mass out))] ++
  match o_char out with
  | None => []
  | Some (rg2, sg, rw) => map CSqrt rg2 ++ [CNone] ++ [CQ (inject_Z sg)] ++ [CQ (inject_Z rw)]
  end.

Definition refine_rows (pix rawpix : list Z -> Z) (radius shape : list Z) (thresh : Q) (max_iterations : Z)
           (characterize : bool) (starts : list (list Z)) : list (list cell) :=
  map (fun start => ref_row (refine_python pix rawpix radius shape thresh max_iterations characterize start)) starts.

(* a 2-d array: every row has m_ncols entries *)
Definition mat_wf {A : Type} (m : mat A) : Prop :=
  Forall (fun r => Z.of_nat (length r) = m_ncols m) (m_rows m).

Definition com_columns (pos : list string) (ndim : Z) (characterize iso : bool) : list string :=
  pos ++ ["mass"%string] ++
  (if characterize
   then (if iso then ["size"%string] else map (fun c => ("size_" ++ c)%string) (default_pos_columns ndim)) ++
        ["ecc"%string; "signal"%string; "raw_mass"%string]
   else []).

(* engine='numba' on nd = 2 / 3 axes: results = np.empty((N, k)); the kernel fills it feature by feature *)
Definition numba_rows (run : list Z -> kres output) (start : Z -> list Z) (cells : output -> list (Z * cell))
           (n k : Z) : result (list (list cell)) :=
  of_kernel (feats (feat_step run start cells) (Z.to_nat n) 0 (np_empty_rows n k)).
