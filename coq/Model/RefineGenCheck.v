(* Executable check on the GENERATED bounds code (Gen/bounds.v), run by vp/props/c16.py:
   check_gen_box : the box computed by refine_leastsq_f_bounds (generated from the current
       source: radius = diameter // 2, validate_bounds, compute_bounds) equals what the
       implementation's compute_bounds returned, special values exactly, finite values
       within tol (codes 21 / 22 as check_box; 6 = lengths differ).  This exercises the
       translator and the vocabulary Model/PyBounds.v against the real code.
   No proofs in this file. *)
From Coq Require Import ZArith QArith Qabs List Bool Arith NArith.
From TP Require Import Model.RefineBounds Model.RefineDriver Model.RefineCheck Model.PyBounds Gen.bounds.
Import ListNotations.
Open Scope Q_scope.

Definition check_gen_box (d : bdict) (diameter : list Z) (ps : list pkind) (modes : list nat) (g : grouping)
           (cols : list (list Q)) (impl_lo impl_hi : list ext) (tol : Q) : N :=
  let '(lo, hi) := refine_leastsq_f_bounds ps modes (Some d) diameter cols g in
  if negb (Nat.eqb (List.length lo) (List.length impl_lo) && Nat.eqb (List.length hi) (List.length impl_hi)) then 6%N
  else if negb (forallb2 (ext_close tol) lo impl_lo) then 21%N
  else if negb (forallb2 (ext_close tol) hi impl_hi) then 22%N else 0%N.
