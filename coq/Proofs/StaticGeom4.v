(* 3-D edge correction beyond the single-axis regime.

   (A) For EVERY position of the centre in the closed box and every r > 0 the
   slice of (sphere /\ box) at height t along a coordinate axis ax is the 2-D
   problem for the slice circle (radius rho r t) and the four faces parallel to
   ax, cut off by the slab of the two faces perpendicular to ax; so the area
   about ax is the integral of r * slice_measure (axial_area_iff_slice_integral).

   (B) When the two faces perpendicular to ax are out of reach (distance >= r)
   -- the faces within reach are all parallel to one axis: one face, two
   adjacent faces without or with overlapping caps, three or four faces around
   a column -- that integral is evaluated in closed form (Proofs/StaticLune.v)
   and is exactly the code's 4 PI r^2 - caps + edges: area_3d_bounded is the
   area of the part of the sphere inside the box (area_3d_bounded_lateral).

   (C) sphere_cap_area / sphere_edge_area are the areas, about the direction of
   the box edge, of the parts of the sphere beyond one face / beyond two
   adjacent faces (the lune). *)
From Coq Require Import Reals Lra List.
From Coquelicot Require Import Coquelicot.
From TP Require Import Model.StaticGeom Model.StaticGeom2 Model.StaticGeom3 Model.StaticGeom4 Gen.static_geom.
From TP Require Import Proofs.StaticGeom Proofs.StaticGeom2 Proofs.StaticGen Proofs.StaticGeom3 Proofs.StaticLune.
Import ListNotations.
Open Scope R_scope.

(* ------------------------------------------------------------------ *)
(* (A) slices                                                          *)
(* ------------------------------------------------------------------ *)
Lemma slice_inside_iff4 ax r cx cy cz x0 x1 y0 y1 z0 z1 phi t :
  let xm := cx - x0 in let xp := x1 - cx in let ym := cy - y0 in let yp := y1 - cy in
  let zm := cz - z0 in let zp := z1 - cz in
  (in_box3 x0 x1 y0 y1 z0 z1 (shift3 cx cy cz (sphere_pt ax r phi t))
   <-> (- fst (along ax xm xp ym yp zm zp) <= t <= snd (along ax xm xp ym yp zm zp)) /\
       let '(hl, hr, hb, ht) := lateral ax xm xp ym yp zm zp in
       dir_inside (rho r t) hl hr hb ht phi).
Proof.
  cbv zeta. unfold in_box3, shift3, dir_inside, rho.
  destruct ax; cbn [sphere_pt along lateral fst snd]; lra.
Qed.

Lemma lateral_nonneg ax xm xp ym yp zm zp :
  0 <= xm -> 0 <= xp -> 0 <= ym -> 0 <= yp -> 0 <= zm -> 0 <= zp ->
  let '(hl, hr, hb, ht) := lateral ax xm xp ym yp zm zp in 0 <= hl /\ 0 <= hr /\ 0 <= hb /\ 0 <= ht.
Proof. intros. destruct ax; cbn; tauto. Qed.

Theorem slice_has_measure ax r cx cy cz x0 x1 y0 y1 z0 z1 t :
  0 < r -> in_box3 x0 x1 y0 y1 z0 z1 (cx, cy, cz) -> - r < t < r ->
  has_arc_measure (fun phi => in_box3 x0 x1 y0 y1 z0 z1 (shift3 cx cy cz (sphere_pt ax r phi t)))
                  (slice_measure_ax ax r (cx - x0) (x1 - cx) (cy - y0) (y1 - cy) (cz - z0) (z1 - cz) t).
Proof.
  intros Hr B Ht. unfold in_box3 in B. cbn [fst snd] in B.
  destruct (rho_pos r t Hr Ht) as (P0 & _).
  pose proof (slice_inside_iff4 ax r cx cy cz x0 x1 y0 y1 z0 z1) as SI. cbv zeta in SI.
  pose proof (lateral_nonneg ax (cx - x0) (x1 - cx) (cy - y0) (y1 - cy) (cz - z0) (z1 - cz)) as LN.
  unfold slice_measure_ax.
  destruct (lateral ax (cx - x0) (x1 - cx) (cy - y0) (y1 - cy) (cz - z0) (z1 - cz)) as [[[hl hr] hb] ht].
  destruct LN as (L1 & L2 & L3 & L4); try lra.
  set (lo := fst (along ax (cx - x0) (x1 - cx) (cy - y0) (y1 - cy) (cz - z0) (z1 - cz))) in *.
  set (hi := snd (along ax (cx - x0) (x1 - cx) (cy - y0) (y1 - cy) (cz - z0) (z1 - cz))) in *.
  unfold slice_measure.
  destruct (Rle_dec (- lo) t) as [A|A]; [destruct (Rle_dec t hi) as [A'|A']|].
  - destruct (arclen_2d_is_measure (rho r t) hl hr hb ht P0 L1 L2 L3 L4) as (m & (l & S & Q & E) & V).
    replace (arclen_2d (rho r t) hl hr hb ht / rho r t) with m by (rewrite V; field; lra).
    exists l. split; [exact S|]. split; [|exact E].
    intros phi Hphi. rewrite <- (Q phi Hphi). rewrite (SI phi t). tauto.
  - apply empty_measure. intros phi I. apply (SI phi t) in I. lra.
  - apply empty_measure. intros phi I. apply (SI phi t) in I. lra.
Qed.

(* the area about ax of (sphere /\ box), in every regime, is the integral of
   r * slice_measure: both directions *)
Theorem axial_area_iff_slice_integral ax r cx cy cz x0 x1 y0 y1 z0 z1 a :
  0 < r -> in_box3 x0 x1 y0 y1 z0 z1 (cx, cy, cz) ->
  (has_axial_area ax r (fun p => in_box3 x0 x1 y0 y1 z0 z1 (shift3 cx cy cz p)) a
   <-> is_RInt (fun t => r * slice_measure_ax ax r (cx - x0) (x1 - cx) (cy - y0) (y1 - cy) (cz - z0) (z1 - cz) t)
               (- r) r a).
Proof.
  intros Hr B. split.
  - intros (m & M & I). apply is_RInt_ext with (f := fun t => r * m t); [|exact I].
    intros t Ht. rewrite Rmin_left, Rmax_right in Ht by lra. f_equal.
    apply (arc_measure_unique _ _ _ (M t Ht)). apply slice_has_measure; auto.
  - intros I. eexists. split; [|exact I]. intros t Ht. apply slice_has_measure; auto.
Qed.

(* ------------------------------------------------------------------ *)
(* (B) the faces perpendicular to ax out of reach                      *)
(* ------------------------------------------------------------------ *)
Lemma sedge_term_sym h1 h2 r : sedge_term h1 h2 r = sedge_term h2 h1 r.
Proof.
  unfold sedge_term. replace (h2 * h2 + h1 * h1) with (h1 * h1 + h2 * h2) by ring.
  destruct (Rlt_dec _ _); [apply sphere_edge_sym|reflexivity].
Qed.

(* the code's expression when the two faces perpendicular to ax are out of reach *)
Lemma area_3d_lateral ax r xm xp ym yp zm zp :
  0 < r ->
  r <= fst (along ax xm xp ym yp zm zp) -> r <= snd (along ax xm xp ym yp zm zp) ->
  area_3d r xm xp ym yp zm zp =
  let '(hl, hr, hb, ht) := lateral ax xm xp ym yp zm zp in
  4 * PI * (r * r) - scap_term hl r - scap_term hr r - scap_term hb r - scap_term ht r
  + sedge_term hl hb r + sedge_term hl ht r + sedge_term hr hb r + sedge_term hr ht r.
Proof.
  intros Hr F1 F2. unfold area_3d.
  destruct ax; cbn [along lateral fst snd] in *.
  - rewrite (scap_far xm), (scap_far xp) by assumption.
    rewrite !(sedge_far xm), !(sedge_far xp) by auto.
    rewrite !(scorner_far xm), !(scorner_far xp) by auto. ring.
  - rewrite (scap_far ym), (scap_far yp) by assumption.
    rewrite !(sedge_far ym), !(sedge_far yp), (sedge_far xm ym), (sedge_far xm yp), (sedge_far xp ym), (sedge_far xp yp) by auto.
    rewrite !(scorner_far xm ym), !(scorner_far xm yp), !(scorner_far xp ym), !(scorner_far xp yp) by auto.
    rewrite (sedge_term_sym zm xm), (sedge_term_sym zm xp), (sedge_term_sym zp xm), (sedge_term_sym zp xp). ring.
  - rewrite (scap_far zm), (scap_far zp) by assumption.
    rewrite (sedge_far xm zm), (sedge_far xm zp), (sedge_far xp zm), (sedge_far xp zp),
            (sedge_far ym zm), (sedge_far ym zp), (sedge_far yp zm), (sedge_far yp zp) by auto.
    rewrite !scorner_far by auto. ring.
Qed.

Theorem area_3d_bounded_lateral ax r cx cy cz x0 x1 y0 y1 z0 z1 :
  0 < r -> in_box3 x0 x1 y0 y1 z0 z1 (cx, cy, cz) ->
  r <= fst (along ax (cx - x0) (x1 - cx) (cy - y0) (y1 - cy) (cz - z0) (z1 - cz)) ->
  r <= snd (along ax (cx - x0) (x1 - cx) (cy - y0) (y1 - cy) (cz - z0) (z1 - cz)) ->
  has_axial_area ax r (fun p => in_box3 x0 x1 y0 y1 z0 z1 (shift3 cx cy cz p))
                 (area_3d_bounded r cx cy cz x0 x1 y0 y1 z0 z1).
Proof.
  intros Hr B F1 F2. apply axial_area_iff_slice_integral; auto.
  unfold area_3d_bounded. rewrite (area_3d_lateral ax) by assumption.
  unfold in_box3 in B. cbn [fst snd] in B.
  pose proof (lateral_nonneg ax (cx - x0) (x1 - cx) (cy - y0) (y1 - cy) (cz - z0) (z1 - cz)) as LN.
  unfold slice_measure_ax.
  destruct (lateral ax (cx - x0) (x1 - cx) (cy - y0) (y1 - cy) (cz - z0) (z1 - cz)) as [[[hl hr] hb] ht].
  destruct LN as (L1 & L2 & L3 & L4); try lra.
  set (lo := fst (along ax (cx - x0) (x1 - cx) (cy - y0) (y1 - cy) (cz - z0) (z1 - cz))) in *.
  set (hi := snd (along ax (cx - x0) (x1 - cx) (cy - y0) (y1 - cy) (cz - z0) (z1 - cz))) in *.
  apply is_RInt_ext with (f := fun t => r * (arclen_2d (rho r t) hl hr hb ht / rho r t)).
  - intros t Ht. rewrite Rmin_left, Rmax_right in Ht by lra. unfold slice_measure.
    destruct (Rle_dec (- lo) t); [destruct (Rle_dec t hi)|]; try reflexivity; lra.
  - apply lateral_integral; assumption.
Qed.

(* the same about the generated function, with its NaN mask *)
Theorem gen_area_3d_bounded_lateral ax r cx cy cz x0 x1 y0 y1 z0 z1 :
  0 < r -> in_box3 x0 x1 y0 y1 z0 z1 (cx, cy, cz) ->
  List.Forall (fun h => r <= h)
    [fst (along ax (cx - x0) (x1 - cx) (cy - y0) (y1 - cy) (cz - z0) (z1 - cz));
     snd (along ax (cx - x0) (x1 - cx) (cy - y0) (y1 - cy) (cz - z0) (z1 - cz))] ->
  exists a,
    has_axial_area ax r (fun p => in_box3 x0 x1 y0 y1 z0 z1 (shift3 cx cy cz p)) a /\
    py_area_3d_bounded r cx cy cz x0 x1 y0 y1 z0 z1 = nan_below (/ (10 ^ 7) * r ^ 2) a.
Proof.
  intros Hr B F. inversion_clear F as [|? ? F1 G]. inversion_clear G as [|? ? F2 _].
  exists (area_3d_bounded r cx cy cz x0 x1 y0 y1 z0 z1). split.
  - apply area_3d_bounded_lateral; auto.
  - apply gen_area_3d_bounded_is_model.
Qed.

(* ------------------------------------------------------------------ *)
(* the two regimes of two adjacent faces, values                       *)
(* ------------------------------------------------------------------ *)
(* faces x+ (distance dx) and y+ (distance dy) within reach, the four others not *)
Lemma area_3d_two_adjacent r xm dx ym dy zm zp :
  0 < r -> 0 <= dx < r -> 0 <= dy < r -> r <= xm -> r <= ym -> r <= zm -> r <= zp ->
  area_3d r xm dx ym dy zm zp
  = 4 * PI * (r * r) - sphere_cap_area dx r - sphere_cap_area dy r + sedge_term dx dy r.
Proof.
  intros Hr Hx Hy F1 F2 F3 F4. rewrite (area_3d_lateral AZ) by assumption. cbn [lateral].
  rewrite (scap_far xm), (scap_far ym), (sedge_far xm ym), (sedge_far xm dy), (sedge_far dx ym) by auto.
  unfold scap_term. destruct (Rlt_dec dx r); [|lra]. destruct (Rlt_dec dy r); [|lra]. ring.
Qed.

(* (1) the caps do not overlap: the sphere minus two caps *)
Theorem area_3d_two_adjacent_no_overlap r xm dx ym dy zm zp :
  0 < r -> 0 <= dx < r -> 0 <= dy < r -> r * r <= dx * dx + dy * dy ->
  r <= xm -> r <= ym -> r <= zm -> r <= zp ->
  area_3d r xm dx ym dy zm zp = 4 * PI * (r * r) - sphere_cap_area dx r - sphere_cap_area dy r.
Proof.
  intros Hr Hx Hy N F1 F2 F3 F4. rewrite area_3d_two_adjacent by assumption.
  unfold sedge_term. destruct (Rlt_dec _ _); [lra|ring].
Qed.

(* (2) the caps overlap: inclusion-exclusion with the lune sphere_edge_area *)
Theorem area_3d_two_adjacent_overlap r xm dx ym dy zm zp :
  0 < r -> 0 <= dx -> 0 <= dy -> dx * dx + dy * dy < r * r ->
  r <= xm -> r <= ym -> r <= zm -> r <= zp ->
  area_3d r xm dx ym dy zm zp
  = 4 * PI * (r * r) - sphere_cap_area dx r - sphere_cap_area dy r + sphere_edge_area dx dy r.
Proof.
  intros Hr Hx Hy N F1 F2 F3 F4. rewrite area_3d_two_adjacent by (auto; nra).
  unfold sedge_term. destruct (Rlt_dec _ _); [ring|lra].
Qed.

(* non-vacuity: box [0,10]^3, r = 2.
   centre (17/2, 17/2, 5): faces x+ and y+ at distance 3/2, caps disjoint (9/4 + 9/4 >= 4);
   centre (9, 9, 5): both at distance 1, caps overlap (1 + 1 < 4). *)
Theorem area_3d_two_adjacent_examples :
  (in_box3 0 10 0 10 0 10 (17 / 2, 17 / 2, 5) /\
   2 <= fst (along AZ (17 / 2 - 0) (10 - 17 / 2) (17 / 2 - 0) (10 - 17 / 2) (5 - 0) (10 - 5)) /\
   2 <= snd (along AZ (17 / 2 - 0) (10 - 17 / 2) (17 / 2 - 0) (10 - 17 / 2) (5 - 0) (10 - 5)) /\
   area_3d_bounded 2 (17 / 2) (17 / 2) 5 0 10 0 10 0 10 = 4 * PI * (2 * 2) - 2 * (2 * PI * 2 * (2 - 3 / 2))) /\
  (in_box3 0 10 0 10 0 10 (9, 9, 5) /\
   2 <= fst (along AZ (9 - 0) (10 - 9) (9 - 0) (10 - 9) (5 - 0) (10 - 5)) /\
   2 <= snd (along AZ (9 - 0) (10 - 9) (9 - 0) (10 - 9) (5 - 0) (10 - 5)) /\
   area_3d_bounded 2 9 9 5 0 10 0 10 0 10
   = 4 * PI * (2 * 2) - 2 * (2 * PI * 2 * (2 - 1)) + sphere_edge_area 1 1 2).
Proof.
  split; (split; [unfold in_box3; cbn [fst snd]; lra|]); (split; [cbn; lra|]); (split; [cbn; lra|]);
    unfold area_3d_bounded.
  - replace (10 - 17 / 2) with (3 / 2) by lra.
    rewrite area_3d_two_adjacent_no_overlap by lra. unfold sphere_cap_area. ring.
  - replace (10 - 9) with 1 by lra.
    rewrite area_3d_two_adjacent_overlap by lra. unfold sphere_cap_area. ring.
Qed.

(* ------------------------------------------------------------------ *)
(* (C) the cap and the lune, measured about the direction of the edge  *)
(* ------------------------------------------------------------------ *)
Lemma div_le_iff h p c : 0 < p -> (h <= p * c <-> h / p <= c).
Proof.
  intros Hp. split; intros H.
  - apply Rmult_le_reg_r with p; auto. unfold Rdiv. rewrite Rmult_assoc, Rinv_l by lra. lra.
  - apply Rmult_le_compat_r with (r := p) in H; [|lra].
    unfold Rdiv in H. rewrite Rmult_assoc, Rinv_l in H by lra. lra.
Qed.

Lemma ratio_bounds_le h p : 0 <= h <= p -> 0 < p -> 0 <= h / p <= 1.
Proof.
  intros H Hp. split.
  - apply Rmult_le_pos; [lra|]. left. apply Rinv_0_lt_compat. auto.
  - apply Rmult_le_reg_r with p; auto. unfold Rdiv. rewrite Rmult_assoc, Rinv_l by lra. lra.
Qed.

(* closed version of cap_excluded_interval *)
Lemma beyond_wall_iff h p phi : 0 < p -> 0 <= h <= p -> - PI <= phi <= PI ->
  (h <= p * cos phi <-> Rabs phi <= acos (h / p)).
Proof.
  intros Hp Hh Hphi. destruct (ratio_bounds_le h p Hh Hp) as [X0 X1].
  rewrite (div_le_iff h p _ Hp), <- (cos_Rabs phi).
  pose proof (cos_gt_acos (h / p) (Rabs phi)) as C. pose proof (Rabs_range phi Hphi) as A.
  destruct C as [C1 C2]; [lra|lra|]. split; intro H.
  - destruct (Rle_dec (Rabs phi) (acos (h / p))) as [|n]; auto. exfalso.
    assert (n' : acos (h / p) < Rabs phi) by lra. apply C2 in n'. lra.
  - destruct (Rle_dec (h / p) (cos (Rabs phi))) as [|n]; auto. exfalso.
    assert (n' : cos (Rabs phi) < h / p) by lra. apply C1 in n'. lra.
Qed.

Lemma acos_le_PI2 x : 0 <= x <= 1 -> 0 <= acos x <= PI / 2.
Proof.
  intros H. destruct (acos_bound x) as [B0 B1]. split; auto.
  destruct (Rle_dec (acos x) (PI / 2)); auto. exfalso.
  assert (C : cos (acos x) < cos (PI / 2)) by (apply cos_decreasing_1; lra).
  rewrite cos_acos, cos_PI2 in C by lra. lra.
Qed.

(* the slice of a closed cap *)
Lemma cap_slice_measure h p : 0 < p -> 0 <= h ->
  has_arc_measure (fun phi => h <= p * cos phi) (cap_term h p / p).
Proof.
  intros Hp Hh. assert (P := PI_RGT_0). destruct (Rle_dec h p) as [L|L].
  - destruct (ratio_bounds_le h p (conj Hh L) Hp) as [X0 X1].
    destruct (acos_le_PI2 (h / p) (conj X0 X1)) as [A0 A1].
    exists [(- acos (h / p), acos (h / p))]. split; [|split].
    + cbn. split; [lra|]. unfold Rmax. destruct (Rle_dec _ _); lra.
    + intros phi Hphi. rewrite (beyond_wall_iff h p phi) by lra. cbn. unfold Rabs. destruct (Rcase_abs phi); lra.
    + cbn. unfold cap_term, circle_cap_arclen. rewrite Rmax_right by lra.
      destruct (Rlt_dec h p) as [S|S].
      * field. lra.
      * assert (h = p) by lra. subst h. replace (p / p) with 1 by (field; lra). rewrite acos_1. unfold Rdiv. ring.
  - replace (cap_term h p / p) with 0.
    + apply empty_measure. intros phi C. pose proof (COS_bound phi) as [_ B].
      assert (p * cos phi <= p * 1) by (apply Rmult_le_compat_l; lra). lra.
    + unfold cap_term. destruct (Rlt_dec h p); [lra|]. unfold Rdiv. ring.
Qed.

(* directions beyond a wall in direction PI/2 *)
Lemma beyond_top_iff h p phi : 0 < p -> 0 <= h <= p -> - PI < phi <= PI ->
  (h <= p * sin phi <-> asin (h / p) <= phi <= PI - asin (h / p)).
Proof.
  intros Hp Hh Hphi. assert (P := PI_RGT_0). destruct (ratio_bounds_le h p Hh Hp) as [X0 X1].
  destruct (acos_le_PI2 (h / p) (conj X0 X1)) as [A0 A1].
  rewrite (asin_acos (h / p)) by lra.
  destruct (Rlt_dec phi 0) as [N|N].
  - assert (S : sin phi < 0).
    { replace phi with (- (- phi)) by ring. rewrite sin_neg.
      assert (0 < sin (- phi)) by (apply sin_gt_0; lra). lra. }
    assert (p * sin phi < 0) by nra. split; intros; lra.
  - rewrite sin_as_cos, (beyond_wall_iff h p (phi - PI / 2)) by lra.
    unfold Rabs. destruct (Rcase_abs (phi - PI / 2)); lra.
Qed.

(* the slice of a closed lune *)
Lemma lune_slice_measure h1 h2 p : 0 < p -> 0 <= h1 -> 0 <= h2 ->
  has_arc_measure (fun phi => h1 <= p * cos phi /\ h2 <= p * sin phi) (corner_term h1 h2 p / p).
Proof.
  intros Hp H1 H2. assert (P := PI_RGT_0).
  destruct (Rle_dec h1 p) as [L1|L1]; [destruct (Rle_dec h2 p) as [L2|L2]|].
  - destruct (ratio_bounds_le h1 p (conj H1 L1) Hp) as [X0 X1].
    destruct (ratio_bounds_le h2 p (conj H2 L2) Hp) as [Y0 Y1].
    destruct (acos_le_PI2 (h1 / p) (conj X0 X1)) as [A0 A1].
    destruct (acos_le_PI2 (h2 / p) (conj Y0 Y1)) as [B0 B1].
    pose proof (asin_acos (h2 / p)) as AS.
    assert (AS0 : asin (h2 / p) = PI / 2 - acos (h2 / p)) by (apply AS; lra).
    exists [(asin (h2 / p), acos (h1 / p))]. split; [|split].
    + cbn. split; [lra|]. unfold Rmax. destruct (Rle_dec _ _); lra.
    + intros phi Hphi. rewrite (beyond_wall_iff h1 p phi), (beyond_top_iff h2 p phi) by lra.
      cbn. unfold Rabs. destruct (Rcase_abs phi); lra.
    + cbn. unfold corner_term. destruct (Rlt_dec _ _) as [M|M].
      * assert (S1 : h1 < p) by nra. assert (S2 : h2 < p) by nra.
        rewrite (corner_arclen_is_interval_length h1 h2 p) by lra.
        pose proof (corner_inside_iff h1 h2 p (conj H1 S1) (conj H2 S2)) as [C _]. apply C in M.
        rewrite Rmax_right by lra. field. lra.
      * replace (0 / p) with 0 by (unfold Rdiv; ring). rewrite Rplus_0_r. symmetry. apply Rmax_left.
        assert (AS' : asin (h2 / p) = PI / 2 - acos (h2 / p)) by (apply AS; lra).
        destruct (Rlt_dec h1 p) as [S1|S1]; [destruct (Rlt_dec h2 p) as [S2|S2]|].
        -- pose proof (corner_inside_iff h1 h2 p (conj H1 S1) (conj H2 S2)) as [_ C].
           destruct (Rlt_dec (PI / 2) (acos (h1 / p) + acos (h2 / p))) as [Q|Q]; [apply C in Q; lra|lra].
        -- assert (h2 = p) by lra. subst h2. replace (p / p) with 1 in * by (field; lra). rewrite asin_1. lra.
        -- assert (h1 = p) by lra. subst h1. replace (p / p) with 1 in * by (field; lra). rewrite acos_1.
           destruct (asin_bound (h2 / p)). lra.
  - replace (corner_term h1 h2 p / p) with 0.
    + apply empty_measure. intros phi [_ C]. pose proof (SIN_bound phi) as [_ B].
      assert (p * sin phi <= p * 1) by (apply Rmult_le_compat_l; lra). lra.
    + unfold corner_term. destruct (Rlt_dec _ _); [nra|]. unfold Rdiv. ring.
  - replace (corner_term h1 h2 p / p) with 0.
    + apply empty_measure. intros phi [C _]. pose proof (COS_bound phi) as [_ B].
      assert (p * cos phi <= p * 1) by (apply Rmult_le_compat_l; lra). lra.
    + unfold corner_term. destruct (Rlt_dec _ _); [nra|]. unfold Rdiv. ring.
Qed.

(* sphere_cap_area is the area, about an axis PARALLEL to the face, of the
   part of the sphere beyond the face *)
Theorem cap_area_about_edge dx r : 0 < r -> 0 <= dx < r ->
  has_axial_area AZ r (beyond_x dx) (sphere_cap_area dx r).
Proof.
  intros Hr Hx. exists (fun t => cap_term dx (rho r t) / rho r t). split.
  - intros t Ht. destruct (rho_pos r t Hr Ht) as (P0 & _).
    unfold beyond_x, X3. cbn [sphere_pt fst snd]. fold (rho r t). apply cap_slice_measure; lra.
  - apply is_RInt_val with (scap_term dx r); [apply cap_piece; lra|].
    unfold scap_term. destruct (Rlt_dec dx r); [reflexivity|lra].
Qed.

(* sphere_edge_area is the area, about the direction of the box edge, of the
   lune beyond both adjacent faces *)
Theorem edge_area_is_lune dx dy r : 0 < r -> 0 <= dx -> 0 <= dy -> dx * dx + dy * dy < r * r ->
  has_axial_area AZ r (beyond_xy dx dy) (sphere_edge_area dx dy r).
Proof.
  intros Hr Hx Hy M. exists (fun t => corner_term dx dy (rho r t) / rho r t). split.
  - intros t Ht. destruct (rho_pos r t Hr Ht) as (P0 & _).
    unfold beyond_xy, X3, Y3. cbn [sphere_pt fst snd]. fold (rho r t). apply lune_slice_measure; lra.
  - apply is_RInt_val with (sedge_term dx dy r); [apply corner_piece; lra|].
    unfold sedge_term. destruct (Rlt_dec _ _); [reflexivity|lra].
Qed.

(* ------------------------------------------------------------------ *)
(* (B') faces of all three axes within reach, but every edge term that  *)
(* is switched on belongs to a box edge parallel to ax                  *)
(* ------------------------------------------------------------------ *)

Lemma sedge_off h1 h2 r : no_cross r h1 h2 -> sedge_term h1 h2 r = 0.
Proof. unfold no_cross, sedge_term. intros H. destruct (Rlt_dec _ _); [lra|reflexivity]. Qed.

Lemma scorner_off12 h1 h2 h3 r : no_cross r h1 h2 -> scorner_term h1 h2 h3 r = 0.
Proof. unfold no_cross, scorner_term. intros H. destruct (Rlt_dec _ _); [nra|reflexivity]. Qed.
Lemma scorner_off13 h1 h2 h3 r : no_cross r h1 h3 -> scorner_term h1 h2 h3 r = 0.
Proof. unfold no_cross, scorner_term. intros H. destruct (Rlt_dec _ _); [nra|reflexivity]. Qed.
Lemma scorner_off23 h1 h2 h3 r : no_cross r h2 h3 -> scorner_term h1 h2 h3 r = 0.
Proof. unfold no_cross, scorner_term. intros H. destruct (Rlt_dec _ _); [nra|reflexivity]. Qed.
Lemma no_cross_sym r f g : no_cross r f g -> no_cross r g f.
Proof. unfold no_cross. lra. Qed.


Lemma area_3d_parallel_edges ax r xm xp ym yp zm zp :
  edges_parallel_only ax r xm xp ym yp zm zp ->
  area_3d r xm xp ym yp zm zp =
  let '(hl, hr, hb, ht) := lateral ax xm xp ym yp zm zp in
  4 * PI * (r * r)
  - scap_term (fst (along ax xm xp ym yp zm zp)) r - scap_term (snd (along ax xm xp ym yp zm zp)) r
  - scap_term hl r - scap_term hr r - scap_term hb r - scap_term ht r
  + sedge_term hl hb r + sedge_term hl ht r + sedge_term hr hb r + sedge_term hr ht r.
Proof.
  unfold edges_parallel_only, area_3d.
  destruct ax; cbn [along lateral fst snd]; intros ((A1 & A2 & A3 & A4) & (B1 & B2 & B3 & B4)).
  - rewrite (sedge_off xm ym), (sedge_off xm yp), (sedge_off xm zm), (sedge_off xm zp),
            (sedge_off xp ym), (sedge_off xp yp), (sedge_off xp zm), (sedge_off xp zp) by assumption.
    rewrite !(scorner_off12 xm ym), !(scorner_off12 xm yp), !(scorner_off12 xp ym), !(scorner_off12 xp yp) by assumption.
    ring.
  - pose proof (no_cross_sym _ _ _ A3). pose proof (no_cross_sym _ _ _ A4).
    pose proof (no_cross_sym _ _ _ B3). pose proof (no_cross_sym _ _ _ B4).
    rewrite (sedge_off xm ym), (sedge_off xm yp), (sedge_off xp ym), (sedge_off xp yp),
            (sedge_off ym zm), (sedge_off ym zp), (sedge_off yp zm), (sedge_off yp zp) by assumption.
    rewrite !(scorner_off12 xm ym), !(scorner_off12 xm yp), !(scorner_off12 xp ym), !(scorner_off12 xp yp) by assumption.
    rewrite (sedge_term_sym zm xm), (sedge_term_sym zm xp), (sedge_term_sym zp xm), (sedge_term_sym zp xp). ring.
  - pose proof (no_cross_sym _ _ _ A1). pose proof (no_cross_sym _ _ _ A2). pose proof (no_cross_sym _ _ _ A3).
    pose proof (no_cross_sym _ _ _ A4). pose proof (no_cross_sym _ _ _ B1). pose proof (no_cross_sym _ _ _ B2).
    pose proof (no_cross_sym _ _ _ B3). pose proof (no_cross_sym _ _ _ B4).
    rewrite (sedge_off xm zm), (sedge_off xm zp), (sedge_off xp zm), (sedge_off xp zp),
            (sedge_off ym zm), (sedge_off ym zp), (sedge_off yp zm), (sedge_off yp zp) by assumption.
    rewrite (scorner_off13 xm ym zm), (scorner_off13 xm ym zp), (scorner_off13 xm yp zm), (scorner_off13 xm yp zp),
            (scorner_off13 xp ym zm), (scorner_off13 xp ym zp), (scorner_off13 xp yp zm), (scorner_off13 xp yp zp) by assumption.
    ring.
Qed.

(* outside the slab a wall whose cap does not meet the caps of the slab's faces cuts nothing *)
Lemma cap_term_outside_slab r lo hi g t : 0 < r -> 0 <= lo -> 0 <= hi -> 0 <= g -> - r < t < r ->
  no_cross r lo g -> no_cross r hi g -> ~ (- lo <= t <= hi) -> cap_term g (rho r t) = 0.
Proof.
  unfold no_cross. intros Hr Hlo Hhi Hg Ht N1 N2 O. destruct (rho_pos r t Hr Ht) as (P0 & P2 & P1).
  unfold cap_term. destruct (Rlt_dec g (rho r t)) as [L|L]; [|reflexivity]. exfalso.
  assert (g * g < rho r t * rho r t) by nra.
  destruct (Rle_dec (- lo) t); [assert (hi < t) by lra|assert (t < - lo) by lra]; nra.
Qed.

Lemma corner_term_outside_slab r lo hi g1 g2 t : 0 < r -> 0 <= lo -> 0 <= hi -> 0 <= g1 -> 0 <= g2 -> - r < t < r ->
  no_cross r lo g1 -> no_cross r hi g1 -> ~ (- lo <= t <= hi) -> corner_term g1 g2 (rho r t) = 0.
Proof.
  unfold no_cross. intros Hr Hlo Hhi Hg1 Hg2 Ht N1 N2 O. destruct (rho_pos r t Hr Ht) as (P0 & P2 & P1).
  unfold corner_term. destruct (Rlt_dec _ _) as [L|L]; [|reflexivity]. exfalso.
  assert (g1 * g1 < rho r t * rho r t) by nra.
  destruct (Rle_dec (- lo) t); [assert (hi < t) by lra|assert (t < - lo) by lra]; nra.
Qed.

Theorem slab_lateral_integral r lo hi hl hr hb ht :
  0 < r -> 0 <= lo -> 0 <= hi -> 0 <= hl -> 0 <= hr -> 0 <= hb -> 0 <= ht ->
  (no_cross r lo hl /\ no_cross r lo hr /\ no_cross r lo hb /\ no_cross r lo ht) ->
  (no_cross r hi hl /\ no_cross r hi hr /\ no_cross r hi hb /\ no_cross r hi ht) ->
  is_RInt (fun t => r * slice_measure r lo hi hl hr hb ht t) (- r) r
    (4 * PI * (r * r) - scap_term lo r - scap_term hi r
     - scap_term hl r - scap_term hr r - scap_term hb r - scap_term ht r
     + sedge_term hl hb r + sedge_term hl ht r + sedge_term hr hb r + sedge_term hr ht r).
Proof.
  intros Hr Hlo Hhi Hl Hrr Hb Htt (A1 & A2 & A3 & A4) (B1 & B2 & B3 & B4).
  pose proof (cap_piece r hl Hr Hl) as C1. pose proof (cap_piece r hr Hr Hrr) as C2.
  pose proof (cap_piece r hb Hr Hb) as C3. pose proof (cap_piece r ht Hr Htt) as C4.
  pose proof (corner_piece r hl hb Hr Hl Hb) as K1. pose proof (corner_piece r hl ht Hr Hl Htt) as K2.
  pose proof (corner_piece r hr hb Hr Hrr Hb) as K3. pose proof (corner_piece r hr ht Hr Hrr Htt) as K4.
  assert (C0 : is_RInt (fun t => r * slab_measure lo hi t) (- r) r (4 * PI * (r * r) - scap_term lo r - scap_term hi r)).
  { apply is_RInt_val with (2 * PI * r * (Rmin lo r + Rmin hi r)); [apply slab_integral; auto|].
    rewrite (scap_min lo), (scap_min hi). ring. }
  pose proof (is_RInt_minus (V := R_NormedModule) _ _ _ _ _ _ C0 C1) as X1.
  pose proof (is_RInt_minus (V := R_NormedModule) _ _ _ _ _ _ X1 C2) as X2.
  pose proof (is_RInt_minus (V := R_NormedModule) _ _ _ _ _ _ X2 C3) as X3.
  pose proof (is_RInt_minus (V := R_NormedModule) _ _ _ _ _ _ X3 C4) as X4.
  pose proof (is_RInt_plus (V := R_NormedModule) _ _ _ _ _ _ X4 K1) as X5.
  pose proof (is_RInt_plus (V := R_NormedModule) _ _ _ _ _ _ X5 K2) as X6.
  pose proof (is_RInt_plus (V := R_NormedModule) _ _ _ _ _ _ X6 K3) as X7.
  pose proof (is_RInt_plus (V := R_NormedModule) _ _ _ _ _ _ X7 K4) as X8.
  set (g := fun t : R =>
    r * slab_measure lo hi t - r * (cap_term hl (rho r t) / rho r t) - r * (cap_term hr (rho r t) / rho r t)
    - r * (cap_term hb (rho r t) / rho r t) - r * (cap_term ht (rho r t) / rho r t)
    + r * (corner_term hl hb (rho r t) / rho r t) + r * (corner_term hl ht (rho r t) / rho r t)
    + r * (corner_term hr hb (rho r t) / rho r t) + r * (corner_term hr ht (rho r t) / rho r t)).
  assert (E : forall t, - r < t < r -> g t = r * slice_measure r lo hi hl hr hb ht t).
  { intros t Ht. destruct (rho_pos r t Hr Ht) as (P0 & _). unfold g, slice_measure, slab_measure.
    destruct (Rle_dec (- lo) t) as [I1|I1]; [destruct (Rle_dec t hi) as [I2|I2]|].
    - unfold arclen_2d. field. lra.
    - assert (O : ~ (- lo <= t <= hi)) by lra.
      rewrite !(cap_term_outside_slab r lo hi _ t), !(corner_term_outside_slab r lo hi _ _ t) by assumption.
      unfold Rdiv. ring.
    - assert (O : ~ (- lo <= t <= hi)) by lra.
      rewrite !(cap_term_outside_slab r lo hi _ t), !(corner_term_outside_slab r lo hi _ _ t) by assumption.
      unfold Rdiv. ring. }
  apply is_RInt_ext with (f := g).
  { intros t Ht. rewrite Rmin_left, Rmax_right in Ht by lra. apply E. exact Ht. }
  exact X8.
Qed.

Theorem area_3d_bounded_parallel_edges ax r cx cy cz x0 x1 y0 y1 z0 z1 :
  0 < r -> in_box3 x0 x1 y0 y1 z0 z1 (cx, cy, cz) ->
  edges_parallel_only ax r (cx - x0) (x1 - cx) (cy - y0) (y1 - cy) (cz - z0) (z1 - cz) ->
  has_axial_area ax r (fun p => in_box3 x0 x1 y0 y1 z0 z1 (shift3 cx cy cz p))
                 (area_3d_bounded r cx cy cz x0 x1 y0 y1 z0 z1).
Proof.
  intros Hr B EP. apply axial_area_iff_slice_integral; auto.
  unfold area_3d_bounded. rewrite (area_3d_parallel_edges ax) by assumption.
  unfold in_box3 in B. cbn [fst snd] in B.
  pose proof (lateral_nonneg ax (cx - x0) (x1 - cx) (cy - y0) (y1 - cy) (cz - z0) (z1 - cz)) as LN.
  unfold slice_measure_ax. unfold edges_parallel_only in EP.
  destruct (lateral ax (cx - x0) (x1 - cx) (cy - y0) (y1 - cy) (cz - z0) (z1 - cz)) as [[[hl hr] hb] ht].
  destruct LN as (L1 & L2 & L3 & L4); try lra. cbv zeta in EP. destruct EP as [EA EB].
  apply slab_lateral_integral; auto; destruct ax; cbn [along fst snd]; lra.
Qed.

Theorem gen_area_3d_bounded_parallel_edges ax r cx cy cz x0 x1 y0 y1 z0 z1 :
  0 < r -> in_box3 x0 x1 y0 y1 z0 z1 (cx, cy, cz) ->
  edges_parallel_only ax r (cx - x0) (x1 - cx) (cy - y0) (y1 - cy) (cz - z0) (z1 - cz) ->
  exists a,
    has_axial_area ax r (fun p => in_box3 x0 x1 y0 y1 z0 z1 (shift3 cx cy cz p)) a /\
    py_area_3d_bounded r cx cy cz x0 x1 y0 y1 z0 z1 = nan_below (/ (10 ^ 7) * r ^ 2) a.
Proof.
  intros Hr B EP. exists (area_3d_bounded r cx cy cz x0 x1 y0 y1 z0 z1). split.
  - apply area_3d_bounded_parallel_edges; auto.
  - apply gen_area_3d_bounded_is_model.
Qed.

(* non-vacuity: box [0,10]^3, r = 2, centre (9, 9, 41/5): faces x+, y+ at distance 1
   (caps overlap: the edge term of the box edge parallel to z is on), face z+ at
   distance 9/5 < r whose cap meets neither of them (81/25 + 1 >= 4): three
   mutually adjacent faces within reach, no corner term *)
Theorem parallel_edges_example :
  in_box3 0 10 0 10 0 10 (9, 9, 41 / 5) /\
  edges_parallel_only AZ 2 (9 - 0) (10 - 9) (9 - 0) (10 - 9) (41 / 5 - 0) (10 - 41 / 5) /\
  10 - 41 / 5 < 2 /\ 10 - 9 < 2 /\ (10 - 9) * (10 - 9) + (10 - 9) * (10 - 9) < 2 * 2.
Proof.
  split; [unfold in_box3; cbn [fst snd]; lra|]. split; [|lra].
  unfold edges_parallel_only, no_cross. cbn [lateral along fst snd]. lra.
Qed.
