(* C20: the concrete 3-D table of Model/TrajPipeline3.v goes through the whole pipeline of generated
   functions (Gen/coords.v link -> Gen/filtering.v filter_stubs -> filter_clusters -> Gen/drift.v
   compute_drift / subtract_drift -> Gen/msd.v imsd / emsd), evaluated by vm_compute; next to it the
   LAYOUT pipeline of the generated stages (Proofs/TrajGenDrift.v x_run_pipeline) on the same table's
   schema, and C20's composition facts instantiated at it. *)
From Coq Require Import ZArith QArith Qcanon String List Bool.
From TP Require Import Model.TrajPipeline3.
From TP Require Model.TrajLayout Model.TrajLayout3 Model.PyFiltering Proofs.TrajLayout Proofs.TrajGen Proofs.TrajGen3
                Proofs.TrajGenDrift Proofs.TrajGenLink.
Import ListNotations.
Local Open Scope string_scope.

Module TL := TP.Model.TrajLayout.
Module TG := TP.Proofs.TrajGen.
Module TGD := TP.Proofs.TrajGenDrift.
Module TGL := TP.Proofs.TrajGenLink.

Definition ex3_args : TG.filter_args :=
  {| TG.a_stub_threshold := 3; TG.a_quantile := 8#10; TG.a_cluster_threshold := Some (Some (4#1)) |}.
Definition ifl (id : nat) (frame label : Z) : nat * Z * Z := (id, frame, label).
Definition rowv (id frame particle : Z) (zyx_size : list Q) : Z * Z * Z * list Q := (id, frame, particle, zyx_size).
Definition fv (frame : Z) (v : Q) : Z * Q := (frame, v).
Definition ex3_schema : TL.schema := TGL.schema_of [None] ex3_table.

(* [ex3_run] holds the table after every stage; [on_run view] = the view of that run (None if a stage raised) *)
Definition on_run {A} (view : run3 -> A) : option A := option_map view ex3_run.

Example ex3_pipeline :
  (* link: 'particle' appended, 'frame' now integer-typed; rows by frame; (row id, frame, label) *)
  on_run (fun r => PC.df_columns (r_linked r)) = Some ["z"; "y"; "x"; "mass"; "size"; "frame"; "particle"] /\
  on_run (fun r => PC.df_float (r_linked r)) = Some ["z"; "y"; "x"; "mass"; "size"] /\
  on_run (fun r => ids_frames_labels (r_linked r)) = Some
    [ ifl 1 0 0; ifl 2 0 1; ifl 10 0 2; ifl 0 1 0; ifl 3 1 1; ifl 8 1 3; ifl 11 1 2;
      ifl 4 2 0; ifl 5 2 1; ifl 9 2 3; ifl 12 2 2; ifl 6 3 1; ifl 7 3 0; ifl 13 3 2 ] /\
  (* filter_stubs(3) drops the stub (rows 8, 9); filter_clusters(threshold=4) drops the blob (rows 10..13) *)
  on_run (fun r => map PC.d_id (PC.df_rows (r_stubs r))) = Some [1; 2; 10; 0; 3; 11; 4; 5; 12; 6; 7; 13]%nat /\
  on_run (fun r => map PC.d_id (PC.df_rows (r_clusters r))) = Some [1; 2; 0; 3; 4; 5; 6; 7]%nat /\
  (* guess_pos_columns on the filters' table *)
  on_run r_guess = Some ["z"; "y"; "x"] /\
  (* compute_drift: one column per guessed position column, indexed by frame *)
  on_run (fun r => show_curve (r_drift r)) = Some
    (["z"; "y"; "x"], [ ("z", [fv 1 0; fv 2 1; fv 3 1]); ("y", [fv 1 (1#2); fv 2 0; fv 3 (1#2)]);
                        ("x", [fv 1 1; fv 2 2; fv 3 3]) ]) /\
  (* subtract_drift: the caller's table keeps its index, the result is indexed by (frame, particle),
     rows by (frame, particle), every position column corrected, size untouched *)
  on_run (fun r => (PD.mt_index (r_caller r), PD.mt_index (r_sub r), PD.mt_cols (r_sub r)))
    = Some (["frame"], ["frame"; "particle"], ["z"; "y"; "x"; "mass"; "size"]) /\
  on_run (fun r => show_rows (r_sub r)) = Some
    [ rowv 1 0 0 [3; 5; 10; 2]; rowv 2 0 1 [7; 8; 40; 3]; rowv 0 1 0 [3; 9#2; 10; 2]; rowv 3 1 1 [7; 17#2; 40; 3];
      rowv 4 2 0 [3; 5; 10; 2]; rowv 5 2 1 [7; 8; 40; 3]; rowv 7 3 0 [3; 9#2; 10; 2]; rowv 6 3 1 [7; 17#2; 40; 3] ]%Q /\
  (* imsd (pos_columns=None: ['x','y']; and ['z','y','x']) and emsd(detail=True, ['z','y','x']) *)
  on_run (fun r => show_wide (r_imsd_xy r)) =
    Some (Some ([1; 2; 3], Some "lag time [s]", [0; 1]%Z,
                [[Some (1#4); Some 0; Some (1#4)]; [Some (1#4); Some 0; Some (1#4)]]))%Q /\
  on_run (fun r => show_wide (r_imsd_zyx r)) = on_run (fun r => show_wide (r_imsd_xy r)) /\
  on_run (fun r => show_emsd (r_emsd_zyx r)) =
    Some (Some ([1; 2; 3]%Z,
          [ (PM.LDisp 2, [Some 0; Some 0; Some 0]); (PM.LDisp 1, [Some 0; Some 0; Some 0]); (PM.LDisp 0, [Some 0; Some 0; Some 0]);
            (PM.LSq 2, [Some 0; Some 0; Some 0]); (PM.LSq 1, [Some (1#4); Some 0; Some (1#4)]); (PM.LSq 0, [Some 0; Some 0; Some 0]);
            (PM.LMsd, [Some (1#4); Some 0; Some (1#4)]); (PM.LN, [Some 6; Some (16#5); Some 2]);
            (PM.LLagt, [Some 1; Some 2; Some 3]) ]))%Q /\
  (* the layout the generated stages leave behind, on the same table's schema: what the data run shows *)
  on_run (fun r => PyFiltering.ROk {| TL.idx := [Some "frame"]; TL.cols := PC.df_columns (r_clusters r) |})
    = Some (TGD.x_run_pipeline ex3_args [TL.PLink; TL.PFilterStubs; TL.PFilterClusters] ex3_schema) /\
  on_run (fun r => PyFiltering.ROk {| TL.idx := [Some "frame"; Some "particle"]; TL.cols := PC.df_columns (r_clusters r) |})
    = Some (TGD.x_run_pipeline ex3_args [TL.PLink; TL.PFilterStubs; TL.PFilterClusters; TL.PSubtractDrift] ex3_schema) /\
  on_run (fun r => PyFiltering.ROk {| TL.idx := [Some "frame"]; TL.cols := PD.cv_cols (r_drift r) |})
    = Some (TGD.x_run_consumer ex3_args TL.CComputeDrift
              {| TL.idx := [Some "frame"]; TL.cols := ["z"; "y"; "x"; "mass"; "size"; "frame"; "particle"] |}).
Proof. vm_compute. repeat split. Qed.

(* ---- the generated link (Gen/coords.v) in front of the generated layout pipeline --------------------
   Whatever the linker does (any L: search_range, memory, strategy), whenever Gen/coords.v's py_link returns
   a table g for a table f that has a 'size' column -- 2-D or 3-D --, the layout model's link stage maps f's
   schema to g's, g is a trajectory table, and every pipeline of generated stages (Gen/filtering.v filters,
   Gen/drift.v subtract_drift, link again) runs on it and every consumer accepts the result. *)
Module TL3 := TP.Model.TrajLayout3.
Module TLP := TP.Proofs.TrajLayout.

Lemma mem_add_particle c l : PC.mem_str c l = true -> PC.mem_str c (TGL.add_particle l) = true.
Proof.
  intros H. unfold TGL.add_particle. destruct (PC.mem_str "particle" l); [exact H|].
  unfold PC.mem_str. rewrite existsb_app. unfold PC.mem_str in H. now rewrite H.
Qed.
Lemma particle_in_add_particle l : PC.mem_str "particle" (TGL.add_particle l) = true.
Proof.
  unfold TGL.add_particle. destruct (PC.mem_str "particle" l) eqn:E; [exact E|].
  unfold PC.mem_str. rewrite existsb_app. cbn. now rewrite orb_true_r.
Qed.

Theorem link_then_pipeline (L : PC.LinkerI) (f g : PC.DataFrame) (a : TG.filter_args) (ps : list TL.producer)
        (i : list (option string)) :
  coords.py_link L f None "frame" = PC.ROk g -> PC.has_col "size" f = true ->
  let i' := map (option_map (TL.rename (TL.ByStr "frame"))) i in
  TL3.st_link3 TL.fixed (TGL.schema_of i f) = TL.Ok (TGL.schema_of i' g) /\
  TLP.traj_cols (TGL.schema_of i' g) /\
  exists s', TGD.x_run_pipeline a ps (TGL.schema_of i' g) = PyFiltering.ROk s' /\
             TL.cols s' = PC.df_columns g /\
             forall c, exists r, TGD.x_run_consumer a c s' = PyFiltering.ROk r.
Proof.
  intros H Hsize i'. pose proof (TGL.py_link_schema L f g i H) as S.
  destruct (TGL.py_link_layout L f g H) as (C & _ & P).
  assert (T : TLP.traj_cols (TGL.schema_of i' g)).
  { cbn [forallb] in P. apply andb_prop in P as (Hf & Hp).
    assert (Hxy : PC.has_col "x" f = true /\ PC.has_col "y" f = true).
    { unfold PC.guess_pos_columns in Hp. destruct (PC.has_col "z" f); cbn [forallb] in Hp;
        repeat (apply andb_prop in Hp as (? & Hp)); split; assumption. }
    destruct Hxy as (Hx & Hy).
    unfold TLP.traj_cols, TGL.schema_of, TL.has_col. cbn [TL.cols]. rewrite C.
    repeat split; try (apply mem_add_particle; assumption). apply particle_in_add_particle. }
  split; [exact S|]. split; [exact T|].
  destruct (TGD.x_compose a ps _ T) as (s' & R & _ & Cs & Hc).
  exists s'. split; [exact R|]. split; [exact Cs|exact Hc].
Qed.
