(* Route T for C16, the DRIVER: the functions generated from the CURRENT source of
   refine_leastsq, from `for _, f_iter in iterable:` to `return f` (Gen/refinedriver.v,
   tools/py2coq_refinedriver.py, vocabulary Model/PyRefinedriver.v) compute, for ALL oracles
   (prepare_subimages / minimize outcomes per unit and iteration), all tables, all unit
   sequences and all parameter values -- including max_iter = 0 -- exactly what the hand-written
   control-flow model Model/RefineDriver2.v computes:

     gen_loop_body     one pass through `for _n_iter in range(max_iter)`   = body
     gen_for_loop      the whole for statement                              = for_loop
     gen_try           the try block                                        = fit2
     gen_unit          one unit: try / except RefineException / else        = stepg
     gen_units         the loop over units                                  = rung
     gen_driver_eq     refine_leastsq_driver                                = run2

   compute_error=False in the equalities (the model has no `<param>_std` columns); what
   compute_error=True changes is stated separately (gen_driver_compute_error_le: it can only
   ADD exceptions, never change a returned table; gen_compute_error_failed_fit_escapes: at
   level 'cluster' every failed fit then raises -- `f[f_iter.index, cols_std] = np.nan`).
   At level 'global' the source writes whole columns (f['cost'] = ..): the equality needs
   the fact that the single unit of that level is the whole table (whole_table). *)
From Coq Require Import ZArith QArith List Bool Arith Lia.
From TP Require Import Model.RefineBounds Model.RefineDriver Model.RefineDriver2 Model.PyBounds Gen.bounds
                       Model.PyRefinedriver Gen.refinedriver
                       Proofs.RefineBounds Proofs.RefineDriver Proofs.RefineDriver2 Proofs.BoundsGen.
Import ListNotations.
Open Scope Q_scope.

Module D := Gen.refinedriver.

Ltac simp :=
  cbn [d_f d_std d_raw d_params d_groups d_coords d_vect d_f_bounds d_result d_rms_dev d_params_std
       set_f set_std set_raw set_params set_groups set_coords set_vect set_f_bounds set_result set_rms_dev set_params_std
       l_params l_coords l_rms negb result_success result_x result_rms obind otry] in *.

(* the three locals the recentring loop assigns, as the model's loop state *)
Definition lst (st : dstate) : lstate :=
  {| l_params := d_params st; l_coords := d_coords st; l_rms := d_rms_dev st |}.

(* what the recentring loop does not touch *)
Definition frame (st st' : dstate) : Prop :=
  d_f st' = d_f st /\ d_std st' = d_std st /\ d_raw st' = d_raw st /\ d_groups st' = d_groups st /\
  d_vect st' = d_vect st /\ d_f_bounds st' = d_f_bounds st /\ d_params_std st' = d_params_std st.

Lemma frame_refl : forall st, frame st st.
Proof. intro st. unfold frame. repeat split. Qed.

Lemma frame_trans : forall a b c, frame a b -> frame b c -> frame a c.
Proof.
  unfold frame. intros a b c (A1 & A2 & A3 & A4 & A5 & A6 & A7) (B1 & B2 & B3 & B4 & B5 & B6 & B7).
  repeat split; congruence.
Qed.

(* the model's loop does not read l_rms *)
Lemma for_loop_rms_irrelevant : forall ii op modes ndim max_shift u n fuel g lo hi vect s x,
  (0 < fuel)%nat ->
  for_loop ii op modes ndim max_shift u n fuel g lo hi vect s =
  for_loop ii op modes ndim max_shift u n fuel g lo hi vect {| l_params := l_params s; l_coords := l_coords s; l_rms := x |}.
Proof. intros. destruct fuel; [lia|]. cbn [for_loop]. unfold body. cbn [l_params l_coords]. reflexivity. Qed.

Section Gen.
  Variable W : world.
  Variable bd : bdict.
  Variable radius : list Q.

  Local Notation ii := (w_prepare_subimages W).
  Local Notation op := (w_minimize W).
  Local Notation ps := (w_ff_params W).
  Local Notation modes := (w_ff_modes W).
  Local Notation ndim := (w_ndim W).
  Local Notation max_iter := (w_max_iter W).
  Local Notation max_shift := (w_max_shift W).
  Local Notation max_rms_dev := (w_max_rms_dev W).
  Local Notation bs := (RefineBounds.validate_bounds bd radius ps).
  (* the validated bounds the loop over units is entered with (three (2, P) arrays) *)
  Definition vbounds : arr2 * arr2 * arr2 := (map b_abs bs, map b_diff bs, map b_rel bs).
  Local Notation vb := vbounds.
  Local Notation fitk := (fit2 ii op ps modes ndim bd radius max_iter max_shift max_rms_dev).

  (* ---- one pass through the body of `for _n_iter in range(max_iter)` ---------------- *)
  Definition body_ok (st : dstate) (o : oc) (b : bres) : Prop :=
    match b, o with
    | BExc, ORaise XRefine st' => frame st st' /\ d_rms_dev st' = d_rms_dev st
    | BErr, ORaise XOther _ => True
    | BBreak s, OBreak st' => lst st' = s /\ frame st st'
    | BNext s, ONormal st' => lst st' = s /\ frame st st'
    | _, _ => False
    end.

  Lemma gen_loop_body : forall bnds k u n st,
    body_ok st (D.refine_leastsq_unit_loop1 W bnds k u n st)
      (body ii op modes ndim max_shift k n (d_groups st) (fst (d_f_bounds st)) (snd (d_f_bounds st)) (d_vect st) (lst st)).
  Proof.
    intros bnds k u n st. unfold D.refine_leastsq_unit_loop1, body, scipy_rejects_bounds, lst. simp.
    destruct (w_prepare_subimages W k n (d_coords st)); simp; [|split; [apply frame_refl|reflexivity]].
    destruct (box_empty (fst (d_f_bounds st)) (snd (d_f_bounds st))); [exact I|].
    destruct (w_minimize W k n (fst (d_f_bounds st)) (snd (d_f_bounds st)) (d_vect st) (d_params st) (d_coords st)) as [|x r]; simp.
    - split; [|reflexivity]. unfold frame. simp. repeat split.
    - unfold np_all_shift_small, params_coords, vect_to_params.
      destruct (all_small _ _ _); simp; (split; [reflexivity|]); unfold frame; simp; repeat split.
  Qed.

  (* ---- the whole for statement ------------------------------------------------------- *)
  Definition loop_ok (st : dstate) (o : oc) (r : lres2) : Prop :=
    match r, o with
    | L2Exc _, ORaise XRefine st' => frame st st'
    | L2Err _, ORaise XOther _ => True
    | L2End s _ _, ONormal st' => lst st' = s /\ frame st st'
    | _, _ => False
    end.

  Lemma gen_for_loop : forall bnds k u fuel n st,
    loop_ok st (ofor_range (D.refine_leastsq_unit_loop1 W bnds k u) n fuel st)
      (for_loop ii op modes ndim max_shift k n fuel (d_groups st) (fst (d_f_bounds st)) (snd (d_f_bounds st)) (d_vect st) (lst st)).
  Proof.
    intros bnds k u fuel. induction fuel as [|fuel IH]; intros n st; cbn [ofor_range for_loop].
    - split; [reflexivity|apply frame_refl].
    - pose proof (gen_loop_body bnds k u n st) as B.
      destruct (body _ _ _ _ _ _ _ _ _ _ _ _) as [| |s|s];
        destruct (D.refine_leastsq_unit_loop1 W bnds k u n st) as [st'|st'|[|] st']; cbn [body_ok] in B; try contradiction; cbn [loop_ok].
      + apply B.
      + exact I.
      + exact B.
      + destruct B as (L & F). pose proof (IH (S n) st') as R. rewrite L in R.
        destruct F as (F1 & F2 & F3 & F4 & F5 & F6 & F7). rewrite F4, F5, F6 in R.
        destruct (for_loop _ _ _ _ _ _ _ _ _ _ _ _ s) as [m|m|s2 b m];
          destruct (ofor_range _ _ _ st') as [st2|st2|[|] st2]; cbn [loop_ok] in R |- *; try contradiction; try exact I.
        * eapply frame_trans; [|exact R]. unfold frame. repeat split; assumption.
        * destruct R as (R1 & R2). split; [exact R1|]. eapply frame_trans; [|exact R2]. unfold frame. repeat split; assumption.
  Qed.

  (* ---- the try block ------------------------------------------------------------------
     inv: Python keeps the locals between units; the only stale local that could be read
     is rms_dev, after a loop of zero iterations -- and then no unit ever bound it.
     compute_error=True adds one way out of a try block the model calls Fitted: the
     Hessian block raising something that is not a RefineException. *)
  Definition inv (st : dstate) : Prop := max_iter = 0%nat -> d_rms_dev st = None.

  Definition try_ok (st : dstate) (o : oc) (r : outcome) : Prop :=
    match r, o with
    | Failed, ORaise XRefine st' => d_f st' = d_f st /\ inv st'
    | Raised, ORaise XOther _ => True
    | Fitted p q, ONormal st' => d_params st' = p /\ d_rms_dev st' = Some q /\ d_f st' = d_f st /\ max_iter <> 0%nat
    | Fitted p q, ORaise XOther _ => w_compute_error W = true
    | _, _ => False
    end.

  Lemma gen_try : forall k u st,
    inv st -> try_ok st (D.refine_leastsq_unit_try1 W vb k u st) (fitk k (d_groups st) (d_raw st)).
  Proof.
    intros k u st Iv. unfold D.refine_leastsq_unit_try1, fit2, np_isfinite_all.
    destruct (all_fin2 (d_raw st)) as [p|]; [|cbn [try_ok]; repeat split; exact Iv].
    unfold run_loop. simp. unfold vbounds. rewrite gen_compute_eq. unfold vect_from_params_mean, params_coords.
    set (st1 := set_f_bounds _ _).
    pose proof (gen_for_loop (map b_abs bs, map b_diff bs, map b_rel bs) k u max_iter 0%nat st1) as L.
    assert (E : for_loop ii op modes ndim max_shift k 0 max_iter (d_groups st1) (fst (d_f_bounds st1)) (snd (d_f_bounds st1)) (d_vect st1) (lst st1) =
                for_loop ii op modes ndim max_shift k 0 max_iter (d_groups st) (box_low bs modes (d_groups st) p) (box_high bs modes (d_groups st) p)
                         (pack 0 qmean modes (d_groups st) p) (start_state ndim p)).
    { subst st1. unfold lst, start_state. simp. cbn [fst snd].
      destruct max_iter as [|m] eqn:EM.
      - rewrite (Iv EM). reflexivity.
      - rewrite (for_loop_rms_irrelevant ii op modes ndim max_shift k 0 (S m) _ _ _ _ _ None) by lia. reflexivity. }
    rewrite E in L. clear E.
    assert (F1 : d_f st1 = d_f st) by (subst st1; simp; reflexivity).
    destruct (for_loop _ _ _ _ _ _ _ _ _ _ _ _ (start_state ndim p)) as [m|m|s b m] eqn:EL;
      destruct (ofor_range _ _ _ st1) as [st2|st2|[|] st2]; cbn [loop_ok] in L; try contradiction; simp; cbn [try_ok].
    - destruct L as (L1 & _). split; [congruence|].
      intro Z. exfalso. rewrite Z in EL. cbn [for_loop] in EL. discriminate.
    - exact I.
    - destruct L as (L & (L1 & _)). unfold after_loop. rewrite <- L. unfold lst. simp.
      destruct (d_rms_dev st2) as [r|] eqn:ER; [|exact I].
      assert (NZ : max_iter <> 0%nat).
      { intro Z. rewrite Z in EL. cbn [for_loop] in EL. injection EL as <- _ _.
        unfold start_state, lst in L. injection L as _ _ L. congruence. }
      unfold float_gt. destruct (Qlt_b max_rms_dev r) eqn:ET; cbn [try_ok].
      + split; [congruence|]. intro Z. contradiction.
      + destruct (w_compute_error W) eqn:CE; simp; cbn [try_ok]; [|repeat split; congruence].
        destruct (d_result st2) as [res|]; simp; [|reflexivity].
        destruct (result_x res) as [x|]; simp; [|reflexivity].
        destruct (w_hessian W k x) as [h|]; simp; [|reflexivity].
        destruct (w_result_std W h) as [sd|]; simp; [|reflexivity].
        destruct (w_params_std W sd (d_params st2) (d_groups st2)) as [v|]; simp; [|reflexivity].
        cbn [try_ok]. simp. repeat split; congruence.
  Qed.

  (* ---- one unit: try / except RefineException / else ---------------------------------- *)
  (* at level 'global' the source assigns whole columns: the unit is the whole table *)
  Definition whole (t : tbl) (u : unit_t) : Prop := w_level_global W = true -> fst u = tbl_index t.

  Definition unit_ok (o : oc) (r : option tbl) : Prop :=
    match r, o with
    | None, ORaise _ _ => True
    | Some t, ONormal st' => d_f st' = t /\ inv st'
    | Some t, ORaise XOther _ => w_compute_error W = true
    | _, _ => False
    end.

  Lemma gen_unit : forall k u st,
    inv st -> whole (d_f st) u ->
    unit_ok (D.refine_leastsq_unit W vb k u st) (stepg fitk k (d_f st) u).
  Proof.
    intros k u st Iv Wh. unfold D.refine_leastsq_unit, stepg, rows_of.
    set (st0 := set_groups _ _).
    assert (I0 : inv st0) by (subst st0; unfold inv in *; simp; exact Iv).
    pose proof (gen_try k u st0 I0) as T.
    assert (E0 : d_raw st0 = map (select NaN (fst u)) (pcols (d_f st)) /\ d_groups st0 = snd u /\ d_f st0 = d_f st)
      by (subst st0; simp; repeat split).
    destruct E0 as (E1 & E2 & E3). rewrite E1, E2 in T.
    destruct (fitk k (snd u) (map (select NaN (fst u)) (pcols (d_f st)))) as [|p r|];
      destruct (D.refine_leastsq_unit_try1 W vbounds k u st0) as [st1|st1|[|] st1]; cbn [try_ok] in T; try contradiction; simp; cbn [unit_ok].
    - (* failed fit: the handler *)
      destruct T as (T1 & T3). unfold D.refine_leastsq_unit_except1.
      unfold whole in Wh. destruct (w_compute_error W) eqn:CE; destruct (w_level_global W); simp; cbn [unit_ok];
        try reflexivity; (split; [|unfold inv in *; simp; exact T3]).
      + unfold setitem_cost. rewrite T1, E3, <- (Wh eq_refl). reflexivity.
      + unfold setitem_cost. rewrite T1, E3, <- (Wh eq_refl). reflexivity.
      + rewrite T1, E3. reflexivity.
    - (* fitted: the else branch *)
      destruct T as (T1 & T2 & T3 & T6). unfold D.refine_leastsq_unit_else1.
      unfold whole in Wh. destruct (w_compute_error W) eqn:CE; destruct (w_level_global W); simp; rewrite T2; simp;
        try (destruct (d_params_std st1) as [v|]; simp); cbn [unit_ok];
        try reflexivity; (split; [|unfold inv; intro Z; contradiction]);
        unfold setitem_cost, setitem_params, tbl_index, loc_set_cost, loc_set_params, f_iter_index; cbn [cost pcols];
        rewrite T1, T3, E3; try (fold (tbl_index (d_f st)); rewrite <- (Wh eq_refl)); reflexivity.
    - (* the Hessian block raised *) exact T.
    - exact I.
  Qed.

  (* a failed fit, precisely: the try block ends in RefineException and the handler runs *)
  Lemma gen_unit_failed_cluster_compute_error : forall k u st,
    inv st -> w_compute_error W = true -> w_level_global W = false ->
    fitk k (snd u) (rows_of (d_f st) u) = Failed ->
    exists st', D.refine_leastsq_unit W vb k u st = ORaise XOther st'.
  Proof.
    intros k u st Iv CE LG F. unfold D.refine_leastsq_unit.
    set (st0 := set_groups _ _).
    assert (I0 : inv st0) by (subst st0; unfold inv in *; simp; exact Iv).
    pose proof (gen_try k u st0 I0) as T.
    assert (E0 : d_raw st0 = rows_of (d_f st) u /\ d_groups st0 = snd u) by (subst st0; simp; repeat split).
    destruct E0 as (E1 & E2). rewrite E1, E2, F in T.
    destruct (D.refine_leastsq_unit_try1 W vbounds k u st0) as [st1|st1|[|] st1]; cbn [try_ok] in T; try contradiction.
    simp. unfold D.refine_leastsq_unit_except1. rewrite CE, LG. simp. eexists. reflexivity.
  Qed.

  (* ---- the loop over units --------------------------------------------------------------- *)
  Lemma stepg_cost_length : forall k t u t', stepg fitk k t u = Some t' -> length (cost t') = length (cost t).
  Proof.
    intros k t u t'. unfold stepg. destruct (fitk k (snd u) (rows_of t u)); intro H; inversion H; cbn [cost]; try apply scatter_length.
  Qed.

  (* generated result g against model result m: equal, or -- only with compute_error=True -- an extra exception *)
  Definition res_le (g m : option tbl) : Prop := g = m \/ (w_compute_error W = true /\ g = None).

  Lemma gen_units : forall us k st,
    inv st -> (forall u, In u us -> whole (d_f st) u) ->
    res_le (fn_return_f (ofor_units (D.refine_leastsq_unit W vb) k us st)) (rung fitk k (d_f st) us).
  Proof.
    induction us as [|u us IH]; intros k st Iv Wh; cbn [ofor_units rung]; [left; reflexivity|].
    pose proof (gen_unit k u st Iv (Wh u (or_introl eq_refl))) as U.
    destruct (stepg fitk k (d_f st) u) as [t|] eqn:ES;
      destruct (D.refine_leastsq_unit W vbounds k u st) as [st'|st'|[|] st']; cbn [unit_ok] in U; try contradiction.
    - destruct U as (U1 & U2). rewrite <- U1. apply IH; [exact U2|].
      intros v Hv G. rewrite (Wh v (or_intror Hv) G). unfold tbl_index. f_equal.
      rewrite U1. symmetry. eapply stepg_cost_length. exact ES.
    - right. split; [exact U|reflexivity].
    - left. reflexivity.
    - left. reflexivity.
  Qed.

  Theorem gen_driver_le : forall t us,
    (forall u, In u us -> whole t u) ->
    res_le (D.refine_leastsq_driver W vb t us) (run2 ii op ps modes ndim bd radius max_iter max_shift max_rms_dev t us).
  Proof.
    intros t us Wh. unfold D.refine_leastsq_driver, run2.
    apply (gen_units us 0%nat (init_state t)); [intro; reflexivity|exact Wh].
  Qed.
End Gen.

(* ---- the theorems, with the generated bounds assembly in front ----------------------------- *)
Definition bdict_of (bo : option bdict) : bdict := match bo with None => [] | Some d => d end.

Lemma gen_vbounds : forall W bo radiusZ,
  G.validate_bounds (w_ff_params W) bo radiusZ = vbounds W (bdict_of bo) (radiusQ radiusZ).
Proof.
  intros W bo radiusZ. destruct bo as [d|]; [|rewrite gen_validate_none]; cbn [bdict_of]; rewrite gen_validate_eq; reflexivity.
Qed.

(* at level 'global' every unit handed to the loop is the whole table (iterable = [(None, f)]) *)
Definition whole_table (W : world) (t : tbl) (us : list unit_t) : Prop :=
  w_level_global W = true -> forall u, In u us -> fst u = tbl_index t.

Section Top.
  Variable W : world.
  Variable bo : option bdict.        (* the bounds argument of refine_leastsq *)
  Variable diameter : list Z.        (* diameter, after validate_tuple *)
  Local Notation radiusZ := (G.refine_leastsq_radius diameter).
  Local Notation gen_run := (D.refine_leastsq_driver W (G.validate_bounds (w_ff_params W) bo radiusZ)).
  Local Notation model_run := (run2 (w_prepare_subimages W) (w_minimize W) (w_ff_params W) (w_ff_modes W) (w_ndim W)
                                    (bdict_of bo) (radiusQ radiusZ) (w_max_iter W) (w_max_shift W) (w_max_rms_dev W)).

  (* generated driver = Model/RefineDriver2.run2, for all oracles, tables, unit sequences *)
  Theorem gen_driver_eq : forall t us,
    w_compute_error W = false -> whole_table W t us -> gen_run t us = model_run t us.
  Proof.
    intros t us CE Wh. rewrite gen_vbounds.
    destruct (gen_driver_le W (bdict_of bo) (radiusQ radiusZ) t us) as [E|(C & _)]; [|exact E|congruence].
    intros u Hu G. exact (Wh G u Hu).
  Qed.

  (* compute_error=True: whatever the Hessian block does, a table that IS returned is the
     model's table (same params / cost columns); the only difference is extra exceptions *)
  Theorem gen_driver_compute_error_le : forall t us t',
    whole_table W t us -> gen_run t us = Some t' -> model_run t us = Some t'.
  Proof.
    intros t us t' Wh R. rewrite gen_vbounds in R.
    destruct (gen_driver_le W (bdict_of bo) (radiusQ radiusZ) t us) as [E|(_ & N)]; [|congruence|congruence].
    intros u Hu G. exact (Wh G u Hu).
  Qed.

  (* compute_error=True at level 'cluster': a failed fit of the first unit does not end in
     cost NaN -- `f[f_iter.index, cols_std] = np.nan` in the handler raises TypeError *)
  Theorem gen_compute_error_failed_fit_escapes : forall t u us,
    w_compute_error W = true -> w_level_global W = false ->
    fit2 (w_prepare_subimages W) (w_minimize W) (w_ff_params W) (w_ff_modes W) (w_ndim W) (bdict_of bo) (radiusQ radiusZ)
         (w_max_iter W) (w_max_shift W) (w_max_rms_dev W) 0%nat (snd u) (rows_of t u) = Failed ->
    gen_run t (u :: us) = None.
  Proof.
    intros t u us CE LG F. rewrite gen_vbounds. unfold D.refine_leastsq_driver. cbn [ofor_units].
    destruct (gen_unit_failed_cluster_compute_error W (bdict_of bo) (radiusQ radiusZ) 0%nat u (init_state t)) as (st' & E);
      [intro; reflexivity|exact CE|exact LG|exact F|].
    rewrite E. reflexivity.
  Qed.

  (* C16_driver_full, about the generated driver *)
  Theorem gen_driver_full : forall us t0,
    w_compute_error W = false -> whole_table W t0 us ->
    disjoint_units us -> (0 < w_max_iter W)%nat ->
    (forall u, In u us -> feasible (w_ff_params W) (w_ff_modes W) (bdict_of bo) (radiusQ radiusZ) t0 u) ->
    exists t, gen_run t0 us = Some t /\
      (forall i, (forall u, In u us -> ~ In i (fst u)) -> same_row t0 t i) /\
      forall u, In u us ->
        kept_with_nan_cost t0 t u \/
        exists p r, holds_fit t0 t u p r /\ r <= w_max_rms_dev W /\
          (opt_in_box2 (w_minimize W) -> forall params0,
             all_fin2 (rows_of t0 u) = Some params0 ->
             length (w_ff_modes W) = length params0 -> length (w_ff_params W) = length params0 ->
             entries_within (w_ff_params W) (w_ff_modes W) (bdict_of bo) (radiusQ radiusZ) (snd u) params0 p).
  Proof.
    intros us t0 CE Wh Dj Hm Fe. rewrite (gen_driver_eq t0 us CE Wh). apply driver_full; assumption.
  Qed.
End Top.
