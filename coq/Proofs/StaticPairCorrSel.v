(* Proofs about Model/StaticPairCorrSel.v (pair correlation with reference particles p_indices):
   per bin the sum over the ordered pairs (reference particle, any particle) of 1/arc evaluated AT THE
   REFERENCE PARTICLE, normalised by density * (number of reference particles) * dr; with every particle
   as reference it is the plain pair correlation; invariant under permutation (of particles and of the
   reference list) and translation. *)
From Coq Require Import QArith Qabs Qround List Bool Arith NArith ZArith Lia Permutation.
From TP Require Import Model.StaticPairCorr Model.StaticPairCorrSel Proofs.StaticPairCorr.
Import ListNotations.
Open Scope Q_scope.

Section Sel.
Variable arc : Q -> list Q -> option Q.

Lemma values_ref_all b c2 feat : values_ref arc b c2 feat feat = values arc b c2 feat.
Proof. reflexivity. Qed.

Theorem gr_box_ref_all b feat ndens cutoff dr :
  gr_box_ref arc b feat feat ndens cutoff dr = gr_box arc b feat ndens cutoff dr.
Proof. reflexivity. Qed.

Lemma select_all feat : select (seq 0 (length feat)) feat = feat.
Proof.
  unfold select. apply nth_ext with (d := []) (d' := []).
  - rewrite map_length, seq_length. auto.
  - intros k L. rewrite map_length, seq_length in L.
    rewrite (nth_indep (map (fun i => nth i feat []) (seq 0 (length feat))) [] ((fun i => nth i feat []) 0%nat))
      by (rewrite map_length, seq_length; auto).
    rewrite (map_nth (fun i => nth i feat []) (seq 0 (length feat)) 0%nat k).
    rewrite seq_nth by auto. reflexivity.
Qed.

Theorem pair_correlation_sel_all dim boundary pts ndens cutoff dr :
  pair_correlation_sel arc dim boundary pts
      (seq 0 (length (match boundary with None => pts | Some b => filter (inside b) pts end))) ndens cutoff dr
  = pair_correlation arc dim boundary pts ndens cutoff dr.
Proof.
  unfold pair_correlation_sel, pair_correlation. destruct boundary as [b|]; rewrite select_all; reflexivity.
Qed.

Definition bin_terms_ref (b : box) (refs feat : list qpt) (cutoff dr : Q) (k : nat) : list (option Q) :=
  map (fun pq => weight arc b (fst pq) (snd pq))
      (filter (fun pq => in_range (cutoff * cutoff) (fst pq) (snd pq)
                         && inbin (edge2 dr) k (qd2 (fst pq) (snd pq)))
              (list_prod refs feat)).

Theorem gr_box_ref_spec b refs feat ndens cutoff dr k :
  0 < dr -> 0 <= cutoff -> (k < nbins cutoff dr)%nat ->
  let n := length feat in
  let rho := match ndens with Some r => r | None => ndens_default n b end in
  nth_error (gr_box_ref arc b refs feat ndens cutoff dr) k
  = Some (finish (rho * inject_Z (Z.of_nat (length refs)) * dr)
                 (fold_left addw (bin_terms_ref b refs feat cutoff dr k) (0%nat, 0))).
Proof.
  intros Hd Hc Lk n rho. unfold gr_box_ref. fold n. fold rho.
  set (nb := nbins cutoff dr) in *.
  assert (LE : (length (edges2 dr nb) - 1 = nb)%nat).
  { unfold edges2. rewrite map_length, seq_length. lia. }
  rewrite nth_error_map.
  assert (LH : (k < length (hist (edges2 dr nb) (values_ref arc b (cutoff * cutoff) refs feat)))%nat).
  { rewrite hist_length, LE. auto. }
  rewrite (nth_error_nth' _ ((0%nat, 0) : acc) LH). simpl. f_equal. f_equal.
  rewrite hist_nth by (rewrite LE; auto). f_equal.
  unfold values_ref, bin_terms_ref.
  rewrite (flat_map_as_prod (fun p q => (Qred (qd2 p q), weight arc b p q)) (in_range (cutoff * cutoff)) feat refs).
  rewrite filter_map_comm, map_map. simpl. rewrite filter_filter_and. f_equal.
  apply filter_ext_in. intros [p q] _. simpl.
  destruct (in_range (cutoff * cutoff) p q) eqn:R; simpl; auto. unfold goes_to. simpl.
  assert (V : Qred (qd2 p q) < edge2 dr nb).
  { rewrite Qred_correct. unfold in_range in R. apply andb_true_iff in R. destruct R as [_ R].
    apply Qltb_lt in R. eapply Qlt_le_trans; [exact R|]. apply nbins_covers; auto. }
  assert (S := bin_of_spec (edge2 dr) nb (Qred (qd2 p q))).
  fold (edges2 dr nb) in S. change (map (edge2 dr) (seq 0 (Datatypes.S nb))) with (edges2 dr nb) in S.
  rewrite <- (inbin_comp _ _ _ _ (Qred_correct (qd2 p q))).
  destruct (bin_of (edges2 dr nb) (Qred (qd2 p q))) as [j|] eqn:E.
  - destruct (Nat.eqb_spec j k) as [->|N].
    + symmetry. apply (S k (edge2_mono dr Hd) V). auto.
    + destruct (inbin (edge2 dr) k (Qred (qd2 p q))) eqn:E2; auto.
      assert (X : Some j = Some k) by (apply (S k (edge2_mono dr Hd) V); auto). congruence.
  - destruct (inbin (edge2 dr) k (Qred (qd2 p q))) eqn:E2; auto.
    assert (X : None = Some k) by (apply (S k (edge2_mono dr Hd) V); auto). discriminate.
Qed.

(* order of the particles and order of the reference list do not matter *)
Lemma values_ref_perm b c2 refs refs' feat feat' :
  Permutation refs refs' -> Permutation feat feat' ->
  Permutation (values_ref arc b c2 refs feat) (values_ref arc b c2 refs' feat').
Proof.
  intros Pr Pf. unfold values_ref.
  eapply perm_trans.
  - apply Permutation_flat_map. exact Pr.
  - apply flat_map_pointwise_perm. intros p. apply Permutation_map. apply perm_filter. auto.
Qed.

Theorem gr_box_ref_permutation b refs refs' feat feat' ndens cutoff dr :
  Permutation refs refs' -> Permutation feat feat' ->
  gr_box_ref arc b refs' feat' ndens cutoff dr = gr_box_ref arc b refs feat ndens cutoff dr.
Proof.
  intros Pr Pf. unfold gr_box_ref. rewrite <- (Permutation_length Pr), <- (Permutation_length Pf).
  symmetry. apply hist_perm. apply values_ref_perm; auto.
Qed.

Lemma values_ref_shift t b c2 refs feat :
  values_ref arc (shift_box t b) c2 (map (shift t) refs) (map (shift t) feat) = values_ref arc b c2 refs feat.
Proof.
  unfold values_ref. rewrite flat_map_map. apply flat_map_ext. intros p.
  rewrite filter_map_comm, map_map.
  rewrite (filter_ext _ (in_range c2 p)) by (intros q; apply in_range_shift).
  apply map_ext. intros q. rewrite weight_shift. rewrite (Qred_complete _ _ (qd2_shift t p q)). reflexivity.
Qed.

Theorem gr_box_ref_translation t b refs feat ndens cutoff dr :
  gr_box_ref arc (shift_box t b) (map (shift t) refs) (map (shift t) feat) ndens cutoff dr
  = gr_box_ref arc b refs feat ndens cutoff dr.
Proof.
  unfold gr_box_ref. rewrite !map_length, values_ref_shift.
  replace (ndens_default (length feat) (shift_box t b)) with (ndens_default (length feat) b); auto.
  unfold ndens_default. apply Qred_complete. rewrite extent_shift. reflexivity.
Qed.

Lemma select_shift t idx feat :
  (forall i, In i idx -> (i < length feat)%nat) ->
  select idx (map (shift t) feat) = map (shift t) (select idx feat).
Proof.
  intros H. unfold select. rewrite map_map. apply map_ext_in. intros i Hi.
  rewrite (nth_indep _ [] (shift t [])) by (rewrite map_length; auto).
  apply map_nth.
Qed.

Theorem pair_correlation_sel_translation dim t b pts idx ndens cutoff dr :
  (forall i, In i idx -> (i < length (filter (inside b) pts))%nat) ->
  pair_correlation_sel arc dim (Some (shift_box t b)) (map (shift t) pts) idx ndens cutoff dr
  = pair_correlation_sel arc dim (Some b) pts idx ndens cutoff dr.
Proof.
  intros H. unfold pair_correlation_sel. rewrite filter_map_comm.
  rewrite (filter_ext _ (inside b)) by (intros p; apply inside_shift).
  rewrite select_shift by auto. apply gr_box_ref_translation.
Qed.
End Sel.
