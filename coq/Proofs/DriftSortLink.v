(* C18, route T: the primitive p_pandas_sort of Model/PyDrift.v against the BODY of
   trackpy.utils.pandas_sort as C20's translator generates it (Gen/filtering.v
   py_pandas_sort, over the pandas interface of Model/PyFiltering.v).

   SortI reads that interface on the tables of Model/PyDrift.v: the index attributes are
   those of [mt_index] ([] = RangeIndex: one unnamed level), sort_values(by=..) is the
   stable lexicographic sort on the key columns, not in place unless asked.  For a table
   with a RangeIndex -- what compute_drift hands over: the result of
   reset_index(drop=True) -- the generated pandas_sort leaves its argument as it is and
   returns exactly what DriftI's p_pandas_sort returns. *)
From Coq Require Import ZArith QArith String List Bool.
From TP Require Import Model.Drift Model.TrajLayout Model.PyFiltering Gen.filtering Model.PyDrift.
Import ListNotations.
Local Open Scope string_scope.

Definition opt_names (l : list (option TrajLayout.name)) : list PyDrift.name :=
  flat_map (fun o => match o with Some n => [n] | None => [] end) l.

Definition SortI : PyFiltering.pandas := {|
  PyFiltering.DataFrame := mtable;
  PyFiltering.GroupBy := unit;
  PyFiltering.Series := unit;
  PyFiltering.p_getitem := fun _ _ => RRaise EUnmodelled;
  PyFiltering.p_contains := fun c T => is_key c || mem c (mt_cols T);
  PyFiltering.p_reset_index_drop := fun T => ROk (mkMT (mt_cols T) [] (mt_rows T));
  PyFiltering.p_groupby := fun _ _ => RRaise EUnmodelled;
  PyFiltering.p_gb_filter := fun _ _ => RRaise EUnmodelled;
  PyFiltering.p_set_index_keep := fun T c => ROk (mkMT (mt_cols T) [c] (mt_rows T));
  PyFiltering.p_count := fun _ => 0%Z;
  PyFiltering.p_mean := fun _ => None;
  PyFiltering.p_quantile := fun _ _ => None;
  PyFiltering.p_index_name := fun T => match mt_index T with [n] => Some n | _ => None end;
  PyFiltering.p_index_nlevels := fun T => match mt_index T with [] => 1%Z | l => Z.of_nat (length l) end;
  PyFiltering.p_index_names := fun T => match mt_index T with [] => [None] | l => map Some l end;
  PyFiltering.p_set_index_name := fun T o =>
    match mt_index T, o with [_], Some n => mkMT (mt_cols T) [n] (mt_rows T) | _, _ => T end;
  PyFiltering.p_set_index_names := fun T l => mkMT (mt_cols T) (opt_names l) (mt_rows T);
  PyFiltering.p_sort_values := fun T by_ inplace =>
    let S := mkMT (mt_cols T) (mt_index T) (isort_g (lex_le (by_keys by_)) (mt_rows T)) in
    ROk (if inplace then S else T, if inplace then None else Some S)
|}.

Theorem pandas_sort_primitive : forall rolling (T : mtable) (by_ : list PyDrift.name),
  mt_index T = [] ->
  py_pandas_sort SortI T (ByList by_) false =
  ROk (T, Some (PyDrift.p_pandas_sort (DriftI rolling) T by_)).
Proof.
  intros rolling T by_ Hi. unfold py_pandas_sort. cbn. rewrite Hi. change (1 >? 1)%Z with false. cbn. rewrite Hi. reflexivity.
Qed.
