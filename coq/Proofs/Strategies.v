From Coq Require Import ZArith QArith NArith List Bool Lia Permutation Lqa.
From TP Require Import Model.Assign Model.Link Model.LinkCheck Model.Strategies
     Proofs.BnB Proofs.Opt Proofs.Cands Proofs.Comps Proofs.Step Proofs.Labels Proofs.Monitor.
Import ListNotations.

(* two optimal assignments of the same sources have the same total cost *)
Theorem opt_equal_cost its l1 l2 : is_opt its l1 -> is_opt its l2 -> ptotal l1 = ptotal l2.
Proof.
  intros [P1 [O1 M1]] [P2 [O2 M2]]. pose proof (M1 l2 P2 O2). pose proof (M2 l1 P1 O1). lia.
Qed.

(* any two labellings of a step that the monitor accepts (e.g. from two strategies, two entry
   points, the legacy linker, permuted rows) have identical cost *)
Theorem strategies_agree m mem max_size pred st ds labs1 labs2 st1 st2 :
  metric_ok m -> NoDup (map s_lab (live st)) ->
  check_step m mem max_size pred st ds labs1 = (0%N, st1) ->
  check_step m mem max_size pred st ds labs2 = (0%N, st2) ->
  links_total (links_of_labels m pred st ds labs1) = links_total (links_of_labels m pred st ds labs2).
Proof.
  intros Hm Hn H1 H2.
  destruct (check_step_sound _ _ _ _ _ _ _ _ Hm Hn H1) as [p1 [E1 O1]].
  destruct (check_step_sound _ _ _ _ _ _ _ _ Hm Hn H2) as [p2 [E2 O2]].
  pose proof (opt_equal_cost _ _ _ O1 O2) as H. rewrite <- E1, <- E2. unfold links_total, ptotal in *.
  assert (Hs : forall p : list pair_t, map snd (map strip p) = map snd p) by (induction p as [|x p IH]; cbn; [reflexivity|f_equal; exact IH]).
  rewrite !Hs. exact H.
Qed.

(* optimality does not depend on the order in which the sources are listed *)
Theorem permutation_invariant its its' l : Permutation its its' -> is_opt its l -> is_opt its' l.
Proof. exact (is_opt_perm its its' l). Qed.

(* 'drop': characterisation of the links made *)
Lemma drop_group_spec g i j c :
  In (i, (Some j, c)) (drop_group g) -> exists cs, g = [(i, cs)] /\ reals cs = [j].
Proof.
  destruct g as [|[i0 cs] [|it g']]; cbn [drop_group].
  - intros [].
  - destruct (reals cs) as [|j0 [|j1 rl]] eqn:E.
    + intros [H|[]]; inversion H.
    + destruct cs as [|c0 cs'].
      * intros [H|[]]; inversion H.
      * intros [H|[]]. inversion H; subst i0 c0. exists ((Some j, c) :: cs'). split; [reflexivity|].
        rewrite reals_cons in E. cbn [app] in E. inversion E; subst. reflexivity.
    + intros [H|[]]; inversion H.
  - intros H. apply in_map_iff in H. destruct H as [x [Hx _]]. inversion Hx.
Qed.

Theorem drop_links_only_uncontested max_size gs links i j c :
  drop_links max_size gs = Ok links -> In (i, (Some j, c)) links ->
  exists cs, In [(i, cs)] gs /\ reals cs = [j].
Proof.
  unfold drop_links. destruct (existsb (fun g => (max_size <? length g)%nat) gs); [discriminate|]. intros H Hin. inversion H; subst links.
  apply in_flat_map in Hin. destruct Hin as [g [Hg Hin]]. destruct (drop_group_spec _ _ _ _ Hin) as [cs [Eg Er]].
  exists cs. subst g. auto.
Qed.

(* ---- per-axis search range = dividing the coordinates by it ---- *)
Open Scope Q_scope.
Lemma d2w_rescale (P : Z) : forall (w rs : list Z) p q,
  Forall2 (fun wi ri => (wi * (ri * ri))%Z = P /\ ri <> 0%Z) w rs ->
  inject_Z (d2w w p q) == inject_Z P * d2q rs p q.
Proof.
  intros w rs p q H. revert p q. induction H as [|wi ri w rs [Hw Hr] _ IH]; intros p q; cbn [d2w d2q].
  - ring.
  - destruct p as [|x p]; [ring|]. destruct q as [|y q]; [ring|].
    rewrite inject_Z_plus, !inject_Z_mult, IH. rewrite <- Hw. rewrite !inject_Z_mult.
    assert (Hri : ~ inject_Z ri == 0) by (intros E; apply Hr; unfold Qeq in E; cbn in E; lia).
    field. exact Hri.
Qed.

(* in range in the weighted integer metric  <->  rescaled distance <= 1 *)
Theorem rescale_in_range (P : Z) w rs p q :
  (0 < P)%Z -> Forall2 (fun wi ri => (wi * (ri * ri))%Z = P /\ ri <> 0%Z) w rs ->
  ((d2w w p q <= P)%Z <-> d2q rs p q <= 1).
Proof.
  intros HP H. pose proof (d2w_rescale P w rs p q H) as E.
  assert (HPq : 0 < inject_Z P) by (unfold Qlt; cbn; lia).
  split; intros Hle.
  - assert (Hq : inject_Z (d2w w p q) <= inject_Z P) by (rewrite <- Zle_Qle; exact Hle).
    rewrite E in Hq. nra.
  - rewrite Zle_Qle. rewrite E. nra.
Qed.
