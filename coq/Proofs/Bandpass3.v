(* C10, 3-D: the three Gaussian passes and the three boxcar passes of the model
   compose to the triple sums of Model/BandpassSpec3.v; consequences. *)
From Coq Require Import ZArith QArith Qabs Qround List Bool Lia Setoid Morphisms.
From TP Require Import Model.Bandpass Model.BandpassSpec Model.BandpassSpec3 Proofs.Bandpass.
Import ListNotations.
Open Scope Q_scope.

Ltac lenlia3 R := let L := fresh "L" in pose proof R as [L _]; unfold img2, row in *; rewrite ?L; lia.

Lemma rect3_slice D H W im i : rect3 D H W im -> (i < D)%nat -> rect2 H W (nth i im []).
Proof. intros [Le F] Hi. rewrite Forall_forall in F. apply F, nth_In. lia. Qed.

Lemma Qsum_sym_swap3 r s u (f : Z -> Z -> Z -> Q) :
  Qsum_sym r (fun c => Qsum_sym s (fun b => Qsum_sym u (fun a => f a b c))) ==
  Qsum_sym u (fun a => Qsum_sym s (fun b => Qsum_sym r (fun c => f a b c))).
Proof.
  rewrite Qsum_sym_swap.
  rewrite (Qsum_sym_ext s _ (fun b => Qsum_sym u (fun a => Qsum_sym r (fun c => f a b c))))
    by (intros; apply Qsum_sym_swap).
  apply Qsum_sym_swap.
Qed.

Section ThreeD.
  Variables D H W : nat.
  Notation ZE := (zero_ext3 D H W).
  Notation EE := (edge_ext3 D H W).

  Lemma ZE3_slice im i j k :
    ZE im i j k = if inside D i then zero_ext2 H W (nth (Z.to_nat i) im []) j k else 0.
  Proof.
    unfold zero_ext3, zero_ext2, px3, px2. destruct (inside D i); cbn [andb]; [|reflexivity].
    destruct (inside H j && inside W k); reflexivity.
  Qed.

  Lemma EE3_slice im i j k : EE im i j k = edge_ext2 H W (nth (Z.to_nat (clamp D i)) im []) j k.
  Proof. reflexivity. Qed.

  Lemma ZE3_in im i j k : (0 <= i < Z.of_nat D)%Z -> (0 <= j < Z.of_nat H)%Z -> (0 <= k < Z.of_nat W)%Z ->
    ZE im i j k = px3 im i j k.
  Proof.
    intros Hi Hj Hk. unfold zero_ext3.
    rewrite (proj2 (inside_true D i) Hi), (proj2 (inside_true H j) Hj), (proj2 (inside_true W k) Hk). reflexivity.
  Qed.

  Lemma ZE3_out_i im i j k : inside D i = false -> ZE im i j k = 0.
  Proof. intros E. unfold zero_ext3. rewrite E. reflexivity. Qed.
  Lemma ZE3_out_jk im i j k : inside H j && inside W k = false -> ZE im i j k = 0.
  Proof. intros E. unfold zero_ext3. rewrite <- andb_assoc, E, andb_false_r. reflexivity. Qed.

  (* planes as vectors *)
  Lemma plane_add (a b : img2) : rect2 H W a -> rect2 H W b -> rect2 H W (vadd (tadd rops) a b).
  Proof.
    intros [La Fa] [Lb Fb]. split. rewrite vadd_length; congruence.
    apply Forall_vadd; try assumption. intros x y Hx Hy. apply (row_add_len W); assumption.
  Qed.
  Lemma plane_scale c (a : img2) : rect2 H W a -> rect2 H W (map (tscale rops c) a).
  Proof. intros R. apply (rect2_map H W (tscale qops c)), R. Qed.

  Lemma rect3_gauss w a im : w <> [] -> rect3 D H W im -> rect3 D H W (along3 (gauss_filter w) a im).
  Proof.
    intros NE [Le Fo]. destruct a; cbn [along3].
    - split. unfold gauss_filter. rewrite corr_length. exact Le.
      apply (corr_shape rops (rect2 H W) plane_add plane_scale); assumption.
    - split. rewrite map_length. exact Le.
      rewrite Forall_forall in *. intros r Hr. apply in_map_iff in Hr as [r0 [<- Hr0]].
      apply rect2_gauss; [exact NE|apply Fo, Hr0].
  Qed.

  Lemma rect3_box s a im : (1 <= s)%Z -> rect3 D H W im -> rect3 D H W (along3 (box_filter s) a im).
  Proof.
    intros Hs [Le Fo]. destruct a; cbn [along3].
    - split. unfold box_filter. rewrite unif_length. exact Le.
      apply (unif_shape rops (rect2 H W) plane_add plane_scale); assumption.
    - split. rewrite map_length. exact Le.
      rewrite Forall_forall in *. intros r Hr. apply in_map_iff in Hr as [r0 [<- Hr0]].
      apply rect2_box; [exact Hs|apply Fo, Hr0].
  Qed.

  Definition ppr (j k : nat) (m : img2) : Q := nth k (nth j m []) 0.
  Lemma ppr_linear j k : linear pops (ppr j k).
  Proof.
    exact (linear_lift rops (fun l : row => nth k l 0) j (linear_lift qops (fun x => x) k linear_q)).
  Qed.

  Lemma get0_planes im i' j k : rect3 D H W im -> (j < H)%nat -> (k < W)%nat ->
    ppr j k (get0 pops im i') = ZE im i' (Z.of_nat j) (Z.of_nat k).
  Proof.
    intros R Hj Hk. unfold zero_ext3, px3, ppr. rewrite (inside_inr im D i') by apply R.
    rewrite (proj2 (inside_true H (Z.of_nat j))), (proj2 (inside_true W (Z.of_nat k))) by lia.
    rewrite !andb_true_r. destruct (inr im i') eqn:E.
    - apply (get0_in pops) in E as [-> _]. rewrite !Nat2Z.id. reflexivity.
    - rewrite (get0_out pops) by exact E. cbn [pops lops tzero]. rewrite !nth_nil. reflexivity.
  Qed.

  Lemma getn_planes im i' j k : rect3 D H W im -> (0 < D)%nat -> (j < H)%nat -> (k < W)%nat ->
    ppr j k (getn pops im i') = EE im i' (Z.of_nat j) (Z.of_nat k).
  Proof.
    intros R HD Hj Hk. unfold edge_ext3, px3, ppr, getn, img2, row. destruct R as [Le _]. rewrite Le.
    rewrite clampn_clamp by exact HD. rewrite (clamp_id H), (clamp_id W) by lia. rewrite !Nat2Z.id. reflexivity.
  Qed.

  (* ---- Gaussian passes ---- *)
  Lemma gauss3_0 w im i j k : rect3 D H W im -> (0 <= i < Z.of_nat D)%Z ->
    ZE (along3 (gauss_filter w) 0 im) i j k ==
    Qsum (length w) (fun n => nth n w 0 * ZE im (i - radius w + Z.of_nat n) j k).
  Proof.
    intros R Hi. destruct (inside H j && inside W k) eqn:Ijk.
    - apply andb_true_iff in Ijk as [Ij Ik]. apply inside_true in Ij. apply inside_true in Ik.
      rewrite ZE3_in by assumption. cbn [along3 gauss_filter].
      etransitivity.
      { apply (corr_pr pops _ (ppr_linear (Z.to_nat j) (Z.to_nat k)) w im (Z.to_nat i)). lenlia3 R. }
      apply Qsum_ext. intros n _. rewrite Z2Nat.id by lia.
      rewrite get0_planes by (try exact R; lia). rewrite !Z2Nat.id by lia. reflexivity.
    - rewrite ZE3_out_jk by exact Ijk. symmetry. apply Qsum_zero. intros n _.
      rewrite ZE3_out_jk by exact Ijk. ring.
  Qed.

  Lemma ZE3_map_slice (f : img2 -> img2) im i j k : length im = D ->
    ZE (map f im) i j k = if inside D i then zero_ext2 H W (f (nth (Z.to_nat i) im [])) j k else 0.
  Proof.
    intros Le. rewrite ZE3_slice. destruct (inside D i) eqn:Ii; [|reflexivity].
    apply inside_true in Ii. unfold img2, row in *. rewrite nth_map_in with (d := []) by lia. reflexivity.
  Qed.

  Lemma gauss3_1 w im i j k : rect3 D H W im -> (0 <= j < Z.of_nat H)%Z ->
    ZE (along3 (gauss_filter w) 1 im) i j k ==
    Qsum (length w) (fun n => nth n w 0 * ZE im i (j - radius w + Z.of_nat n) k).
  Proof.
    intros R Hj. cbn [along3]. rewrite ZE3_map_slice by apply R.
    destruct (inside D i) eqn:Ii.
    - pose proof (proj1 (inside_true D i) Ii) as Hi.
      etransitivity.
      { apply (gauss0_ZE H W); [apply (rect3_slice D H W); [exact R|lia]|exact Hj]. }
      apply Qsum_ext. intros n _. rewrite ZE3_slice, Ii. reflexivity.
    - symmetry. apply Qsum_zero. intros n _. rewrite ZE3_out_i by exact Ii. ring.
  Qed.

  Lemma gauss3_2 w im i j k : rect3 D H W im -> (0 <= k < Z.of_nat W)%Z ->
    ZE (along3 (gauss_filter w) 2 im) i j k ==
    Qsum (length w) (fun n => nth n w 0 * ZE im i j (k - radius w + Z.of_nat n)).
  Proof.
    intros R Hk. cbn [along3]. rewrite ZE3_map_slice by apply R.
    destruct (inside D i) eqn:Ii.
    - pose proof (proj1 (inside_true D i) Ii) as Hi.
      etransitivity.
      { apply (gauss1_ZE H W); [apply (rect3_slice D H W); [exact R|lia]|exact Hk]. }
      apply Qsum_ext. intros n _. rewrite ZE3_slice, Ii. reflexivity.
    - symmetry. apply Qsum_zero. intros n _. rewrite ZE3_out_i by exact Ii. ring.
  Qed.

  (* ---- boxcar passes ---- *)
  Lemma box3_0 s im i j k : rect3 D H W im -> (0 <= i < Z.of_nat D)%Z -> (0 < H)%nat -> (0 < W)%nat ->
    EE (along3 (box_filter s) 0 im) i j k ==
    (1 # Z.to_pos s) * Qsum (Z.to_nat s) (fun n => EE im (i - s / 2 + Z.of_nat n) j k).
  Proof.
    intros R Hi HH HW. unfold edge_ext3 at 1. rewrite (clamp_id D i) by exact Hi.
    pose proof (clamp_range H j HH) as Cj. pose proof (clamp_range W k HW) as Ck.
    cbn [along3 box_filter].
    etransitivity.
    { apply (unif_pr pops _ (ppr_linear (Z.to_nat (clamp H j)) (Z.to_nat (clamp W k))) s im (Z.to_nat i)). lenlia3 R. }
    apply Qmult_comp; [reflexivity|]. apply Qsum_ext. intros n _. rewrite Z2Nat.id by lia.
    rewrite getn_planes by (try exact R; lia). rewrite !Z2Nat.id by lia.
    unfold edge_ext3. rewrite (clamp_id H (clamp H j)), (clamp_id W (clamp W k)) by lia. reflexivity.
  Qed.

  Lemma EE3_map_slice (f : img2 -> img2) im i j k : length im = D -> (0 < D)%nat ->
    EE (map f im) i j k = edge_ext2 H W (f (nth (Z.to_nat (clamp D i)) im [])) j k.
  Proof.
    intros Le HD. rewrite EE3_slice. pose proof (clamp_range D i HD).
    unfold img2, row in *. rewrite nth_map_in with (d := []) by lia. reflexivity.
  Qed.

  Lemma box3_1 s im i j k : rect3 D H W im -> (0 <= j < Z.of_nat H)%Z -> (0 < D)%nat -> (0 < W)%nat ->
    EE (along3 (box_filter s) 1 im) i j k ==
    (1 # Z.to_pos s) * Qsum (Z.to_nat s) (fun n => EE im i (j - s / 2 + Z.of_nat n) k).
  Proof.
    intros R Hj HD HW. cbn [along3]. rewrite EE3_map_slice by (try apply R; assumption).
    pose proof (clamp_range D i HD).
    apply (box0_EE H W); [apply (rect3_slice D H W); [exact R|lia]|exact Hj|exact HW].
  Qed.

  Lemma box3_2 s im i j k : rect3 D H W im -> (0 <= k < Z.of_nat W)%Z -> (0 < D)%nat -> (0 < H)%nat ->
    EE (along3 (box_filter s) 2 im) i j k ==
    (1 # Z.to_pos s) * Qsum (Z.to_nat s) (fun n => EE im i j (k - s / 2 + Z.of_nat n)).
  Proof.
    intros R Hk HD HH. cbn [along3]. rewrite EE3_map_slice by (try apply R; assumption).
    pose proof (clamp_range D i HD).
    apply (box1_EE H W); [apply (rect3_slice D H W); [exact R|lia]|exact Hk|exact HH].
  Qed.
End ThreeD.

(* ====================================================================== *)
(* composing the passes (3-D)                                               *)
(* ====================================================================== *)
Definition gstep3 (t : Q) (a : nat) (p : axis_par) (x : img3) : img3 :=
  if Qlt_b 0 (sigma p) then along3 (gauss_filter (kern t p)) a x else x.
Definition bstep3 (a : nat) (p : axis_par) (x : img3) : img3 :=
  if (1 <? size p)%Z then along3 (box_filter (size p)) a x else x.

Lemma lowpass3_unfold t pz py px im :
  lowpass3 t pz py px im = gstep3 t 2 px (gstep3 t 1 py (gstep3 t 0 pz im)).
Proof. reflexivity. Qed.

Lemma boxcar3_unfold pz py px im :
  boxcar3 pz py px im =
  if Z.odd (size pz) && (Z.odd (size py) && Z.odd (size px))
  then Some (bstep3 2 px (bstep3 1 py (bstep3 0 pz im))) else None.
Proof.
  unfold boxcar3, boxcar_g. cbn [forallb]. rewrite andb_true_r.
  destruct (Z.odd (size pz) && (Z.odd (size py) && Z.odd (size px))); reflexivity.
Qed.

Section ThreeDCompose.
  Variables (D H W : nat) (t : Q).
  Hypothesis Ht : 0 <= t.
  Notation ZE := (zero_ext3 D H W).
  Notation EE := (edge_ext3 D H W).
  Notation lw p := (gauss_hw t (sigma p)).
  Notation gw p := (gauss_w t (sigma p) (expo p)).
  Notation bh p := (box_hw (size p)).

  Lemma gstep3_rect a p im : rect3 D H W im -> rect3 D H W (gstep3 t a p im).
  Proof.
    intros R. unfold gstep3. rewrite Qlt_b_le. destruct (Qle_bool (sigma p) 0) eqn:Hs; cbn [negb]. exact R.
    apply rect3_gauss; [apply kern_nonempty; assumption|exact R].
  Qed.

  Lemma bstep3_rect a p im : rect3 D H W im -> rect3 D H W (bstep3 a p im).
  Proof.
    intros R. unfold bstep3. destruct (Z.ltb_spec 1 (size p)); [|exact R].
    apply rect3_box; [lia|exact R].
  Qed.

  (* one Gaussian step, generic in the axis: [G] is the raw pass lemma, [sh] moves the index of that axis *)
  Lemma gstep3_sym a p im (F : img3 -> Z -> Q) c :
    (forall w, F (along3 (gauss_filter w) a im) c ==
               Qsum (length w) (fun n => nth n w 0 * F im (c - radius w + Z.of_nat n)%Z)) ->
    F (gstep3 t a p im) c == Qsum_sym (lw p) (fun x => gw p x * F im (c + x)%Z).
  Proof.
    intros G. unfold gstep3. rewrite Qlt_b_le. destruct (Qle_bool (sigma p) 0) eqn:Hs; cbn [negb].
    - unfold gauss_hw, gauss_w. rewrite Hs, Qsum_sym_0. replace (c + 0)%Z with c by lia. ring.
    - destruct (kern_hw t p Ht Hs) as [_ Pl]. rewrite G.
      rewrite (sum_kernel_sym (kern t p) (lw p) c (F im) Pl (kern_length t p Ht Hs)).
      apply Qsum_sym_ext. intros x Hx. rewrite (kern_weight t p Ht Hs x Hx). reflexivity.
  Qed.

  Lemma bstep3_sym a p im (F : img3 -> Z -> Q) c :
    Z.odd (size p) = true -> (1 <= size p)%Z ->
    (F (along3 (box_filter (size p)) a im) c ==
       (1 # Z.to_pos (size p)) * Qsum (Z.to_nat (size p)) (fun n => F im (c - size p / 2 + Z.of_nat n)%Z)) ->
    F (bstep3 a p im) c == Qsum_sym (bh p) (fun x => F im (c + x)%Z) / inject_Z (2 * bh p + 1).
  Proof.
    intros O Hs G. unfold bstep3. destruct (Z.ltb_spec 1 (size p)).
    - rewrite G. apply (box_sum_sym (size p) c (F im) O Hs).
    - assert (E : size p = 1%Z) by lia. rewrite E. unfold box_hw.
      change ((1 - 1) / 2)%Z with 0%Z. rewrite Qsum_sym_0. replace (c + 0)%Z with c by lia.
      change (inject_Z (2 * 0 + 1)) with 1. symmetry. apply Qdiv_1.
  Qed.

  Lemma lowpass3_rect pz py px im : rect3 D H W im -> rect3 D H W (lowpass3 t pz py px im).
  Proof. intros R. rewrite lowpass3_unfold. apply gstep3_rect, gstep3_rect, gstep3_rect, R. Qed.

  Lemma lowpass3_pointwise pz py px im i j k :
    rect3 D H W im -> (0 <= i < Z.of_nat D)%Z -> (0 <= j < Z.of_nat H)%Z -> (0 <= k < Z.of_nat W)%Z ->
    px3 (lowpass3 t pz py px im) i j k ==
    smooth3 D H W (lw pz) (lw py) (lw px) (gw pz) (gw py) (gw px) im i j k.
  Proof.
    intros R Hi Hj Hk. rewrite <- (ZE3_in D H W) by assumption. rewrite lowpass3_unfold.
    set (P0 := gstep3 t 0 pz im). set (P1 := gstep3 t 1 py P0).
    assert (R0 : rect3 D H W P0) by (apply gstep3_rect, R).
    assert (R1 : rect3 D H W P1) by (apply gstep3_rect, R0).
    rewrite (gstep3_sym 2 px P1 (fun x k' => ZE x i j k') k)
      by (intros w; apply (gauss3_2 D H W); assumption).
    unfold smooth3. rewrite <- Qsum_sym_swap3. apply Qsum_sym_ext. intros c _.
    unfold P1.
    rewrite (gstep3_sym 1 py P0 (fun x j' => ZE x i j' (k + c)) j)
      by (intros w; apply (gauss3_1 D H W); assumption).
    rewrite Qsum_sym_scale. apply Qsum_sym_ext. intros b _.
    unfold P0.
    rewrite (gstep3_sym 0 pz im (fun x i' => ZE x i' (j + b) (k + c)) i)
      by (intros w; apply (gauss3_0 D H W); assumption).
    rewrite !Qsum_sym_scale. apply Qsum_sym_ext. intros a _. ring.
  Qed.

  Lemma boxcar3_pointwise pz py px im bg i j k :
    boxcar3 pz py px im = Some bg -> (1 <= size pz)%Z -> (1 <= size py)%Z -> (1 <= size px)%Z ->
    rect3 D H W im -> (0 <= i < Z.of_nat D)%Z -> (0 <= j < Z.of_nat H)%Z -> (0 <= k < Z.of_nat W)%Z ->
    rect3 D H W bg /\
    px3 bg i j k == average3 D H W (bh pz) (bh py) (bh px) im i j k.
  Proof.
    intros E Sz Sy Sx R Hi Hj Hk. rewrite boxcar3_unfold in E.
    destruct (Z.odd (size pz)) eqn:Oz; [|discriminate]. destruct (Z.odd (size py)) eqn:Oy; [|discriminate].
    destruct (Z.odd (size px)) eqn:Ox; [|discriminate]. cbn [andb] in E. injection E as <-.
    set (B0 := bstep3 0 pz im). set (B1 := bstep3 1 py B0).
    assert (R0 : rect3 D H W B0) by (apply bstep3_rect, R).
    assert (R1 : rect3 D H W B1) by (apply bstep3_rect, R0).
    split. apply bstep3_rect, R1.
    assert (EEin : forall x, px3 x i j k = EE x i j k).
    { intros x. unfold edge_ext3. rewrite !clamp_id by assumption. reflexivity. }
    rewrite EEin.
    rewrite (bstep3_sym 2 px B1 (fun x k' => EE x i j k') k Ox Sx)
      by (apply (box3_2 D H W); try assumption; lia).
    unfold average3. rewrite <- Qsum_sym_swap3.
    rewrite !inject_Z_mult. unfold Qdiv. rewrite !Qinv_mult_distr.
    set (nz := / inject_Z (2 * bh pz + 1)). set (ny := / inject_Z (2 * bh py + 1)). set (nx := / inject_Z (2 * bh px + 1)).
    transitivity (Qsum_sym (bh px) (fun c => (nz * ny) * Qsum_sym (bh py) (fun b => Qsum_sym (bh pz) (fun a =>
                    EE im (i + a) (j + b) (k + c)))) * nx).
    - apply Qmult_comp; [|reflexivity]. apply Qsum_sym_ext. intros c _. unfold B1.
      rewrite (bstep3_sym 1 py B0 (fun x j' => EE x i j' (k + c)) j Oy Sy)
        by (apply (box3_1 D H W); try assumption; lia).
      unfold Qdiv. fold ny.
      transitivity (ny * Qsum_sym (bh py) (fun b => nz * Qsum_sym (bh pz) (fun a => EE im (i + a) (j + b) (k + c)))).
      + rewrite Qmult_comm. apply Qmult_comp; [reflexivity|]. apply Qsum_sym_ext. intros b _. unfold B0.
        rewrite (bstep3_sym 0 pz im (fun x i' => EE x i' (j + b) (k + c)) i Oz Sz)
          by (apply (box3_0 D H W); try assumption; lia).
        unfold Qdiv. fold nz. ring.
      + rewrite <- Qsum_sym_scale. ring.
    - rewrite <- Qsum_sym_scale. ring.
  Qed.
End ThreeDCompose.

(* ====================================================================== *)
(* bandpass, 3-D: the theorems                                              *)
(* ====================================================================== *)
Lemma rect3_map D H W (f : Q -> Q) A : rect3 D H W A -> rect3 D H W (map (map (map f)) A).
Proof.
  intros [Le Fo]. split. rewrite map_length. exact Le.
  rewrite Forall_forall in *. intros r Hr. apply in_map_iff in Hr as [r0 [<- Hr0]].
  apply rect2_map, Fo, Hr0.
Qed.

Lemma rect3_map2 D H W (g : Q -> Q -> Q) A B :
  rect3 D H W A -> rect3 D H W B -> rect3 D H W (map2 (map2 (map2 g)) A B).
Proof.
  intros [LA FA] [LB FB]. split. rewrite map2_length; congruence.
  clear LA LB. revert B FB. induction FA as [|a A Pa FA IH]; intros B FB; cbn [map2]. constructor.
  destruct FB as [|b B Pb FB]; constructor. apply rect2_map2; assumption. apply IH, FB.
Qed.

Lemma px3_map D H W (f : Q -> Q) A i j k : rect3 D H W A ->
  (0 <= i < Z.of_nat D)%Z -> (0 <= j < Z.of_nat H)%Z -> (0 <= k < Z.of_nat W)%Z ->
  px3 (map (map (map f)) A) i j k = f (px3 A i j k).
Proof.
  intros R Hi Hj Hk. change (px3 (map (map (map f)) A) i j k) with (px2 (nth (Z.to_nat i) (map (map (map f)) A) []) j k).
  pose proof R as [Le _]. rewrite nth_map_in with (d := []) by lia.
  apply (px2_map H W); try assumption. apply (rect3_slice D H W); [exact R|lia].
Qed.

Lemma px3_map2 D H W (g : Q -> Q -> Q) A B i j k : rect3 D H W A -> rect3 D H W B ->
  (0 <= i < Z.of_nat D)%Z -> (0 <= j < Z.of_nat H)%Z -> (0 <= k < Z.of_nat W)%Z ->
  px3 (map2 (map2 (map2 g)) A B) i j k = g (px3 A i j k) (px3 B i j k).
Proof.
  intros RA RB Hi Hj Hk.
  change (px3 (map2 (map2 (map2 g)) A B) i j k) with (px2 (nth (Z.to_nat i) (map2 (map2 (map2 g)) A B) []) j k).
  pose proof RA as [LA _]. pose proof RB as [LB _].
  rewrite nth_map2 with (da := []) (db := []) by lia.
  apply (px2_map2 H W); try assumption; apply (rect3_slice D H W); try assumption; lia.
Qed.

Lemma guard3_spec pz py px :
  guard [pz; py; px] = true <->
  (inject_Z (size pz) <= sigma pz \/ inject_Z (size py) <= sigma py \/ inject_Z (size px) <= sigma px).
Proof.
  unfold guard. cbn [existsb]. rewrite orb_false_r, !orb_true_iff, !Qle_bool_iff. tauto.
Qed.

Section ThreeDMain.
  Variables (D H W : nat) (t : Q) (pz py px : axis_par).
  Hypothesis Ht : 0 <= t.
  Hypothesis Sz : (1 <= size pz)%Z.
  Hypothesis Sy : (1 <= size py)%Z.
  Hypothesis Sx : (1 <= size px)%Z.
  Notation doc thr := (documented3 D H W t (sigma pz) (sigma py) (sigma px) (expo pz) (expo py) (expo px)
                                   (size pz) (size py) (size px) thr).
  Notation dif := (difference3 D H W t (sigma pz) (sigma py) (sigma px) (expo pz) (expo py) (expo px)
                               (size pz) (size py) (size px)).

  Theorem bandpass3_pointwise thr im out :
    rect3 D H W im -> bandpass3 t pz py px thr im = Ok out ->
    rect3 D H W out /\
    forall i j k, (0 <= i < Z.of_nat D)%Z -> (0 <= j < Z.of_nat H)%Z -> (0 <= k < Z.of_nat W)%Z ->
      px3 out i j k == doc thr im i j k.
  Proof.
    intros R E. unfold bandpass3, bandpass3_pre in E.
    destruct (guard [pz; py; px]); [discriminate|].
    destruct (boxcar3 pz py px im) as [bg|] eqn:B; [|discriminate].
    cbn [map_outcome] in E. injection E as <-.
    assert (Rbg : rect3 D H W bg).
    { rewrite boxcar3_unfold in B. destruct (Z.odd (size pz) && (Z.odd (size py) && Z.odd (size px))); [|discriminate].
      injection B as <-. apply bstep3_rect, bstep3_rect, bstep3_rect, R. }
    pose proof (lowpass3_rect D H W t Ht pz py px im R) as Rlp.
    split. apply rect3_map, rect3_map2; assumption.
    intros i j k Hi Hj Hk.
    rewrite (px3_map D H W) by (try apply rect3_map2; assumption).
    rewrite (px3_map2 D H W) by assumption.
    unfold documented3, difference3. apply clip_compat. unfold Qminus. apply Qplus_comp.
    - apply lowpass3_pointwise; assumption.
    - apply Qopp_comp. apply (boxcar3_pointwise D H W pz py px im bg i j k B Sz Sy Sx R Hi Hj Hk).
  Qed.

  Theorem bandpass3_outcome thr im :
    match bandpass3 t pz py px thr im with
    | ErrScale => inject_Z (size pz) <= sigma pz \/ inject_Z (size py) <= sigma py \/ inject_Z (size px) <= sigma px
    | ErrEven => (sigma pz < inject_Z (size pz) /\ sigma py < inject_Z (size py) /\ sigma px < inject_Z (size px)) /\
                 (Z.odd (size pz) = false \/ Z.odd (size py) = false \/ Z.odd (size px) = false)
    | Ok _ => (sigma pz < inject_Z (size pz) /\ sigma py < inject_Z (size py) /\ sigma px < inject_Z (size px)) /\
              Z.odd (size pz) = true /\ Z.odd (size py) = true /\ Z.odd (size px) = true
    end.
  Proof.
    unfold bandpass3, bandpass3_pre. destruct (guard [pz; py; px]) eqn:G.
    - apply guard3_spec, G.
    - assert (NG : sigma pz < inject_Z (size pz) /\ sigma py < inject_Z (size py) /\ sigma px < inject_Z (size px)).
      { unfold guard in G. cbn [existsb] in G. rewrite orb_false_r in G.
        apply orb_false_iff in G as [G1 G]. apply orb_false_iff in G as [G2 G3].
        repeat split; apply Qle_bool_false; assumption. }
      rewrite boxcar3_unfold.
      destruct (Z.odd (size pz)) eqn:Oz, (Z.odd (size py)) eqn:Oy, (Z.odd (size px)) eqn:Ox;
        cbn [andb map_outcome]; auto 6.
  Qed.

  Theorem bandpass3_guard thr im :
    bandpass3 t pz py px thr im = ErrScale <->
    (inject_Z (size pz) <= sigma pz \/ inject_Z (size py) <= sigma py \/ inject_Z (size px) <= sigma px).
  Proof.
    pose proof (bandpass3_outcome thr im) as O. split.
    - intros E. rewrite E in O. exact O.
    - intros G. destruct (bandpass3 t pz py px thr im); [|reflexivity|];
        destruct O as [(A & B & C) _]; destruct G as [G|[G|G]]; apply Qle_not_lt in G; contradiction.
  Qed.

  Lemma bandpass3_ok_indep thr im out thr' im' :
    bandpass3 t pz py px thr im = Ok out -> exists out', bandpass3 t pz py px thr' im' = Ok out'.
  Proof.
    intros E. pose proof (bandpass3_outcome thr im) as O. rewrite E in O. destruct O as [(A & B & C) (Oz & Oy & Ox)].
    pose proof (bandpass3_outcome thr' im') as O'. destruct (bandpass3 t pz py px thr' im') as [o| |].
    - eauto.
    - destruct O' as [G|[G|G]]; apply Qle_not_lt in G; contradiction.
    - destruct O' as [_ [G|[G|G]]]; congruence.
  Qed.

  Theorem bandpass3_sign thr im out i j k :
    rect3 D H W im -> bandpass3 t pz py px thr im = Ok out ->
    (0 <= i < Z.of_nat D)%Z -> (0 <= j < Z.of_nat H)%Z -> (0 <= k < Z.of_nat W)%Z ->
    (px3 out i j k == 0 \/ thr <= px3 out i j k) /\
    (0 <= thr -> 0 <= px3 out i j k) /\
    (px3 out i j k < 0 <-> (thr <= dif im i j k /\ dif im i j k < 0)).
  Proof.
    intros R E Hi Hj Hk. destruct (bandpass3_pointwise thr im out R E) as [_ P].
    specialize (P i j k Hi Hj Hk). unfold documented3 in P. set (d := dif im i j k) in *.
    destruct (clip_below_sign thr d) as [Z0 | [Le Eq]].
    - rewrite Z0 in P. split; [left; exact P|]. split. intros _. rewrite P. apply Qle_refl.
      split. intros N. rewrite P in N. discriminate.
      intros [Le N]. unfold clip_below in Z0. apply Qle_bool_iff in Le. rewrite Le in Z0.
      rewrite Z0 in N. discriminate.
    - rewrite Eq in P. split; [right; rewrite P; exact Le|]. split.
      intros T0. rewrite P. apply Qle_trans with thr; assumption.
      rewrite P. tauto.
  Qed.
End ThreeDMain.

(* ---------- homogeneity and transposition (3-D) --------------------------- *)
Lemma ZE3_scale D H W c im i j k : rect3 D H W im ->
  zero_ext3 D H W (scale3 c im) i j k == c * zero_ext3 D H W im i j k.
Proof.
  intros R. unfold zero_ext3. destruct (inside D i && inside H j && inside W k) eqn:E; [|ring].
  apply andb_true_iff in E as [E Ek]. apply andb_true_iff in E as [Ei Ej].
  apply inside_true in Ei. apply inside_true in Ej. apply inside_true in Ek.
  change (scale3 c im) with (map (map (map (Qmult c))) im). rewrite (px3_map D H W) by assumption. reflexivity.
Qed.

Lemma EE3_scale D H W c im i j k : rect3 D H W im -> (0 < D)%nat -> (0 < H)%nat -> (0 < W)%nat ->
  edge_ext3 D H W (scale3 c im) i j k == c * edge_ext3 D H W im i j k.
Proof.
  intros R HD HH HW. unfold edge_ext3. change (scale3 c im) with (map (map (map (Qmult c))) im).
  rewrite (px3_map D H W) by (try assumption; apply clamp_range; assumption). reflexivity.
Qed.

Lemma difference3_scale D H W t sz sy sx Ez Ey Ex lz ly lx c im i j k :
  rect3 D H W im -> (0 < D)%nat -> (0 < H)%nat -> (0 < W)%nat ->
  difference3 D H W t sz sy sx Ez Ey Ex lz ly lx (scale3 c im) i j k ==
  c * difference3 D H W t sz sy sx Ez Ey Ex lz ly lx im i j k.
Proof.
  intros R HD HH HW. unfold difference3.
  assert (S : forall l1 l2 l3 g1 g2 g3,
             smooth3 D H W l1 l2 l3 g1 g2 g3 (scale3 c im) i j k == c * smooth3 D H W l1 l2 l3 g1 g2 g3 im i j k).
  { intros. unfold smooth3. rewrite Qsum_sym_scale. apply Qsum_sym_ext. intros a _.
    rewrite Qsum_sym_scale. apply Qsum_sym_ext. intros b _.
    rewrite Qsum_sym_scale. apply Qsum_sym_ext. intros c' _. rewrite ZE3_scale by exact R. ring. }
  assert (A : forall b1 b2 b3, average3 D H W b1 b2 b3 (scale3 c im) i j k == c * average3 D H W b1 b2 b3 im i j k).
  { intros. unfold average3, Qdiv. rewrite Qmult_assoc. apply Qmult_comp; [|reflexivity].
    rewrite Qsum_sym_scale. apply Qsum_sym_ext. intros a _.
    rewrite Qsum_sym_scale. apply Qsum_sym_ext. intros b _.
    rewrite Qsum_sym_scale. apply Qsum_sym_ext. intros c' _. apply EE3_scale; assumption. }
  rewrite S, A. ring.
Qed.

Theorem bandpass3_homogeneous D H W t pz py px c thr im out :
  0 <= t -> (1 <= size pz)%Z -> (1 <= size py)%Z -> (1 <= size px)%Z -> 0 < c ->
  rect3 D H W im -> bandpass3 t pz py px thr im = Ok out ->
  exists out', bandpass3 t pz py px (c * thr) (scale3 c im) = Ok out' /\ rect3 D H W out' /\
    forall i j k, (0 <= i < Z.of_nat D)%Z -> (0 <= j < Z.of_nat H)%Z -> (0 <= k < Z.of_nat W)%Z ->
      px3 out' i j k == c * px3 out i j k.
Proof.
  intros Ht Sz Sy Sx Hc R E.
  destruct (bandpass3_ok_indep t pz py px thr im out (c * thr) (scale3 c im) E) as [out' E'].
  exists out'. split. exact E'.
  assert (R' : rect3 D H W (scale3 c im)) by (apply (rect3_map D H W (Qmult c)), R).
  destruct (bandpass3_pointwise D H W t pz py px Ht Sz Sy Sx thr im out R E) as [_ P].
  destruct (bandpass3_pointwise D H W t pz py px Ht Sz Sy Sx (c * thr) (scale3 c im) out' R' E') as [Ro' P'].
  split. exact Ro'. intros i j k Hi Hj Hk. rewrite P', P by assumption.
  unfold documented3. rewrite <- clip_below_scale by exact Hc. apply clip_compat.
  apply difference3_scale; [exact R|lia|lia|lia].
Qed.

Lemma ZE3_transposed D H W A B i j k : transposed3 D H W A B ->
  zero_ext3 W H D B k j i = zero_ext3 D H W A i j k.
Proof.
  intros (_ & _ & T). unfold zero_ext3.
  replace (inside W k && inside H j && inside D i) with (inside D i && inside H j && inside W k)
    by (destruct (inside D i), (inside H j), (inside W k); reflexivity).
  destruct (inside D i && inside H j && inside W k) eqn:E; [|reflexivity].
  apply andb_true_iff in E as [E Ek]. apply andb_true_iff in E as [Ei Ej].
  apply T; apply inside_true; assumption.
Qed.

Lemma EE3_transposed D H W A B i j k : transposed3 D H W A B -> (0 < D)%nat -> (0 < H)%nat -> (0 < W)%nat ->
  edge_ext3 W H D B k j i = edge_ext3 D H W A i j k.
Proof. intros (_ & _ & T) HD HH HW. unfold edge_ext3. apply T; apply clamp_range; assumption. Qed.

Lemma documented3_transposed D H W t sz sy sx Ez Ey Ex lz ly lx thr A B i j k :
  transposed3 D H W A B -> (0 < D)%nat -> (0 < H)%nat -> (0 < W)%nat ->
  documented3 W H D t sx sy sz Ex Ey Ez lx ly lz thr B k j i ==
  documented3 D H W t sz sy sx Ez Ey Ex lz ly lx thr A i j k.
Proof.
  intros T HD HH HW. unfold documented3. apply clip_compat. unfold difference3, Qminus. apply Qplus_comp.
  - unfold smooth3. rewrite Qsum_sym_swap3. apply Qsum_sym_ext. intros a _. apply Qsum_sym_ext. intros b _.
    apply Qsum_sym_ext. intros c _. rewrite (ZE3_transposed D H W A B _ _ _ T). ring.
  - apply Qopp_comp. unfold average3. rewrite Qsum_sym_swap3.
    replace ((2 * box_hw lx + 1) * (2 * box_hw ly + 1) * (2 * box_hw lz + 1))%Z
      with ((2 * box_hw lz + 1) * (2 * box_hw ly + 1) * (2 * box_hw lx + 1))%Z by ring.
    apply Qmult_comp; [|reflexivity].
    apply Qsum_sym_ext. intros a _. apply Qsum_sym_ext. intros b _. apply Qsum_sym_ext. intros c _.
    rewrite (EE3_transposed D H W A B _ _ _ T HD HH HW). reflexivity.
Qed.

Theorem bandpass3_transpose D H W t pz py px thr A B oA oB :
  0 <= t -> (1 <= size pz)%Z -> (1 <= size py)%Z -> (1 <= size px)%Z ->
  transposed3 D H W A B ->
  bandpass3 t pz py px thr A = Ok oA -> bandpass3 t px py pz thr B = Ok oB ->
  rect3 D H W oA /\ rect3 W H D oB /\
  forall i j k, (0 <= i < Z.of_nat D)%Z -> (0 <= j < Z.of_nat H)%Z -> (0 <= k < Z.of_nat W)%Z ->
    px3 oB k j i == px3 oA i j k.
Proof.
  intros Ht Sz Sy Sx T EA EB. pose proof T as (RA & RB & _).
  destruct (bandpass3_pointwise D H W t pz py px Ht Sz Sy Sx thr A oA RA EA) as [RoA PA].
  destruct (bandpass3_pointwise W H D t px py pz Ht Sx Sy Sz thr B oB RB EB) as [RoB PB].
  split. exact RoA. split. exact RoB. intros i j k Hi Hj Hk.
  rewrite PA, PB by assumption. apply documented3_transposed; [exact T|lia|lia|lia].
Qed.
