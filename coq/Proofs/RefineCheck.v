(* Soundness of the executable monitor Model/RefineCheck.check_unit at tolerance 0:
   code 0 on a unit reported as fitted means the returned rows are exactly
   unpack(vector) of a vector inside the model's box, i.e. the premise from
   which Proofs/RefineBounds.unpack_ok derives the per-entry bounds; code 0 on
   a failed unit means the rows are identical to the input. *)
From Coq Require Import QArith Qabs List Bool Arith NArith Lia.
From TP Require Import Model.RefineBounds Model.RefineDriver Model.RefineCheck Proofs.RefineBounds.
Import ListNotations.
Open Scope Q_scope.

Lemma forallb2_Forall2 : forall {A B} (f : A -> B -> bool) l1 l2,
  forallb2 f l1 l2 = true -> Forall2 (fun a b => f a b = true) l1 l2.
Proof.
  induction l1; destruct l2; simpl; intro H; try discriminate; constructor.
  - apply andb_prop in H. tauto.
  - apply IHl1. apply andb_prop in H. tauto.
Qed.

Lemma Forall2_impl : forall {A B} (P Q : A -> B -> Prop) l1 l2,
  (forall a b, P a b -> Q a b) -> Forall2 P l1 l2 -> Forall2 Q l1 l2.
Proof. induction 2; constructor; auto. Qed.

Lemma sat_low_tol0 : forall c v, sat_low_tol 0 c v = true -> sat_low c v.
Proof.
  destruct c; simpl; intros v H; try tauto; try discriminate.
  apply Qle_bool_iff in H. assert (E : q - 0 * (1 + Qabs q) == q) by ring. rewrite E in H. exact H.
Qed.
Lemma sat_high_tol0 : forall c v, sat_high_tol 0 c v = true -> sat_high c v.
Proof.
  destruct c; simpl; intros v H; try tauto; try discriminate.
  apply Qle_bool_iff in H. assert (E : q + 0 * (1 + Qabs q) == q) by ring. rewrite E in H. exact H.
Qed.

Theorem check_unit_sound_fitted : forall d radius ps modes g start out cost,
  check_unit d radius ps modes g start out cost 0 = 0%N ->
  forallb is_nan cost = false ->
  exists s o, all_fin2 start = Some s /\ all_fin2 out = Some o /\
    qcols_eqb (unpack modes g (pack 0 hd0 modes g o) s) o = true /\
    Forall2 sat_low (box_low (validate_bounds d radius ps) modes g s) (pack 0 hd0 modes g o) /\
    Forall2 sat_high (box_high (validate_bounds d radius ps) modes g s) (pack 0 hd0 modes g o).
Proof.
  intros d radius ps modes g start out cost H NF. unfold check_unit in H.
  destruct (negb _); [discriminate|]. rewrite NF in H.
  destruct (existsb is_nan cost); [discriminate|].
  destruct (all_fin2 start) as [s|]; [|discriminate].
  destruct (all_fin2 out) as [o|]; [|discriminate].
  destruct (all_fin cost) as [[|c0 cs]|]; try discriminate.
  destruct (negb (forallb (Qeq_bool c0) cs && Qle_bool 0 c0)); [discriminate|].
  destruct (negb (qcols_eqb _ _)) eqn:U; [discriminate|].
  destruct (forallb2 (sat_low_tol 0) _ _) eqn:L; [|discriminate].
  destruct (forallb2 (sat_high_tol 0) _ _) eqn:Hh; [|discriminate].
  exists s, o. repeat split; auto.
  - apply negb_false_iff in U. exact U.
  - apply forallb2_Forall2 in L. eapply Forall2_impl; [|exact L]. apply sat_low_tol0.
  - apply forallb2_Forall2 in Hh. eapply Forall2_impl; [|exact Hh]. apply sat_high_tol0.
Qed.

Theorem check_unit_sound_failed : forall d radius ps modes g start out cost tol,
  check_unit d radius ps modes g start out cost tol = 0%N ->
  forallb is_nan cost = true ->
  cols_eqb start out = true.
Proof.
  intros d radius ps modes g start out cost tol H NF. unfold check_unit in H.
  destruct (negb _); [discriminate|]. rewrite NF in H.
  destruct (cols_eqb start out); [reflexivity | discriminate].
Qed.
