(* C20, route T, tables WITH a column 'z': the stages built on the functions generated from
   trackpy/filtering.py / utils.py (Proofs/TrajGen.v: g_link, g_compute_drift, g_subtract_drift,
   g_cluster call the generated guess_pos_columns and pandas_sort; the filters ARE the generated
   filters) equal the z-aware layout model Model/TrajLayout3.v on EVERY schema, and the
   composition theorems of Proofs/TrajGen.v hold without the hypothesis `no column z`:
   the only hypothesis left is traj_cols (frame, particle, x, y, size are columns) -- a table
   with a column 'z' then has all of z, y, x, which is all guess_pos_columns asks for. *)
From Coq Require Import ZArith QArith String List Bool Lia.
From TP Require Import Model.TrajFilter Model.TrajLayout Model.TrajLayout3 Model.TrajData Model.PyFiltering
                       Gen.filtering Proofs.TrajFilter Proofs.TrajLayout Proofs.TrajData Proofs.TrajGen.
Import ListNotations.
Local Open Scope string_scope.

(* ---- the z-aware model is the 2-D model on tables without 'z' ------------------------------- *)
Lemma guess_pos_2d s : has_col "z" s = false -> guess_pos s = pos_columns.
Proof. unfold guess_pos. now intros ->. Qed.

Lemma compute_drift3_2d v s : has_col "z" s = false -> st_compute_drift3 v s = st_compute_drift v s.
Proof. intros Hz. unfold st_compute_drift3. rewrite (guess_pos_2d _ Hz). reflexivity. Qed.

Lemma bind_ext o f g : (forall s, o = Ok s -> f s = g s) -> o >>= f = o >>= g.
Proof. intros H. destruct o; cbn; [now apply H|reflexivity..]. Qed.

Lemma compute_drift_cols_v v s d : st_compute_drift v s = Ok d -> cols d = pos_columns.
Proof.
  unfold st_compute_drift. intros H.
  apply bind_ok in H as (fs & _ & H). apply bind_const_ok in H. now subst.
Qed.

Theorem run_producer3_2d v p s : has_col "z" s = false -> run_producer3 v p s = run_producer v p s.
Proof.
  intros Hz. destruct p; cbn [run_producer3 run_producer]; try reflexivity.
  - unfold st_link3. now rewrite (guess_pos_2d _ Hz).
  - unfold st_link3. now rewrite (guess_pos_2d _ Hz).
  - unfold st_subtract_drift3, st_subtract_drift. rewrite (compute_drift3_2d _ _ Hz).
    apply bind_ext. intros d Hd. now rewrite (compute_drift_cols_v _ _ _ Hd).
Qed.

Theorem run_consumer3_2d c s : has_col "z" s = false -> run_consumer3 fixed c s = run_consumer fixed c s.
Proof.
  intros Hz. destruct c as [p| | | | | | |]; cbn [run_consumer3 run_consumer]; try reflexivity.
  - now apply run_producer3_2d.
  - now apply compute_drift3_2d.
  - unfold st_cluster3, st_cluster. now rewrite (guess_pos_2d _ Hz).
Qed.

(* ---- generated = z-aware model, for every schema --------------------------------------------- *)
Lemma gen_guess_is_guess_pos s : py_guess_pos_columns SchemaI s = guess_pos s.
Proof. rewrite gen_guess_pos_columns_schema. reflexivity. Qed.

Lemma g_link_eq3 s : g_link s = of_outcome (st_link3 fixed s).
Proof.
  unfold g_link, st_link3. rewrite gen_guess_is_guess_pos. cbv zeta.
  rewrite !of_outcome_bind, !rbind_assoc. repeat (apply rbind_ext; intros ?).
  now rewrite g_sort_inplace_eq.
Qed.

Lemma g_compute_drift_eq3 s : g_compute_drift s = of_outcome (st_compute_drift3 fixed s).
Proof.
  unfold g_compute_drift, st_compute_drift3. cbn [drift_sorts_copy fixed].
  rewrite gen_guess_is_guess_pos. cbv zeta.
  rewrite !of_outcome_bind, !rbind_assoc. repeat (apply rbind_ext; intros ?).
  rewrite g_sort_returned_eq. apply rbind_ext. intros fs. rewrite !of_outcome_bind, !rbind_assoc. reflexivity.
Qed.

Lemma g_subtract_drift_eq3 s : g_subtract_drift s = of_outcome (st_subtract_drift3 fixed s).
Proof.
  unfold g_subtract_drift, st_subtract_drift3. rewrite g_compute_drift_eq3.
  destruct (st_compute_drift3 fixed s) as [d| |]; reflexivity.
Qed.

Lemma g_cluster_eq3 s : g_cluster s = of_outcome (st_cluster3 fixed s).
Proof. unfold g_cluster, st_cluster3. cbn [cluster_by_values fixed]. now rewrite gen_guess_is_guess_pos. Qed.

Theorem g_run_producer_eq3 a p s : to_outcome (g_run_producer a p s) = Some (run_producer3 fixed p s).
Proof.
  destruct p; cbn [g_run_producer run_producer3].
  - rewrite g_link_eq3. apply to_of_outcome.
  - rewrite g_link_eq3. apply to_of_outcome.
  - apply gen_filter_stubs_schema.
  - apply gen_filter_clusters_schema.
  - rewrite g_subtract_drift_eq3. apply to_of_outcome.
Qed.

Theorem g_run_consumer_eq3 a c s : to_outcome (g_run_consumer a c s) = Some (run_consumer3 fixed c s).
Proof.
  destruct c as [p| | | | | | |]; cbn [g_run_consumer run_consumer3]; try apply to_of_outcome.
  - apply g_run_producer_eq3.
  - rewrite g_compute_drift_eq3. apply to_of_outcome.
Qed.

Theorem gen_stages_equal_model3 a s :
  (forall p, to_outcome (g_run_producer a p s) = Some (run_producer3 fixed p s)) /\
  (forall c, to_outcome (g_run_consumer a c s) = Some (run_consumer3 fixed c s)).
Proof. split; intros; [apply g_run_producer_eq3|apply g_run_consumer_eq3]. Qed.

(* ---- every stage of the z-aware model accepts every trajectory table ------------------------- *)
Ltac cols_facts3 H := destruct H as (Hf & Hp & Hx & Hy & Hs).
Ltac in_cols3 := let c := fresh in let Hc := fresh in
  intros c Hc; cbn in Hc; repeat (destruct Hc as [<-|Hc]; [assumption|]); contradiction.

Lemma guess_pos_present s : traj_cols s -> forall c, In c (guess_pos s) -> has_col c s = true.
Proof.
  intros H. cols_facts3 H. unfold guess_pos. destruct (has_col "z" s) eqn:Hz; in_cols3.
Qed.

Lemma compute_drift_accepts3 s : traj_cols s ->
  st_compute_drift3 fixed s = Ok {| idx := [Some "frame"]; cols := guess_pos s |}.
Proof.
  intros H. cols_facts3 H.
  unfold st_compute_drift3, select, guess_pos. cbn [drift_sorts_copy fixed].
  destruct (has_col "z" s) eqn:Hz; (rewrite getitems_ok by in_cols3); reflexivity.
Qed.

Theorem producer_accepts3 p s : traj_cols s ->
  run_producer3 fixed p s = Ok {| idx := next_idx p (idx s); cols := cols s |}.
Proof.
  intros H. pose proof H as H0. pose proof (guess_pos_present s H) as Hg. cols_facts3 H.
  assert (Hadd : forall i, add_col "particle" {| idx := i; cols := cols s |} = Ok {| idx := i; cols := cols s |}).
  { intros i. unfold add_col.
    change (has_col "particle" {| idx := i; cols := cols s |}) with (has_col "particle" s).
    now rewrite Hp. }
  assert (Hlink : st_link3 fixed s = Ok {| idx := next_idx PLink (idx s); cols := cols s |}).
  { unfold st_link3. rewrite getitems_ok by exact Hg. cbn [bind].
    rewrite getitem_ok by exact Hf. cbn [bind].
    rewrite pandas_sort_frame by exact Hf. cbn [bind]. apply Hadd. }
  destruct p; cbn [run_producer3 next_idx].
  - exact Hlink.
  - exact Hlink.
  - exact (producer_accepts PFilterStubs s H0).
  - exact (producer_accepts PFilterClusters s H0).
  - unfold st_subtract_drift3. rewrite compute_drift_accepts3 by exact H0. cbn [bind cols].
    rewrite Hp. unfold TrajLayout.set_index. rewrite getitems_ok by in_cols3. cbn [bind].
    change (has_level "frame" {| idx := map Some ["frame"; "particle"]; cols := cols s |}) with true.
    cbn iota. cbn [map].
    apply getitems_ok. exact Hg.
Qed.

Theorem consumer_accepts3 c s : traj_cols s -> exists s', run_consumer3 fixed c s = Ok s'.
Proof.
  intros H. pose proof H as H0. destruct c as [p| | | | | | |]; cbn [run_consumer3];
    try exact (consumer_accepts _ s H).
  - eexists. now apply producer_accepts3.
  - eexists. now apply compute_drift_accepts3.
  - pose proof (guess_pos_present s H) as Hg. cols_facts3 H. unfold st_cluster3. cbn [cluster_by_values fixed].
    rewrite getitem_ok by exact Hf. cbn [bind].
    rewrite getitems_ok by exact Hg. cbn [bind]. unfold add_col. cbn [bind].
    eexists. reflexivity.
Qed.

Theorem pipeline_runs3 ps : forall s, traj_cols s ->
  run_pipeline3 fixed ps s = Ok {| idx := pipeline_idx ps (idx s); cols := cols s |}.
Proof.
  induction ps as [|p ps IH]; intros s H; cbn [run_pipeline3 pipeline_idx].
  - now destruct s.
  - rewrite producer_accepts3 by exact H. cbn [bind].
    rewrite IH by (apply traj_cols_same_cols; exact H). reflexivity.
Qed.

Theorem compose3 ps s : traj_cols s ->
  exists s', run_pipeline3 fixed ps s = Ok s' /\ traj_cols s' /\ cols s' = cols s /\
             forall c, exists r, run_consumer3 fixed c s' = Ok r.
Proof.
  intros H. eexists. split; [now apply pipeline_runs3|]. split; [exact H|]. split; [reflexivity|].
  intros c. apply consumer_accepts3. exact H.
Qed.

(* ---- the same for the pipelines of generated stages: no hypothesis about 'z' ------------------- *)
Section GenCompose3.
  Variable a : filter_args.

  Lemma g_producer_accepts3 p s : traj_cols s ->
    g_run_producer a p s = ROk {| idx := next_idx p (idx s); cols := cols s |}.
  Proof.
    intros H. apply to_outcome_ok. rewrite g_run_producer_eq3. now rewrite producer_accepts3.
  Qed.

  Theorem g_pipeline_runs3 ps : forall s, traj_cols s ->
    g_run_pipeline a ps s = ROk {| idx := pipeline_idx ps (idx s); cols := cols s |}.
  Proof.
    induction ps as [|p ps IH]; intros s H; cbn [g_run_pipeline pipeline_idx].
    - now destruct s.
    - rewrite g_producer_accepts3 by assumption. cbn [rbind].
      rewrite IH by assumption. reflexivity.
  Qed.

  Theorem g_compose3 ps s : traj_cols s ->
    exists s', g_run_pipeline a ps s = ROk s' /\ traj_cols s' /\ cols s' = cols s /\
               forall c, exists r, g_run_consumer a c s' = ROk r.
  Proof.
    intros H. eexists. split; [now apply g_pipeline_runs3|]. split; [exact H|]. split; [reflexivity|].
    intros c. destruct (consumer_accepts3 c {| idx := pipeline_idx ps (idx s); cols := cols s |} H) as (r & Hr).
    exists r. apply to_outcome_ok. rewrite g_run_consumer_eq3. now rewrite Hr.
  Qed.

  Theorem g_reachable_from_default3 ps s s' :
    traj_cols s -> idx s = [None] -> g_run_pipeline a ps s = ROk s' ->
    In (idx s') reachable_layouts /\ cols s' = cols s.
  Proof.
    intros H Hi R. rewrite g_pipeline_runs3 in R by assumption. injection R as <-. cbn [idx cols].
    split; [|reflexivity]. apply reachable. rewrite Hi. now left.
  Qed.

  Theorem g_pipeline_eq3 ps s : traj_cols s ->
    to_outcome (g_run_pipeline a ps s) = Some (run_pipeline3 fixed ps s).
  Proof. intros H. now rewrite g_pipeline_runs3, pipeline_runs3. Qed.
End GenCompose3.

(* what guess_pos_columns answers and what compute_drift returns for a trajectory table with 'z' *)
Theorem gen_3d_answers a s : traj_cols s -> has_col "z" s = true ->
  py_guess_pos_columns SchemaI s = ["z"; "y"; "x"] /\
  g_run_consumer a CComputeDrift s = ROk {| idx := [Some "frame"]; cols := ["z"; "y"; "x"] |}.
Proof.
  intros H Hz. split.
  - rewrite gen_guess_is_guess_pos. unfold guess_pos. now rewrite Hz.
  - cbn [g_run_consumer]. rewrite g_compute_drift_eq3, compute_drift_accepts3 by exact H.
    unfold guess_pos. now rewrite Hz.
Qed.
