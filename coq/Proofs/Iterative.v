(* The iterative subnet solvers (nonrecursive_link, _numba_subnet_norecur) compute the
   same thing as a recursive search (defunctionalisation), always terminate, and
   return a minimum-cost one-to-one assignment. *)
From Coq Require Import ZArith List Bool Lia.
From TP Require Import Model.Assign Model.Iterative Proofs.BnB.
Import ListNotations.
Open Scope Z_scope.

(* ---- 1. the machine is the defunctionalised recursive search ---- *)
Definition frame_val (ties up : bool) (lv : level) (b : best_t) : best_t :=
  sg ties up (l_rest lv) (l_cs lv) (l_taken lv) (l_cur lv) (l_path lv) b.
Definition unwind (ties up : bool) (s : mstate) : best_t :=
  fold_left (fun b lv => frame_val ties up lv b) (fst s) (snd s).

Lemma sg_nil ties up rest taken cur path b : sg ties up rest [] taken cur path b = b.
Proof. destruct rest; reflexivity. Qed.

Lemma sg_cons ties up rest d c cs' taken cur path b :
  sg ties up rest ((d, c) :: cs') taken cur path b =
  if exceeds (cur + c) b then b
  else if taken_b d taken then sg ties up rest cs' taken cur path b
  else match rest with
       | [] => let b' := improve_t ties (cur + c) ((d, c) :: path) b in
               if up then b' else sg ties up rest cs' taken cur path b'
       | cs2 :: rest2 => sg ties up rest cs' taken cur path
                            (sg ties up rest2 cs2 (add_taken d taken) (cur + c) ((d, c) :: path) b)
       end.
Proof. destruct rest; reflexivity. Qed.

Ltac same_below := match goal with |- fold_left ?F ?l ?a = fold_left ?F ?l ?b => apply (f_equal (fold_left F l)) end.

Lemma mstep_unwind ties up s : unwind ties up (mstep ties up s) = unwind ties up s.
Proof.
  destruct s as [stk best]. destruct stk as [|lv below]; [reflexivity|].
  destruct lv as [cs rest taken cur path]. unfold unwind, mstep. cbn [fst snd l_cs l_rest l_taken l_cur l_path].
  destruct cs as [|[d c] cs'].
  - cbn [fst snd fold_left]. same_below. unfold frame_val. cbn [l_cs l_rest l_taken l_cur l_path]. symmetry. apply sg_nil.
  - assert (E : frame_val ties up {| l_cs := (d, c) :: cs'; l_rest := rest; l_taken := taken; l_cur := cur; l_path := path |} best
               = if exceeds (cur + c) best then best
                 else if taken_b d taken then sg ties up rest cs' taken cur path best
                 else match rest with
                      | [] => let b' := improve_t ties (cur + c) ((d, c) :: path) best in
                              if up then b' else sg ties up rest cs' taken cur path b'
                      | cs2 :: rest2 => sg ties up rest cs' taken cur path
                                           (sg ties up rest2 cs2 (add_taken d taken) (cur + c) ((d, c) :: path) best)
                      end).
    { unfold frame_val. cbn [l_cs l_rest l_taken l_cur l_path]. apply sg_cons. }
    destruct (exceeds (cur + c) best).
    { cbn [fst snd fold_left]. same_below. symmetry. exact E. }
    destruct (taken_b d taken).
    { cbn [fst snd fold_left]. same_below. refine (eq_trans _ (eq_sym E)). reflexivity. }
    destruct rest as [|cs2 rest2].
    + cbn zeta in *. destruct up; cbn [fst snd fold_left]; same_below; refine (eq_trans _ (eq_sym E)); reflexivity.
    + cbn [fst snd fold_left]. same_below. refine (eq_trans _ (eq_sym E)). reflexivity.
Qed.

(* ---- 2. termination: every iteration consumes one unit of cost_stk ---- *)
Lemma cost_lv_cons d cs rest taken cur path :
  cost_lv {| l_cs := d :: cs; l_rest := rest; l_taken := taken; l_cur := cur; l_path := path |}
  = (cost_lv {| l_cs := cs; l_rest := rest; l_taken := taken; l_cur := cur; l_path := path |} + S (cost_full rest))%nat.
Proof. unfold cost_lv. cbn [l_cs l_rest length]. lia. Qed.

Lemma mstep_decreases ties up stk best :
  stk <> [] -> (cost_stk (fst (mstep ties up (stk, best))) < cost_stk stk)%nat.
Proof.
  destruct stk as [|lv below]; [congruence|]. intros _.
  destruct lv as [cs rest taken cur path]. unfold mstep. cbn [l_cs l_rest l_taken l_cur l_path].
  destruct cs as [|[d c] cs'].
  - cbn [fst cost_stk fold_right]. unfold cost_lv. lia.
  - destruct (exceeds (cur + c) best); [cbn [fst cost_stk fold_right]; unfold cost_lv; lia|].
    destruct (taken_b d taken); [cbn [fst cost_stk fold_right]; rewrite cost_lv_cons; lia|].
    destruct rest as [|cs2 rest2].
    + destruct up; cbn [fst cost_stk fold_right]; rewrite cost_lv_cons; unfold cost_lv; lia.
    + cbn [fst cost_stk fold_right]. rewrite (cost_lv_cons (d, c) cs').
      assert (E : cost_lv {| l_cs := cs2; l_rest := rest2; l_taken := add_taken d taken; l_cur := cur + c; l_path := (d, c) :: path |}
                  = cost_full (cs2 :: rest2)) by reflexivity.
      rewrite E. lia.
Qed.

Theorem mrun_terminates ties up : forall fuel s,
  (cost_stk (fst s) <= fuel)%nat -> mrun ties up fuel s = Some (unwind ties up s).
Proof.
  induction fuel as [|fuel IH]; intros [stk best] H; cbn [fst] in H.
  - destruct stk as [|lv below]; [reflexivity|]. cbn in H. unfold cost_lv in H. lia.
  - destruct stk as [|lv below]; [reflexivity|].
    cbn [mrun fst]. rewrite IH.
    + rewrite mstep_unwind. reflexivity.
    + pose proof (mstep_decreases ties up (lv :: below) best ltac:(discriminate)). lia.
Qed.

Corollary machine_is_recursive_search ties up srcs :
  mrun ties up (cost_full srcs) (minit srcs) = Some (solve_g ties up srcs).
Proof.
  destruct srcs as [|cs rest].
  - reflexivity.
  - rewrite mrun_terminates.
    + unfold unwind, minit, frame_val. cbn. reflexivity.
    + unfold minit. cbn [fst cost_stk fold_right]. unfold cost_lv. cbn [l_cs l_rest cost_full]. rewrite Nat.add_0_r. apply le_n.
Qed.

(* ---- 3. (false,false) is literally the recursive solver of Model/Assign ---- *)
Lemma improve_false v p b : improve_t false v p b = improve v p b.
Proof. reflexivity. Qed.

Lemma sg_ff_is_loop : forall rest cs taken cur path b,
  sg false false rest cs taken cur path b = loop rest taken cur path cs b.
Proof.
  induction rest as [|cs2 rest2 IH]; intros cs taken cur path b.
  - induction cs as [|[d c] cs' IHcs] in b |- *; [reflexivity|].
    rewrite sg_cons. cbn [loop]. destruct (exceeds (cur + c) b); [reflexivity|].
    destruct (taken_b d taken); [apply IHcs|]. cbn zeta. rewrite IHcs. reflexivity.
  - induction cs as [|[d c] cs' IHcs] in b |- *; [reflexivity|].
    rewrite sg_cons. cbn [loop]. destruct (exceeds (cur + c) b); [reflexivity|].
    destruct (taken_b d taken); [apply IHcs|]. rewrite IHcs, IH. reflexivity.
Qed.

Theorem nonrecursive_is_recursive srcs :
  srcs <> [] -> nonrecursive_link (cost_full srcs) srcs = Some (solve srcs).
Proof.
  intros Hne. unfold nonrecursive_link. rewrite machine_is_recursive_search.
  destruct srcs as [|cs rest]; [congruence|]. unfold solve_g, solve. rewrite sg_ff_is_loop. reflexivity.
Qed.

(* ---- 4. optimality of the general search (both switches) ---- *)
Lemma improve_t_mono ties v p b : mono b (improve_t ties v p b).
Proof.
  unfold mono, improve_t, value_le. destruct b as [[bv bp]|]; [|tauto].
  intros w Hw. destruct ties.
  - destruct (v <=? bv) eqn:E; cbn in *; [apply Z.leb_le in E; lia|exact Hw].
  - destruct (v <? bv) eqn:E; cbn in *; [apply Z.ltb_lt in E; lia|exact Hw].
Qed.

Lemma improve_t_le ties v p b : value_le (improve_t ties v p b) v.
Proof.
  unfold improve_t, value_le. destruct b as [[bv bp]|]; [|cbn; lia].
  destruct ties.
  - destruct (v <=? bv) eqn:E; cbn; [lia|apply Z.leb_gt in E; lia].
  - destruct (v <? bv) eqn:E; cbn; [lia|apply Z.ltb_ge in E; lia].
Qed.

Lemma mono_refl b : mono b b. Proof. intros v H; exact H. Qed.
Lemma mono_trans a b c : mono a b -> mono b c -> mono a c.
Proof. intros H1 H2 v H. apply H2, H1, H. Qed.

Lemma sg_mono ties up : forall rest cs taken cur path b, mono b (sg ties up rest cs taken cur path b).
Proof.
  induction rest as [|cs2 rest2 IH]; intros cs taken cur path b.
  - induction cs as [|[d c] cs' IHcs] in b |- *; [rewrite sg_nil; apply mono_refl|].
    rewrite sg_cons. destruct (exceeds (cur + c) b); [apply mono_refl|].
    destruct (taken_b d taken); [apply IHcs|]. cbn zeta.
    destruct up; [apply improve_t_mono|]. eapply mono_trans; [apply improve_t_mono|apply IHcs].
  - induction cs as [|[d c] cs' IHcs] in b |- *; [rewrite sg_nil; apply mono_refl|].
    rewrite sg_cons. destruct (exceeds (cur + c) b); [apply mono_refl|].
    destruct (taken_b d taken); [apply IHcs|]. eapply mono_trans; [apply IH|apply IHcs].
Qed.

Theorem sg_le_all ties up : forall rest cs,
  nonneg (cs :: rest) -> Forall sorted (cs :: rest) ->
  forall taken cur path b sigma,
    completion (cs :: rest) taken sigma ->
    value_le (sg ties up rest cs taken cur path b) (cur + total sigma).
Proof.
  induction rest as [|cs2 rest2 IH]; intros cs Hn Hs taken cur path b sigma Hc.
  - (* last source *)
    inversion Hc as [|? ? ? d c sig Hin Ht Hrest]; subst. inversion Hrest; subst. rewrite total_cons, total_nil.
    inversion Hs as [|? ? Hscs _]; subst. clear Hc Hrest Hn Hs.
    revert b Hin. induction cs as [|[d0 c0] cs' IHcs]; intros b Hin; [inversion Hin|].
    inversion Hscs as [|? ? Hle Hs']; subst.
    assert (Hc0 : c0 <= c).
    { destruct Hin as [E|Hin]; [inversion E; lia|]. rewrite Forall_forall in Hle. specialize (Hle _ Hin). exact Hle. }
    rewrite sg_cons. destruct (exceeds (cur + c0) b) eqn:Eex.
    + unfold exceeds in Eex. destruct b as [[bv bp]|]; [|discriminate]. apply Z.ltb_lt in Eex. cbn. lia.
    + destruct Hin as [E|Hin].
      * inversion E; subst d0 c0. rewrite Ht. cbn zeta.
        destruct up.
        -- pose proof (improve_t_le ties (cur + c) ((d, c) :: path) b). unfold value_le in *. destruct (improve_t _ _ _ _) as [[v p]|]; [lia|contradiction].
        -- apply (sg_mono ties false [] cs' taken cur path). pose proof (improve_t_le ties (cur + c) ((d, c) :: path) b) as H.
           unfold value_le in *. destruct (improve_t _ _ _ _) as [[v p]|]; [lia|contradiction].
      * destruct (taken_b d0 taken); [apply IHcs; assumption|]. cbn zeta.
        destruct up.
        -- (* the level is abandoned after this leaf: everything that follows costs at least c0 *)
           pose proof (improve_t_le ties (cur + c0) ((d0, c0) :: path) b) as H.
           unfold value_le in *. destruct (improve_t _ _ _ _) as [[v p]|]; [lia|contradiction].
        -- apply IHcs; assumption.
  - inversion Hn as [|? ? Hncs Hnrest]; subst. inversion Hs as [|? ? Hscs Hsrest]; subst.
    inversion Hc as [|? ? ? d c sig Hin Ht Hrest]; subst. rewrite total_cons.
    assert (Htn : 0 <= total sig) by (eapply total_nonneg; eassumption).
    clear Hc. revert b Hin. induction cs as [|[d0 c0] cs' IHcs]; intros b Hin; [inversion Hin|].
    inversion Hscs as [|? ? Hle Hs']; subst. inversion Hncs as [|? ? Hn0 Hn']; subst.
    assert (Hn2 : nonneg (cs' :: cs2 :: rest2)) by (constructor; assumption).
    assert (Hs2 : Forall sorted (cs' :: cs2 :: rest2)) by (constructor; assumption).
    rewrite sg_cons. destruct (exceeds (cur + c0) b) eqn:Eex.
    + assert (c0 <= c).
      { destruct Hin as [E|Hin]; [inversion E; lia|]. rewrite Forall_forall in Hle. specialize (Hle _ Hin). exact Hle. }
      unfold exceeds in Eex. destruct b as [[bv bp]|]; [|discriminate]. apply Z.ltb_lt in Eex. cbn. lia.
    + destruct Hin as [E|Hin].
      * inversion E; subst d0 c0. rewrite Ht. apply sg_mono.
        replace (cur + (c + total sig)) with ((cur + c) + total sig) by lia.
        apply IH; assumption.
      * destruct (taken_b d0 taken); apply IHcs; assumption.
Qed.

Theorem sg_sound ties up : forall rest cs taken cur path b v a,
  sg ties up rest cs taken cur path b = Some (v, a) ->
  b = Some (v, a) \/
  exists sigma, completion (cs :: rest) taken sigma /\ v = cur + total sigma /\ a = rev path ++ sigma.
Proof.
  induction rest as [|cs2 rest2 IH]; intros cs taken cur path b v a H.
  - assert (Hgen : forall cs0, incl cs0 cs -> forall b, sg ties up [] cs0 taken cur path b = Some (v, a) ->
        b = Some (v, a) \/ exists sigma, completion [cs] taken sigma /\ v = cur + total sigma /\ a = rev path ++ sigma).
    { clear H b. induction cs0 as [|[d c] cs' IHcs]; intros Hincl b H; [rewrite sg_nil in H; left; exact H|].
      assert (Hincl' : incl cs' cs) by (intros x Hx; apply Hincl; right; exact Hx).
      rewrite sg_cons in H. destruct (exceeds (cur + c) b); [left; exact H|].
      destruct (taken_b d taken) eqn:Et; [apply IHcs; assumption|]. cbn zeta in H.
      assert (Himp : forall b', improve_t ties (cur + c) ((d, c) :: path) b = b' -> b' = Some (v, a) ->
                b = Some (v, a) \/ exists sigma, completion [cs] taken sigma /\ v = cur + total sigma /\ a = rev path ++ sigma).
      { intros b' Hb' Hv. subst b'. unfold improve_t in Hv. 
        assert (Hnew : Some (cur + c, rev ((d, c) :: path)) = Some (v, a) ->
                 exists sigma, completion [cs] taken sigma /\ v = cur + total sigma /\ a = rev path ++ sigma).
        { intros E. inversion E; subst. exists [(d, c)]. split; [constructor; [apply Hincl; left; reflexivity|exact Et|constructor]|].
          split; [unfold total; cbn; lia|reflexivity]. }
        destruct b as [[bv bp]|]; [|right; apply Hnew; exact Hv].
        destruct (if ties then cur + c <=? bv else cur + c <? bv); [right; apply Hnew; exact Hv|left; exact Hv]. }
      destruct up.
      - eapply Himp; [reflexivity|exact H].
      - destruct (IHcs Hincl' _ H) as [Hb|Hex]; [|right; exact Hex]. eapply Himp; [reflexivity|exact Hb]. }
    apply (Hgen cs (incl_refl cs) b H).
  - assert (Hgen : forall cs0, incl cs0 cs -> forall b, sg ties up (cs2 :: rest2) cs0 taken cur path b = Some (v, a) ->
        b = Some (v, a) \/ exists sigma, completion (cs :: cs2 :: rest2) taken sigma /\ v = cur + total sigma /\ a = rev path ++ sigma).
    { clear H b. induction cs0 as [|[d c] cs' IHcs]; intros Hincl b H; [rewrite sg_nil in H; left; exact H|].
      assert (Hincl' : incl cs' cs) by (intros x Hx; apply Hincl; right; exact Hx).
      rewrite sg_cons in H. destruct (exceeds (cur + c) b); [left; exact H|].
      destruct (taken_b d taken) eqn:Et; [apply IHcs; assumption|].
      destruct (IHcs Hincl' _ H) as [Hb|Hex]; [|right; exact Hex].
      destruct (IH _ _ _ _ _ _ _ Hb) as [Hb'|[sigma [Hc [Hv Ha]]]]; [left; exact Hb'|].
      right. exists ((d, c) :: sigma). split; [constructor; [apply Hincl; left; reflexivity|exact Et|exact Hc]|].
      split; [rewrite total_cons; lia|]. rewrite Ha. cbn. rewrite <- app_assoc. reflexivity. }
    apply (Hgen cs (incl_refl cs) b H).
Qed.

(* Both iterative solvers, run for cost_full iterations, return a one-to-one assignment
   of minimal total cost (equal to the recursive solver's optimum). *)
Theorem iterative_optimal ties up srcs v a :
  srcs <> [] -> nonneg srcs -> Forall sorted srcs ->
  mrun ties up (cost_full srcs) (minit srcs) = Some (Some (v, a)) ->
  completion srcs [] a /\ v = total a /\ (forall sigma, completion srcs [] sigma -> v <= total sigma).
Proof.
  intros Hne Hn Hs H. rewrite machine_is_recursive_search in H. inversion H as [H'].
  destruct srcs as [|cs rest]; [congruence|]. unfold solve_g in H'.
  destruct (sg_sound _ _ _ _ _ _ _ _ _ _ H') as [Hb|[sigma [Hc [Hv Ha]]]]; [discriminate|].
  cbn in Ha. subst a. split; [exact Hc|split; [lia|]].
  intros sigma' Hc'. pose proof (sg_le_all ties up rest cs Hn Hs [] 0 [] None sigma' Hc') as Hle.
  rewrite H' in Hle. cbn in Hle. lia.
Qed.
