(* C12, route T, last gap: the recursion over split_subnet's splitter and the model's recursion give the same RESULT.

   asplit_g (py_splitter a R2) (what the generated adaptive_link_wrap over the generated split_subnet computes:
   Proofs/AdaptiveGen2.gen_adaptive_is_asplit_g) and Model/Adaptive.asplit list their leaves in different orders (the
   dictionary's order, not add_item's), list the sources inside a leaf in different orders, and the former has one
   extra source-less leaf per destination no source reaches any more.  Here:

     leaf_eq / leaves_equiv / res_equiv   the equivalence on results: the leaves that have a source are the same up to
                                  the order of the leaves and the order of the sources inside a leaf; raise iff raise
     components_perm              Link.components does not depend on the order of the items (as a partition)
     asplit_g_py_equiv            asplit_g (py_splitter a R2) ~ asplit, for all inputs
     solve_group_total_perm       the optimal total cost does not depend on the order of the sources
     leaves_equiv_solved          equivalent leaf lists: same sources, same total cost, and each leaf of one side is solved
                                  by an optimal assignment of the corresponding leaf of the other side
     gen_adaptive_is_asplit       ONE theorem for the generated code with only Model/Adaptive.asplit on the right *)
From Coq Require Import ZArith List Bool Arith Lia Permutation.
From TP Require Import Model.Assign Model.Link Model.LinkCheck Model.Adaptive Model.SubnetMerge Model.SplitSubnet
     Model.Strategies Model.PyAdaptive Model.Adaptive2 Gen.adaptive
     Proofs.BnB Proofs.Opt Proofs.Cands Proofs.Comps Proofs.Connected Proofs.Step Proofs.SubnetMerge Proofs.SplitMerge
     Proofs.SplitIndep Proofs.Adaptive Proofs.AdaptiveGen Proofs.AdaptiveGen2.
Import ListNotations.

(* ================= the equivalence on results ================= *)
(* a leaf without a source links nothing (split_subnet returns one per destination left alone) *)
Definition live_leaf (lf : aleaf) : bool := match lf with Leaf _ [] => false | _ => true end.

Inductive leaf_eq : aleaf -> aleaf -> Prop :=
| leq_leaf k g g' : Permutation g g' -> leaf_eq (Leaf k g) (Leaf k g')
| leq_drop i : leaf_eq (Dropped i) (Dropped i)
| leq_fuel : leaf_eq OutOfFuel OutOfFuel.

(* the same leaves up to their order and the order of the sources inside each *)
Definition lperm (l1 l2 : list aleaf) : Prop := exists l, Permutation l1 l /\ Forall2 leaf_eq l l2.
Definition leaves_equiv (l1 l2 : list aleaf) : Prop := lperm (filter live_leaf l1) (filter live_leaf l2).
Definition res_equiv (r1 r2 : result (list aleaf)) : Prop :=
  match r1, r2 with
  | Oversize, Oversize => True
  | Ok l1, Ok l2 => leaves_equiv l1 l2
  | _, _ => False
  end.

Lemma leaf_eq_refl x : leaf_eq x x.
Proof. destruct x; constructor. apply Permutation_refl. Qed.
Lemma leaf_eq_sym x y : leaf_eq x y -> leaf_eq y x.
Proof. destruct 1; constructor. apply Permutation_sym. assumption. Qed.
Lemma leaf_eq_trans x y z : leaf_eq x y -> leaf_eq y z -> leaf_eq x z.
Proof. intros H1 H2. destruct H1; inversion H2; subst; constructor. eapply Permutation_trans; eassumption. Qed.

Lemma Forall2_perm_r {A B} (R : A -> B -> Prop) m m' : Permutation m m' ->
  forall l, Forall2 R l m -> exists l', Permutation l l' /\ Forall2 R l' m'.
Proof.
  induction 1 as [|y m m' _ IH|y z m|m m1 m2 _ IH1 _ IH2]; intros l H.
  - inversion H; subst. exists []. split; constructor.
  - inversion H as [|x ? l0 ? Hxy H0]; subst. destruct (IH l0 H0) as [l' [P F]].
    exists (x :: l'). split; [apply perm_skip; exact P|constructor; assumption].
  - inversion H as [|x1 ? l0 ? Hx1 H0]; subst. inversion H0 as [|x2 ? l1 ? Hx2 H1]; subst.
    exists (x2 :: x1 :: l1). split; [apply perm_swap|repeat constructor; assumption].
  - destruct (IH1 l H) as [l1 [P1 F1]]. destruct (IH2 l1 F1) as [l2 [P2 F2]].
    exists l2. split; [eapply Permutation_trans; eassumption|exact F2].
Qed.

Lemma Forall2_leaf_refl l : Forall2 leaf_eq l l.
Proof. induction l; constructor; [apply leaf_eq_refl|assumption]. Qed.
Lemma Forall2_leaf_sym l m : Forall2 leaf_eq l m -> Forall2 leaf_eq m l.
Proof. induction 1; constructor; [apply leaf_eq_sym|]; assumption. Qed.
Lemma Forall2_leaf_trans l m : Forall2 leaf_eq l m -> forall n, Forall2 leaf_eq m n -> Forall2 leaf_eq l n.
Proof.
  induction 1 as [|x y l m Hxy _ IH]; intros n H; inversion H; subst; constructor; [eapply leaf_eq_trans; eassumption|].
  apply IH. assumption.
Qed.

Lemma lperm_perm l1 l2 : Permutation l1 l2 -> lperm l1 l2.
Proof. intros H. exists l2. split; [exact H|apply Forall2_leaf_refl]. Qed.
Lemma lperm_refl l : lperm l l.
Proof. apply lperm_perm. apply Permutation_refl. Qed.
Lemma lperm_trans a b c : lperm a b -> lperm b c -> lperm a c.
Proof.
  intros [a1 [Pa Fa]] [b1 [Pb Fb]]. destruct (Forall2_perm_r leaf_eq b b1 Pb a1 Fa) as [a2 [P2 F2]].
  exists a2. split; [eapply Permutation_trans; eassumption|eapply Forall2_leaf_trans; eassumption].
Qed.
Lemma lperm_sym a b : lperm a b -> lperm b a.
Proof.
  intros [a1 [Pa Fa]]. apply Forall2_leaf_sym in Fa.
  destruct (Forall2_perm_r leaf_eq a1 a (Permutation_sym Pa) b Fa) as [b1 [P1 F1]].
  exists b1. split; [exact P1|exact F1].
Qed.
Lemma lperm_app a a' b b' : lperm a a' -> lperm b b' -> lperm (a ++ b) (a' ++ b').
Proof.
  intros [a1 [Pa Fa]] [b1 [Pb Fb]]. exists (a1 ++ b1). split; [apply Permutation_app; assumption|apply Forall2_app; assumption].
Qed.

Lemma filter_perm {A} (p : A -> bool) l l' : Permutation l l' -> Permutation (filter p l) (filter p l').
Proof.
  induction 1 as [|x l l' _ IH|x y l|l l1 l2 _ IH1 _ IH2]; cbn.
  - constructor.
  - destruct (p x); [apply perm_skip|]; exact IH.
  - destruct (p x), (p y); try apply Permutation_refl. apply perm_swap.
  - eapply Permutation_trans; eassumption.
Qed.

Lemma leaves_equiv_refl l : leaves_equiv l l.
Proof. apply lperm_refl. Qed.
Lemma leaves_equiv_sym a b : leaves_equiv a b -> leaves_equiv b a.
Proof. apply lperm_sym. Qed.
Lemma leaves_equiv_trans a b c : leaves_equiv a b -> leaves_equiv b c -> leaves_equiv a c.
Proof. apply lperm_trans. Qed.
Lemma leaves_equiv_perm a b : Permutation a b -> leaves_equiv a b.
Proof. intros H. apply lperm_perm. apply filter_perm. exact H. Qed.
Lemma leaves_equiv_app a a' b b' : leaves_equiv a a' -> leaves_equiv b b' -> leaves_equiv (a ++ b) (a' ++ b').
Proof. unfold leaves_equiv. rewrite !filter_app. apply lperm_app. Qed.

Lemma res_equiv_refl r : res_equiv r r.
Proof. destruct r; cbn; [apply leaves_equiv_refl|exact I]. Qed.
Lemma res_equiv_sym a b : res_equiv a b -> res_equiv b a.
Proof. destruct a, b; cbn; try tauto. apply leaves_equiv_sym. Qed.
Lemma res_equiv_trans a b c : res_equiv a b -> res_equiv b c -> res_equiv a c.
Proof. destruct a, b, c; cbn; try tauto. apply leaves_equiv_trans. Qed.

(* ---- the sequencing of the parts, up to the equivalence ---- *)
Definition rapp (r1 r2 : result (list aleaf)) : result (list aleaf) :=
  match r1, r2 with Ok l, Ok l' => Ok (l ++ l') | _, _ => Oversize end.

Lemma seq_res_g_cons {A} (f : A -> result (list aleaf)) p ps tl :
  seq_res_g f (p :: ps) tl = rapp (f p) (seq_res_g f ps tl).
Proof. cbn [seq_res_g]. destruct (f p); [|reflexivity]. destruct (seq_res_g f ps tl); reflexivity. Qed.
Lemma seq_res_cons (f : group -> result (list aleaf)) p ps tl :
  seq_res f (p :: ps) tl = rapp (f p) (seq_res f ps tl).
Proof. cbn [seq_res]. destruct (f p); [|reflexivity]. destruct (seq_res f ps tl); reflexivity. Qed.

Lemma rapp_equiv a a' b b' : res_equiv a a' -> res_equiv b b' -> res_equiv (rapp a b) (rapp a' b').
Proof. destruct a, a', b, b'; cbn; try tauto. apply leaves_equiv_app. Qed.
Lemma rapp_swap a b c : res_equiv (rapp a (rapp b c)) (rapp b (rapp a c)).
Proof.
  destruct a as [la|], b as [lb|], c as [lc|]; cbn; try exact I.
  apply leaves_equiv_perm. rewrite !app_assoc. apply Permutation_app_tail. apply Permutation_app_comm.
Qed.
Lemma rapp_dead a b l : a = Ok l -> filter live_leaf l = [] -> res_equiv (rapp a b) b.
Proof.
  intros E Hl. subst a. destruct b as [lb|]; cbn; [|exact I].
  unfold leaves_equiv. rewrite filter_app, Hl. apply lperm_refl.
Qed.

Lemma seq_g_filter {A} (F : A -> result (list aleaf)) (lp : A -> bool) ps tl :
  (forall p, In p ps -> lp p = false -> exists l, F p = Ok l /\ filter live_leaf l = []) ->
  res_equiv (seq_res_g F ps tl) (seq_res_g F (filter lp ps) tl).
Proof.
  induction ps as [|p ps IH]; intros H; [apply res_equiv_refl|].
  assert (IH' : res_equiv (seq_res_g F ps tl) (seq_res_g F (filter lp ps) tl)).
  { apply IH. intros q Hq. apply H. right. exact Hq. }
  cbn [filter]. rewrite seq_res_g_cons. destruct (lp p) eqn:E.
  - rewrite seq_res_g_cons. apply rapp_equiv; [apply res_equiv_refl|exact IH'].
  - destruct (H p (or_introl eq_refl) E) as [l [El Hl]].
    eapply res_equiv_trans; [eapply rapp_dead; eassumption|exact IH'].
Qed.

Lemma seq_g_perm {A} (F : A -> result (list aleaf)) ps ps' tl :
  Permutation ps ps' -> res_equiv (seq_res_g F ps tl) (seq_res_g F ps' tl).
Proof.
  induction 1 as [|x l l' _ IH|x y l|l l1 l2 _ IH1 _ IH2].
  - apply res_equiv_refl.
  - rewrite !seq_res_g_cons. apply rapp_equiv; [apply res_equiv_refl|exact IH].
  - rewrite !seq_res_g_cons. apply rapp_swap.
  - eapply res_equiv_trans; eassumption.
Qed.

Lemma seq_g_match {A} (F : A -> result (list aleaf)) (F' : group -> result (list aleaf)) ps ms tl tl' :
  Forall2 (fun p m => res_equiv (F p) (F' m)) ps ms -> leaves_equiv tl tl' ->
  res_equiv (seq_res_g F ps tl) (seq_res F' ms tl').
Proof.
  intros H Ht. induction H as [|p m ps ms Hpm _ IH]; [exact Ht|].
  rewrite seq_res_g_cons, seq_res_cons. apply rapp_equiv; assumption.
Qed.

(* ================= matching two lists through a relation that is one-to-one on them ================= *)
Lemma perm_match {A B} (R : A -> B -> Prop) : forall (lb : list B) (la : list A),
  NoDup la -> NoDup lb ->
  (forall a, In a la -> exists b, In b lb /\ R a b) ->
  (forall b, In b lb -> exists a, In a la /\ R a b) ->
  (forall a a' b, In a la -> In a' la -> In b lb -> R a b -> R a' b -> a = a') ->
  (forall a b b', In a la -> In b lb -> In b' lb -> R a b -> R a b' -> b = b') ->
  exists la', Permutation la la' /\ Forall2 R la' lb.
Proof.
  induction lb as [|b lb IH]; intros la Na Nb Hab Hba Hinj1 Hinj2.
  - destruct la as [|a la]; [exists []; split; constructor|]. destruct (Hab a (or_introl eq_refl)) as [b [[] _]].
  - destruct (Hba b (or_introl eq_refl)) as [a [Ha Rab]].
    destruct (in_split a la Ha) as [l1 [l2 E]]. subst la.
    assert (Na' : NoDup (l1 ++ l2)) by (eapply NoDup_remove_1; exact Na).
    assert (Hna : ~ In a (l1 ++ l2)) by (eapply NoDup_remove_2; exact Na).
    inversion Nb as [|? ? Hnb Nb']; subst.
    assert (Hin : forall x, In x (l1 ++ l2) -> In x (l1 ++ a :: l2)).
    { intros x Hx. apply in_app_or in Hx. apply in_or_app. destruct Hx; [left|right; right]; assumption. }
    destruct (IH (l1 ++ l2) Na' Nb') as [la' [P F]].
    + intros x Hx. destruct (Hab x (Hin x Hx)) as [y [[Ey|Hy] Rxy]].
      * subst y. exfalso. apply Hna. rewrite (Hinj1 x a b (Hin x Hx) Ha (or_introl eq_refl) Rxy Rab) in Hx. exact Hx.
      * exists y. auto.
    + intros y Hy. destruct (Hba y (or_intror Hy)) as [x [Hx Rxy]].
      exists x. split; [|exact Rxy]. apply in_app_or in Hx. apply in_or_app.
      destruct Hx as [Hx|[Ex|Hx]]; [left; exact Hx| |right; exact Hx].
      subst x. exfalso. apply Hnb. rewrite (Hinj2 a b y Ha (or_introl eq_refl) (or_intror Hy) Rab Rxy). exact Hy.
    + intros x x' y Hx Hx' Hy. apply Hinj1; auto. right; exact Hy.
    + intros x y y' Hx Hy Hy'. apply Hinj2; auto; right; assumption.
    + exists (a :: la'). split; [|constructor; assumption].
      eapply Permutation_trans; [apply Permutation_sym; apply Permutation_middle|apply perm_skip; exact P].
Qed.

Lemma Forall2_impl_in {A B} (R R' : A -> B -> Prop) l m :
  Forall2 R l m -> (forall x y, In x l -> In y m -> R x y -> R' x y) -> Forall2 R' l m.
Proof.
  induction 1 as [|x y l m Hxy _ IH]; intros H; constructor.
  - apply H; [left; reflexivity|left; reflexivity|exact Hxy].
  - apply IH. intros x' y' Hx Hy. apply H; right; assumption.
Qed.

Lemma FOP_in {A} (R : A -> A -> Prop) l : ForallOrdPairs R l -> forall a b, In a l -> In b l -> a = b \/ R a b \/ R b a.
Proof.
  induction 1 as [|x l Hx _ IH]; intros a b Ha Hb; [destruct Ha|].
  rewrite Forall_forall in Hx. destruct Ha as [Ha|Ha], Hb as [Hb|Hb].
  - left. congruence.
  - subst a. right. left. apply Hx. exact Hb.
  - subst b. right. right. apply Hx. exact Ha.
  - apply IH; assumption.
Qed.
Lemma FOP_NoDup {A} (R : A -> A -> Prop) l : ForallOrdPairs R l -> (forall a, In a l -> ~ R a a) -> NoDup l.
Proof.
  induction 1 as [|x l Hx _ IH]; intros Hirr; constructor.
  - intros Hin. rewrite Forall_forall in Hx. apply (Hirr x (or_introl eq_refl)). apply Hx. exact Hin.
  - apply IH. intros a Ha. apply Hirr. right. exact Ha.
Qed.
Lemma FOP_map {A B} (f : A -> B) (R : B -> B -> Prop) l :
  ForallOrdPairs (fun x y => R (f x) (f y)) l -> ForallOrdPairs R (map f l).
Proof.
  induction 1 as [|x l Hx _ IH]; cbn; constructor; [|exact IH].
  rewrite Forall_forall in *. intros y Hy. apply in_map_iff in Hy. destruct Hy as [y0 [E Hy0]]. subst y. apply Hx. exact Hy0.
Qed.
Lemma FOP_filter {A} (p : A -> bool) (R : A -> A -> Prop) l : ForallOrdPairs R l -> ForallOrdPairs R (filter p l).
Proof.
  induction 1 as [|x l Hx _ IH]; cbn; [constructor|]. destruct (p x); [|exact IH]. constructor; [|exact IH].
  rewrite Forall_forall in *. intros y Hy. apply filter_In in Hy. apply Hx. tauto.
Qed.

(* ================= Link.components does not depend on the order of the items ================= *)
Definition edges_list (items : list item) : list (nat * nat) :=
  flat_map (fun it : item => map (pair (fst it)) (reals (snd it))) items.
Lemma edges_list_spec items : edges_of items (edges_list items).
Proof.
  intros s d. unfold edges_list. rewrite in_flat_map. split.
  - intros [[s' c] [Hit Hin]]. cbn [fst snd] in Hin. apply in_map_iff in Hin. destruct Hin as [d' [E Hd]].
    inversion E; subst. exists c. auto.
  - intros [c [Hit Hd]]. exists (s, c). split; [exact Hit|]. cbn [fst snd]. apply in_map_iff. exists d. auto.
Qed.
Lemma edges_of_perm items items' es : Permutation items items' -> edges_of items es -> edges_of items' es.
Proof.
  intros P H s d. rewrite (H s d). split; intros [c [Hc Hd]]; exists c; (split; [|exact Hd]).
  - eapply Permutation_in; [exact P|exact Hc].
  - eapply Permutation_in; [apply Permutation_sym; exact P|exact Hc].
Qed.

(* every vertex of a group is connected to each of its sources *)
Lemma vin_root items es g s0 c x :
  edges_of items es -> In g (components items) -> In (s0, c) g -> vin g x -> conn es (inl s0) x.
Proof.
  intros He Hg Hs0g Hx.
  pose proof (components_connected items) as Hcc. rewrite Forall_forall in Hcc.
  destruct x as [s|d]; cbn in Hx.
  - destruct Hx as [c' Hc']. apply (chain_conn items es g (s0, c) (s, c') He Hg). apply (Hcc g Hg); assumption.
  - apply gdests_in in Hx. destruct Hx as [y [Hyg Hk]].
    eapply conn_trans.
    + apply (chain_conn items es g (s0, c) y He Hg). apply (Hcc g Hg); assumption.
    + apply conn_edge. apply He. exists (snd y). split; [|exact Hk].
      rewrite <- surjective_pairing. eapply comps_incl; eassumption.
Qed.

Theorem components_perm items items' : NoDup (map fst items) -> Permutation items items' ->
  forall g, In g (components items) -> exists g', In g' (components items') /\ Permutation g g'.
Proof.
  intros Hn HP g Hg.
  set (es := edges_list items).
  assert (He : edges_of items es) by apply edges_list_spec.
  assert (He' : edges_of items' es) by (eapply edges_of_perm; eassumption).
  assert (Hn' : NoDup (map fst items')) by (eapply Permutation_NoDup; [apply Permutation_map; exact HP|exact Hn]).
  pose proof (components_nonempty items g Hg) as Hne.
  destruct g as [|[s0 c] g0]; [congruence|]. set (g := (s0, c) :: g0) in *.
  assert (Hs0 : In (s0, c) g) by (left; reflexivity).
  assert (Hit : In (s0, c) items') by (eapply Permutation_in; [exact HP|eapply comps_incl; eassumption]).
  destruct (comps_cover items' (s0, c) Hit) as [g' [Hg' Hs0']].
  exists g'. split; [exact Hg'|].
  assert (Hv : forall x, vin g x <-> vin g' x).
  { intros x. split; intros Hx.
    - pose proof (vin_root items es g s0 c x He Hg Hs0 Hx) as Hc.
      apply (vin_conn items' es g' _ _ Hn' He' Hg' Hc). exists c. exact Hs0'.
    - pose proof (vin_root items' es g' s0 c x He' Hg' Hs0' Hx) as Hc.
      apply (vin_conn items es g _ _ Hn He Hg Hc). exists c. exact Hs0. }
  apply NoDup_Permutation.
  - eapply NoDup_map_inv. apply (nodup_group items g Hn Hg).
  - eapply NoDup_map_inv. apply (nodup_group items' g' Hn' Hg').
  - intros [s cs]. split; intros Hin.
    + destruct (proj1 (Hv (inl s))) as [cs' Hcs']; [exists cs; exact Hin|].
      assert (E : cs' = cs).
      { apply (nodup_fst_eq items' s cs' cs Hn'); [eapply comps_incl; eassumption|].
        eapply Permutation_in; [exact HP|eapply comps_incl; eassumption]. }
      subst cs'. exact Hcs'.
    + destruct (proj2 (Hv (inl s))) as [cs' Hcs']; [exists cs; exact Hin|].
      assert (E : cs' = cs).
      { apply (nodup_fst_eq items s cs' cs Hn); [eapply comps_incl; eassumption|].
        eapply Permutation_in; [apply Permutation_sym; exact HP|eapply comps_incl; eassumption]. }
      subst cs'. exact Hcs'.
Qed.

(* groups that pairwise share no destination and each have one are distinct *)
Lemma all_disj_NoDup gs : all_disj gs -> (forall g, In g gs -> gdests g <> []) -> NoDup gs.
Proof.
  induction 1 as [|g gs Hg _ IH]; intros Hne; constructor.
  - intros Hin. rewrite Forall_forall in Hg. pose proof (Hg g Hin) as Hd.
    pose proof (Hne g (or_introl eq_refl)) as Hn. destruct (gdests g) as [|k r] eqn:E; [congruence|].
    apply (Hd k); rewrite E; left; reflexivity.
  - apply IH. intros g' Hg'. apply Hne. right. exact Hg'.
Qed.

Lemma in_head_eq {A} (l : list A) x r : l = x :: r -> In x l.
Proof. intros ->. left; reflexivity. Qed.

Lemma FOP_impl {A} (R R' : A -> A -> Prop) l : (forall x y, R x y -> R' x y) -> ForallOrdPairs R l -> ForallOrdPairs R' l.
Proof.
  intros H. induction 1 as [|x l Hx _ IH]; constructor; [|exact IH].
  rewrite Forall_forall in *. intros y Hy. apply H. apply Hx. exact Hy.
Qed.

(* ================= split_subnet's splitter against the model's, on permuted inputs ================= *)
Section PyEquiv.
Variable a : acfg.
Variable R2 : Z.

Definition live_part (p : sgroup) : bool := match fst p with [] => false | _ => true end.
Definition src_disj (p q : sgroup) : Prop := forall s, In s (map fst (fst p)) -> ~ In s (map fst (fst q)).

(* no source is in two parts *)
Theorem py_splitter_disjoint g ds k : subnet_wf g ds ->
  ForallOrdPairs src_disj (fst (py_splitter a R2 (S k) g ds)).
Proof.
  intros HP. pose proof HP as [Hnd _].
  set (h := mk_heap g empty_mst). set (ss := map fst g).
  assert (Eg : grp h ss = g) by (apply grp_self; exact Hnd).
  rewrite <- Eg in HP.
  destruct (gen_split_spec_fc nat (lvl_ops a R2) a R2 (fun k => k) (fun d c k => eq_refl) massign massign_spec h h ss ds k HP
              (fun s _ => eq_refl) (fun s _ => eq_refl))
    as [h' [parts [_ [Hmap [_ [_ [Hdis _]]]]]]].
  rewrite Eg in Hmap. rewrite <- Hmap. apply FOP_map.
  eapply FOP_impl; [|exact Hdis]. intros x y Hxy s. unfold src_disj. cbn [fst]. rewrite !grp_fst. apply Hxy.
Qed.

Lemma py_splitter_total g ds k : subnet_wf g ds ->
  exists st, split_dict empty_mst ds (edges_of_group (map (take_item a R2 k) g)) = Some st.
Proof.
  intros [Hnd [Hndd [Hcl Hreal]]]. apply split_dict_total.
  - exact Hndd.
  - unfold edges_of_group. rewrite !map_map. cbn [fst take_item]. exact Hnd.
  - intros s dl d Hin Hd. unfold edges_of_group in Hin. apply in_map_iff in Hin. destruct Hin as [it [E Hit]].
    injection E as E1 E2. rewrite <- E2 in Hd. apply in_map_iff in Hit. destruct Hit as [it0 [E0 H0]]. subst it.
    unfold take_item in Hd. cbn [snd] in Hd. apply reals_take_incl in Hd. eapply Hcl; eassumption.
Qed.

Lemma py_splitter_dropped g ds k : subnet_wf g ds ->
  snd (py_splitter a R2 k g ds) = map fst (filter (fun it => negb (has_reals it)) (map (take_item a R2 k) g)).
Proof. intros HP. destruct (py_splitter_total g ds k HP) as [st E]. unfold py_splitter. rewrite E. reflexivity. Qed.

(* the parts of split_subnet's splitter that have a source, and the model's groups on any permutation of the
   sources, can be listed so that they correspond one to one, each part a permutation of its group *)
Lemma py_parts_match g1 g2 ds k : Permutation g1 g2 -> subnet_wf g1 ds -> Forall real_item g1 ->
  exists ps', Permutation (filter live_part (fst (py_splitter a R2 (S k) g1 ds))) ps' /\
     Forall2 (fun (p : sgroup) (m : group) => Permutation (fst p) m) ps'
             (components (filter has_cands (map (prune a R2 (S k)) g2))).
Proof.
  intros HP12 HP Hr. pose proof HP as [Hnd [Hndd [Hcl Hreal]]].
  set (items1 := filter has_cands (map (prune a R2 (S k)) g1)).
  set (items2 := filter has_cands (map (prune a R2 (S k)) g2)).
  assert (HPi : Permutation items1 items2) by (apply filter_perm; apply Permutation_map; exact HP12).
  assert (Hn1 : NoDup (map fst items1)).
  { apply nodup_map_filter. rewrite map_map. erewrite map_ext; [exact Hnd|]. intros it; reflexivity. }
  assert (Hn2 : NoDup (map fst items2)) by (eapply Permutation_NoDup; [apply Permutation_map; exact HPi|exact Hn1]).
  assert (Hre1 : forall it, In it items1 -> reals (snd it) <> []).
  { intros it Hit. apply filter_In in Hit. destruct Hit as [Hit Hc]. apply in_map_iff in Hit. destruct Hit as [it0 [E H0]]. subst it.
    rewrite Forall_forall in Hr. destruct (prune_real a R2 (S k) it0 (Hr it0 H0)) as [_ [_ Har]].
    rewrite (has_cands_reals _ Har) in Hc. unfold has_reals in Hc. intros E. rewrite E in Hc. discriminate. }
  assert (Hre2 : forall it, In it items2 -> reals (snd it) <> []).
  { intros it Hit. apply Hre1. eapply Permutation_in; [apply Permutation_sym; exact HPi|exact Hit]. }
  pose proof (py_splitter_components a R2 g1 ds (S k) HP Hr) as C. cbn zeta in C. destruct C as [C1 C2].
  assert (Hms : forall gm, In (gm, @nil nat) (fst (model_splitter a R2 (S k) g1 ds)) <-> In gm (components items1)).
  { intros gm. unfold model_splitter. cbn [fst]. fold items1. rewrite in_map_iff. split.
    - intros [x [E Hx]]. inversion E; subst. exact Hx.
    - intros Hx. exists gm. auto. }
  assert (Hgne : forall g, In g (components items2) -> gdests g <> []).
  { intros g Hg. pose proof (components_nonempty items2 g Hg) as Hne. destruct g as [|it g0]; [congruence|].
    assert (Hit : In it items2) by (eapply comps_incl; [exact Hg|left; reflexivity]).
    pose proof (Hre2 it Hit) as Hre. destruct (reals (snd it)) as [|d r] eqn:E; [congruence|].
    intros E0. assert (Hin : In d (gdests (it :: g0))) by (apply (in_gdests _ it d); [left; reflexivity|rewrite E; left; reflexivity]).
    rewrite E0 in Hin. destruct Hin. }
  set (ps := fst (py_splitter a R2 (S k) g1 ds)) in *.
  pose proof (py_splitter_disjoint g1 ds k HP) as Hdis. fold ps in Hdis.
  assert (Hlive : forall p, In p (filter live_part ps) -> In p ps /\ fst p <> []).
  { intros p Hp. apply filter_In in Hp. destruct Hp as [Hp Hl]. split; [exact Hp|]. unfold live_part in Hl.
    intros E. rewrite E in Hl. discriminate. }
  apply perm_match.
  - apply (FOP_NoDup src_disj); [apply FOP_filter; exact Hdis|].
    intros p Hp Hpp. destruct (Hlive p Hp) as [_ Hne]. destruct (fst p) as [|it r] eqn:E; [congruence|].
    apply (Hpp (fst it)); apply in_map; apply (in_head_eq _ _ _ E).
  - apply all_disj_NoDup; [apply pw_disj_all_disj; apply (components_spec items2)|exact Hgne].
  - intros p Hp. destruct (Hlive p Hp) as [Hpin Hne].
    destruct (C1 p Hpin Hne) as [gm [Hgm [Hperm _]]]. apply Hms in Hgm.
    destruct (components_perm items1 items2 Hn1 HPi gm Hgm) as [g' [Hg' Hp']].
    exists g'. split; [exact Hg'|eapply Permutation_trans; eassumption].
  - intros m Hm.
    destruct (components_perm items2 items1 Hn2 (Permutation_sym HPi) m Hm) as [gm [Hgm Hp']].
    destruct (C2 gm (proj2 (Hms gm) Hgm)) as [p [Hpin [Hperm _]]].
    exists p. split.
    + apply filter_In. split; [exact Hpin|]. unfold live_part. destruct (fst p) eqn:E; [|reflexivity].
      exfalso. rewrite ?E in Hperm. apply Permutation_nil in Hperm. apply (components_nonempty items1 gm Hgm). exact Hperm.
    + eapply Permutation_trans; [exact Hperm|apply Permutation_sym; exact Hp'].
  - intros p p' m Hp Hp' Hm H1 H2. destruct (Hlive p Hp) as [Hpin Hne]. destruct (Hlive p' Hp') as [Hpin' _].
    destruct (fst p) as [|it r] eqn:E; [congruence|].
    assert (Hs1 : In (fst it) (map fst (fst p))) by (apply in_map; apply (in_head_eq _ _ _ E)).
    assert (Hs2 : In (fst it) (map fst (fst p'))).
    { apply in_map. eapply Permutation_in; [apply Permutation_sym; exact H2|].
      eapply Permutation_in; [exact H1|first [left; reflexivity|apply (in_head_eq _ _ _ E)]]. }
    destruct (FOP_in src_disj ps Hdis p p' Hpin Hpin') as [Eq|[D|D]]; [exact Eq| |].
    + exfalso. exact (D (fst it) Hs1 Hs2).
    + exfalso. exact (D (fst it) Hs2 Hs1).
  - intros p m m' Hp Hm Hm' H1 H2. destruct (Hlive p Hp) as [_ Hne].
    destruct (fst p) as [|it r] eqn:E; [congruence|].
    assert (Hi1 : In it m) by (eapply Permutation_in; [exact H1|first [left; reflexivity|apply (in_head_eq _ _ _ E)]]).
    assert (Hi2 : In it m') by (eapply Permutation_in; [exact H2|first [left; reflexivity|apply (in_head_eq _ _ _ E)]]).
    destruct (pw_disj_In _ m m' (proj1 (components_spec items2)) Hm Hm') as [Eq|D]; [exact Eq|].
    exfalso. pose proof (Hre2 it (comps_incl items2 m it Hm Hi1)) as Hre.
    destruct (reals (snd it)) as [|d rr] eqn:Er; [congruence|].
    apply (D d); apply (in_gdests _ it d); try assumption; rewrite Er; left; reflexivity.
Qed.

Lemma leaf_single k g1 g2 : Permutation g1 g2 -> res_equiv (Ok [Leaf k g1]) (Ok [Leaf k g2]).
Proof.
  intros HP. cbn. unfold leaves_equiv. destruct g1 as [|x g1].
  - apply Permutation_nil in HP. subst g2. cbn. apply lperm_refl.
  - destruct g2 as [|y g2]; [apply Permutation_sym, Permutation_nil in HP; discriminate|].
    cbn. exists [Leaf k (x :: g1)]. split; [apply Permutation_refl|]. constructor; [constructor; exact HP|constructor].
Qed.

(* THE INVARIANCE: the recursion over split_subnet's splitter and the model's recursion give equivalent results,
   on every subnet (and any order of its sources), for every fuel and level *)
Theorem asplit_g_py_equiv : forall fuel k g1 g2 ds,
  Permutation g1 g2 -> subnet_wf g1 ds -> Forall real_item g1 ->
  res_equiv (asplit_g (py_splitter a R2) fuel a k g1 ds) (asplit fuel a R2 k g2).
Proof.
  induction fuel as [|fuel IH]; intros k g1 g2 ds HP Hwf Hr.
  - cbn [asplit_g asplit]. rewrite (Permutation_length HP).
    destruct (length g2 <=? a_max a)%nat; [apply leaf_single; exact HP|].
    destruct (at_stop a k); [exact I|]. cbn. apply leaves_equiv_refl.
  - cbn [asplit_g asplit]. rewrite (Permutation_length HP).
    destruct (length g2 <=? a_max a)%nat; [apply leaf_single; exact HP|].
    destruct (at_stop a k); [exact I|].
    set (F := fun p : sgroup => asplit_g (py_splitter a R2) fuel a (S k) (fst p) (snd p)).
    set (ps := fst (py_splitter a R2 (S k) g1 ds)).
    set (tl := map Dropped (snd (py_splitter a R2 (S k) g1 ds))).
    destruct (py_parts_match g1 g2 ds k HP Hwf Hr) as [ps' [Pp Fm]]. fold ps in Pp.
    eapply res_equiv_trans; [apply (seq_g_filter F live_part ps tl)|].
    { intros p Hp Hl. unfold live_part in Hl. destruct (fst p) eqn:E; [|discriminate].
      exists [Leaf (S k) []]. split; [|reflexivity]. unfold F. rewrite E. apply asplit_g_fits. cbn. lia. }
    eapply res_equiv_trans; [apply (seq_g_perm F _ ps' tl Pp)|].
    apply seq_g_match.
    + eapply Forall2_impl_in; [exact Fm|]. intros p m Hp Hm Hpm. cbv beta. unfold F.
      assert (Hpin : In p ps).
      { apply (Permutation_in _ (Permutation_sym Pp)) in Hp. apply filter_In in Hp. tauto. }
      destruct (py_splitter_parts a R2 g1 ds k Hwf p Hpin) as [Hwfp Hit].
      apply IH; [exact Hpm|exact Hwfp|].
      rewrite Forall_forall. intros it Hi. destruct (Hit it Hi) as [it0 [H0 E]]. subst it.
      rewrite Forall_forall in Hr. rewrite take_item_prune by (apply Hr; exact H0). apply prune_real. apply Hr. exact H0.
    + unfold tl. rewrite (py_splitter_dropped g1 ds (S k) Hwf). apply leaves_equiv_perm. rewrite map_map.
      apply Permutation_map.
      assert (E1 : map (take_item a R2 (S k)) g1 = map (prune a R2 (S k)) g1).
      { apply map_ext_in. intros it Hit. apply take_item_prune. rewrite Forall_forall in Hr. apply Hr. exact Hit. }
      rewrite E1.
      assert (E2 : filter (fun it => negb (has_reals it)) (map (prune a R2 (S k)) g1)
                 = filter (fun it => negb (has_cands it)) (map (prune a R2 (S k)) g1)).
      { apply filter_ext_in. intros it Hit. apply in_map_iff in Hit. destruct Hit as [it0 [E H0]]. subst it.
        rewrite Forall_forall in Hr. destruct (prune_real a R2 (S k) it0 (Hr it0 H0)) as [_ [_ Har]].
        rewrite (has_cands_reals _ Har). reflexivity. }
      rewrite E2. apply filter_perm. apply Permutation_map. exact HP.
Qed.
End PyEquiv.

(* ================= the optimal cost does not depend on the order of the sources ================= *)
Lemma links_total_strip (pairs : list pair_t) : links_total (map strip pairs) = ptotal pairs.
Proof. unfold links_total, ptotal. rewrite map_map. reflexivity. Qed.
Lemma map_fst_strip (P : list pair_t) : map fst (map strip P) = map fst (map fst P).
Proof. rewrite !map_map. reflexivity. Qed.
Lemma links_total_app l l' : links_total (l ++ l') = (links_total l + links_total l')%Z.
Proof. unfold links_total. rewrite map_app. apply total_app. Qed.
Lemma links_total_perm l l' : Permutation l l' -> links_total l = links_total l'.
Proof. intros H. unfold links_total. apply total_perm. apply Permutation_map. exact H. Qed.

(* two optimal assignments of the same sources cost the same *)
Lemma is_opt_total its l l' : is_opt its l -> is_opt its l' -> ptotal l = ptotal l'.
Proof. intros [P1 [O1 M1]] [P2 [O2 M2]]. apply Z.le_antisymm; [apply M1|apply M2]; assumption. Qed.

Lemma F2_length {A B} (R : A -> B -> Prop) l m : Forall2 R l m -> length l = length m.
Proof. induction 1; cbn; congruence. Qed.

(* the branch-and-bound search: its optimum value (the minimum over completions, BnB.solve_optimal) is the same on
   any order of the source list *)
Theorem solve_value_perm (s s' : list item) v al v' al' :
  Permutation s s' -> nonneg (map snd s) -> Forall sorted (map snd s) ->
  solve (map snd s) = Some (v, al) -> solve (map snd s') = Some (v', al') -> v = v'.
Proof.
  intros HP Hn Hs H H'.
  assert (HPm : Permutation (map snd s) (map snd s')) by (apply Permutation_map; exact HP).
  assert (Hn' : nonneg (map snd s')) by (unfold nonneg in *; eapply Forall_perm; eassumption).
  assert (Hs' : Forall sorted (map snd s')) by (eapply Forall_perm; eassumption).
  destruct (solve_is_opt s v al Hn Hs H) as [O1 E1]. destruct (solve_is_opt s' v' al' Hn' Hs' H') as [O2 E2].
  destruct (solve_optimal _ _ _ Hn Hs H) as [C1 _]. destruct (solve_optimal _ _ _ Hn' Hs' H') as [C2 _].
  apply completion_iff in C1, C2. destruct C1 as [F1 _]. destruct C2 as [F2 _].
  apply F2_length in F1, F2. rewrite map_length in F1, F2.
  pose proof (is_opt_total s' _ _ (is_opt_perm _ _ _ HP O1) O2) as Et.
  unfold ptotal in Et. rewrite !combine_map_snd in Et by assumption. congruence.
Qed.

(* ... so solving a subnet gives the same total cost and links the same sources, whatever their order *)
Theorem solve_group_total_perm n g g' l l' : Permutation g g' -> Forall item_ok g ->
  solve_group n g = Ok l -> solve_group n g' = Ok l' ->
  links_total l = links_total l' /\ Permutation (map fst l) (map fst l').
Proof.
  intros HP Hok H H'.
  assert (Hok' : Forall item_ok g') by (eapply Forall_perm; eassumption).
  destruct (proj2 (solve_group_spec n g Hok) l H) as [P [E O]].
  destruct (proj2 (solve_group_spec n g' Hok') l' H') as [P' [E' O']]. subst l l'.
  apply (is_opt_perm _ _ _ HP) in O. split.
  - rewrite !links_total_strip. eapply is_opt_total; eassumption.
  - destruct O as [Q _]. destruct O' as [Q' _]. rewrite !map_fst_strip.
    apply Permutation_map. eapply Permutation_trans; [exact Q|apply Permutation_sym; exact Q'].
Qed.

Lemma Forall2_in_r {A B} (R : A -> B -> Prop) l m y : Forall2 R l m -> In y m -> exists x, In x l /\ R x y.
Proof.
  induction 1 as [|x y' l m Hxy _ IH]; intros Hy; [destruct Hy|]. destruct Hy as [E|Hy].
  - subst y'. exists x. split; [left; reflexivity|exact Hxy].
  - destruct (IH Hy) as [x' [Hx' Hr]]. exists x'. split; [right; exact Hx'|exact Hr].
Qed.

(* every leaf with a source of one side has its counterpart on the other *)
Lemma leaves_equiv_in ls1 ls2 lf2 : leaves_equiv ls1 ls2 -> In lf2 ls2 -> live_leaf lf2 = true ->
  exists lf1, In lf1 ls1 /\ leaf_eq lf1 lf2.
Proof.
  intros [l [P F]] Hin Hl.
  assert (Hf : In lf2 (filter live_leaf ls2)) by (apply filter_In; auto).
  destruct (Forall2_in_r _ _ _ _ F Hf) as [lf1 [H1 He]]. exists lf1. split; [|exact He].
  apply (Permutation_in _ (Permutation_sym P)) in H1. apply filter_In in H1. tauto.
Qed.

Section Solved.
Variable a : acfg.
Variable R2 : Z.
Hypothesis Ha : acfg_ok a.
Hypothesis HR2 : (0 <= R2)%Z.

Lemma leaf_items_perm k g g' : Permutation g g' -> Permutation (leaf_items a R2 k g) (leaf_items a R2 k g').
Proof. unfold leaf_items. apply Permutation_map. Qed.

(* equivalent leaves: BOTH are solved by an optimal assignment of the SAME sources (those of the second leaf) *)
Theorem leaf_eq_solved k g1 g2 : Permutation g1 g2 -> Forall (within a R2 k) g2 -> Forall real_item g2 ->
  exists P1 P2, solve_leaf a R2 (Leaf k g1) = map strip P1 /\ solve_leaf a R2 (Leaf k g2) = map strip P2 /\
                is_opt (leaf_items a R2 k g2) P1 /\ is_opt (leaf_items a R2 k g2) P2.
Proof.
  intros HP Hw Hr.
  assert (Hw1 : Forall (within a R2 k) g1) by (eapply Forall_perm; [apply Permutation_sym; exact HP|exact Hw]).
  assert (Hr1 : Forall real_item g1) by (eapply Forall_perm; [apply Permutation_sym; exact HP|exact Hr]).
  destruct (leaf_solved_optimally a R2 k g1 Ha HR2 Hr1 Hw1) as [P1 [E1 O1]].
  destruct (leaf_solved_optimally a R2 k g2 Ha HR2 Hr Hw) as [P2 [E2 O2]].
  exists P1, P2. split; [exact E1|split; [exact E2|split; [|exact O2]]].
  eapply is_opt_perm; [apply leaf_items_perm; exact HP|exact O1].
Qed.

Lemma leaf_eq_total lf1 lf2 : leaf_eq lf1 lf2 -> leaf_within a R2 lf2 -> leaf_real lf2 ->
  links_total (solve_leaf a R2 lf1) = links_total (solve_leaf a R2 lf2) /\
  Permutation (map fst (solve_leaf a R2 lf1)) (map fst (solve_leaf a R2 lf2)).
Proof.
  intros He Hw Hr. destruct He as [k g g' HP| |]; [|split; [reflexivity|apply Permutation_refl]..].
  destruct (leaf_eq_solved k g g' HP Hw Hr) as [P1 [P2 [E1 [E2 [O1 O2]]]]]. rewrite E1, E2. split.
  - rewrite !links_total_strip. eapply is_opt_total; eassumption.
  - destruct O1 as [Q1 _]. destruct O2 as [Q2 _]. rewrite !map_fst_strip.
    apply Permutation_map. eapply Permutation_trans; [exact Q1|apply Permutation_sym; exact Q2].
Qed.

Lemma solve_dead ls : flat_map (solve_leaf a R2) ls = flat_map (solve_leaf a R2) (filter live_leaf ls).
Proof.
  induction ls as [|lf ls IH]; [reflexivity|]. cbn [flat_map filter].
  destruct lf as [k [|it g]|i|]; cbn [live_leaf flat_map]; rewrite IH; reflexivity.
Qed.

(* equivalent leaf lists: the same total cost and the same sources, once every leaf is solved *)
Theorem leaves_equiv_solved ls1 ls2 : leaves_equiv ls1 ls2 -> Forall (leaf_within a R2) ls2 -> Forall leaf_real ls2 ->
  links_total (flat_map (solve_leaf a R2) ls1) = links_total (flat_map (solve_leaf a R2) ls2) /\
  Permutation (map fst (flat_map (solve_leaf a R2) ls1)) (map fst (flat_map (solve_leaf a R2) ls2)).
Proof.
  intros [l [P F]] Hw Hr. rewrite (solve_dead ls1), (solve_dead ls2).
  apply (Forall_filter _ live_leaf) in Hw. apply (Forall_filter _ live_leaf) in Hr.
  assert (HA : Permutation (flat_map (solve_leaf a R2) (filter live_leaf ls1)) (flat_map (solve_leaf a R2) l))
    by (apply Permutation_flat_map; exact P).
  assert (HB : links_total (flat_map (solve_leaf a R2) l) = links_total (flat_map (solve_leaf a R2) (filter live_leaf ls2)) /\
               Permutation (map fst (flat_map (solve_leaf a R2) l)) (map fst (flat_map (solve_leaf a R2) (filter live_leaf ls2)))).
  { clear P HA. induction F as [|x y l m Hxy _ IH]; [split; [reflexivity|constructor]|].
    inversion Hw as [|? ? Hwy Hw']; inversion Hr as [|? ? Hry Hr']; subst.
    destruct (IH Hw' Hr') as [I1 I2]. destruct (leaf_eq_total x y Hxy Hwy Hry) as [T1 T2].
    cbn [flat_map]. rewrite !links_total_app, !map_app. split; [congruence|apply Permutation_app; assumption]. }
  destruct HB as [B1 B2]. split.
  - rewrite (links_total_perm _ _ HA). exact B1.
  - eapply Permutation_trans; [apply Permutation_map; exact HA|exact B2].
Qed.
End Solved.

(* ================= adaptive_link_wrap over a subnet linker that changes the heap when it RETURNS too ================= *)
(* Proofs/AdaptiveGen.py_adaptive_asplit asks the subnet linker to return the heap it was called on (true of
   subnet_linker_drop).  The recursive linkers append their null candidate to the candidate lists of their own
   sources and leave it there.  Same theorem, same proof, for a linker that returns a heap sld k h ss which differs
   from h in the candidate lists of its own sources only (nothing reads them again once the subnet is solved). *)
Section AdaptiveGenericHeap.
Variable num : Type.
Variable ops : num_ops num.
Variable a : acfg.
(* the ladder of ranges: lvl k stands for search_range * adaptive_step^k *)
Variable lvl : nat -> num.
Variable stop step : num.
Hypothesis mul_lvl : forall k, n_mul ops (lvl k) step = lvl (S k).
Hypothesis le_stop : forall k, n_le ops (lvl k) stop = at_stop a k.
Variable kw : Type.
Variable kwargs : kw.
Variable SL : heap -> list nat -> list nat -> num -> kw -> fresult pairs.     (* subnet_linker *)
Variable SP : heap -> list nat -> list nat -> num -> fresult (list sets).      (* split_subnet *)
Variable spl : splitter.                                  (* the pure function SP computes *)
Variable slv : nat -> group -> list (nat * option nat).   (* the links SL answers on a group that fits *)
Variable slh : nat -> heap -> list nat -> heap.           (* the heap SL leaves when it raises *)
Variable sld : nat -> heap -> list nat -> heap.           (* the heap SL leaves when it returns *)
Variable Pre : group -> list nat -> Prop.                 (* what SP needs of a subnet *)

(* subnet_linker: raises SubnetOversizeException exactly above the size limit *)
Hypothesis SL_spec : forall h ss ds k,
  if (a_max a <? length ss)%nat then SL h ss ds (lvl k) kwargs = Fail (slh k h ss) SubnetOversizeException
  else exists r, SL h ss ds (lvl k) kwargs = Done (sld k h ss) r /\ wf_pairs r /\ links_of r = slv k (grp h ss).
Hypothesis slh_frame : forall k h ss, same_fc_outside ss h (slh k h ss).
Hypothesis sld_frame : forall k h ss, same_fc_outside ss h (sld k h ss).
(* split_subnet: computes spl on the group; touches the candidates of its own sources only *)
Hypothesis SP_spec : forall h ss ds k, Pre (grp h ss) ds ->
  exists h' parts, SP (slh k h ss) ss ds (lvl (S k)) = Done h' parts /\
    map (fun p : sets => (grp h' (fst p), snd p)) parts = fst (spl (S k) (grp h ss) ds) /\
    same_fc_outside ss h h' /\
    (forall p, In p parts -> incl (fst p) ss) /\
    ForallOrdPairs (fun p q : sets => forall s, In s (fst p) -> ~ In s (fst q)) parts /\
    Forall (fun p : sets => Pre (grp h' (fst p)) (snd p)) parts.

Definition pyh := py_adaptive_link_wrap num ops kw SL SP.

Lemma flat_leaf_dropped_h (l : list nat) : flat_map (leaf_links slv) (map Dropped l) = [].
Proof. induction l; cbn; auto. Qed.

Theorem py_adaptive_asplit_heap : forall fuel h ss ds k,
  at_stop a (fuel + k) = true -> Pre (grp h ss) ds ->
  exists h', same_fc_outside ss h h' /\
    match asplit_g spl fuel a k (grp h ss) ds with
    | Oversize => pyh (S fuel) h ss ds (lvl k) (Some stop) step kwargs = Fail h' SubnetOversizeException
    | Ok ls => exists r, pyh (S fuel) h ss ds (lvl k) (Some stop) step kwargs = Done h' r /\ wf_pairs r /\
                         links_of r = flat_map (leaf_links slv) ls
    end.
Proof.
  induction fuel as [|fuel IH]; intros h ss ds k Hstop Hpre.
  - (* the stop is reached at this level: no recursion *)
    cbn [Nat.add] in Hstop. unfold pyh. cbn [py_adaptive_link_wrap asplit_g wrap_frame0 w_heap].
    unfold grp at 1. rewrite map_length.
    pose proof (SL_spec h ss ds k) as Hsl.
    destruct (Nat.ltb_spec (a_max a) (length ss)) as [Hov|Hfit].
    + destruct (Nat.leb_spec (length ss) (a_max a)) as [Hc|_]; [lia|]. rewrite Hstop.
      exists (slh k h ss). split; [apply slh_frame|]. rewrite Hsl. cbn. rewrite le_stop, Hstop. reflexivity.
    + destruct (Nat.leb_spec (length ss) (a_max a)) as [_|Hc]; [|lia].
      destruct Hsl as [[r1 r2] [Hr [Hwf Hl]]]. exists (sld k h ss). split; [apply sld_frame|].
      exists (r1, r2). rewrite Hr. cbn. split; [reflexivity|split; [exact Hwf|]]. rewrite app_nil_r. exact Hl.
  - cbn [asplit_g]. unfold grp at 1. rewrite map_length.
    unfold pyh. remember (S fuel) as f1 eqn:Ef1. cbn [py_adaptive_link_wrap wrap_frame0 w_heap].
    pose proof (SL_spec h ss ds k) as Hsl.
    destruct (Nat.ltb_spec (a_max a) (length ss)) as [Hov|Hfit].
    2:{ destruct (Nat.leb_spec (length ss) (a_max a)) as [_|Hc]; [|lia].
        destruct Hsl as [[r1 r2] [Hr [Hwf Hl]]]. exists (sld k h ss). split; [apply sld_frame|].
        exists (r1, r2). rewrite Hr. cbn. split; [reflexivity|split; [exact Hwf|]]. rewrite app_nil_r. exact Hl. }
    destruct (Nat.leb_spec (length ss) (a_max a)) as [Hc|_]; [lia|].
    rewrite Hsl. cbn [try_except exn_eqb wrap_frame0 set_w_heap w_heap sn_spl sn_dpl]. rewrite le_stop, mul_lvl.
    destruct (at_stop a k) eqn:Es.
    { exists (slh k h ss). split; [apply slh_frame|]. reflexivity. }
    cbn [bind set_sn_spl set_sn_dpl set_w_heap w_heap sn_spl sn_dpl].
    destruct (SP_spec h ss ds k Hpre) as [h1 [parts [Hsp [Hmap [Hfr [Hincl [Hdis Hpp]]]]]]].
    rewrite Hsp. cbn [set_w_heap set_sn_spl set_sn_dpl w_heap sn_spl sn_dpl].
    rewrite <- Hmap.
    match goal with |- context [for_each ?b parts _] => set (body := b) end.
    set (F := fun p : sgroup => asplit_g spl fuel a (S k) (fst p) (snd p)).
    set (tl := map Dropped (snd (spl (S k) (grp h ss) ds))).
    assert (Hloop : forall ps hc accs accd,
      Forall (fun p : sets => Pre (grp h1 (fst p)) (snd p)) ps ->
      ForallOrdPairs (fun p q : sets => forall s, In s (fst p) -> ~ In s (fst q)) ps ->
      (forall p s, In p ps -> In s (fst p) -> fc_get s (h_fc hc) = fc_get s (h_fc h1)) ->
      exists he, (forall s, (forall p, In p ps -> ~ In s (fst p)) -> fc_get s (h_fc he) = fc_get s (h_fc hc)) /\
        match seq_res_g F (map (fun p : sets => (grp h1 (fst p), snd p)) ps) tl with
        | Oversize => exists xs xd, for_each body ps (mk_wrap hc accs accd) = Raise (mk_wrap he xs xd) SubnetOversizeException
        | Ok ls => exists rs rd, for_each body ps (mk_wrap hc accs accd) = Normal (mk_wrap he (accs ++ rs) (accd ++ rd)) /\
                                 length rs = length rd /\ links_of (rs, rd) = flat_map (leaf_links slv) ls
        end).
    { induction ps as [|p ps IHps]; intros hc accs accd Hp Hd Hag.
      - exists hc. split; [reflexivity|]. cbn [map seq_res_g for_each]. exists [], []. rewrite !app_nil_r.
        split; [reflexivity|split; [reflexivity|]]. unfold tl. rewrite flat_leaf_dropped_h. reflexivity.
      - pose proof (Forall_inv Hp) as Hp1. pose proof (Forall_inv_tail Hp) as Hp'.
        destruct (FOP_inv _ _ _ Hd) as [Hd1 Hd'].
        assert (Eg : grp hc (fst p) = grp h1 (fst p)).
        { apply grp_ext. intros s Hs. apply (Hag p s); [left; reflexivity|exact Hs]. }
        assert (Hst' : at_stop a (fuel + S k) = true) by (replace (fuel + S k)%nat with (f1 + k)%nat by lia; exact Hstop).
        cbv beta in Hp1. rewrite <- Eg in Hp1.
        destruct (IH hc (fst p) (snd p) (S k) Hst' Hp1) as [h2 [Hfr2 Hres]]. unfold pyh in Hres. cbv beta in Hp1.
        assert (Hb : body p (mk_wrap hc accs accd) =
          match py_adaptive_link_wrap num ops kw SL SP f1 hc (fst p) (snd p) (lvl (S k)) (Some stop) step kwargs with
          | Done h7 r9 => Normal (mk_wrap h7 (accs ++ fst r9) (accd ++ snd r9))
          | Fail h7 e8 => Raise (mk_wrap h7 accs accd) e8
          end) by reflexivity.
        cbn [map seq_res_g for_each]. rewrite Hb. unfold F at 1. cbn [fst snd]. rewrite <- Eg.
        destruct (asplit_g spl fuel a (S k) (grp hc (fst p)) (snd p)) as [l|].
        + destruct Hres as [[r1 r2] [Hr [Hwf Hl]]]. rewrite Hr. cbn [fst snd].
          destruct (IHps h2 (accs ++ r1) (accd ++ r2) Hp' Hd') as [he [Hfe Hrest]].
          { intros q s Hq Hs. rewrite Hfr2.
            - apply (Hag q s); [right; exact Hq|exact Hs].
            - rewrite Forall_forall in Hd1. intros Hin. exact (Hd1 q Hq s Hin Hs). }
          exists he. split.
          { intros s Hs. rewrite Hfe by (intros q Hq; apply Hs; right; exact Hq).
            apply Hfr2. apply Hs. left; reflexivity. }
          destruct (seq_res_g F (map (fun p0 : sets => (grp h1 (fst p0), snd p0)) ps) tl) as [l'|].
          * destruct Hrest as [rs [rd [Hfe' [Hlen Hlk]]]]. exists (r1 ++ rs), (r2 ++ rd).
            rewrite !app_assoc. split; [exact Hfe'|]. split.
            -- rewrite !app_length. unfold wf_pairs in Hwf. cbn [fst snd] in Hwf. lia.
            -- rewrite links_of_app by exact Hwf. rewrite flat_map_app, Hl, Hlk. reflexivity.
          * exact Hrest.
        + rewrite Hres.
          exists h2. split.
          { intros s Hs. apply Hfr2. apply Hs. left; reflexivity. }
          exists accs, accd. reflexivity. }
    change (set_w_heap (set_sn_dpl (set_sn_spl (set_w_heap (wrap_frame0 h) (slh k h ss)) []) []) h1) with (mk_wrap h1 [] []).
    destruct (Hloop parts h1 [] [] Hpp Hdis (fun _ _ _ _ => eq_refl)) as [he [Hfe Hres]].
    exists he. split.
    { intros s Hs. rewrite Hfe.
      - apply Hfr. exact Hs.
      - intros p Hp Hin. apply Hs. apply (Hincl p Hp). exact Hin. }
    fold F. fold tl.
    destruct (seq_res_g F (map (fun p : sets => (grp h1 (fst p), snd p)) parts) tl) as [ls|].
    + destruct Hres as [rs [rd [Hfe' [Hlen Hlk]]]]. rewrite Hfe'. cbn [bind fn_end w_heap sn_spl sn_dpl app].
      exists (rs, rd). split; [reflexivity|split; [exact Hlen|exact Hlk]].
    + destruct Hres as [xs [xd Hx]]. rewrite Hx. reflexivity.
Qed.

End AdaptiveGenericHeap.

(* ================= ONE theorem: the generated code against Model/Adaptive.asplit ================= *)
Section OneTheorem.
Variable num : Type.
Variable ops : num_ops num.
Variable a : acfg.
Variable R2 : Z.
Variable lvl : nat -> num.
Hypothesis dist_lvl : forall (d : option nat) (c : Z) (k : nat), n_dist_le ops c (lvl k) = le_lvl a R2 k (d, c).
Variable A : mst -> nat -> nat -> mresult.
Hypothesis A_spec : forall m s d,
  match A m s d with MDone m' => assign_subnet m (s, d) = Some m' | MFail _ => assign_subnet m (s, d) = None end.
Variable stop step : num.
Hypothesis mul_lvl : forall k, n_mul ops (lvl k) step = lvl (S k).
Hypothesis le_stop : forall k, n_le ops (lvl k) stop = at_stop a k.
Variable kw : Type.
Variable kwargs : kw.
Variable SL : heap -> list nat -> list nat -> num -> kw -> fresult pairs.
Variable slv : nat -> group -> list (nat * option nat).
Variable slh : nat -> heap -> list nat -> heap.
Variable sld : nat -> heap -> list nat -> heap.
Hypothesis SL_spec : forall h ss ds k,
  if (a_max a <? length ss)%nat then SL h ss ds (lvl k) kwargs = Fail (slh k h ss) SubnetOversizeException
  else exists r, SL h ss ds (lvl k) kwargs = Done (sld k h ss) r /\ wf_pairs r /\ links_of r = slv k (grp h ss).
Hypothesis slh_cut : forall k h ss s, In s ss ->
  take_le (le_lvl a R2 (S k)) (fc_get s (h_fc (slh k h ss))) = take_le (le_lvl a R2 (S k)) (fc_get s (h_fc h)).
Hypothesis slh_frame : forall k h ss, same_fc_outside ss h (slh k h ss).
Hypothesis sld_frame : forall k h ss, same_fc_outside ss h (sld k h ss).
Hypothesis Ha : acfg_ok a.
Hypothesis HR2 : (0 <= R2)%Z.
Hypothesis stop_mono : forall k, at_stop a k = true -> at_stop a (S k) = true.

Theorem gen_adaptive_is_asplit : forall fuel h ss ds k,
  at_stop a (fuel + k) = true -> subnet_wf (grp h ss) ds ->
  Forall real_item (grp h ss) -> Forall (within a R2 k) (grp h ss) ->
  ((length ss <= a_max a)%nat ->
     asplit fuel a R2 k (grp h ss) = Ok [Leaf k (grp h ss)] /\
     exists r, py_adaptive_link_wrap num ops kw SL (py_split_subnet num ops A) (S fuel) h ss ds (lvl k) (Some stop) step kwargs = Done (sld k h ss) r /\
               wf_pairs r /\ links_of r = slv k (grp h ss)) /\
  exists h', same_fc_outside ss h h' /\
    match asplit fuel a R2 k (grp h ss) with
    | Oversize =>
        py_adaptive_link_wrap num ops kw SL (py_split_subnet num ops A) (S fuel) h ss ds (lvl k) (Some stop) step kwargs
          = Fail h' SubnetOversizeException /\
        exists k' g', reach a R2 k (grp h ss) k' g' /\ (a_max a < length g')%nat /\ at_stop a k' = true
    | Ok lm =>
        ~ In OutOfFuel lm /\
        (forall k' g', reach a R2 k (grp h ss) k' g' -> (a_max a < length g')%nat -> at_stop a k' = false) /\
        Forall (leaf_within a R2) lm /\ Forall leaf_real lm /\
        exists r ls,
          py_adaptive_link_wrap num ops kw SL (py_split_subnet num ops A) (S fuel) h ss ds (lvl k) (Some stop) step kwargs = Done h' r /\
          wf_pairs r /\ links_of r = flat_map (leaf_links slv) ls /\
          leaves_equiv ls lm /\
          (forall k' g', In (Leaf k' g') lm -> g' <> [] ->
             exists g'', In (Leaf k' g'') ls /\ Permutation g'' g' /\
               exists P P', solve_leaf a R2 (Leaf k' g'') = map strip P /\ solve_leaf a R2 (Leaf k' g') = map strip P' /\
                            is_opt (leaf_items a R2 k' g') P /\ is_opt (leaf_items a R2 k' g') P') /\
          links_total (flat_map (solve_leaf a R2) ls) = links_total (flat_map (solve_leaf a R2) lm) /\
          Permutation (map fst (flat_map (solve_leaf a R2) ls)) (map fst (flat_map (solve_leaf a R2) lm))
    end.
Proof.
  intros fuel h ss ds k Hs Hwf Hr Hw. split.
  - intros Hfit. split; [apply asplit_fits; unfold grp; rewrite map_length; exact Hfit|].
    pose proof (SL_spec h ss ds k) as Hsl. destruct (Nat.ltb_spec (a_max a) (length ss)) as [Hlt|_]; [lia|].
    destruct Hsl as [r [Hd [Hwp Hl]]]. exists r. split; [|auto].
    apply (py_adaptive_plain_when_fits num ops kw kwargs SL (py_split_subnet num ops A)). exact Hd.
  - assert (Hgen : exists h', same_fc_outside ss h h' /\
      match asplit_g (py_splitter a R2) fuel a k (grp h ss) ds with
      | Oversize => py_adaptive_link_wrap num ops kw SL (py_split_subnet num ops A) (S fuel) h ss ds (lvl k) (Some stop) step kwargs
                    = Fail h' SubnetOversizeException
      | Ok ls => exists r, py_adaptive_link_wrap num ops kw SL (py_split_subnet num ops A) (S fuel) h ss ds (lvl k) (Some stop) step kwargs = Done h' r /\
                           wf_pairs r /\ links_of r = flat_map (leaf_links slv) ls
      end).
    { apply (py_adaptive_asplit_heap num ops a lvl stop step mul_lvl le_stop kw kwargs SL (py_split_subnet num ops A)
               (py_splitter a R2) slv slh sld subnet_wf SL_spec slh_frame sld_frame); [|exact Hs|exact Hwf].
      intros h0 ss0 ds0 k0 HP. apply (gen_split_spec num ops a R2 lvl dist_lvl A A_spec);
        [exact HP|intros s Hs0; apply slh_cut; exact Hs0|apply slh_frame]. }
    destruct Hgen as [h' [Hfr Hres]].
    exists h'. split; [exact Hfr|].
    pose proof (asplit_g_py_equiv a R2 fuel k (grp h ss) (grp h ss) ds (Permutation_refl _) Hwf Hr) as Heq.
    destruct (asplit_g (py_splitter a R2) fuel a k (grp h ss) ds) as [ls|] eqn:Eg;
      destruct (asplit fuel a R2 k (grp h ss)) as [lm|] eqn:Em; cbn in Heq; try contradiction.
    + destruct Hres as [r [Hrun [Hwp Hl]]].
      pose proof (asplit_g_no_out_of_fuel a (py_splitter a R2) stop_mono fuel k _ _ ls Hs Eg) as Hnf.
      assert (Hnfm : ~ In OutOfFuel lm).
      { intros Hin. destruct (leaves_equiv_in ls lm OutOfFuel Heq Hin eq_refl) as [lf [Hlf He]]. inversion He; subst. contradiction. }
      pose proof (asplit_leaves_within a R2 fuel k _ lm Hw Em) as Hlw.
      pose proof (asplit_leaves_real a R2 fuel k _ lm Hr Em) as Hlr.
      split; [exact Hnfm|]. split; [intros k' g' Hre Hov; eapply asplit_ok_complete; eassumption|].
      split; [exact Hlw|]. split; [exact Hlr|].
      exists r, ls. split; [exact Hrun|]. split; [exact Hwp|]. split; [exact Hl|]. split; [exact Heq|]. split.
      * intros k' g' Hin Hne. destruct (leaves_equiv_in ls lm (Leaf k' g') Heq Hin) as [lf [Hlf He]].
        { destruct g'; [congruence|reflexivity]. }
        inversion He as [k0 g0 g1 HP| |]; subst. exists g0. split; [exact Hlf|]. split; [exact HP|].
        rewrite Forall_forall in Hlw, Hlr. apply (leaf_eq_solved a R2 Ha HR2 k' g0 g' HP (Hlw _ Hin) (Hlr _ Hin)).
      * apply (leaves_equiv_solved a R2 Ha HR2 ls lm Heq Hlw Hlr).
    + split; [exact Hres|]. eapply asplit_raise_sound. exact Em.
Qed.
End OneTheorem.

(* ================= the heap the recursive subnet linkers leave when they raise ================= *)
(* subnet_linker_recursive / _nonrecursive: `for _s in source_set: _s.forward_cands.append((None, search_range))`
   before SubnetLinker raises SubnetOversizeException.  c stands for search_range**2 in the units of the candidate
   costs.  This heap satisfies the two hypotheses on slh of C12_generated_is_model as soon as the null candidate is
   beyond the NEXT range, which it is for adaptive_step < 1. *)
Definition add_null (c : Z) (ss : list nat) (h : heap) : heap :=
  mk_heap (fold_left (fun f s => fc_set s (fc_get s f ++ [(None, c)]) f) ss (h_fc h)) (h_sn h).

Lemma add_null_cut (le : cand -> bool) c : le (None, c) = false -> forall ss h s,
  take_le le (fc_get s (h_fc (add_null c ss h))) = take_le le (fc_get s (h_fc h)).
Proof.
  intros Hle ss h s. unfold add_null. cbn [h_fc]. generalize (h_fc h) as fc.
  induction ss as [|x ss IH]; intros fc; cbn [fold_left]; [reflexivity|].
  rewrite IH. destruct (Nat.eq_dec s x) as [E|E].
  - subst x. rewrite fc_get_set_eq. apply take_le_app_beyond. exact Hle.
  - rewrite fc_get_set_ne by exact E. reflexivity.
Qed.

Lemma add_null_frame c ss h : same_fc_outside ss h (add_null c ss h).
Proof.
  unfold same_fc_outside, add_null. cbn [h_fc]. generalize (h_fc h) as fc.
  induction ss as [|x ss IH]; intros fc s Hn; cbn [fold_left]; [reflexivity|].
  rewrite IH by (intros H; apply Hn; right; exact H).
  apply fc_get_set_ne. intros E. apply Hn. left. auto.
Qed.

(* the square of the range in force at level k is beyond the range of level k+1 *)
Lemma null_beyond a R2 k c : (0 < a_p a)%Z -> (a_p a < a_q a)%Z -> (0 < R2)%Z ->
  (c * den a k = R2 * num a k)%Z -> le_lvl a R2 (S k) (None, c) = false.
Proof.
  intros Hp Hq HR Hc. unfold le_lvl. cbn [snd]. apply Z.leb_gt.
  assert (Ed : den a (S k) = (den a k * (a_q a * a_q a))%Z).
  { unfold den. rewrite Nat2Z.inj_succ. replace (2 * Z.succ (Z.of_nat k))%Z with (2 * Z.of_nat k + 2)%Z by lia.
    rewrite Z.pow_add_r by lia. rewrite Z.pow_2_r. reflexivity. }
  assert (En : num a (S k) = (num a k * (a_p a * a_p a))%Z).
  { unfold num. rewrite Nat2Z.inj_succ. replace (2 * Z.succ (Z.of_nat k))%Z with (2 * Z.of_nat k + 2)%Z by lia.
    rewrite Z.pow_add_r by lia. rewrite Z.pow_2_r. reflexivity. }
  rewrite Ed, En.
  assert (Hn : (0 < num a k)%Z) by (apply pow_pos_z; exact Hp).
  replace (c * (den a k * (a_q a * a_q a)))%Z with ((c * den a k) * (a_q a * a_q a))%Z by ring. rewrite Hc.
  assert (H1 : (0 < R2 * num a k)%Z) by nia.
  replace (R2 * (num a k * (a_p a * a_p a)))%Z with ((R2 * num a k) * (a_p a * a_p a))%Z by ring.
  apply Z.mul_lt_mono_pos_l; [exact H1|nia].
Qed.

(* C12_generated_is_model for a subnet linker that leaves that heap when it raises: the two hypotheses on slh are
   discharged; nullc k is the square of the range of level k (exactly: nullc k * q^2k = R2 * p^2k) *)
Section NullHeap.
Variable a : acfg.
Variable R2 : Z.
Variable nullc : nat -> Z.
Hypothesis Hp : (0 < a_p a)%Z.
Hypothesis Hpq : (a_p a < a_q a)%Z.
Hypothesis HR : (0 < R2)%Z.
Hypothesis nullc_sq : forall k, (nullc k * den a k = R2 * num a k)%Z.

Theorem add_null_slh_cut : forall k h ss s, In s ss ->
  take_le (le_lvl a R2 (S k)) (fc_get s (h_fc (add_null (nullc k) ss h))) = take_le (le_lvl a R2 (S k)) (fc_get s (h_fc h)).
Proof. intros k h ss s _. apply add_null_cut. apply null_beyond; auto. Qed.

Theorem add_null_slh_frame : forall k h ss, same_fc_outside ss h (add_null (nullc k) ss h).
Proof. intros k h ss. apply add_null_frame. Qed.
End NullHeap.
