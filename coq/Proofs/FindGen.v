(* Route T for C06: the functions generated from the current trackpy/find.py
   (Gen/find.v, vocabulary Model/PyFind.v) equal the hand-written model
   (Model/Dilation.v) the C06 theorems are stated about, for all inputs; the
   headline theorems are carried over to the generated functions. *)
From Coq Require Import ZArith QArith Qround List Bool Arith Lia.
From TP Require Import Model.Dilation Model.PyFind Proofs.Dilation.
From TP Require Gen.find.
Import ListNotations.
Open Scope Z_scope.

(* ============================================================ vocabulary *)
Lemma existsb_id_map : forall {A} (f : A -> bool) l, np_any (map f l) = existsb f l.
Proof. induction l; cbn; [reflexivity | rewrite <- IHl; reflexivity]. Qed.

Lemma py_len_nil_iff : forall {A} (l : list A), (py_len l =? 0) = match l with [] => true | _ => false end.
Proof. destruct l; reflexivity. Qed.

Lemma mask_select_cons_true : forall {A} m (x : A) l, mask_select (true :: m) (x :: l) = x :: mask_select m l.
Proof. reflexivity. Qed.
Lemma mask_select_cons_false : forall {A} m (x : A) l, mask_select (false :: m) (x :: l) = mask_select m l.
Proof. reflexivity. Qed.

Lemma mask_assign_noop : forall {A} (t : list A) m v, np_any m = false -> np_mask_assign t m v = t.
Proof.
  induction t as [|x t IH]; intros m v H; [destruct m; reflexivity|].
  destruct m as [|b m]; [reflexivity|].
  cbn in H. destruct b; [discriminate|]. cbn. f_equal. apply IH, H.
Qed.

(* int(x) on a non-negative rational is its floor *)
Lemma py_int_floor : forall q, (0 <= q)%Q -> py_int q = Qfloor q.
Proof.
  intros [n d] H. unfold py_int, Qfloor. cbn.
  unfold Qle in H. cbn in H.
  apply Z.quot_div_nonneg; lia.
Qed.

(* the generated default margin int(s / 2) *)
Lemma gen_margin_default : forall s, (0 <= s)%Q ->
  py_int (Qdiv s (2 # 1)) = Qfloor (s / 2).
Proof.
  intros s H. apply py_int_floor.
  apply Qle_shift_div_l; [reflexivity|]. rewrite Qmult_0_l. exact H.
Qed.

(* the generated box size int(2 * s / np.sqrt(ndim)) *)
Lemma gen_box_size : forall ndim s, (0 <= s)%Q ->
  int_div_sqrt (Qmult (2 # 1) s) ndim = box_size ndim s.
Proof.
  intros ndim [n d] H. unfold int_div_sqrt, box_size. cbn [Qmult Qnum Qden].
  unfold Qle in H. cbn in H.
  replace (2 * n <? 0) with false by (symmetry; apply Z.ltb_ge; lia).
  replace (Z.pos (1 * d)) with (Z.pos d) by reflexivity.
  replace (2 * n * (2 * n)) with (4 * (n * n)) by ring.
  reflexivity.
Qed.

(* what the primitive is: for e >= 0, k = int_div_sqrt e n is the integer with
   k sqrt(n) <= e < (k+1) sqrt(n) *)
Lemma int_div_sqrt_spec : forall e n, 0 < n -> (0 <= e)%Q ->
  let k := int_div_sqrt e n in
  0 <= k /\
  k * k * n * (QDen e * QDen e) <= Qnum e * Qnum e < (k + 1) * (k + 1) * n * (QDen e * QDen e).
Proof.
  intros [a d] n Hn He. unfold int_div_sqrt. cbn [Qnum Qden].
  unfold Qle in He. cbn in He.
  replace (a <? 0) with false by (symmetry; apply Z.ltb_ge; lia).
  cbv zeta.
  set (D := n * (Z.pos d * Z.pos d)).
  assert (HD : 0 < D) by (unfold D; nia).
  set (x := a * a / D).
  assert (Hx : 0 <= x) by (apply Z.div_pos; nia).
  pose proof (Z.sqrt_spec x Hx) as Hs. cbv zeta in Hs.
  pose proof (Z.sqrt_nonneg x) as Hk.
  set (k := Z.sqrt x) in *.
  pose proof (Z.mul_div_le (a * a) D HD) as H1.
  pose proof (Z.mul_succ_div_gt (a * a) D HD) as H2.
  fold x in H1, H2.
  split; [exact Hk|]. unfold D in *. split; nia.
Qed.

(* the near-edge test of one row *)
Lemma gen_near_edge_row : forall p sh m,
  np_any (zip_with orb (vec_ltZ p m) (vec_gtZ p (vec_sub_scalar (vec_sub sh m) 1))) = near_edge sh m p.
Proof.
  induction p as [|i p IH]; intros sh m; [destruct sh, m; reflexivity|].
  destruct m as [|m0 m]; [destruct sh; reflexivity|].
  destruct sh as [|n sh]; [reflexivity|].
  cbn. rewrite <- IH. reflexivity.
Qed.

Lemma gen_near_edge : forall pos sh m,
  np_any_rows (mat_or (rows_lt pos m) (rows_gt pos (vec_sub_scalar (vec_sub sh m) 1))) =
  map (near_edge sh m) pos.
Proof.
  induction pos as [|p pos IH]; intros; [reflexivity|].
  cbn. f_equal; [apply gen_near_edge_row | apply IH].
Qed.

(* the maxima mask *)
Lemma gen_maxima : forall im sizes t,
  np_argwhere (np_and (np_eq (nd im) (ndimage_grey_dilation_constant im sizes)) (np_gt (nd im) (Some t))) =
  local_maxima im sizes t.
Proof.
  intros. unfold np_argwhere, local_maxima. cbn.
  apply filter_ext. intros p. unfold is_maximum, pix.
  destruct (gt_thr t (get (data im) p)); [apply andb_true_r | apply andb_false_r].
Qed.

(* ================================================= percentile_threshold *)
Theorem gen_percentile_threshold_eq : forall npp im perc,
  Gen.find.percentile_threshold npp im perc =
  match not_black im with [] => None | l => Some (npp l perc) end.
Proof.
  intros. unfold Gen.find.percentile_threshold.
  change (np_nonzero_values (nd im)) with (not_black im).
  rewrite py_len_nil_iff. destruct (not_black im); reflexivity.
Qed.

(* ========================================================== where_close *)
Lemma gen_to_drop_none : forall rs d,
  np_where3 (vec_gtQ (np_sum_rows (np_take_rows rs (map fst d))) (np_sum_rows (np_take_rows rs (map snd d))))
            (map snd d) (map fst d) =
  map (fun ij : nat * nat => if sum_gt rs (fst ij) (snd ij) then snd ij else fst ij) d.
Proof.
  induction d as [|[a b] d IH]; [reflexivity|].
  cbn. f_equal. exact IH.
Qed.

Lemma gen_to_drop_some : forall rs ints d,
  np_mask_assign
    (np_where3 (vec_gtZ (np_take ints (map fst d)) (np_take ints (map snd d))) (map snd d) (map fst d))
    (vec_eqZ (np_take ints (map fst d)) (np_take ints (map snd d)))
    (np_where3
       (vec_gtQ
          (np_sum_rows (np_take_rows rs (mask_select (vec_eqZ (np_take ints (map fst d)) (np_take ints (map snd d))) (map fst d))))
          (np_sum_rows (np_take_rows rs (mask_select (vec_eqZ (np_take ints (map fst d)) (np_take ints (map snd d))) (map snd d)))))
       (mask_select (vec_eqZ (np_take ints (map fst d)) (np_take ints (map snd d))) (map snd d))
       (mask_select (vec_eqZ (np_take ints (map fst d)) (np_take ints (map snd d))) (map fst d))) =
  map (fun ij : nat * nat =>
         if nth (fst ij) ints 0 =? nth (snd ij) ints 0
         then (if sum_gt rs (fst ij) (snd ij) then snd ij else fst ij)
         else (if nth (snd ij) ints 0 <? nth (fst ij) ints 0 then snd ij else fst ij)) d.
Proof.
  induction d as [|[a b] d IH]; [reflexivity|].
  cbn [map fst snd np_take vec_eqZ vec_gtZ zip_with np_where3].
  cbn [map fst snd np_take vec_eqZ vec_gtZ zip_with np_where3] in IH.
  destruct (nth a ints 0 =? nth b ints 0) eqn:E.
  - rewrite !mask_select_cons_true.
    cbn [np_take_rows map np_sum_rows vec_gtQ zip_with np_where3 np_mask_assign].
    f_equal. exact IH.
  - rewrite !mask_select_cons_false.
    cbn [np_mask_assign]. f_equal. exact IH.
Qed.

Theorem gen_where_close_eq : forall {A} (inj : A -> list Q) flag pos sep intensity,
  Gen.find.where_close inj flag pos sep intensity = where_close (map inj pos) sep intensity.
Proof.
  intros. unfold Gen.find.where_close, where_close.
  rewrite py_len_nil_iff. destruct pos as [|p0 pos]; [reflexivity|].
  change (map inj (p0 :: pos)) with (inj p0 :: map inj pos).
  cbv beta iota. unfold validate_tuple.
  rewrite existsb_id_map.
  change (fun s : Q => Qeq_bool s (0 # 1)) with (fun s : Q => Qeq_bool s 0).
  destruct (existsb (fun s : Q => Qeq_bool s 0) sep); [reflexivity|].
  assert (R : (if flag
               then np_div_rows inj (df_values (p0 :: pos)) sep
               else np_div_rows inj (p0 :: pos) sep) =
              map (fun p => rescale_pos p sep) (inj p0 :: map inj pos)).
  { unfold df_values, np_div_rows. destruct flag; cbn [map]; rewrite map_map; reflexivity. }
  cbv zeta. rewrite R. clear R.
  set (rs := map (fun p => rescale_pos p sep) (inj p0 :: map inj pos)).
  unfold ckdtree_query_pairs_lt1. rewrite py_len_nil_iff.
  destruct (query_pairs rs) as [|ij0 d] eqn:D; [reflexivity|].
  set (dd := ij0 :: d).
  destruct intensity as [ints|].
  - unfold np_asarray.
    destruct (np_any (vec_eqZ (np_take ints (map fst dd)) (np_take ints (map snd dd)))) eqn:E.
    + cbv beta iota zeta. rewrite (gen_to_drop_some rs ints dd). reflexivity.
    + cbv beta iota zeta.
      rewrite <- (gen_to_drop_some rs ints dd).
      rewrite (mask_assign_noop _ _ _ E). reflexivity.
  - cbv beta iota zeta. rewrite (gen_to_drop_none rs dd). reflexivity.
Qed.

(* =========================================================== drop_close *)
Theorem gen_drop_close_eq : forall {A} (inj : A -> list Q) flag pos sep intensity,
  Gen.find.drop_close inj flag pos sep intensity = drop_close inj pos sep intensity.
Proof.
  intros. unfold Gen.find.drop_close, drop_close. rewrite gen_where_close_eq. reflexivity.
Qed.

(* ======================================================== grey_dilation *)
Lemma map_ext_Forall : forall {A B} (f g : A -> B) (P : A -> Prop) l,
  Forall P l -> (forall x, P x -> f x = g x) -> map f l = map g l.
Proof. induction 1; intros; cbn; [reflexivity | f_equal; auto]. Qed.

Theorem gen_grey_dilation_eq : forall npp is_float im0 sep perc margin precise,
  Forall (fun s => (0 <= s)%Q) sep ->
  Gen.find.grey_dilation npp is_float im0 sep perc margin precise =
  grey_dilation (fun l => npp l perc) is_float im0 sep margin precise.
Proof.
  intros npp is_float im0 sep perc margin precise Hsep.
  unfold Gen.find.grey_dilation, grey_dilation.
  unfold convert_to_int_uint8, validate_tuple, np_empty_rows.
  set (im := convert_to_int is_float im0).
  cbv zeta.
  rewrite gen_percentile_threshold_eq.
  destruct (not_black im) as [|v0 nb] eqn:NB; [reflexivity|].
  cbn [np_isnan].
  assert (Hm : match margin with
               | Some m => m
               | None => map (fun s : Q => py_int (Qdiv s (2 # 1))) sep
               end =
               match margin with Some m => m | None => default_margin sep end).
  { destruct margin; [reflexivity|]. unfold default_margin.
    apply (map_ext_Forall _ _ _ _ Hsep). intros s Hs. apply gen_margin_default, Hs. }
  rewrite Hm. clear Hm.
  set (mg := match margin with Some m => m | None => default_margin sep end).
  assert (Hs : map (fun s : Q => int_div_sqrt (Qmult (2 # 1) s) (np_ndim im)) sep =
               map (box_size (Z.of_nat (length (shape im)))) sep).
  { apply (map_ext_Forall _ _ _ _ Hsep). intros s Hs. apply gen_box_size, Hs. }
  rewrite Hs. clear Hs.
  set (sizes := map (box_size (Z.of_nat (length (shape im)))) sep).
  set (thr := npp (v0 :: nb) perc).
  unfold np_sum_bool, np_mask_index.
  change (Some thr) with (Some thr : pyfloat).
  rewrite (gen_maxima im sizes thr).
  change (Z.of_nat (length (local_maxima im sizes thr))) with (py_len (local_maxima im sizes thr)).
  rewrite py_len_nil_iff.
  destruct (local_maxima im sizes thr) as [|q0 qs] eqn:LM; [reflexivity|].
  set (pos0 := q0 :: qs).
  unfold np_shape. rewrite gen_near_edge.
  unfold vec_not. rewrite map_map.
  change (nd_at (nd im)) with (pix im).
  set (keep := map (fun x => negb (near_edge (shape im) mg x)) pos0).
  rewrite py_len_nil_iff.
  destruct (mask_select keep pos0) as [|r0 rsel] eqn:MS; [reflexivity|].
  destruct precise; [|reflexivity].
  rewrite gen_drop_close_eq. reflexivity.
Qed.

(* ============================== the C06 theorems, for the generated code *)
Section Carried.
  Variable npp : list Z -> Q -> Q.
  Variable perc : Q.
  Let percentile := fun l => npp l perc.

  Theorem gen_maxima_exact : forall is_float im0 sep margin p,
    let im := convert_to_int is_float im0 in
    let ndim := Z.of_nat (length (shape im)) in
    let sizes := map (box_size ndim) sep in
    let mg := match margin with Some m => m | None => map (fun s => Qfloor (s / 2)) sep end in
    Forall (fun s => (0 <= s)%Q) sep ->
    length sep = length (shape im) -> length mg = length (shape im) ->
    Forall (fun s => 1 <= s) sizes ->
    (In p (Gen.find.grey_dilation npp is_float im0 sep perc margin false) <->
     not_black im <> [] /\
     in_bounds (shape im) p /\
     (npp (not_black im) perc < inject_Z (pix im p))%Q /\
     (forall q, in_box sizes p q -> pix im q <= pix im p) /\
     outside_margin (shape im) mg p).
  Proof.
    intros is_float im0 sep margin p im ndim sizes mg Hs. rewrite gen_grey_dilation_eq by exact Hs.
    exact (maxima_exact percentile is_float im0 sep margin p).
  Qed.

  Theorem gen_maxima_nodup : forall is_float im0 sep margin,
    Forall (fun s => (0 <= s)%Q) sep ->
    NoDup (Gen.find.grey_dilation npp is_float im0 sep perc margin false).
  Proof. intros. rewrite gen_grey_dilation_eq by assumption. apply maxima_nodup. Qed.

  Theorem gen_precise_subset : forall is_float im0 sep margin p,
    Forall (fun s => (0 <= s)%Q) sep ->
    In p (Gen.find.grey_dilation npp is_float im0 sep perc margin true) ->
    In p (Gen.find.grey_dilation npp is_float im0 sep perc margin false).
  Proof. intros until 1. rewrite !gen_grey_dilation_eq by assumption. apply precise_subset. Qed.

  Theorem gen_precise_separated : forall is_float im0 sep margin,
    Forall (fun s => (0 < s)%Q) sep ->
    forall p q,
    In p (Gen.find.grey_dilation npp is_float im0 sep perc margin true) ->
    In q (Gen.find.grey_dilation npp is_float im0 sep perc margin true) ->
    p <> q -> ~ closer_than_sep sep (map inject_Z p) (map inject_Z q).
  Proof.
    intros is_float im0 sep margin Hs.
    assert (H0 : Forall (fun s => (0 <= s)%Q) sep)
      by (eapply Forall_impl; [|exact Hs]; intros; apply Qlt_le_weak; assumption).
    assert (H1 : Forall (fun s => ~ (s == 0)%Q) sep)
      by (eapply Forall_impl; [|exact Hs]; cbv beta; intros a Ha E; rewrite E in Ha; discriminate).
    intros p q. rewrite !gen_grey_dilation_eq by assumption.
    exact (precise_separated percentile is_float im0 sep margin H1 p q).
  Qed.

  Theorem gen_precise_justified : forall is_float im0 sep margin,
    Forall (fun s => (0 < s)%Q) sep ->
    forall p,
    In p (Gen.find.grey_dilation npp is_float im0 sep perc margin false) ->
    ~ In p (Gen.find.grey_dilation npp is_float im0 sep perc margin true) ->
    exists q, In q (Gen.find.grey_dilation npp is_float im0 sep perc margin false) /\ q <> p /\
              closer_than_sep sep (map inject_Z q) (map inject_Z p) /\
              pix (convert_to_int is_float im0) p <= pix (convert_to_int is_float im0) q.
  Proof.
    intros is_float im0 sep margin Hs.
    assert (H0 : Forall (fun s => (0 <= s)%Q) sep)
      by (eapply Forall_impl; [|exact Hs]; intros; apply Qlt_le_weak; assumption).
    assert (H1 : Forall (fun s => ~ (s == 0)%Q) sep)
      by (eapply Forall_impl; [|exact Hs]; cbv beta; intros a Ha E; rewrite E in Ha; discriminate).
    intros p. rewrite !gen_grey_dilation_eq by assumption.
    exact (precise_justified percentile is_float im0 sep margin H1 p).
  Qed.
End Carried.

Theorem gen_where_close_spec :
  forall (flag : bool) (pos : list (list Q)) (sep : list Q) (intensity : option (list Z)),
  Forall (fun s => ~ (s == 0)%Q) sep ->
  forall k,
  In k (Gen.find.where_close (fun p => p) flag pos sep intensity) <->
  (k < length pos)%nat /\
  exists j, (j < length pos)%nat /\ j <> k /\
            closer_than_sep sep (nth j pos []) (nth k pos []) /\
            ((inten_of intensity k < inten_of intensity j) \/
             (inten_of intensity j = inten_of intensity k /\
              ((total (rescale_pos (nth k pos []) sep) < total (rescale_pos (nth j pos []) sep))%Q \/
               ((total (rescale_pos (nth j pos []) sep) == total (rescale_pos (nth k pos []) sep))%Q /\ (k < j)%nat)))).
Proof.
  intros flag pos sep intensity H k. rewrite gen_where_close_eq, map_id.
  exact (where_close_spec pos sep intensity H k).
Qed.

Theorem gen_drop_close_exact : forall (flag : bool) (pos : list (list Q)) sep intensity x,
  In x (Gen.find.drop_close (fun p => p) flag pos sep intensity) <->
  exists i, nth_error pos i = Some x /\ ~ In i (Gen.find.where_close (fun p => p) flag pos sep intensity).
Proof.
  intros. rewrite gen_drop_close_eq.
  assert (E : Gen.find.where_close (fun p => p) flag pos sep intensity = where_close pos sep intensity)
    by (rewrite gen_where_close_eq, map_id; reflexivity).
  rewrite E. apply drop_close_exact.
Qed.
